// C15  Prime and power-of-two helpers agree with number theory and terminate.
// Oracles: sieve of Eratosthenes below 2^22+2^13, deterministic Miller-Rabin (bases 2,7,61) for all 32-bit values,
// bit tricks for nextpow2/ispow2.  Every library call runs in a forked child that publishes its current argument;
// a child that does not finish is a failure naming that argument (termination clause).
#include "kit/vk.h"
#include <dsplib/math.h>

using namespace vk;

namespace {

constexpr uint32_t SIEVE_N = (1u << 22) + (1u << 13);
const std::vector<uint8_t>& sieve() {
    static std::vector<uint8_t> s = [] {
        std::vector<uint8_t> v(SIEVE_N + 1, 1);
        v[0] = v[1] = 0;
        for (uint32_t i = 2; uint64_t(i) * i <= SIEVE_N; ++i)
            if (v[i]) for (uint32_t j = i * i; j <= SIEVE_N; j += i) v[j] = 0;
        return v;
    }();
    return s;
}
uint64_t powmod(uint64_t a, uint64_t e, uint64_t m) {
    uint64_t r = 1;
    a %= m;
    while (e) { if (e & 1) r = r * a % m; a = a * a % m; e >>= 1; }
    return r;
}
bool mr32(uint32_t n) {
    if (n < 2) return false;
    for (uint32_t p : {2u, 3u, 5u, 7u, 11u, 13u, 17u, 19u, 23u, 29u, 31u, 37u, 61u}) { if (n % p == 0) return n == p; }
    uint32_t d = n - 1; int r = 0;
    while ((d & 1) == 0) { d >>= 1; ++r; }
    for (uint64_t a : {2ull, 7ull, 61ull}) {
        uint64_t x = powmod(a, d, n);
        if (x == 1 || x == n - 1) continue;
        bool comp = true;
        for (int i = 1; i < r; ++i) { x = x * x % n; if (x == n - 1) { comp = false; break; } }
        if (comp) return false;
    }
    return true;
}
bool ref_isprime(uint32_t n) { return n <= SIEVE_N ? sieve()[n] != 0 : mr32(n); }
constexpr uint32_t LAST_PRIME32 = 4294967291u;
uint32_t ref_nextprime(uint32_t n) {   // n <= LAST_PRIME32
    uint32_t c = n < 2 ? 2 : n;
    while (!ref_isprime(c)) ++c;
    return c;
}

enum Fn { F_ISPRIME = 1, F_FACTOR = 2, F_NEXTPRIME = 3, F_PRIMES = 4 };

// what=bitmask of functions to exercise
void check_value(uint32_t n, int what, Out& o, const Progress& pg) {
    const bool p = ref_isprime(n);
    if (what & 1) {
        pg.set(int64_t(n) * 8 + F_ISPRIME);
        bool got = dsplib::isprime(n);
        if (got != p) o.fail("isprime:value", fmt("isprime(%u)=%d, reference %d", n, int(got), int(p)));
    }
    if (what & 2) {
        pg.set(int64_t(n) * 8 + F_FACTOR);
        dsplib::arr_int f = dsplib::factor(n);
        if (n < 2) {
            if (f.size() != 1 || uint32_t(f[0]) != n) o.fail("factor:small", fmt("factor(%u) is not [%u]", n, n));
        } else if (!(p && n >= (1u << 31))) {   // answer representable in arr_int
            uint64_t prod = 1;
            bool ok = f.size() >= 1;
            for (int i = 0; i < f.size() && ok; ++i) {
                if (f[i] < 2 || !ref_isprime(uint32_t(f[i]))) ok = false;
                if (i > 0 && f[i] < f[i - 1]) ok = false;
                prod *= uint64_t(uint32_t(f[i]));
                if (prod > 0xFFFFFFFFull) ok = false;
            }
            if (!ok || prod != n) {
                std::string l;
                for (int i = 0; i < f.size() && i < 40; ++i) l += fmt("%d ", f[i]);
                o.fail("factor:value", fmt("factor(%u) = [%s] is not the ordered prime factorisation", n, l.c_str()));
            }
        }
    }
    if ((what & 4) && n <= LAST_PRIME32) {
        pg.set(int64_t(n) * 8 + F_NEXTPRIME);
        uint32_t got = dsplib::nextprime(n);
        uint32_t ref = ref_nextprime(n);
        if (got != ref) o.fail("nextprime:value", fmt("nextprime(%u)=%u, reference %u", n, got, ref));
    }
    if ((what & 8) && n <= SIEVE_N) {
        pg.set(int64_t(n) * 8 + F_PRIMES);
        dsplib::arr_int pr = dsplib::primes(n);
        int k = 0;
        bool ok = true;
        for (uint32_t q = 2; q <= n && ok; ++q) {
            if (!sieve()[q]) continue;
            if (k >= pr.size() || uint32_t(pr[k]) != q) ok = false;
            ++k;
        }
        if (!ok || k != pr.size()) o.fail("primes:value", fmt("primes(%u) differs from the sieve (size %d, reference %d)", n, pr.size(), k));
    }
    o.evals += 1;
    if (n > 251) o.nontrivial(key_of(1, n));
}

const char* fn_name(int f) {
    switch (f) { case F_ISPRIME: return "isprime"; case F_FACTOR: return "factor"; case F_NEXTPRIME: return "nextprime"; case F_PRIMES: return "primes"; }
    return "?";
}

// case: {lo, hi, what, [primes_at]}  -- inclusive range of arguments
void range_check(const Json& c, Out& o) {
    const int64_t lo = c.at("lo").integer(), hi = c.at("hi").integer();
    const int what = c.geti("what", 7);
    const double budget = 20.0 + 0.002 * double(hi - lo + 1);   // legit: microseconds per call
    Progress pg;
    o.evals = 0;
    run_forked(o, budget, [&](Out& co) {
        co.evals = 0;
        for (int64_t n = lo; n <= hi && !co.failed; ++n) check_value(uint32_t(n), what & 7, co, pg);
        if ((what & 8) && !co.failed) check_value(uint32_t(hi), 8, co, pg);
        if (co.keys.size() > 64) {   // a range contributes its distinct non-trivial arguments as a count of keys
            // keep every key: distinct_nontrivial is the number of distinct arguments > 251
        }
    }, &pg);
    if (o.failed && o.sig == "hang") {
        int64_t v = pg.get();
        o.sig = std::string(fn_name(int(v & 7))) + ":hang";
        o.msg = fmt("%s(%lld) did not return within %.0f s", fn_name(int(v & 7)), (long long)(v >> 3), budget);
        o.extra = Json::object().set("n", v >> 3).set("fn", int(v & 7));
    } else if (o.failed) {
        int64_t v = pg.get();
        o.extra = Json::object().set("n", v >> 3).set("fn", int(v & 7));
    }
    o.label(hi <= 251 ? "table" : hi <= (1 << 16) ? "<=2^16" : hi <= (1 << 22) ? "<=2^22" : hi < (1ll << 31) ? "<2^31" : ">=2^31");
}

void eval_range(Ctx& ctx, int64_t lo, int64_t hi, int what) {
    Json c = Json::object().set("lo", lo).set("hi", hi).set("what", what);
    if (!ctx.eval(c)) {
        // minimise: the child told us which argument it was working on
        auto& f = ctx.st->fails;
        for (auto& fl : f) {
            if (fl.extra.kind == Json::Obj && fl.extra.has("n") && fl.c.at("lo").integer() != fl.c.at("hi").integer()) {
                int64_t n = fl.extra.at("n").integer();
                int fn = fl.extra.geti("fn");
                ctx.eval(Json::object().set("lo", n).set("hi", n).set("what", fn == F_PRIMES ? 8 : (1 << (fn - 1))));
            }
        }
    }
}

}   // namespace

// ------------------------------------------------------------------------------------------- exhaustive low range
VK_SUB(low, "exhaustive_low");
static void low_check(const Json& c, Out& o) { range_check(c, o); }
static void low_gen(Ctx& ctx) {
    const int64_t top = ctx.quick() ? (1 << 20) : (1 << 22);
    const int64_t step = 4096;
    for (int64_t lo = 0; lo <= top; lo += step) {
        if (!ctx.mine()) continue;
        eval_range(ctx, lo, std::min(lo + step - 1, top), 7 | 8);
    }
    if (ctx.quick()) {   // 64 seed-chosen windows between 2^20 and 2^22
        Rng r(mix(ctx.seed, 0xC15));
        for (int k = 0; k < 64; ++k) {
            int64_t lo = r.range(1 << 20, (1 << 22) - 4096);
            if (!ctx.mine()) continue;
            eval_range(ctx, lo, lo + 4095, 7 | 8);
        }
    }
}

// ------------------------------------------------------------------------------------------- windows around limits
VK_SUB(win, "boundary_windows");
static void win_check(const Json& c, Out& o) { range_check(c, o); }
static void win_gen(Ctx& ctx) {
    const int64_t centres[] = {1ll << 16, 1ll << 24, 1ll << 31, 65521ll * 65521ll, 1ll << 32, 65537ll * 65519ll, 46337ll * 46337ll, 46349ll * 46349ll};
    const int64_t half = 4096, step = 256;
    for (int64_t cen : centres) {
        for (int64_t lo = cen - half; lo < cen + half; lo += step) {
            int64_t hi = std::min<int64_t>(lo + step - 1, 0xFFFFFFFFll);
            if (lo > 0xFFFFFFFFll) break;
            if (!ctx.mine()) continue;
            eval_range(ctx, lo, hi, 7);
        }
    }
    // nextprime's loop length is the prime gap: the primes that open a maximal gap (record gaps, largest below 2^32: 336) and a few
    // arguments inside each of those gaps; the oracle stays Miller-Rabin, so a wrong entry in this list costs nothing
    const int64_t gap_openers[] = {113, 523, 887, 1129, 1327, 9551, 15683, 19609, 31397, 155921, 360653, 370261, 492113, 1349533, 1357201, 2010733, 4652353, 17051707, 20831323,
                                   47326693, 122164747, 189695659, 191912783, 387096133, 436273009, 1294268491, 1453168141, 2300942549ll, 3842610773ll, 4275912661ll};
    for (int64_t p0 : gap_openers)
        for (int64_t lo : {p0 - 4, p0 + 1, p0 + 160, p0 + 320}) {
            if (!ctx.mine()) continue;
            eval_range(ctx, lo, std::min<int64_t>(lo + 23, 0xFFFFFFFFll), 7);
        }
}

// ------------------------------------------------------------------------------------------- random 32-bit values
VK_SUB(rnd, "random32");
static void rnd_check(const Json& c, Out& o) {
    Json r = Json::object().set("lo", c.at("n")).set("hi", c.at("n")).set("what", 7);
    range_check(r, o);
    o.label("class:" + c.gets("cls", "?"));
}
static void rnd_gen(Ctx& ctx) {
    // primes near 2^16 for squares / semiprimes
    static std::vector<uint32_t> near16;
    if (near16.empty()) for (uint32_t q = 60000; q < 66000; ++q) if (ref_isprime(q)) near16.push_back(q);
    ctx.rc("values", ctx.by_tier(40000, 1000000), [&]() {
        int cls = pick(0, 5);
        uint64_t n = 0;
        const char* name = "";
        switch (cls) {
        case 0: name = "uniform32"; n = uint64_t(pick64(0, 0xFFFFFFFFll)); break;
        case 1: name = "log-uniform"; n = uint64_t(pick64(0, (1ll << pick(1, 32)) - 1)); break;
        case 2: { name = "p*q near 2^16"; uint64_t p = one_of(near16), q = one_of(near16); n = p * q; if (n > 0xFFFFFFFFull) n = p * 65521ull > 0xFFFFFFFFull ? p : p * 65521ull; break; }
        case 3: { name = "prime square"; uint64_t p = one_of(near16); n = p * p; if (n > 0xFFFFFFFFull) n = 65521ull * 65521ull; break; }
        case 4: { name = "top of range"; n = uint64_t(pick64(0xFFFFFFFFll - 100000, 0xFFFFFFFFll)); break; }
        default: { name = "smooth"; n = 1; for (int k = pick(1, 12); k > 0; --k) { uint64_t f = one_of<int>({2, 2, 2, 3, 3, 5, 7, 11, 13, 251, 257}); if (n * f <= 0xFFFFFFFFull) n *= f; } }
        }
        return Json::object().set("n", (long long)n).set("cls", name);
    });
}

// ------------------------------------------------------------------------------------------- primes(n) beyond the sieve table
// primes(n) for n above 2^22 (the ranges above stop there): the complete list is compared with an odd-only bit sieve built in
// the child: count, every element.  Quick: six arguments up to 2^24; thorough: up to 2^26.
VK_SUB(plarge, "primes_large");
static void plarge_check(const Json& c, Out& o) {
    const uint32_t n = uint32_t(c.at("n").integer());
    Progress pg;
    o.evals = 0;
    run_forked(o, 60.0 + 4e-6 * double(n), [&](Out& co) {
        std::vector<bool> comp((size_t(n) >> 1) + 1, false);   // index i <-> odd number 2i+1
        for (uint64_t i = 1; (2 * i + 1) * (2 * i + 1) <= n; ++i)
            if (!comp[size_t(i)]) for (uint64_t j = ((2 * i + 1) * (2 * i + 1)) >> 1; j <= (uint64_t(n) - 1) / 2; j += 2 * i + 1) comp[size_t(j)] = true;
        pg.set(int64_t(n) * 8 + F_PRIMES);
        dsplib::arr_int pr = dsplib::primes(n);
        long k = 0;
        bool ok = true;
        uint32_t bad = 0;
        auto expect = [&](uint32_t q) { if (ok && (k >= pr.size() || uint32_t(pr[int(k)]) != q)) { ok = false; bad = q; } ++k; };
        if (n >= 2) expect(2);
        for (uint64_t i = 1; 2 * i + 1 <= n; ++i) if (!comp[size_t(i)]) expect(uint32_t(2 * i + 1));
        if (!ok || k != pr.size()) co.fail("primes:value", fmt("primes(%u): %d values, the sieve has %ld; first disagreement at prime %u", n, pr.size(), k, bad));
        co.evals = k;
    }, &pg);
    if (o.failed && o.sig == "hang") { o.sig = "primes:hang"; o.msg = fmt("primes(%u) did not return", n); }
    o.nontrivial(key_of(7, n));
    o.label(n <= (1u << 23) ? "n:<=2^23" : n <= (1u << 24) ? "n:<=2^24" : "n:<=2^26");
}
static void plarge_gen(Ctx& ctx) {
    std::vector<int64_t> ns = {(1ll << 22) + (1ll << 13) + 1, (1ll << 23) - 3, (1ll << 24) + 1};
    Rng r(mix(ctx.seed, 0x9A1));
    for (int k = 0; k < 3; ++k) ns.push_back(r.range(1 << 22, 1 << 24));
    if (ctx.thorough()) { ns.push_back(1ll << 25); ns.push_back((1ll << 26) - 1); for (int k = 0; k < 6; ++k) ns.push_back(r.range(1 << 24, 1 << 26)); }
    for (int64_t n : ns) { if (!ctx.mine()) continue; ctx.eval(Json::object().set("n", (long long)n)); }
}

// ------------------------------------------------------------------------------------------- primes(n) at the edges of "not exceeding"
// "primes(n) lists exactly the primes not exceeding n": the inclusive bound matters when n is itself prime, one below / above a
// prime, or a prime square (the last number a sieve has to cross out).  Every such n up to 5000, sampled ones up to 2^20.
VK_SUB(pedge, "primes_edges");
static void pedge_check(const Json& c, Out& o) {
    Json r = Json::object().set("lo", c.at("n")).set("hi", c.at("n")).set("what", 8);
    range_check(r, o);
    o.label("edge:" + c.gets("edge", "?"));
}
static void pedge_gen(Ctx& ctx) {
    (void)sieve();
    auto ev = [&](int64_t n, const char* e) { if (n < 0 || n > (1 << 20)) return; if (!ctx.mine()) return; ctx.eval(Json::object().set("n", (long long)n).set("edge", e)); };
    for (int n = 0; n <= 5000; ++n) ev(n, sieve()[size_t(n)] ? "n prime" : "n composite (every n <= 5000)");
    Rng r(mix(ctx.seed, 0xED6E));
    const int samples = ctx.by_tier(400, 4000);
    for (int k = 0; k < samples; ++k) {
        uint32_t q = uint32_t(r.range(5000, 1 << 20));
        while (!sieve()[q]) ++q;
        ev(q, "n prime"); ev(int64_t(q) - 1, "n = prime - 1"); ev(int64_t(q) + 1, "n = prime + 1");
    }
    for (uint32_t q = 3; uint64_t(q) * q <= (1u << 20); ++q) if (sieve()[q]) { ev(int64_t(q) * q, "n = prime^2"); if (ctx.thorough()) { ev(int64_t(q) * q - 1, "n = prime^2 - 1"); ev(int64_t(q) * q + 1, "n = prime^2 + 1"); } }
}

// ------------------------------------------------------------------------------------------- call sequences
// The range checks above call primes() once per child process and the other helpers with ascending arguments.  Here 2..10 calls
// with unrelated arguments (going up AND down) run one after the other in one thread of one child: each answer must be what the
// mathematics says for ITS argument, whatever was asked before (a helper that keeps a table between calls must keep it right).
VK_SUB(seqs, "call_sequences");
static void seqs_check(const Json& c, Out& o) {
    std::vector<std::pair<int, uint32_t>> ops;
    const auto& a = c.at("ops").a;
    for (size_t i = 0; i + 1 < a.size(); i += 2) ops.emplace_back(int(a[i].integer()), uint32_t(a[i + 1].integer()));
    Progress pg;
    o.evals = 0;
    (void)sieve();   // built once in the parent, shared copy-on-write with the children
    run_forked(o, 20.0 + 2.0 * double(ops.size()), [&](Out& co) {
        co.evals = 0;
        int k = 0;
        for (auto& op : ops) {
            const int what = op.first == F_PRIMES ? 8 : (1 << (op.first - 1));
            check_value(op.second, what, co, pg);
            if (co.failed) { co.msg = fmt("[call %d of %zu in one thread] ", k, ops.size()) + co.msg; break; }
            ++k;
        }
    }, &pg);
    if (o.failed && o.sig == "hang") {
        int64_t v = pg.get();
        o.sig = std::string(fn_name(int(v & 7))) + ":hang";
        o.msg = fmt("%s(%lld) did not return (call sequence)", fn_name(int(v & 7)), (long long)(v >> 3));
    }
    int np = 0, down = 0;
    uint32_t last = 0;
    bool havep = false;
    for (auto& op : ops) if (op.first == F_PRIMES) { ++np; if (havep && op.second < last) ++down; last = op.second; havep = true; }
    o.label(np >= 3 && down >= 1 ? "primes():up-and-down" : np >= 2 ? "primes():>=2 calls" : "primes():<2 calls");
    if (ops.size() >= 2) { uint64_t k = 0xC15; for (auto& op : ops) k = mix(k, uint64_t(op.first) << 32 | op.second); o.nontrivial(k); }
}
static void seqs_gen(Ctx& ctx) {
    ctx.rc("sequences", ctx.by_tier(40000, 400000), [&]() {
        std::vector<long long> ops;
        const int len = pick(2, 10);
        const bool primes_heavy = flip();
        for (int i = 0; i < len; ++i) {
            const int fn = primes_heavy && pick(0, 3) != 0 ? int(F_PRIMES) : pick(1, 4);
            long long n;
            if (fn == F_PRIMES) {
                switch (pick(0, 4)) {
                case 0: n = pick(0, 300); break;
                case 1: n = pick(200, 70000); break;
                case 2: n = pick64(0, 1 << pick(1, 20)); break;
                case 3: n = one_of<int>({0, 1, 2, 3, 250, 251, 252, 256, 257, 65521, 65536, 65537, 1000, 100}); break;
                default: n = pick(0, 5000);
                }
            } else {
                switch (pick(0, 3)) {
                case 0: n = pick(0, 70000); break;
                case 1: n = pick64(0, 0xFFFFFFFFll); break;
                case 2: n = pick64(0, (1ll << pick(1, 32)) - 1); break;
                default: { long long q = one_of<int>({251, 257, 65521, 65519, 46337, 46349, 2, 3}); long long r = one_of<int>({251, 257, 65521, 65519, 46337, 46349, 2, 3}); n = q * r <= 0xFFFFFFFFll ? q * r : q; }
                }
                if (fn == F_NEXTPRIME && n > (long long)LAST_PRIME32) n = LAST_PRIME32;
            }
            ops.push_back(fn);
            ops.push_back(n);
        }
        return Json::object().set("ops", ops);
    });
}

// ------------------------------------------------------------------------------------------- nextpow2 / ispow2
VK_SUB(p2, "pow2_ranges");
static void p2_check(const Json& c, Out& o) {
    const int64_t lo = c.at("lo").integer(), hi = c.at("hi").integer();
    o.evals = 0;
    for (int64_t v = lo; v <= hi; ++v) {
        const int m = int(v);
        int ref = 0;
        while ((int64_t(1) << ref) < int64_t(m)) ++ref;   // ceil(log2 m), m >= 1
        const bool refp = (m & (m - 1)) == 0;
        int got = dsplib::nextpow2(m);
        if (got != ref) { o.fail("nextpow2:value", fmt("nextpow2(%d)=%d, reference %d", m, got, ref)); o.extra = Json::object().set("n", v); break; }
        bool gp = dsplib::ispow2(m);
        if (gp != refp) { o.fail("ispow2:value", fmt("ispow2(%d)=%d, reference %d", m, int(gp), int(refp))); o.extra = Json::object().set("n", v); break; }
        ++o.evals;
    }
    o.nontrivial(key_of(2, lo, hi));
    o.label(hi <= (1 << 24) ? "<=2^24" : "<=2^31-1");
}
static void p2_gen(Ctx& ctx) {
    auto ev = [&](int64_t lo, int64_t hi) {
        lo = std::max<int64_t>(lo, 1);
        hi = std::min<int64_t>(hi, 0x7FFFFFFFll);
        if (lo > hi) return;
        Json c = Json::object().set("lo", lo).set("hi", hi);
        if (!ctx.eval(c)) {
            for (auto& fl : ctx.st->fails)
                if (fl.extra.kind == Json::Obj && fl.extra.has("n") && fl.c.at("lo").integer() != fl.c.at("hi").integer()) {
                    int64_t n = fl.extra.at("n").integer();
                    ctx.eval(Json::object().set("lo", n).set("hi", n));
                }
        }
    };
    const int64_t chunk = 1 << 20;
    const int64_t top = ctx.quick() ? (1ll << 24) : 0x7FFFFFFFll;
    for (int64_t lo = 1; lo <= top; lo += chunk) { if (ctx.mine()) ev(lo, lo + chunk - 1); }
    if (ctx.quick()) {
        for (int k = 24; k <= 31; ++k) { if (ctx.mine()) ev((1ll << k) - 4096, (1ll << k) + 4096); }
        Rng r(mix(ctx.seed, 0xF2));
        for (int k = 0; k < 64; ++k) { int64_t lo = int64_t(r.next() % 0x7FF00000ull); if (ctx.mine()) ev(lo, lo + 65535); }
    }
}

VK_MAIN("C15")
