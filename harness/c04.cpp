// C04  Slices select and assign exactly the numpy-designated elements.
// Reference model: Python's range() semantics for x[i1:i2:step] restricted to the property's accepted index domain
// ("pyslice"); arrays are pre-filled with distinct sentinels so that any write outside the designated positions, any
// wrong element and any wrong order is visible.  The same binary is also run under ASan (+ annotated std::vector) so that
// a read or write outside the storage is an error even when it lands on slack memory.
#include "kit/vk.h"
#include <dsplib/array.h>

using namespace vk;
using namespace dsplib;

namespace {

struct Model
{
    bool throws{false};
    std::vector<int> idx;
};

Model pyslice(int n, int i1, int i2, int st) {
    Model m;
    if (n == 0 || st == 0 || i1 < -n || i1 > n - 1 || i2 < -n || i2 > n) { m.throws = true; return m; }
    const int r1 = i1 < 0 ? i1 + n : i1, r2 = i2 < 0 ? i2 + n : i2;
    if ((st > 0 && r1 > r2) || (st < 0 && r1 < r2)) { m.throws = true; return m; }
    if (st > 0) for (int k = r1; k < r2; k += st) m.idx.push_back(k);
    else for (int k = r1; k > r2; k += st) m.idx.push_back(k);
    return m;
}

template<class T> T val(int v);
template<> real_t val<real_t>(int v) { return real_t(v); }
template<> cmplx_t val<cmplx_t>(int v) { return cmplx_t(real_t(v), real_t(-v) - 0.5); }
template<class T> bool same(const T& a, const T& b);
template<> bool same<real_t>(const real_t& a, const real_t& b) { return std::memcmp(&a, &b, sizeof a) == 0; }   // bit-exact (-0 != +0)
template<> bool same<cmplx_t>(const cmplx_t& a, const cmplx_t& b) { return std::memcmp(&a.re, &b.re, sizeof a.re) == 0 && std::memcmp(&a.im, &b.im, sizeof a.im) == 0; }

template<class T>
base_array<T> sentinel(int n, int base = 1000) {
    base_array<T> x(n);
    for (int i = 0; i < n; ++i) x[i] = val<T>(base + i);
    return x;
}
template<class T>
bool equal_arr(const base_array<T>& a, const std::vector<T>& b) {
    if (a.size() != int(b.size())) return false;
    for (int i = 0; i < a.size(); ++i) if (!same(a[i], b[size_t(i)])) return false;
    return true;
}
template<class T>
std::vector<T> vec_of(const base_array<T>& a) { return std::vector<T>(a.begin(), a.end()); }

template<class T>
std::string show(const std::vector<T>& v) {
    std::string s = "[";
    for (size_t i = 0; i < v.size() && i < 14; ++i) {
        if constexpr (std::is_same_v<T, real_t>) s += fmt("%g ", v[i]);
        else s += fmt("%g ", v[i].re);
    }
    return s + (v.size() > 14 ? "...]" : "]");
}

struct Q
{
    int n, i1, i2, st;
    bool cst, use_end;
    bool dflt{false};   // call the 2-argument overload (step defaulted); st is 1 then
    int ext{0};         // 1: also writes through a copy of the slice object and the non-const iterator
    int selfarr{0};     // 1: also x.slice(..) = x (own base array as right-hand side); -1: that case is excluded (see quad_gen)
    std::string str() const {
        if (dflt) return fmt("n=%d slice(%d,%s)%s", n, i1, use_end ? "end" : fmt("%d", i2).c_str(), cst ? " const" : "");
        return fmt("n=%d slice(%d,%s,%d)%s", n, i1, use_end ? "end" : fmt("%d", i2).c_str(), st, cst ? " const" : "");
    }
};

// the slice expression the case denotes: one of the four overload spellings (const / mutable by A)
template<class A>
auto mk(A& x, const Q& q) {
    if (q.dflt) {
        if (q.use_end) return x.slice(q.i1, indexing::end);
        return x.slice(q.i1, q.i2);
    }
    if (q.use_end) return x.slice(q.i1, indexing::end, q.st);
    return x.slice(q.i1, q.i2, q.st);
}

// ---- reads through any slice type
template<class T, class S>
void check_reads(const S& s, const Model& m, const base_array<T>& x, const std::vector<T>& before, const Q& q, Out& o) {
    const int cnt = int(m.idx.size());
    std::vector<T> want;
    for (int k : m.idx) want.push_back(before[size_t(k)]);
    if (s.size() != cnt) { o.fail("slice:size", fmt("%s: size()=%d, model %d", q.str().c_str(), s.size(), cnt)); return; }
    if (s.stride() != q.st) o.fail("slice:stride", fmt("%s: stride()=%d", q.str().c_str(), s.stride()));
    {
        base_array<T> a(s);
        if (!equal_arr(a, want)) o.fail("slice:read-materialise", fmt("%s: array(slice)=%s, model %s", q.str().c_str(), show(vec_of(a)).c_str(), show(want).c_str()));
    }
    {
        base_array<T> b = *s;
        if (!equal_arr(b, want)) o.fail("slice:read-deref", fmt("%s: *slice=%s, model %s", q.str().c_str(), show(vec_of(b)).c_str(), show(want).c_str()));
    }
    {
        std::vector<T> it;
        int guard = 0;
        for (auto p = s.begin(); p != s.end() && guard <= cnt + 2; ++p, ++guard) it.push_back(*p);
        if (it.size() != want.size() || !std::equal(it.begin(), it.end(), want.begin(), same<T>))
            o.fail("slice:read-iterate", fmt("%s: iteration gives %s, model %s", q.str().c_str(), show(it).c_str(), show(want).c_str()));
    }
    {   // a copy of the slice object denotes the same elements
        bool threw = false;
        try {
            S cp(s);
            base_array<T> c(cp);
            if (cp.size() != cnt || cp.stride() != q.st || !equal_arr(c, want))
                o.fail("slice:copy-denotes-other", fmt("%s: copy of the slice denotes %s, model %s", q.str().c_str(), show(vec_of(c)).c_str(), show(want).c_str()));
        } catch (const std::exception& e) { threw = true; o.fail("slice:copy-throws", fmt("%s: copying the slice object threw: %s", q.str().c_str(), e.what())); }
        (void)threw;
    }
    if (!equal_arr(x, before)) o.fail("slice:read-modifies", fmt("%s: reading changed the array", q.str().c_str()));
}

// initializer lists of run-time length (0..12) built from v[0..L)
template<class T, class S>
void assign_list(S&& s, const std::vector<T>& v, int L) {
    switch (L) {
    case 0: s = std::initializer_list<T>{}; break;
    case 1: s = {v[0]}; break;
    case 2: s = {v[0], v[1]}; break;
    case 3: s = {v[0], v[1], v[2]}; break;
    case 4: s = {v[0], v[1], v[2], v[3]}; break;
    case 5: s = {v[0], v[1], v[2], v[3], v[4]}; break;
    case 6: s = {v[0], v[1], v[2], v[3], v[4], v[5]}; break;
    case 7: s = {v[0], v[1], v[2], v[3], v[4], v[5], v[6]}; break;
    case 8: s = {v[0], v[1], v[2], v[3], v[4], v[5], v[6], v[7]}; break;
    case 9: s = {v[0], v[1], v[2], v[3], v[4], v[5], v[6], v[7], v[8]}; break;
    case 10: s = {v[0], v[1], v[2], v[3], v[4], v[5], v[6], v[7], v[8], v[9]}; break;
    case 11: s = {v[0], v[1], v[2], v[3], v[4], v[5], v[6], v[7], v[8], v[9], v[10]}; break;
    default: s = {v[0], v[1], v[2], v[3], v[4], v[5], v[6], v[7], v[8], v[9], v[10], v[11]}; break;
    }
}

// one write through x.slice(q) with right-hand side produced by rhs(slice); compares with the model
template<class T, class F>
void check_write(const Q& q, const Model& m, const char* kind, int L, const std::vector<T>& src, bool scalar, F&& rhs, Out& o, bool via_copy = false) {
    const int cnt = int(m.idx.size());
    base_array<T> x = sentinel<T>(q.n);
    const std::vector<T> before = vec_of(x);
    std::vector<T> want = before;
    const std::string tag = (via_copy ? "copy-" : "") + std::string(kind);   // via_copy: the write goes through a COPY of the slice object
    const bool match = scalar || (L == cnt);
    if (match) for (int k = 0; k < cnt; ++k) want[size_t(m.idx[size_t(k)])] = scalar ? src[0] : src[size_t(k)];
    bool threw = false;
    std::string what;
    try {
        if (via_copy) {
            slice_t<T> cp = [&]() { auto s = mk(x, q); return slice_t<T>(s); }();   // the original is gone when the copy is written through
            rhs(cp);
        } else rhs(mk(x, q));
    } catch (const std::exception& e) { threw = true; what = e.what(); }
    const std::vector<T> after = vec_of(x);
    const bool eq = after.size() == want.size() && std::equal(after.begin(), after.end(), want.begin(), same<T>);
    if (match) {
        const bool empty_to_empty = (cnt == 0 && L == 0 && !scalar && std::string(kind) == "array");   // empty array -> empty slice may be a no-op or may throw
        if (threw && !empty_to_empty) o.fail("slice:write-throws:" + tag, fmt("%s = %s[%d]: threw '%s' although the counts match", q.str().c_str(), tag.c_str(), L, what.c_str()));
        else if (!eq) o.fail("slice:write-wrong:" + tag, fmt("%s = %s[%d]: array is %s, model %s", q.str().c_str(), tag.c_str(), L, show(after).c_str(), show(want).c_str()));
    } else {
        if (!threw) o.fail("slice:mismatch-accepted:" + tag, fmt("%s (count %d) = %s of %d elements did not throw; array is %s", q.str().c_str(), cnt, tag.c_str(), L, show(after).c_str()));
        if (!eq) o.fail("slice:mismatch-writes:" + tag, fmt("%s (count %d) = %s of %d elements modified the array: %s", q.str().c_str(), cnt, tag.c_str(), L, show(after).c_str()));
    }
    o.evals++;
}

// ---- x.slice(..) = x : the right-hand side is the destination slice's own base array
template<class T>
void check_self_array(const Q& q, const Model& m, Out& o) {
    const int cnt = int(m.idx.size());
    base_array<T> x = sentinel<T>(q.n);
    const std::vector<T> before = vec_of(x);
    std::vector<T> want = before;
    const bool match = (cnt == q.n);
    if (match) for (int k = 0; k < cnt; ++k) want[size_t(m.idx[size_t(k)])] = before[size_t(k)];   // source copied first
    bool threw = false;
    std::string what;
    try { mk(x, q) = x; } catch (const std::exception& e) { threw = true; what = e.what(); }
    const std::vector<T> after = vec_of(x);
    const bool eq = after.size() == want.size() && std::equal(after.begin(), after.end(), want.begin(), same<T>);
    if (match) {
        if (threw) o.fail("slice:self-array:equal-count-rejected", fmt("%s = x (the same array, %d elements, counts equal) threw '%s'; copy-first model: no exception, array %s", q.str().c_str(), q.n, what.c_str(), show(want).c_str()));
        else if (!eq) o.fail("slice:self-array:write-wrong", fmt("%s = x (the same array): array is %s, copy-first model %s", q.str().c_str(), show(after).c_str(), show(want).c_str()));
        o.label("self-array:equal-count");
    } else {
        if (!threw) o.fail("slice:self-array:mismatch-accepted", fmt("%s (count %d) = x (the same array, %d elements) did not throw; array is %s", q.str().c_str(), cnt, q.n, show(after).c_str()));
        if (!eq) o.fail("slice:self-array:mismatch-writes", fmt("%s (count %d) = x (the same array, %d elements) modified the array: %s", q.str().c_str(), cnt, q.n, show(after).c_str()));
        o.label("self-array:count-mismatch");
    }
    o.evals++;
}

// ---- the non-const SliceIterator<T> of a mutable slice object: ++, ++(int), --, --(int), ->, ==, != and writing through it
template<class T>
void check_iter_mut(const Q& q, const Model& m, Out& o) {
    const int cnt = int(m.idx.size());
    base_array<T> x = sentinel<T>(q.n);
    const std::vector<T> before = vec_of(x);
    std::vector<T> want;
    for (int k : m.idx) want.push_back(before[size_t(k)]);
    const std::vector<T> rwant(want.rbegin(), want.rend());
    auto s = mk(x, q);   // slice_t<T>, a non-const object: begin()/end() are the non-const overloads
    static_assert(std::is_same_v<decltype(s.begin()), SliceIterator<T>>, "non-const begin() expected");
    static_assert(std::is_same_v<decltype(s.end()), SliceIterator<T>>, "non-const end() expected");
    const T* base = x.data();
    auto eqv = [](const std::vector<T>& a, const std::vector<T>& b) { return a.size() == b.size() && std::equal(a.begin(), a.end(), b.begin(), same<T>); };
    const std::string d = q.str();
    // every loop checks the ADDRESS the iterator designates before it reads or writes through it, so that a wrong iterator is
    // reported here and never makes the harness itself touch memory outside the array
    auto at = [&](const SliceIterator<T>& p, int k) { return k >= 0 && k < cnt && &*p == base + m.idx[size_t(k)]; };
    {   // pre-increment, !=
        std::vector<T> got;
        int k = 0;
        for (auto p = s.begin(); p != s.end(); ++p, ++k) {
            if (!at(p, k)) { o.fail("slice:iter-mut:forward", fmt("%s: non-const iteration: position %d of %d is not the designated element (offset %td)", d.c_str(), k, cnt, &*p - base)); return; }
            got.push_back(*p);
        }
        if (!eqv(got, want)) { o.fail("slice:iter-mut:forward", fmt("%s: non-const iteration gives %s, model %s", d.c_str(), show(got).c_str(), show(want).c_str())); return; }
    }
    {   // post-increment, ==
        std::vector<T> got;
        int k = 0;
        auto p = s.begin();
        const auto e = s.end();
        while (!(p == e)) {
            auto prev = p;
            auto old = p++;
            if (!(old == prev) || old != prev || p == prev) { o.fail("slice:iter-mut:post-increment", fmt("%s: p++ at position %d did not return the previous position / did not advance", d.c_str(), k)); return; }
            if (!at(old, k) || (k + 1 < cnt ? !at(p, k + 1) : !(p == e))) { o.fail("slice:iter-mut:post-increment", fmt("%s: p++ at position %d of %d does not arrive at the next designated element", d.c_str(), k, cnt)); return; }
            got.push_back(*old);
            ++k;
        }
        if (!eqv(got, want)) { o.fail("slice:iter-mut:post-increment", fmt("%s: iteration with p++ / == gives %s, model %s", d.c_str(), show(got).c_str(), show(want).c_str())); return; }
        if ((s.begin() == s.end()) != (cnt == 0) || (s.begin() != s.end()) != (cnt != 0)) {
            o.fail("slice:iter-mut:equality", fmt("%s: begin()==end() is %d for %d elements", d.c_str(), int(s.begin() == s.end()), cnt));
            return;
        }
    }
    {   // pre-decrement from end(): the same elements backwards, arriving at begin()
        std::vector<T> got;
        auto p = s.end();
        for (int k = cnt - 1; k >= 0; --k) {
            --p;
            if (!at(p, k)) { o.fail("slice:iter-mut:decrement", fmt("%s: --p from end(): not at designated element %d of %d (offset %td)", d.c_str(), k, cnt, &*p - base)); return; }
            got.push_back(*p);
        }
        if (!eqv(got, rwant) || !(p == s.begin())) { o.fail("slice:iter-mut:decrement", fmt("%s: --p from end() gives %s, model %s / does not arrive at begin()", d.c_str(), show(got).c_str(), show(rwant).c_str())); return; }
    }
    {   // post-decrement
        std::vector<T> got;
        auto p = s.end();
        for (int k = cnt - 1; k >= 0; --k) {
            auto prev = p;
            auto old = p--;
            if (!(old == prev) || p == prev) { o.fail("slice:iter-mut:post-decrement", fmt("%s: p-- did not return the previous position / did not move", d.c_str())); return; }
            if (!at(p, k)) { o.fail("slice:iter-mut:post-decrement", fmt("%s: p-- from end(): not at designated element %d of %d (offset %td)", d.c_str(), k, cnt, &*p - base)); return; }
            got.push_back(*p);
        }
        if (!eqv(got, rwant) || !(p == s.begin())) { o.fail("slice:iter-mut:post-decrement", fmt("%s: p-- from end() gives %s, model %s / does not arrive at begin()", d.c_str(), show(got).c_str(), show(rwant).c_str())); return; }
    }
    {   // operator->
        int k = 0;
        for (auto p = s.begin(); p != s.end(); ++p, ++k) {
            bool ok = (k < cnt && p.operator->() == base + m.idx[size_t(k)]);
            if constexpr (std::is_same_v<T, cmplx_t>) { if (ok && (!same<real_t>(p->re, want[size_t(k)].re) || !same<real_t>(p->im, want[size_t(k)].im))) ok = false; }
            if (!ok) { o.fail("slice:iter-mut:arrow", fmt("%s: operator-> of the non-const iterator does not give designated element %d", d.c_str(), k)); return; }
        }
    }
    if (!equal_arr(x, before)) { o.fail("slice:iter-mut:read-modifies", fmt("%s: iterating changed the array", d.c_str())); return; }
    {   // writing through *p and through ->  (the positions were verified above)
        std::vector<T> wantarr = before;
        for (int k = 0; k < cnt; ++k) wantarr[size_t(m.idx[size_t(k)])] = val<T>(5000 + k);
        int k = 0;
        for (auto p = s.begin(); p != s.end() && at(p, k); ++p, ++k) *p = val<T>(5000 + k);
        if (!equal_arr(x, wantarr)) { o.fail("slice:iter-mut:write-wrong", fmt("%s: writing through the iterator gives %s, model %s", d.c_str(), show(vec_of(x)).c_str(), show(wantarr).c_str())); return; }
        for (int j = 0; j < cnt; ++j) wantarr[size_t(m.idx[size_t(j)])] = val<T>(6000 + j);
        k = 0;
        for (auto p = s.begin(); p != s.end() && at(p, k); p++, ++k) {
            if constexpr (std::is_same_v<T, cmplx_t>) { p->re = val<T>(6000 + k).re; p->im = val<T>(6000 + k).im; }
            else *(p.operator->()) = val<T>(6000 + k);
        }
        if (!equal_arr(x, wantarr)) { o.fail("slice:iter-mut:write-wrong", fmt("%s: writing through operator-> gives %s, model %s", d.c_str(), show(vec_of(x)).c_str(), show(wantarr).c_str())); return; }
    }
    o.label("iter-mut");
    o.evals++;
}

template<class T>
void quad_case(const Q& q, Out& o) {
    const Model m = pyslice(q.n, q.i1, q.use_end ? q.n : q.i2, q.st);
    base_array<T> x = sentinel<T>(q.n);
    const base_array<T>& cx = x;
    const std::vector<T> before = vec_of(x);
    // ---- construction: throws exactly when the model says so
    bool threw = false;
    std::string what;
    try {
        if (q.cst) {
            auto s = mk(cx, q);
            if (!m.throws) check_reads<T>(s, m, x, before, q, o);
        } else {
            auto s = mk(x, q);
            if (!m.throws) { check_reads<T>(s, m, x, before, q, o); const_slice_t<T> cs(s); check_reads<T>(cs, m, x, before, q, o); }
            if (!m.throws) {
                // the slice read back into the array it was taken from: z = z.slice(...) must leave exactly the designated elements
                base_array<T> z(x);
                z = mk(z, q);
                std::vector<T> want;
                for (int k : m.idx) want.push_back(before[size_t(k)]);
                if (!equal_arr(z, want)) o.fail("slice:read-back-into-own-array", fmt("%s: x = x.slice(...) gives %s, model %s", q.str().c_str(), show(vec_of(z)).c_str(), show(want).c_str()));
                const base_array<T>& cz0 = x;
                base_array<T> z2(x);
                z2 = mk(static_cast<const base_array<T>&>(z2), q);
                if (!equal_arr(z2, want)) o.fail("slice:read-back-into-own-array:const", fmt("%s: x = const x.slice(...) gives %s, model %s", q.str().c_str(), show(vec_of(z2)).c_str(), show(want).c_str()));
                (void)cz0;
            }
        }
    } catch (const std::exception& e) { threw = true; what = e.what(); }
    if (threw != m.throws) {
        o.fail(m.throws ? "slice:invalid-accepted" : "slice:valid-rejected",
               fmt("%s: %s, model says %s", q.str().c_str(), threw ? ("threw '" + what + "'").c_str() : "no exception", m.throws ? "throw" : fmt("%zu elements", m.idx.size()).c_str()));
        return;
    }
    if (!equal_arr(x, before)) o.fail("slice:ctor-modifies", fmt("%s: constructing the slice changed the array", q.str().c_str()));
    if (m.throws) { o.label(q.dflt ? "default-step:invalid" : "invalid"); return; }
    const int cnt = int(m.idx.size());
    o.label(cnt == 0 ? "valid-empty" : cnt == 1 ? "valid-single" : "valid-multi");
    if (q.dflt) o.label(cnt == 0 ? "default-step:valid-empty" : "default-step:valid");
    if (cnt >= 2 || std::abs(q.st) >= 2 || q.i1 < 0 || q.i2 < 0) {
        if (q.dflt) o.nontrivial(key_of(q.n, q.i1, q.use_end ? 99 : q.i2, q.st, int(q.cst), sizeof(T), 77));
        else o.nontrivial(key_of(q.n, q.i1, q.use_end ? 99 : q.i2, q.st, int(q.cst), sizeof(T)));
    }
    if (q.cst) return;

    // ---- writes
    std::vector<T> src;
    for (int k = 0; k < 16; ++k) src.push_back(val<T>(5000 + k));
    check_write<T>(q, m, "scalar", 1, src, true, [&](auto&& s) { s = src[0]; }, o);
    {   // the values a fast path is most likely to special-case: zero and negative zero
        std::vector<T> z0(1, T(0)), zn(1, T(-0.0));
        check_write<T>(q, m, "scalar-zero", 1, z0, true, [&](auto&& s) { s = z0[0]; }, o);
        check_write<T>(q, m, "scalar-negzero", 1, zn, true, [&](auto&& s) { s = zn[0]; }, o);
    }
    for (int L : {cnt - 1, cnt, cnt + 1}) {
        if (L < 0) continue;
        base_array<T> rhs(L);
        for (int k = 0; k < L; ++k) rhs[k] = src[size_t(k)];
        check_write<T>(q, m, "array", L, src, false, [&](auto&& s) { s = rhs; }, o);
        if (L <= 12) check_write<T>(q, m, "list", L, src, false, [&](auto&& s) { assign_list<T>(s, src, L); }, o);
        // slices of another array: unit, strided and reversed sources, mutable and const
        for (int ss : {1, 2, -1, -3}) {
            const int ny = 96;
            base_array<T> y = sentinel<T>(ny, 7000);
            const base_array<T>& cy = y;
            const int a = ss > 0 ? 3 : 3 + (L > 0 ? (L - 1) * (-ss) : 0) ;
            // source denotes y[a], y[a+ss], ... (L elements)
            const int stop = a + L * ss;
            if (a < 0 || a >= ny || stop < -1 || stop > ny) continue;
            std::vector<T> sv;
            for (int k = 0; k < L; ++k) sv.push_back(y[a + k * ss]);   // exclusive stop; may be -1 for reversed sources reaching index 0 -> avoid by a >= 3
            if (L == 0) {
                check_write<T>(q, m, "slice(empty)", 0, sv, false, [&](auto&& s) { s = y.slice(a, a, ss); }, o);
                continue;
            }
            if (stop < 0 || stop > ny) continue;
            check_write<T>(q, m, "slice", L, sv, false, [&](auto&& s) { s = y.slice(a, stop, ss); }, o);
            check_write<T>(q, m, "const-slice", L, sv, false, [&](auto&& s) { s = cy.slice(a, stop, ss); }, o);
            if (q.ext && ss == 2) check_write<T>(q, m, "slice", L, sv, false, [&](auto&& s) { s = y.slice(a, stop, ss); }, o, true);
            if (q.ext && ss == -1) check_write<T>(q, m, "const-slice", L, sv, false, [&](auto&& s) { s = cy.slice(a, stop, ss); }, o, true);
        }
        if (q.ext) {   // the same kinds through a COPY of the slice object
            check_write<T>(q, m, "array", L, src, false, [&](auto&& s) { s = rhs; }, o, true);
            if (L <= 12) check_write<T>(q, m, "list", L, src, false, [&](auto&& s) { assign_list<T>(s, src, L); }, o, true);
        }
    }
    if (q.ext) {
        check_write<T>(q, m, "scalar", 1, src, true, [&](auto&& s) { s = src[0]; }, o, true);
        o.label("copy-write");
        check_iter_mut<T>(q, m, o);
    }
    if (q.selfarr == 1) check_self_array<T>(q, m, o);
    else if (q.selfarr == -1) o.label("excluded:self-array-equal-count");
}

Q decode_q(const Json& c) {
    Q q;
    q.n = c.geti("n"); q.i1 = c.geti("i1"); q.i2 = c.geti("i2", 0); q.st = c.geti("st");
    q.cst = c.geti("const", 0) != 0;
    q.use_end = c.geti("end", 0) != 0;
    q.dflt = c.geti("dflt", 0) != 0 && q.st == 1;   // the 2-argument overloads exist for step 1 only
    q.ext = c.geti("ext", 0);
    q.selfarr = c.geti("selfarr", 0);
    return q;
}

}   // namespace

// ------------------------------------------------------------------------------------------- exhaustive quadruples
VK_SUB(quad, "quadruples_exhaustive");
static void quad_check(const Json& c, Out& o) {
    Q q = decode_q(c);
    o.evals = 0;
    if (c.geti("cx", 0)) quad_case<cmplx_t>(q, o);
    else quad_case<real_t>(q, o);
    if (q.dflt && o.failed) o.sig += ":default-step";   // the same failure classes, reached through the 2-argument overloads
    o.evals = std::max<long>(o.evals, 1);
}
static void quad_gen(Ctx& ctx) {
    for (int n = 0; n <= ctx.by_tier(10, 13); ++n)
        for (int i1 = -n - 3; i1 <= n + 3; ++i1)
            for (int st = -5; st <= 5; ++st)
                for (int cx = 0; cx < 2; ++cx)
                    for (int cst = 0; cst < 2; ++cst)
                        for (int dflt = 0; dflt <= (st == 1 ? 1 : 0); ++dflt) {   // step 1 also through the 2-argument overloads
                            // x.slice(..) = x with equal counts (the slice denotes all n elements) is EXCLUDED: the library rejects it
                            // ("Assigned array to same slice", sig slice:self-array:equal-count-rejected); counted as excluded:...
                            auto selfarr = [&](int) { return 1; };   // equal counts included: the library accepts x.slice(0, n) = x since the fix recorded in known_findings.json
                            for (int i2 = -n - 3; i2 <= n + 3; ++i2) {
                                if (!ctx.mine()) continue;
                                Json c = Json::object().set("n", n).set("i1", i1).set("i2", i2).set("st", st).set("cx", cx).set("const", cst);
                                if (dflt) c.set("dflt", 1);
                                if (!cst) c.set("ext", 1).set("selfarr", selfarr(i2));
                                ctx.eval(c);
                            }
                            if (!ctx.mine()) continue;
                            Json c = Json::object().set("n", n).set("i1", i1).set("st", st).set("cx", cx).set("const", cst).set("end", 1);
                            if (dflt) c.set("dflt", 1);
                            if (!cst) c.set("ext", 1).set("selfarr", selfarr(n));
                            ctx.eval(c);
                        }
}

// ------------------------------------------------------------------------------------------- aliasing pairs on one array
namespace {
template<class T>
void alias_case(int n, const std::vector<int>& d, const std::vector<int>& s, bool src_const, bool mismatch, Out& o) {
    const Model md = pyslice(n, d[0], d[1], d[2]), ms = pyslice(n, s[0], s[1], s[2]);
    if (md.throws || ms.throws || ((md.idx.size() != ms.idx.size()) != mismatch)) { o.discard = true; return; }
    base_array<T> x = sentinel<T>(n);
    const base_array<T>& cx = x;
    const std::vector<T> before = vec_of(x);
    std::vector<T> want = before;
    if (mismatch) {   // different counts on ONE array: must throw and leave the array bit-identical
        bool threw = false;
        try {
            if (src_const) x.slice(d[0], d[1], d[2]) = cx.slice(s[0], s[1], s[2]);
            else x.slice(d[0], d[1], d[2]) = x.slice(s[0], s[1], s[2]);
        } catch (const std::exception&) { threw = true; }
        const std::vector<T> after = vec_of(x);
        const std::string desc = fmt("n=%d x.slice(%d,%d,%d) [%zu elements] = %sx.slice(%d,%d,%d) [%zu elements]", n, d[0], d[1], d[2], md.idx.size(), src_const ? "const " : "", s[0], s[1], s[2], ms.idx.size());
        if (!threw) o.fail("alias:mismatch-accepted", desc + " did not throw; array is " + show(after));
        if (!std::equal(after.begin(), after.end(), want.begin(), same<T>)) o.fail("alias:mismatch-writes", desc + " modified the array: " + show(after) + ", was " + show(before));
        bool ov = false;
        for (int a : md.idx) for (int b : ms.idx) ov |= (a == b);
        o.label(md.idx.size() < ms.idx.size() ? "count-mismatch:source-longer" : "count-mismatch:source-shorter");
        o.label(ov ? "count-mismatch:overlapping" : "count-mismatch:disjoint");
        if (md.idx.empty() || ms.idx.empty()) o.label("count-mismatch:one-side-empty");
        o.nontrivial(key_of(n, d[0], d[1], d[2], s[0], s[1], s[2], int(src_const), sizeof(T), 1));
        return;
    }
    for (size_t k = 0; k < md.idx.size(); ++k) want[size_t(md.idx[k])] = before[size_t(ms.idx[k])];   // source copied first
    bool threw = false;
    std::string what;
    try {
        if (src_const) x.slice(d[0], d[1], d[2]) = cx.slice(s[0], s[1], s[2]);
        else x.slice(d[0], d[1], d[2]) = x.slice(s[0], s[1], s[2]);
    } catch (const std::exception& e) { threw = true; what = e.what(); }
    const std::vector<T> after = vec_of(x);
    const std::string desc = fmt("n=%d x.slice(%d,%d,%d) = %sx.slice(%d,%d,%d)", n, d[0], d[1], d[2], src_const ? "const " : "", s[0], s[1], s[2]);
    if (threw) o.fail("alias:throws", desc + " threw '" + what + "'");
    else if (!std::equal(after.begin(), after.end(), want.begin(), same<T>)) {
        const bool unit = std::abs(d[2]) == 1 && std::abs(s[2]) == 1 && d[2] == 1 && s[2] == 1;
        o.fail(unit ? "alias:unit-stride-overlap" : "alias:strided-overlap", desc + ": array is " + show(after) + ", copy-first model " + show(want));
    }
    bool overlap = false;
    for (int a : md.idx) for (int b : ms.idx) overlap |= (a == b);
    o.label(overlap ? "overlapping" : "disjoint");
    o.nontrivial(key_of(n, d[0], d[1], d[2], s[0], s[1], s[2], int(src_const), sizeof(T)));
}
}   // namespace
VK_SUB(alias, "alias_pairs");
static void alias_check(const Json& c, Out& o) {
    auto d = c.ints("d"), s = c.ints("s");
    const bool mm = c.geti("mm", 0) != 0;   // 1: a pair of DIFFERENT counts (must be rejected); absent/0: equal counts (unequal ones are discarded)
    if (c.geti("cx", 0)) alias_case<cmplx_t>(c.geti("n"), d, s, c.geti("sc", 0) != 0, mm, o);
    else alias_case<real_t>(c.geti("n"), d, s, c.geti("sc", 0) != 0, mm, o);
}
static void alias_gen(Ctx& ctx) {
    const int nmax = 8;
    Rng r(mix(ctx.seed, 0xA11A5));
    Rng r2(mix(ctx.seed, 0xA11A6));   // sampling of the count-mismatch pairs (own stream: the equal-count selection stays as it was)
    for (int n = 1; n <= nmax; ++n) {
        std::vector<std::vector<int>> tri, tri0;
        for (int i1 = -n; i1 <= n - 1; ++i1)
            for (int i2 = -n; i2 <= n; ++i2)
                for (int st = -4; st <= 4; ++st) {
                    if (st == 0) continue;
                    // canonical non-negative forms always; negative-index forms only when they differ in spelling (kept: every 3rd)
                    if ((i1 < 0 || i2 < 0) && ((i1 + 2 * i2 + st + 100) % 3 != 0)) continue;
                    Model m = pyslice(n, i1, i2, st);
                    if (!m.throws && !m.idx.empty()) tri.push_back({i1, i2, st, int(m.idx.size())});
                    if (!m.throws) tri0.push_back({i1, i2, st, int(m.idx.size())});   // the empty ones too
                }
        // quick: all pairs for n <= 6, a seed-chosen quarter for n = 7, 8; thorough: all
        for (auto& d : tri)
            for (auto& s : tri) {
                if (d[3] != s[3]) continue;
                for (int v = 0; v < 4; ++v) {
                    if (ctx.quick() && n >= 8 && (r.next() & 1) != 0) continue;
                    if (!ctx.mine()) continue;
                    ctx.eval(Json::object().set("n", n).set("d", std::vector<int>{d[0], d[1], d[2]}).set("s", std::vector<int>{s[0], s[1], s[2]}).set("cx", v & 1).set("sc", v >> 1));
                }
            }
        // pairs of DIFFERENT counts on the one array (empty slices included): all for n <= MM_ALL, a seed-chosen 1/MM_DIV beyond;
        // one seed-chosen (element type, source constness) variant per pair
        const int mm_all = ctx.by_tier(4, 6);
        const uint64_t mm_div = uint64_t(ctx.by_tier(16, 6));
        for (auto& d : tri0)
            for (auto& s : tri0) {
                if (d[3] == s[3]) continue;
                const uint64_t h = r2.next();
                if (n > mm_all && (h >> 8) % mm_div != 0) continue;
                if (!ctx.mine()) continue;
                const int v = int(h & 3);
                ctx.eval(Json::object().set("n", n).set("d", std::vector<int>{d[0], d[1], d[2]}).set("s", std::vector<int>{s[0], s[1], s[2]}).set("cx", v & 1).set("sc", v >> 1).set("mm", 1));
            }
    }
}

// ------------------------------------------------------------------------------------------- random large arrays
VK_SUB(big, "random_large");
namespace {
template<class T> double re_of(const T& v) { if constexpr (std::is_same_v<T, cmplx_t>) return v.re; else return v; }
template<class T>
void big_case(const Json& c, Out& o) {
    const int n = c.geti("n"), i1 = c.geti("i1"), i2 = c.geti("i2"), st = c.geti("st");
    Q q{n, i1, i2, st, false, false};
    q.dflt = c.geti("dflt", 0) != 0 && st == 1;   // 2-argument overload
    const Model m = pyslice(n, i1, i2, st);
    const std::string d = q.str();
    base_array<T> x(n);
    for (int i = 0; i < n; ++i) x[i] = val<T>(1000 + i);
    const base_array<T>& cx = x;
    bool threw = false;
    base_array<T> got;
    try { got = base_array<T>(mk(cx, q)); } catch (const std::exception&) { threw = true; }
    if (threw != m.throws) { o.fail(m.throws ? "slice:invalid-accepted" : "slice:valid-rejected", fmt("%s: threw=%d model throws=%d", d.c_str(), int(threw), int(m.throws))); return; }
    o.label(std::is_same_v<T, cmplx_t> ? "type:complex" : "type:real");
    if (q.dflt) o.label("default-step");
    if (m.throws) { o.label("invalid"); return; }
    const int cnt = int(m.idx.size());
    if (got.size() != cnt) { o.fail("slice:size", fmt("%s: %d elements, model %d", d.c_str(), got.size(), cnt)); return; }
    for (int k = 0; k < cnt; ++k) if (!same(got[k], val<T>(1000 + m.idx[size_t(k)]))) { o.fail("slice:read-materialise", fmt("%s: element %d is %g, model %d", d.c_str(), k, re_of(got[k]), 1000 + m.idx[size_t(k)])); return; }
    // iteration
    {
        auto s = mk(cx, q);
        int k = 0;
        for (auto p = s.begin(); p != s.end() && k <= cnt; ++p, ++k) if (!same(*p, val<T>(1000 + m.idx[size_t(std::min(k, cnt - 1))]))) { o.fail("slice:read-iterate", fmt("%s: iteration element %d wrong", d.c_str(), k)); return; }
        if (k != cnt) { o.fail("slice:read-iterate", fmt("%s: iteration visited %d elements, model %d", d.c_str(), k, cnt)); return; }
    }
    // scalar write and array write: exactly the designated positions
    const T sc = ((n + cnt) & 1) ? val<T>(-7) : T(0);
    std::vector<char> hit(size_t(n), 0);
    for (int k : m.idx) hit[size_t(k)] = 1;
    for (int mode = 0; mode < 3; ++mode) {
        base_array<T> y(x);
        bool wthrew = false;
        try {
            if (mode == 0) mk(y, q) = sc;
            else if (mode == 1) { base_array<T> rhs(cnt); for (int k = 0; k < cnt; ++k) rhs[k] = val<T>(-1 - k); if (cnt > 0) mk(y, q) = rhs; }
            else { base_array<T> rhs(cnt + 1); mk(y, q) = rhs; }
        } catch (const std::exception&) { wthrew = true; }
        if (mode == 2) {
            if (!wthrew) { o.fail("slice:mismatch-accepted:array", fmt("%s count %d accepted an array of %d", d.c_str(), cnt, cnt + 1)); return; }
            for (int i = 0; i < n; ++i) if (!same(y[i], x[i])) { o.fail("slice:mismatch-writes:array", fmt("%s: rejected assignment changed element %d", d.c_str(), i)); return; }
            continue;
        }
        if (wthrew) { o.fail("slice:write-throws:array", fmt("%s mode %d threw", d.c_str(), mode)); return; }
        int pos = 0;
        for (int i = 0; i < n; ++i) {
            if (!hit[size_t(i)] && !same(y[i], x[i])) { o.fail("slice:write-outside", fmt("%s mode %d: element %d outside the slice was modified", d.c_str(), mode, i)); return; }
        }
        for (int k : m.idx) {
            const T w = mode == 0 ? sc : val<T>(-1 - pos);
            if (!same(y[k], w)) { o.fail("slice:write-wrong:array", fmt("%s mode %d: element %d is %g, model %g", d.c_str(), mode, k, re_of(y[k]), re_of(w))); return; }
            ++pos;
        }
    }
    // same-array shifted copy (overlap) behaves as copy-first
    if (cnt >= 1 && c.geti("shift", 0) != 0) {
        const int sh = c.geti("shift");
        const int r1 = i1 < 0 ? i1 + n : i1, r2 = i2 < 0 ? i2 + n : i2;
        const int s1 = r1 + sh, s2 = r2 + sh;
        const Model ms = pyslice(n, s1, s2, st);
        if (!ms.throws && int(ms.idx.size()) == cnt && s1 >= 0 && s2 >= 0) {
            base_array<T> y(x);
            Q qs{n, s1, s2, st, false, false};
            qs.dflt = q.dflt;
            mk(y, q) = mk(y, qs);
            std::vector<T> want(x.begin(), x.end());
            for (int k = 0; k < cnt; ++k) want[size_t(m.idx[size_t(k)])] = x[ms.idx[size_t(k)]];
            for (int i = 0; i < n; ++i) if (!same(y[i], want[size_t(i)])) { o.fail(std::abs(st) == 1 ? "alias:unit-stride-overlap" : "alias:strided-overlap", fmt("n=%d x.slice(%d,%d,%d) = x.slice(%d,%d,%d): element %d is %g, copy-first model %g", n, i1, i2, st, s1, s2, st, i, re_of(y[i]), re_of(want[size_t(i)]))); return; }
            o.label("shifted-self-copy");
        }
    }
    const int dd = std::abs((i2 < 0 ? i2 + n : i2) - (i1 < 0 ? i1 + n : i1)), am = std::abs(st);
    o.label(dd % am == 0 ? "rem=0" : dd % am == 1 ? "rem=1" : dd % am == am - 1 ? "rem=|step|-1" : "rem=other");
    if (cnt >= 2 || am >= 2) {
        if (std::is_same_v<T, cmplx_t> || q.dflt) o.nontrivial(key_of(n, i1, i2, st, sizeof(T), int(q.dflt)));
        else o.nontrivial(key_of(n, i1, i2, st));
    }
}
}   // namespace
static void big_check(const Json& c, Out& o) {
    if (c.geti("cx", 0)) { big_case<cmplx_t>(c, o); if (o.failed) o.sig += ":complex"; }   // "cx" absent: the real element type, as before
    else big_case<real_t>(c, o);
    if (c.geti("dflt", 0) && c.geti("st") == 1 && o.failed) o.sig += ":default-step";
}
#if defined(__has_feature)
#if __has_feature(address_sanitizer)
#define C04_ASAN 1
#endif
#endif
static void big_gen(Ctx& ctx) {
#ifdef C04_ASAN
    const int budget = ctx.by_tier(40000, 400000), nmax = 20000;   // instrumented build: ~15x slower per element
#else
    const int budget = ctx.by_tier(600000, 6000000), nmax = 100000;
#endif
    ctx.rc("triples", budget, [&]() {
        int n = pick_log(1, nmax);
        int st = pick(1, 9) * (flip() ? 1 : -1);
        if (pick(0, 9) == 0) st = pick(-n - 1, n + 1);
        if (st == 0 && pick(0, 3) != 0) st = 1;
        const int dflt = pick(0, 9) == 9;   // step 1 through the 2-argument overload (shrinks towards the explicit step)
        if (dflt) st = 1;
        const int cx = pick(0, 1);          // element type
        int a = pick(-n - 1, n), b;
        // bias |i2-i1| mod |step| to 0, 1, |step|-1
        int len = pick_log(0, n);
        int rem = one_of<int>({0, 0, 1, std::abs(st) - 1, pick(0, std::max(1, std::abs(st)) - 1)});
        int k = std::abs(st) == 0 ? len : (len / std::abs(st)) * std::abs(st) + rem;
        b = st >= 0 ? a + k : a - k;
        if (pick(0, 7) == 0) b = pick(-n - 1, n + 1);
        return Json::object().set("n", n).set("i1", a).set("i2", b).set("st", st).set("shift", pick(-3, 3)).set("cx", cx).set("dflt", dflt);
    });
}

VK_FRESH_THREADS;
VK_MAIN("C04")
