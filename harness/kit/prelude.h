// kit/prelude.h - unrelated library calls made BEFORE the call a check is about.
// A property that holds "for every input" holds whatever the thread did before.  State kept between calls of otherwise pure
// functions (a one-entry memo keyed too coarsely, a scratch buffer sized by an earlier call) only shows when an unrelated call with
// related parameters - the same length, a neighbouring length, another parameter value - comes first.  prelude(seed, n) makes 1..3 such
// calls chosen by `seed` around the size hint n.  Nothing that consumes or seeds the random generator is in the menu (that state is
// meant to persist), so a prelude can never legitimately change a later result.
#pragma once
#include "vk.h"
#include <dsplib.h>

namespace vk {
inline void prelude(uint64_t seed, int n) {
    if (seed == 0) return;
    Rng r(seed);
    auto size = [&]() {
        int m = n;
        switch (r.range(0, 7)) { case 0: m = n + 1; break; case 1: m = n - 1; break; case 2: m = n / 2; break; case 3: m = 2 * n; break; default: break; }
        return std::max(4, std::min(m, 1 << 17));
    };
    auto rsig = [&](int m) { dsplib::arr_real x(m); for (int i = 0; i < m; ++i) x[i] = r.gauss(); return x; };
    auto csig = [&](int m) { dsplib::arr_cmplx x(m); for (int i = 0; i < m; ++i) x[i] = dsplib::cmplx_t(r.gauss(), r.gauss()); return x; };
    static const double betas[] = {0.0, 0.5, 1.0, 2.5, 5.0, 8.6, 20.0, 38.0};
    try {
        for (int k = r.range(1, 3); k > 0; --k) {
            const int m = size();
            switch (r.range(0, 13)) {
            case 0: case 1: (void)dsplib::window::kaiser(m, betas[r.range(0, 7)]); break;
            case 2: (void)dsplib::window::hann(m, r.coin()); break;
            case 3: (void)dsplib::window::hamming(m, r.coin()); break;
            case 4: (void)dsplib::window::gauss(m, 0.5 + r.uni(0, 5), r.coin()); break;
            case 5: (void)dsplib::window::tukey(m, r.uni(0, 1)); break;
            case 6: (void)dsplib::window::blackman(m, r.coin()); break;
            case 7: (void)dsplib::fft(csig(std::min(m, 4096))); break;
            case 8: (void)dsplib::rfft(rsig(std::min(m, 4096))); break;
            case 9: { const int w = std::max(4, std::min(m, 256)); (void)dsplib::welch(rsig(3 * w), w, r.range(0, w - 1), w); break; }
            case 10: { const int w = std::max(4, std::min(m, 256)); auto a = rsig(4 * w); (void)dsplib::mscohere(a, rsig(4 * w), r.range(2, w), r.range(0, 1), w); break; }
            case 11: (void)dsplib::xcorr(rsig(std::min(m, 300)), rsig(std::min(std::max(2, m / 3), 300))); break;
            case 12: (void)dsplib::hilbert(rsig(std::min(m, 2048))); break;
            default: (void)dsplib::fir1(2 * std::max(1, std::min(m, 200) / 2), 0.1 + 0.8 * r.uni(0, 1)); break;
            }
        }
    } catch (const std::exception&) {
        // a prelude call the library rejects is simply not part of the history
    }
}
namespace { struct PreludeOn { PreludeOn() { prelude_hook() = &prelude; } } g_prelude_on; }
}   // namespace vk
