// C05 libFuzzer target: coverage-guided search over the same call programs as c05.cpp (decoder in c05_prog.h).
// The oracle is the monitor (ASan + UBSan, NDEBUG): any crash-/leak- artifact is a candidate violation that the driver replays
// three times through the deterministic harness.
#include "c05_prog.h"
#include <cstdio>
#include <cstdlib>

static long g_execs = 0;
static long g_hits[256];
static long g_adv[256];

static void dump_stats() {
    const char* p = getenv("C05_STATS");
    if (!p) return;
    FILE* f = fopen(p, "w");
    if (!f) return;
    fprintf(f, "{\"execs\": %ld, \"entry_points\": {", g_execs);
    const auto& T = c05::table();
    for (size_t i = 0; i < T.size(); ++i) fprintf(f, "%s\"%s\": [%ld, %ld]", i ? ", " : "", T[i].name, g_hits[i], g_adv[i]);
    fprintf(f, "}}\n");
    fclose(f);
}

extern "C" int LLVMFuzzerInitialize(int*, char***) {
    (void)c05::table();   // construct the table first so that it outlives the atexit handler
    atexit(dump_stats);
    return 0;
}

extern "C" int LLVMFuzzerTestOneInput(const uint8_t* data, size_t size) {
    c05::Trace tr;
    c05::execute(data, size, &tr);
    ++g_execs;
    for (auto& h : tr.hits) { g_hits[h.first & 255]++; if (h.second) g_adv[h.first & 255]++; }
    return 0;
}
