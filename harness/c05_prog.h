// C05 call programs: a byte string is decoded (structure-aware) into <= 8 steps over a table of public entry points.
// Numeric parameters stay in the documented ranges; *relations* are adversarial: lengths from {0,1,2,3,E-1,E,E+1,2E} relative
// to the expected length E, index lists with entries in -n..n+2 and empty lists, slice right-hand sides of every length,
// frame lengths off the granularity, plan objects applied to inputs of another length.
// Shared by the deterministic fork-per-case harness (c05.cpp) and the libFuzzer target (c05_fuzz.cpp).
#pragma once
#include <dsplib.h>
#include <dsplib/gccphat.h>
#include "ma-filter.h"

#include <cstdint>
#include <functional>
#include <sstream>
#include <string>
#include <vector>

namespace c05 {

using namespace dsplib;

struct Rd
{
    const uint8_t* p;
    size_t n;
    size_t i{0};
    uint8_t u8() { return i < n ? p[i++] : 0; }
    int range(int lo, int hi) { if (hi <= lo) return lo; unsigned v = u8(); if (hi - lo > 255) v = v * 256 + u8(); return lo + int(v % unsigned(hi - lo + 1)); }
    bool coin() { return u8() & 1; }
    bool done() const { return i >= n; }
};

struct Trace
{
    // which entry points ran and with which relation class; filled by every step (cheap)
    std::vector<std::pair<int, int>> hits;   // (entry point, relation class: 0 = matching, 1 = adversarial)
    int exceptions{0};
    int returns{0};
    volatile int64_t* progress{nullptr};   // entry point being executed (so that a crash or hang can name it)
};

constexpr int MAXLEN = 2048;

// adversarial length relative to the expected length E; *adv is set when the result differs from E
inline int rel_len(Rd& r, int E, bool* adv, int lo = 0) {
    int c = r.range(0, 11);
    int v = E;
    switch (c) {
    case 0: v = 0; break;
    case 1: v = 1; break;
    case 2: v = 2; break;
    case 3: v = 3; break;
    case 4: v = E - 1; break;
    case 5: v = E + 1; break;
    case 6: v = 2 * E; break;
    default: v = E;
    }
    if (v < lo) v = lo;
    if (v > MAXLEN) v = MAXLEN;
    if (v != E && adv) *adv = true;
    return v;
}
inline int some_len(Rd& r, int lo = 1, int hi = 300) {
    static const int special[] = {1, 2, 3, 4, 5, 7, 8, 9, 12, 15, 16, 31, 32, 41, 43, 47, 60, 64, 94, 97, 100, 128, 255, 256, 257};
    int c = r.range(0, 3);
    int v = c == 0 ? special[r.range(0, 24)] : r.range(lo, hi);
    return std::max(lo, std::min(hi, v));
}
inline double val(uint32_t& s) {
    s = s * 1664525u + 1013904223u;
    return (double(int32_t(s)) / 2147483648.0) * 2.0;
}
inline arr_real mk_real(Rd& r, int n) {
    arr_real x(n);
    int mode = r.range(0, 5);
    uint32_t s = 12345u + r.u8();
    for (int i = 0; i < n; ++i) x[i] = mode == 0 ? 0.0 : mode == 1 ? 1.0 : mode == 2 ? double(i % 7) - 3 : val(s);
    if (mode == 3 && n > 0) x[r.range(0, n - 1)] = 1e6;
    return x;
}
inline arr_cmplx mk_cmplx(Rd& r, int n) {
    arr_cmplx x(n);
    int mode = r.range(0, 4);
    uint32_t s = 777u + r.u8();
    for (int i = 0; i < n; ++i) x[i] = mode == 0 ? cmplx_t(0, 0) : mode == 1 ? cmplx_t(1, -1) : cmplx_t(val(s), val(s));
    return x;
}
inline std::vector<int> mk_index_list(Rd& r, int n, bool* adv) {
    int k = r.range(0, 6);
    std::vector<int> v;
    for (int i = 0; i < k; ++i) {
        int e = r.range(-n - 1, n + 2);
        if (e < 0 || e >= n) *adv = true;
        v.push_back(e);
    }
    if (k == 0) *adv = true;
    return v;
}

// sink so the optimiser cannot drop results
inline void use(const arr_real& a) { volatile double s = 0; for (int i = 0; i < a.size(); ++i) s = s + a[i]; }
inline void use(const arr_cmplx& a) { volatile double s = 0; for (int i = 0; i < a.size(); ++i) s = s + a[i].re + a[i].im; }
inline void use(const arr_int& a) { volatile unsigned s = 0; for (int i = 0; i < a.size(); ++i) s = s + unsigned(a[i]); }   // unsigned: the sink itself must not overflow
inline void use(const std::vector<bool>& a) { volatile int s = 0; for (bool b : a) s = s + b; }
inline void use(double v) { volatile double s = v; (void)s; }

struct Ep
{
    const char* name;
    std::function<void(Rd&, bool*)> fn;   // sets *adv when an adversarial relation was used
};

inline const std::vector<Ep>& table() {
    static const std::vector<Ep> T = {
      // ---------------------------------------------------------------- array operators
      {"array.op+=(array)", [](Rd& r, bool* a) { int n = some_len(r, 0, 64); auto x = mk_real(r, n); auto y = mk_real(r, rel_len(r, n, a)); x += y; use(x); }},
      {"array.op-(array)", [](Rd& r, bool* a) { int n = some_len(r, 0, 64); auto x = mk_cmplx(r, n); auto y = mk_real(r, rel_len(r, n, a)); use(x - y); }},
      {"array.op*(array)", [](Rd& r, bool* a) { int n = some_len(r, 0, 64); auto x = mk_real(r, n); auto y = mk_cmplx(r, rel_len(r, n, a)); use(x * y); }},
      {"array.op/(array)", [](Rd& r, bool* a) { int n = some_len(r, 0, 64); auto x = mk_cmplx(r, n); auto y = mk_cmplx(r, rel_len(r, n, a)); use(x / y); }},
      {"array.op/=(scalar)", [](Rd& r, bool*) { auto x = mk_real(r, some_len(r, 0, 64)); x /= 3.0; x *= 2; x += 1; x -= 0.5; use(x); use(-x); use(2.0 / x); use(1 - x); }},
      {"array.compare(array)", [](Rd& r, bool* a) { int n = some_len(r, 0, 64); auto x = mk_real(r, n); auto y = mk_real(r, rel_len(r, n, a)); int k = r.range(0, 3); use(k == 0 ? (x > y) : k == 1 ? (x < y) : k == 2 ? (x == y) : (x != y)); }},
      {"array.compare(cmplx array)", [](Rd& r, bool* a) { int n = some_len(r, 0, 64); auto x = mk_cmplx(r, n); auto y = mk_cmplx(r, rel_len(r, n, a)); int k = r.range(0, 3); use(k == 0 ? (x > y) : k == 1 ? (x < y) : k == 2 ? (x == y) : (x != y)); }},
      {"array.compare(scalar)", [](Rd& r, bool*) { auto x = mk_real(r, some_len(r, 0, 64)); use(x > 0.0); use(x < 0.5); use(x == 1.0); use(x != 1.0); }},
      {"array[mask]", [](Rd& r, bool* a) { int n = some_len(r, 0, 64); auto x = mk_real(r, n); std::vector<bool> m(size_t(rel_len(r, n, a))); for (size_t i = 0; i < m.size(); ++i) m[i] = (i % 3) == 0; use(x[m]); }},
      {"array[index list]", [](Rd& r, bool* a) { int n = some_len(r, 1, 64); auto x = mk_real(r, n); use(x[mk_index_list(r, n, a)]); }},
      {"array[arr_int]", [](Rd& r, bool* a) { int n = some_len(r, 1, 64); auto x = mk_cmplx(r, n); auto v = mk_index_list(r, n, a); use(x[arr_int(v)]); }},
      {"array|array", [](Rd& r, bool*) { auto x = mk_real(r, some_len(r, 0, 64)); auto y = mk_cmplx(r, some_len(r, 0, 64)); use(x | y); x |= x; use(x); use(concatenate(x, x, x)); }},
      {"operator<<", [](Rd& r, bool* a) { std::ostringstream os; int n = r.range(0, 5); if (n == 0) *a = true; os << mk_real(r, n) << mk_cmplx(r, r.range(0, 3)); use(double(os.str().size())); }},
      {"array(vector)/to_vec/apply", [](Rd& r, bool*) { std::vector<double> v(size_t(r.range(0, 20)), 1.5); arr_real x(v); auto w = x.to_vec(); use(x.apply([](real_t t) { return t * 2; })); use(double(w.size())); std::vector<int> vi(size_t(r.range(0, 9)), 3); arr_real xi(vi); use(xi); }},
      // ---------------------------------------------------------------- slices
      {"slice(i1,i2,m) read", [](Rd& r, bool* a) { int n = some_len(r, 0, 40); auto x = mk_real(r, n); int i1 = r.range(-n - 2, n + 2), i2 = r.range(-n - 2, n + 2), m = r.range(-4, 4); if (i1 < -n || i1 >= n || i2 < -n || i2 > n || m == 0) *a = true; const arr_real& cx = x; use(arr_real(cx.slice(i1, i2, m))); use(*x.slice(i1, i2, m)); }},
      {"slice=array", [](Rd& r, bool* a) { int n = some_len(r, 1, 40); auto x = mk_real(r, n); int i1 = r.range(0, n - 1), i2 = r.range(i1, n), m = r.range(1, 3); int cnt = (i2 - i1 + m - 1) / m; auto y = mk_real(r, rel_len(r, cnt, a)); x.slice(i1, i2, m) = y; use(x); }},
      {"slice=init list", [](Rd& r, bool* a) { int n = some_len(r, 1, 12); auto x = mk_cmplx(r, n); int i1 = r.range(0, n - 1), i2 = r.range(i1, n); int cnt = i2 - i1; int L = r.range(0, 6); if (L != cnt) *a = true; cmplx_t v(1, 2); switch (L) { case 0: x.slice(i1, i2) = std::initializer_list<cmplx_t>{}; break; case 1: x.slice(i1, i2) = {v}; break; case 2: x.slice(i1, i2) = {v, v}; break; case 3: x.slice(i1, i2) = {v, v, v}; break; case 4: x.slice(i1, i2) = {v, v, v, v}; break; case 5: x.slice(i1, i2) = {v, v, v, v, v}; break; default: x.slice(i1, i2) = {v, v, v, v, v, v}; } use(x); }},
      {"slice=slice", [](Rd& r, bool* a) { int n = some_len(r, 1, 40); auto x = mk_real(r, n); auto y = mk_real(r, some_len(r, 1, 40)); int i1 = r.range(0, n - 1), i2 = r.range(i1, n); int j1 = r.range(0, y.size() - 1), j2 = r.range(j1, y.size()); if (i2 - i1 != j2 - j1) *a = true; if (r.coin()) x.slice(i1, i2) = y.slice(j1, j2); else x.slice(i1, i2) = x.slice(std::min(j1, n - 1), std::min(j2, n)); use(x); }},
      {"slice=scalar/end", [](Rd& r, bool*) { int n = some_len(r, 0, 40); auto x = mk_real(r, n); x.slice(r.range(0, std::max(0, n - 1)), indexing::end, r.range(1, 3)) = 4.0; use(x); }},
      // ---------------------------------------------------------------- math / reductions
      {"reductions", [](Rd& r, bool*) { auto x = mk_real(r, some_len(r, 1, 200)); auto z = mk_cmplx(r, some_len(r, 1, 64)); use(sum(x)); use(mean(x)); use(rms(x)); use(stddev(x)); use(median(x)); use(max(x)); use(min(x)); use(double(argmax(x) + argmin(x))); use(peak2peak(x)); use(norm(x, r.range(1, 4))); use(abs(sum(z))); use(rms(z)); use(stddev(z)); use(abs(max(z))); use(double(argmax(z))); use(norm(z, r.range(1, 3))); }},
      {"reductions(empty sum/mean)", [](Rd& r, bool* a) { *a = true; arr_real e; arr_cmplx ec; use(sum(e)); use(abs(sum(ec))); use(cumsum(e)); use(abs2(ec)); use(flip(e)); use(double(anynan(e)) + double(anyinf(ec))); (void)r; }},
      {"dot/mse/complex(re,im)", [](Rd& r, bool* a) { int n = some_len(r, 0, 64); auto x = mk_real(r, n); auto y = mk_real(r, rel_len(r, n, a)); int k = r.range(0, 3); if (k == 0) use(dot(x, y)); else if (k == 1) use(mse(x, y)); else if (k == 2) use(complex(x, y)); else use(power(x, y)); }},
      {"elementwise", [](Rd& r, bool*) { auto x = mk_real(r, some_len(r, 0, 64)); auto z = mk_cmplx(r, some_len(r, 0, 64)); use(abs(x)); use(abs(z)); use(angle(z)); use(exp(x)); use(exp(z)); use(expj(x)); use(tanh(x)); use(tanh(z)); use(round(x)); use(round(z)); use(log(abs(x) + 1)); use(log2(abs(x) + 1)); use(log10(abs(x) + 1)); use(sin(x)); use(cos(x)); use(real(z)); use(imag(z)); use(conj(z)); use(abs2(z)); use(abs2(x)); use(pow2db(abs(x) + 1)); use(db2pow(x)); use(mag2db(abs(x) + 1)); use(db2mag(x)); use(deg2rad(x)); use(rad2deg(x)); use(power(x, r.range(-3, 3))); use(power(z, r.range(-3, 3))); use(power(abs(x), 0.5)); use(power(z, 1.5)); use(power(2.0, x)); use(power(cmplx_t(1, 1), x)); use(cumsum(x, Direction::Reverse)); use(cumsum(z)); }},
      {"sort/issorted/corr", [](Rd& r, bool* a) { int n = some_len(r, 1, 100); auto x = mk_real(r, n); auto s = sort(x, r.coin() ? Direction::Ascend : Direction::Descend); use(s.first); use(s.second); use(double(issorted(x))); auto y = mk_real(r, rel_len(r, n, a, 0)); use(corr(x, y, Correlation(r.range(0, 2)))); }},
      {"up/downsample", [](Rd& r, bool* a) { auto x = mk_real(r, some_len(r, 0, 64)); int n = r.range(1, 6); int ph = r.range(-1, n); if (ph < 0 || ph >= n) *a = true; if (r.coin()) use(upsample(x, n, ph)); else use(downsample(mk_cmplx(r, some_len(r, 0, 64)), n, ph)); }},
      {"utils shapes", [](Rd& r, bool* a) { use(arange(r.range(-5, 5), r.range(-5, 5), r.range(1, 3) * (r.coin() ? 1 : -1))); use(arange(0.0, double(r.range(0, 9)), 0.5)); use(arange(r.range(0, 9))); use(linspace(0, 1, size_t(r.range(1, 9)))); auto x = mk_real(r, some_len(r, 0, 30)); use(repelem(x, r.range(0, 3))); use(flip(x)); int n = rel_len(r, x.size(), a); use(zeropad(x, n)); use(delayseq(x, r.range(-35, 35))); use(delayseq(mk_cmplx(r, some_len(r, 0, 30)), r.range(-35, 35))); use(zeros(r.range(0, 9)) | ones(r.range(0, 9))); }},
      {"to/from complex", [](Rd& r, bool* a) { std::vector<double> v(size_t(r.range(0, 9)), 2.0); if (v.size() % 2) *a = true; auto z = to_complex(v); use(z); auto f = from_complex<float>(z); use(double(f.size())); use(double(from_real<int>(mk_real(r, 5)).size())); use(to_real(v)); }},
      {"peakloc/findpeaks", [](Rd& r, bool*) { int n = some_len(r, 1, 64); auto x = mk_real(r, n); use(peakloc(x, r.range(0, n - 1), r.coin())); use(peakloc(mk_cmplx(r, n), r.range(0, n - 1), r.coin())); auto p = findpeaks(x, r.range(0, 4)); use(double(p.pks.size())); }},
      {"finddelay/gccphat", [](Rd& r, bool* a) { int n = some_len(r, 1, 200); auto x = mk_real(r, n); auto y = mk_real(r, rel_len(r, n, a, 1)); if (r.coin()) use(double(finddelay(x, y))); else { auto g = gccphat(x, y, r.range(1, 48000)); use(g.tau); use(g.corr); } }},
      {"gccphat multi-channel", [](Rd& r, bool* a) { int n = some_len(r, 1, 100); std::vector<arr_real> ch; int k = r.range(0, 3); for (int i = 0; i < k; ++i) ch.push_back(mk_real(r, rel_len(r, n, a, 1))); auto g = gccphat(ch, mk_real(r, n), 8000); use(g.tau); }},
      {"finddelay cmplx/xcorr", [](Rd& r, bool*) { auto x = mk_cmplx(r, some_len(r, 1, 100)); auto y = mk_cmplx(r, some_len(r, 1, 100)); use(double(finddelay(x, y))); use(xcorr(x, y)); use(xcorr(x)); use(xcorr(mk_real(r, some_len(r, 1, 100)), mk_real(r, some_len(r, 1, 100)))); use(xcorr(mk_real(r, some_len(r, 1, 50)))); }},
      {"primes helpers", [](Rd& r, bool*) { uint32_t n = uint32_t(r.range(0, 65535)) * (r.coin() ? 1u : 65537u) + uint32_t(r.range(0, 255)); if (r.range(0, 2) == 0) n = 0xFFFFFFFFu - uint32_t(r.range(0, 299));   /* top of the 32-bit range: the trial-division bound is near 2^16 */ use(double(isprime(n))); use(factor(n)); if (n <= 4294967291u) use(double(nextprime(n))); use(primes(n % 100000u)); int m = int(n & 0x7FFFFFFF); if (m > 0) { use(double(nextpow2(m))); use(double(ispow2(m))); } }},
      {"random", [](Rd& r, bool*) { rng(r.range(0, 1000)); use(randn(r.range(0, 50))); use(rand(r.range(0, 50))); use(randi(r.range(1, 100), r.range(0, 20))); int lo = r.range(-50, 50); use(randi({lo, lo + r.range(0, 30)}, r.range(0, 20))); use(rand({-1.0, 2.0}, r.range(0, 9))); use(dsplib::randn() + dsplib::rand() + dsplib::randi(5)); use(awgn(mk_real(r, some_len(r, 1, 64)), double(r.range(-10, 80)))); use(awgn(mk_cmplx(r, some_len(r, 1, 64)), double(r.range(-10, 80)))); }},
      // ---------------------------------------------------------------- transforms
      {"fft(cx[,n])", [](Rd& r, bool* a) { int n = some_len(r, 1, 300); auto x = mk_cmplx(r, n); if (r.coin()) use(fft(x)); else use(fft(x, rel_len(r, n, a, 1))); }},
      {"fft(real[,n])/rfft", [](Rd& r, bool* a) { int n = some_len(r, 1, 300); auto x = mk_real(r, n); int k = r.range(0, 3); if (k == 0) use(fft(x)); else if (k == 1) use(rfft(x)); else if (k == 2) use(fft(x, rel_len(r, n, a, 1))); else use(rfft(x, rel_len(r, n, a, 1))); }},
      {"ifft/irfft", [](Rd& r, bool* a) { int n = some_len(r, 1, 300); int k = r.range(0, 2); if (k == 0) use(ifft(mk_cmplx(r, n))); else if (k == 1) { if (n % 2) *a = true; use(irfft(mk_cmplx(r, n))); } else { int m = rel_len(r, n, a, 0); if (m != n && m != n / 2 + 1) *a = true; if (n % 2) *a = true; use(irfft(mk_cmplx(r, m), n)); } }},
      {"FftPlan(n) on other length", [](Rd& r, bool* a) { int n = some_len(r, 1, 300); FftPlan p(n); int m = rel_len(r, n, a, 0); auto x = mk_cmplx(r, m); if (r.coin()) use(p(x)); else { arr_cmplx y(m); const BaseFftPlanC& b = p; if (m > 0) { b.solve(x.data(), y.data(), m); use(y); } } use(double(p.size())); }},
      {"FftPlanR(n) on other length", [](Rd& r, bool* a) { int n = some_len(r, 1, 300); FftPlanR p(n); int m = rel_len(r, n, a, 0); auto x = mk_real(r, m); if (r.coin()) use(p(x)); else { arr_cmplx y(std::max(m, 1)); const BaseFftPlanR& b = p; if (m > 0) { b.solve(x.data(), y.data(), m); use(y); } } }},
      {"IfftPlan/IfftPlanR on other length", [](Rd& r, bool* a) { int n = some_len(r, 1, 300); int m = rel_len(r, n, a, 0); if (r.coin()) { IfftPlan p(n); use(p(mk_cmplx(r, m))); use(double(p.size())); } else { if (n % 2) *a = true; IfftPlanR p(n); if (m != n && m != n / 2 + 1) *a = true; use(p(mk_cmplx(r, m))); } }},
      {"czt/CztPlan", [](Rd& r, bool* a) { int n = some_len(r, 1, 200); int m = some_len(r, 1, 200); double th = (r.range(0, 200) - 100) * 0.0314; cmplx_t w(std::cos(th), std::sin(th)); cmplx_t aa = r.coin() ? cmplx_t(1) : cmplx_t(0.9, 0.3); if (r.coin()) use(czt(mk_cmplx(r, n), m, w, aa)); else { CztPlan p(n, m, w, aa); use(p(mk_cmplx(r, rel_len(r, n, a, 0)))); } }},
      {"hilbert", [](Rd& r, bool* a) { int n = some_len(r, 1, 300); auto x = mk_real(r, n); if (r.coin()) use(hilbert(x)); else use(hilbert(x, rel_len(r, n, a, 1))); }},
      {"stft/istft/iscola", [](Rd& r, bool* a) { int nfft = 4 << r.range(0, 5); if (r.coin()) nfft += 4 * r.range(0, 3); int wl = r.coin() ? nfft : r.range(1, nfft); int ov = r.range(0, wl - 1); auto win = r.coin() ? window::hann(wl, false) : window::hamming(wl); use(double(iscola(win, ov, r.coin() ? OverlapMethod::Ola : OverlapMethod::Wola))); auto x = mk_real(r, rel_len(r, wl * 3, a, 0)); auto rg = StftRange(r.range(0, 2)); auto S = stft(x, win, ov, nfft, rg); int drop = r.range(0, 3); if (drop == 1 && !S.empty()) { S.pop_back(); } if (drop == 2 && !S.empty()) { S[0] = mk_cmplx(r, rel_len(r, S[0].size(), a, 0)); } if (drop == 3) { rg = StftRange(r.range(0, 2)); *a = true; } use(istft(S, win, ov, nfft, rg, r.coin() ? OverlapMethod::Ola : OverlapMethod::Wola)); }},
      {"stft default forms", [](Rd& r, bool*) { int nfft = 8 << r.range(0, 4); auto x = mk_real(r, some_len(r, 1, 600)); auto S = stft(x, nfft); use(istft(S, nfft)); }},
      {"welch/mscohere", [](Rd& r, bool* a) { int nfft = 8 << r.range(0, 5); int wl = r.range(1, nfft); int ov = r.range(0, wl - 1); int n = rel_len(r, wl * 4, a, 0); if (n < wl) *a = true; auto t = r.coin() ? SpectrumType::Psd : SpectrumType::Power; int k = r.range(0, 4); if (k == 0) { auto w = welch(mk_real(r, n), wl, ov, nfft, t); use(w.pxx); use(w.f); } else if (k == 1) { auto w = welch(mk_cmplx(r, n), window::hann(wl), ov, nfft, t); use(w.pxx); } else if (k == 2) { auto w = welch(mk_real(r, n), wl, t); use(w.pxx); } else if (k == 3) { auto w = welch(mk_cmplx(r, n), wl, t); use(w.pxx); } else use(mscohere(mk_real(r, n), mk_real(r, rel_len(r, n, a, 0)), wl, ov, nfft)); }},
      {"welch window/nfft mismatch", [](Rd& r, bool* a) { *a = true; int nfft = r.range(1, 70); int wl = r.range(1, 80); auto w = welch(mk_real(r, some_len(r, 1, 300)), window::hamming(wl), r.range(0, std::max(0, wl - 1)), nfft); use(w.pxx); }},
      {"snr/sinad/thd", [](Rd& r, bool* a) { int n = some_len(r, 2, 2000); auto x = mk_real(r, n); for (int i = 0; i < n; ++i) x[i] += std::sin(0.3 * i); int nh = r.range(2, 7); int k = r.range(0, 3); auto ty = SinadType(r.range(0, 2)); if (ty != SinadType::Time) { x = abs(x); } if (k == 0) use(snr(x, nh, r.coin(), ty)); else if (k == 1) use(sinad(x, ty)); else { auto t = thd(x, nh, r.coin(), ty); use(t.value); use(t.harmpow); use(t.harmfreq); } (void)a; }},
      // ---------------------------------------------------------------- windows / designs
      {"windows", [](Rd& r, bool*) { int n = some_len(r, 2, 300); bool s = r.coin(); use(window::hann(n, s)); use(window::hamming(n, s)); use(window::blackman(n, s)); use(window::blackmanharris(n, s)); use(window::cosine(n, s)); use(window::gauss(n, 0.5 + r.range(0, 55) * 0.1, s)); use(window::tukey(n, (r.range(0, 20) - 5) * 0.1)); use(window::kaiser(n, r.range(0, 40))); }},
      {"fir1", [](Rd& r, bool* a) { int n = r.range(1, 120); double w1 = 0.02 + 0.0096 * r.range(0, 99), w2 = std::min(0.99, w1 + 0.01 + 0.005 * r.range(0, 99)); int ty = r.range(0, 3); bool custom = r.coin(); int need = n + 1 + (((ty == 1 || ty == 3) && (n % 2)) ? 1 : 0); if (!custom) { if (ty < 2) use(fir1(n, w1, FilterType(ty))); else use(fir1(n, w1, w2, FilterType(ty))); } else { auto win = window::hann(rel_len(r, need, a, 2)); if (ty < 2) use(fir1(n, w1, FilterType(ty), win)); else use(fir1(n, w1, w2, FilterType(ty), win)); } }},
      {"fir1 wrong type/firtype", [](Rd& r, bool* a) { *a = true; int n = r.range(1, 30); if (r.coin()) use(fir1(n, 0.3, FilterType(r.range(2, 3)))); else use(fir1(n, 0.2, 0.4, FilterType(r.range(0, 1)))); use(double(int(firtype(mk_real(r, some_len(r, 1, 30)))))); }},
      // ---------------------------------------------------------------- filters / streaming processors
      {"FirFilterR", [](Rd& r, bool*) { FirFilterR f(mk_real(r, some_len(r, 1, 64))); for (int i = 0, k = r.range(1, 3); i < k; ++i) use(f.process(mk_real(r, some_len(r, 0, 200)))); use(f.coeffs()); }},
      {"FirFilterC", [](Rd& r, bool*) { FirFilterC f(mk_cmplx(r, some_len(r, 1, 64))); for (int i = 0, k = r.range(1, 3); i < k; ++i) use(f(mk_cmplx(r, some_len(r, 0, 200)))); }},
      {"FirFilter::conv", [](Rd& r, bool* a) { int nh = some_len(r, 1, 40); int nx = rel_len(r, nh, a, 0); if (nx < nh) *a = true; use(FirFilterR::conv(mk_real(r, nx), mk_real(r, nh))); }},
      {"FftFilter", [](Rd& r, bool* a) { bool dflt = r.range(0, 7) == 0; if (dflt) { *a = true; FftFilter f; use(f.process(mk_real(r, some_len(r, 0, 50)))); return; } FftFilter f(mk_real(r, some_len(r, 1, 100))); for (int i = 0, k = r.range(1, 3); i < k; ++i) { if (r.coin()) use(f.process(mk_real(r, rel_len(r, f.block_size(), a, 0)))); else use(f.process(mk_cmplx(r, some_len(r, 0, 300)))); } }},
      {"FftFilter(cmplx h)", [](Rd& r, bool*) { FftFilter f(mk_cmplx(r, some_len(r, 1, 60))); use(f(mk_cmplx(r, some_len(r, 0, 400)))); use(f(mk_real(r, some_len(r, 0, 400)))); }},
      {"MAFilter", [](Rd& r, bool*) { MAFilterR f(r.range(1, 50)); use(f.process(mk_real(r, some_len(r, 0, 200)))); MAFilterC g(r.range(1, 20)); use(g.process(mk_cmplx(r, some_len(r, 0, 100)))); use(f(0.5)); }},
      {"MedianFilter/medfilt", [](Rd& r, bool* a) { int n = r.range(1, 20); if (n < 3) *a = true; if (r.coin()) { MedianFilter f(n, r.range(-2, 2)); use(f.process(mk_real(r, some_len(r, 0, 200)))); use(double(f.order())); } else { auto x = mk_real(r, rel_len(r, n, a, 0)); use(medfilt(x, n)); } }},
      {"Delay", [](Rd& r, bool*) { int d = r.range(0, 40); if (r.coin()) { DelayReal f(d); use(f.process(mk_real(r, some_len(r, 0, 100)))); use(f(mk_real(r, some_len(r, 0, 100)))); } else { DelayCmplx f(mk_cmplx(r, d)); use(f.process(mk_cmplx(r, some_len(r, 0, 100)))); } }},
      {"HilbertFilter", [](Rd& r, bool* a) { int k = r.range(0, 3); if (k == 0) { HilbertFilter f(r.range(3, 120), 0.005 + 0.001 * r.range(0, 95)); use(f.process(mk_real(r, some_len(r, 0, 300)))); use(f.impz()); } else if (k == 1) { HilbertFilter f; use(f(mk_real(r, some_len(r, 0, 100)))); } else if (k == 2) { *a = true; HilbertFilter f(mk_real(r, some_len(r, 1, 30))); use(f.process(mk_real(r, 10))); } else use(HilbertFilter::design_fir(r.range(3, 80), 1.0, 0.01 + 0.001 * r.range(0, 90))); }},
      {"Tuner", [](Rd& r, bool* a) { int fs = r.range(1, 48000); double f = (r.range(0, 200) - 100) / 200.0 * fs; if (r.range(0, 9) == 0) { f = fs; *a = true; } Tuner t(fs, f); use(t.process(mk_cmplx(r, some_len(r, 0, 300)))); use(t(mk_cmplx(r, some_len(r, 0, 300)))); use(t.freq() + t.sample_rate()); }},
      {"Agc", [](Rd& r, bool* a) { int L = r.range(0, 200); if (L == 0) *a = true; Agc g(0.01 * (1 + r.range(0, 9999)), r.range(0, 100), L, 0.001 * r.range(1, 100), 0.001 * r.range(1, 100)); if (r.coin()) { auto o = g.process(mk_real(r, some_len(r, 0, 300))); use(o.out); use(o.gain); } else { auto o = g.process(mk_cmplx(r, some_len(r, 0, 300))); use(o.out); use(o.gain); } }},
      {"Compressor/Limiter/NoiseGate", [](Rd& r, bool* a) { int fs = r.range(8000, 65000) * (r.coin() ? 1 : 3); double T = -0.5 * r.range(0, 100); int R = r.range(1, 50); double W = 0.2 * r.range(0, 100); double at = 0.04 * r.range(0, 100), rl = 0.04 * r.range(0, 100); if (r.range(0, 15) == 0) { T = 1.0; *a = true; } auto x = mk_real(r, some_len(r, 0, 400)); int k = r.range(0, 2); if (k == 0) { Compressor c(fs, T, R, W, at, rl); auto o = c.process(x); use(o.out); use(o.gain); } else if (k == 1) { Limiter c(fs, T, W, at, rl); auto o = c(x); use(o.out); use(o.gain); } else { NoiseGate c(fs, T, at, rl, 0.04 * r.range(0, 100)); auto o = c.process(x); use(o.out); use(o.gain); } }},
      {"LmsFilter", [](Rd& r, bool* a) { int n = r.range(1, 40); auto ty = r.coin() ? LmsType::LMS : LmsType::NLMS; int len = some_len(r, 0, 200); if (r.coin()) { LmsFilterR f(n, 0.01 * r.range(1, 100), ty, 0.9 + 0.001 * r.range(0, 100)); auto o = f.process(mk_real(r, len), mk_real(r, rel_len(r, len, a, 0))); use(o.y); use(o.e); f.set_lock_coeffs(r.coin()); auto o2 = f(mk_real(r, 5), mk_real(r, 5)); use(o2.e); use(f.coeffs()); } else { LmsFilterC f(n, 0.01 * r.range(1, 100), ty); auto o = f.process(mk_cmplx(r, len), mk_cmplx(r, rel_len(r, len, a, 0))); use(o.y); use(f.coeffs()); } }},
      {"RlsFilter", [](Rd& r, bool* a) { int n = r.range(1, 24); int len = some_len(r, 0, 100); if (r.coin()) { RlsFilterR f(n, 0.9 + 0.001 * r.range(0, 100), 0.01 * (1 + r.range(0, 9999))); auto o = f.process(mk_real(r, len), mk_real(r, rel_len(r, len, a, 0))); use(o.y); use(o.e); f.set_lock_coeffs(r.coin()); auto o2 = f(mk_real(r, 3), mk_real(r, 3)); use(o2.y); use(f.coeffs()); } else { RlsFilterC f(n); auto o = f.process(mk_cmplx(r, len), mk_cmplx(r, rel_len(r, len, a, 0))); use(o.e); } }},
      {"PreambleDetector", [](Rd& r, bool* a) { int nh = some_len(r, 1, 100); PreambleDetector d(mk_cmplx(r, nh), 0.3 + 0.006 * r.range(0, 100)); int fl = d.frame_len(); for (int i = 0, k = r.range(1, 3); i < k; ++i) { auto res = d.process(mk_cmplx(r, rel_len(r, fl, a, 0))); if (res) { use(res->preamble); use(res->score + res->offset); } if (r.range(0, 4) == 0) d.reset(); } }},
      // ---------------------------------------------------------------- multirate
      {"FIRDecimator", [](Rd& r, bool* a) { int M = r.range(1, 12); bool cust = r.coin(); auto mk = [&]() { return cust ? FIRDecimator(M, mk_real(r, some_len(r, 1, 100)) + 0.01) : FIRDecimator(M); }; auto f = mk(); for (int i = 0, k = r.range(1, 3); i < k; ++i) { int n = M * r.range(0, 20); use(f.process(mk_real(r, rel_len(r, n, a, 0)))); } use(double(f.delay() + f.decim_rate() + f.next_size(r.range(0, 100)) + f.prev_size(r.range(0, 100)))); }},
      {"FIRInterpolator", [](Rd& r, bool*) { int L = r.range(1, 12); bool cust = r.coin(); auto f = cust ? FIRInterpolator(L, mk_real(r, some_len(r, 1, 100)) + 0.01) : FIRInterpolator(L); for (int i = 0, k = r.range(1, 3); i < k; ++i) use(f.process(mk_real(r, some_len(r, 0, 100)))); use(double(f.delay() + f.interp_rate())); }},
      {"FIRRateConverter", [](Rd& r, bool* a) { int L = r.range(1, 12), M = r.range(1, 12); bool cust = r.coin(); auto f = cust ? FIRRateConverter(L, M, mk_real(r, some_len(r, 1, 100)) + 0.01) : FIRRateConverter(L, M); for (int i = 0, k = r.range(1, 3); i < k; ++i) { int n = M * r.range(0, 20); use(f.process(mk_real(r, rel_len(r, n, a, 0)))); } use(double(f.delay())); }},
      {"FIRResampler", [](Rd& r, bool* a) { static const int rates[] = {8000, 16000, 44100, 48000, 22050, 11025, 7, 5, 3, 2, 1}; int o = rates[r.range(0, 10)], in = rates[r.range(0, 10)]; bool cust = r.coin(); auto f = cust ? FIRResampler(o, in, mk_real(r, some_len(r, 1, 100)) + 0.01) : FIRResampler(o, in); int M = f.decim_rate(); int n = M * r.range(0, 6); use(f.process(mk_real(r, rel_len(r, n, a, 0)))); use(double(f.delay() + f.interp_rate())); }},
      {"resample()", [](Rd& r, bool*) { int p = r.range(1, 16), q = r.range(1, 16); auto x = mk_real(r, some_len(r, 1, 300)); if (r.coin()) use(resample(x, p, q)); else if (r.coin()) use(resample(x, p, q, r.range(1, 12), 0.5 * r.range(0, 20))); else use(resample(x, p, q, mk_real(r, some_len(r, 1, 80)) + 0.01)); }},
      {"design_multirate_fir/polyphase", [](Rd& r, bool*) { int L = r.range(1, 12), M = r.range(1, 12); use(design_multirate_fir(L, M, r.range(1, 14), 20.0 + r.range(0, 80))); auto pp = IResampler::polyphase(mk_real(r, some_len(r, 1, 60)) + 0.01, r.range(1, 8), 1.0, r.coin()); use(double(pp.size())); auto s = IResampler::simplify(r.range(1, 100), r.range(1, 100)); use(double(s.first + s.second)); }},
      {"from_file(missing)", [](Rd& r, bool* a) { *a = true; use(from_file("/nonexistent/c05", dtype(r.range(0, 3)), r.coin() ? endian::little : endian::big, r.range(0, 9), r.range(0, 9))); }},
      // ---------------------------------------------------------------- added later (entries 71..): selected by the top byte values, see execute()
      {"welch/mscohere short forms", [](Rd& r, bool* a) { int wl = r.range(1, 70); int n = rel_len(r, wl * 3, a, 0); if (n < wl) *a = true; auto t = r.coin() ? SpectrumType::Psd : SpectrumType::Power; auto win = r.coin() ? window::hann(wl) : window::hamming(wl); int k = r.range(0, 6); if (k == 0) { auto w = welch(mk_real(r, n), win, t); use(w.pxx); use(w.f); } else if (k == 1) { auto w = welch(mk_cmplx(r, n), win, t); use(w.pxx); use(w.f); } else if (k == 2) { int nfft = r.range(1, 80); int ov = r.range(-1, wl + 1); if (nfft < wl || ov < 0 || ov >= wl) *a = true; auto w = welch(mk_cmplx(r, n), wl, ov, nfft, t); use(w.pxx); } else if (k == 3) use(mscohere(mk_real(r, n), mk_real(r, rel_len(r, n, a, 0)), wl)); else if (k == 4) use(mscohere(mk_real(r, n), mk_real(r, rel_len(r, n, a, 0)), win)); else if (k == 5) { int nfft = r.range(1, 80); int ov = r.range(-1, wl + 1); if (nfft < wl || ov < 0 || ov >= wl) *a = true; use(mscohere(mk_real(r, n), mk_real(r, rel_len(r, n, a, 0)), win, ov, nfft)); } else { auto w = welch(mk_real(r, n), win, r.range(0, wl - 1), wl + r.range(0, 9), t); use(w.pxx); } }},
      {"dot/mse/nmse/power complex", [](Rd& r, bool* a) { int n = some_len(r, 0, 64); auto x = mk_cmplx(r, n); int m = rel_len(r, n, a); int k = r.range(0, 4); if (n == 0) *a = true; if (k == 0) { auto d = dot(x, mk_cmplx(r, m)); use(d.re + d.im); } else if (k == 1) use(mse(x, mk_cmplx(r, m))); else if (k == 2) use(nmse(x, mk_cmplx(r, m))); else if (k == 3) use(nmse(mk_real(r, n), mk_real(r, m))); else use(power(x, mk_real(r, m))); }},
      {"stft odd nfft/long window/two windows", [](Rd& r, bool* a) { int nfft = r.range(1, 70); int wl = r.range(1, 80); if (wl > nfft || (nfft & 3)) *a = true; int ov = r.range(0, wl - 1); auto win = r.coin() ? window::hann(wl, false) : window::hamming(wl); auto x = mk_real(r, rel_len(r, wl * 3, a, 0)); auto rg = StftRange(r.range(0, 2)); auto S = stft(x, win, ov, nfft, rg); auto win2 = r.coin() ? win : mk_real(r, rel_len(r, wl, a, 0)); use(istft(S, win2, r.coin() ? ov : r.range(0, wl), nfft, rg, r.coin() ? OverlapMethod::Ola : OverlapMethod::Wola)); }},
      {"strided slice=array/slice of another length", [](Rd& r, bool* a) { int n = some_len(r, 1, 40); auto x = mk_real(r, n); int st = r.range(1, 4) * (r.coin() ? 1 : -1); int i1 = r.range(0, n - 1), i2 = r.range(-1, n); if (st > 0 ? i2 < i1 : i2 > i1) *a = true; int cnt = st > 0 ? std::max(0, (i2 - i1 + st - 1) / st) : std::max(0, (i1 - i2 - st - 1) / (-st)); int k = r.range(0, 2); if (k == 0) x.slice(i1, i2, st) = mk_real(r, rel_len(r, cnt, a)); else if (k == 1) { auto y = mk_real(r, some_len(r, 1, 40)); int m = rel_len(r, cnt, a); if (m > y.size()) *a = true; x.slice(i1, i2, st) = y.slice(0, std::min(m, y.size())); } else { int j1 = r.range(0, n - 1); int m = rel_len(r, cnt, a); x.slice(i1, i2, st) = x.slice(j1, std::min(n, j1 + m)); } use(x); }},
      {"czt zoom / few outputs, CztPlan reuse", [](Rd& r, bool* a) { int n = some_len(r, 1, 200); int m = r.coin() ? r.range(1, std::max(1, n / 2)) : r.range(n, 4 * n + 3); double th = (r.range(0, 200) - 100) * 0.0314; cmplx_t w = expj(th), aa = r.coin() ? cmplx_t(1) : cmplx_t(0.8, 0.3); CztPlan p(n, m, w, aa); use(p.solve(mk_cmplx(r, rel_len(r, n, a, 0)))); use(p(mk_cmplx(r, n))); use(czt(mk_cmplx(r, n), m, w)); }},
      {"FirFilter coeffs()/conv forms", [](Rd& r, bool* a) { int nh = some_len(r, 1, 40); FirFilterR f(mk_real(r, nh)); use(f.process(mk_real(r, some_len(r, 0, 100)))); use(f.coeffs()); use(f.process(mk_real(r, some_len(r, 0, 100)))); FirFilterC g(mk_cmplx(r, nh)); use(g.process(mk_cmplx(r, some_len(r, 0, 60)))); use(g.coeffs()); int nx = rel_len(r, nh, a, 0); if (nx < nh) *a = true; use(FirFilterC::conv(mk_cmplx(r, nx), mk_cmplx(r, nh))); }},

    };
    return T;
}

// Executes the program encoded in bytes; every step is wrapped so that a C++ exception is a normal outcome.
inline void execute(const uint8_t* data, size_t size, Trace* tr) {
    Rd r{data, size};
    const auto& T = table();
    int steps = 0;
    while (!r.done() && steps < 8) {
        // entry selection: the first 71 entries keep the byte -> entry map they had when the committed replays and the seed corpus were
        // written (byte % 71 for bytes below 213); the bytes 213..255 select the entries added later
        constexpr int OLD = 71;
        const int b = r.u8();
        const int ep = (b < 3 * OLD || int(T.size()) <= OLD) ? b % OLD : OLD + (b - 3 * OLD) % (int(T.size()) - OLD);
        bool adv = false;
        if (tr && tr->progress) *tr->progress = ep;
        try {
            T[size_t(ep)].fn(r, &adv);
            if (tr) tr->returns++;
        } catch (const std::exception&) {
            if (tr) tr->exceptions++;
        }
        if (tr) tr->hits.emplace_back(ep, adv ? 1 : 0);
        ++steps;
    }
}

}   // namespace c05
