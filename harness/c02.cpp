// C02  Inverse transforms invert the forward transforms (ifft / irfft / IfftPlan / IfftPlanR, stft / istft / iscola).
// Oracles: O(n^2) long-double inverse DFT and the original signal (round trip); for STFT the accumulated window weight
// is recomputed here in long double and carries the a-priori error bound of DESIGN section 4 (C02).
#include "kit/num.h"
#include "kit/prelude.h"
#include <dsplib.h>

using namespace vk;
using namespace dsplib;

#if defined(__SANITIZE_ADDRESS__)
#define C02_SAN 1
#elif defined(__has_feature)
#if __has_feature(address_sanitizer)
#define C02_SAN 1
#endif
#endif
#ifndef C02_SAN
#define C02_SAN 0
#endif

namespace {

// sanitizer builds (registered for the thorough tier) run the quick-sized exploration: they are there for memory safety
// of the rejected / accepted paths, the numerical breadth comes from the rel run.
bool small_tier(const Ctx& ctx) { return ctx.quick() || C02_SAN; }

bool is_prime(int n) {
    if (n < 2) return false;
    for (int d = 2; int64_t(d) * d <= n; ++d) if (n % d == 0) return false;
    return true;
}
const char* plan_kind(int n) {
    if (n == 1 || n == 2 || n == 4 || n == 8) return "small";
    if (n == 3) return "n3-kernel";
    if (is_prime(n)) return n <= 41 ? "prime-direct" : "prime-bluestein";
    if ((n & (n - 1)) == 0) return "pow2";
    return "factor-tree";
}
std::string rkind(int n) { return n == 2 ? "n==2" : fmt("n%%4==%d/half-%s", n % 4, plan_kind(n / 2)); }

// ||got - ref||_2 / (c n eps ||ref||_2)
double ratio_of(const std::vector<cld>& got, const std::vector<cld>& ref, int n, double c) {
    if (got.size() != ref.size()) return 1e300;
    for (auto& v : got) if (!std::isfinite(double(v.real())) || !std::isfinite(double(v.imag()))) return 1e300;
    ld nr = l2(ref);
    ld d = l2diff(got, ref);
    if (nr == 0) return d == 0 ? 0.0 : 1e300;
    return double(d / (ld(c) * n * EPS * nr));
}
std::vector<cld> real_to_cld(const arr_real& y) { return to_cld(y); }

// X = DFT of a real x in long double, rounded to double
arr_cmplx rounded_dft(const arr_real& x) {
    auto X = ld_dft(to_cld(x));
    arr_cmplx r(x.size());
    for (int i = 0; i < x.size(); ++i) r[i] = cmplx_t(double(X[size_t(i)].real()), double(X[size_t(i)].imag()));
    return r;
}
arr_cmplx head(const arr_cmplx& X, int m) {
    arr_cmplx r(m);
    for (int i = 0; i < m; ++i) r[i] = X[i];
    return r;
}

}   // namespace

// =========================================================================================== ifft, every length
VK_SUB(ifa, "ifft_all_lengths");
static void ifa_check(const Json& c, Out& o) {
    const int n = c.geti("n"), cls = c.geti("cls");
    Rng r(c.getu("seed"));
    const arr_cmplx x = to_arr(gen_cmplx(r, n, cls));
    const auto xl = to_cld(x);
    IfftPlan plan(n);
    if (plan.size() != n) o.fail("ifftplan:size", fmt("IfftPlan(%d).size()=%d", n, plan.size()));

    // (a) x taken as an arbitrary spectrum: against the long-double inverse DFT, one transform => C01's budget 32 n eps
    {
        const auto ref = ld_dft(xl, true);
        std::pair<const char*, std::vector<cld>> got[] = {
          {"ifft(X)", to_cld(ifft(x))}, {"IfftPlan()(X)", to_cld(plan(x))}, {"IfftPlan::solve(X)", to_cld(plan.solve(x))}};
        for (auto& g : got) {
            double rt = ratio_of(g.second, ref, n, 32);
            o.metric("ifft-vs-idft err/tol", rt);
            if (!(rt <= 1))
                o.fail(std::string("ifft:idft:") + plan_kind(n), fmt("%s n=%d class=%s: ||y-idft(X)||/(32 n eps ||idft(X)||) = %.4g (size %zu)", g.first, n, sig_name(cls), rt, g.second.size()));
        }
    }
    // (b) round trip: two transforms => 64 n eps
    {
        const arr_cmplx X = fft(x);
        std::pair<const char*, std::vector<cld>> got[] = {{"ifft(fft(x))", to_cld(ifft(X))}, {"IfftPlan()(fft(x))", to_cld(plan(X))}};
        for (auto& g : got) {
            double rt = ratio_of(g.second, xl, n, 64);
            o.metric("ifft-roundtrip err/tol", rt);
            if (!(rt <= 1))
                o.fail(std::string("ifft:roundtrip:") + plan_kind(n), fmt("%s n=%d class=%s: ||y-x||/(64 n eps ||x||) = %.4g (size %zu)", g.first, n, sig_name(cls), rt, g.second.size()));
        }
    }
    if (n >= 2 && l2(xl) > 0) o.nontrivial(key_of(n, cls));
    o.label(std::string("plan:") + plan_kind(n));
    o.label(std::string("input:") + sig_name(cls));
    o.evals = 5;
}
static std::vector<int> length_list(Ctx& ctx, int full_quick, int top, int nsampled, uint64_t tag) {
    std::vector<int> lens;
    const int full = small_tier(ctx) ? full_quick : top;
    for (int n = 1; n <= full; ++n) lens.push_back(n);
    if (full < top) {
        Rng r(mix(ctx.seed, tag));
        for (int k = 0; k < nsampled; ++k) lens.push_back(r.range(full + 1, top));
    }
    return lens;
}
// quick tier: the O(n^2) reference dominates above n = 1024, where four of the nine input classes are kept
static bool skip_class(const Ctx& ctx, int n, int cls) {
    return small_tier(ctx) && n > 1024 && !(cls == S_GAUSS || cls == S_DYNRANGE || cls == S_TONE || cls == S_IMPULSE_RAND);
}
static void ifa_gen(Ctx& ctx) {
    const int reps = small_tier(ctx) ? 1 : 3;
    for (int n : length_list(ctx, C02_SAN ? 300 : 1024, 2048, C02_SAN ? 48 : 256, 0xC02A))
        for (int cls = 0; cls < S_NCLASSES; ++cls)
            for (int rep = 0; rep < reps; ++rep) {
                if (skip_class(ctx, n, cls)) continue;
                if (!ctx.mine()) continue;
                ctx.eval(Json::object().set("n", n).set("cls", cls).set("seed", (long long)(mix(ctx.seed, key_of(n, cls, rep, 1)) >> 16)));
            }
}

// =========================================================================================== ifft near the top of the double range
// ifft(fft(x)) must reproduce x whenever x and fft(x) are representable.  For lengths that only use the radix-2/3/5 butterflies
// (never a chirp-z convolution, whose intermediate products need extra headroom) the inverse of a finite spectrum never exceeds
// max|X| in its partial sums - provided the 1/n scaling is applied where the library applies it.  x: 1..3 non-zero samples of
// magnitude DBL_MAX/32, so max|fft(x)| <= DBL_MAX/10.
VK_SUB(hdr, "ifft_headroom");
static void hdr_check(const Json& c, Out& o) {
    const int n = c.geti("n"), k = c.geti("k");
    Rng r(c.getu("seed"));
    arr_cmplx x(n);
    const double A = std::numeric_limits<double>::max() / 32;
    for (int j = 0; j < k; ++j) { const double ph = r.uni(0, 2 * M_PI); x[r.range(0, n - 1)] = cmplx_t(A * std::cos(ph), A * std::sin(ph)); }
    const auto xl = to_cld(x);
    const arr_cmplx X = fft(x);
    for (int i = 0; i < n; ++i) if (!std::isfinite(X[i].re) || !std::isfinite(X[i].im)) { o.label("premise-failed:fft(x) not finite"); o.discard = true; return; }
    IfftPlan plan(n);
    std::pair<const char*, std::vector<cld>> got[] = {{"ifft(fft(x))", to_cld(ifft(X))}, {"IfftPlan()(fft(x))", to_cld(plan(X))}};
    for (auto& g : got) {
        bool fin = g.second.size() == size_t(n);
        for (auto& v : g.second) fin = fin && std::isfinite(double(v.real())) && std::isfinite(double(v.imag()));
        if (!fin) { o.fail("ifft:headroom:not-finite", fmt("%s n=%d, %d samples of magnitude DBL_MAX/32 (fft(x) is finite, max|X| <= DBL_MAX/10): result contains inf/nan", g.first, n, k)); return; }
        double rt = ratio_of(g.second, xl, n, 64);
        o.metric("ifft-headroom roundtrip err/tol", rt);
        if (!(rt <= 1)) { o.fail("ifft:headroom:roundtrip", fmt("%s n=%d: ||y-x||/(64 n eps ||x||) = %.4g", g.first, n, rt)); return; }
    }
    o.nontrivial(key_of(n, k, 0x4D));
    o.label(fmt("nonzero-samples:%d", k));
    o.label(n < 64 ? "n:<64" : n < 1024 ? "n:64-1023" : "n:>=1024");
    o.evals = 2;
}
static void hdr_gen(Ctx& ctx) {
    for (int n = 16; n <= (small_tier(ctx) ? 4096 : 65536); ++n) {
        int m = n;
        for (int p : {2, 3, 5}) while (m % p == 0) m /= p;
        if (m != 1) continue;
        for (int k = 1; k <= 3; ++k) {
            if (!ctx.mine()) continue;
            ctx.eval(Json::object().set("n", n).set("k", k).set("seed", (long long)(mix(ctx.seed, key_of(n, k, 0x4D)) >> 16)));
        }
    }
}

// =========================================================================================== irfft, every even length
VK_SUB(ira, "irfft_even_lengths");
static void ira_check(const Json& c, Out& o) {
    const int n = c.geti("n"), cls = c.geti("cls");
    Rng r(c.getu("seed"));
    const arr_real x = to_arr(gen_real(r, n, cls));
    const auto xl = to_cld(x);
    const arr_cmplx X = rounded_dft(x);           // all n bins
    const arr_cmplx Xh = head(X, n / 2 + 1);      // first n/2+1 bins
    IfftPlanR plan(n);
    if (plan.size() != n) o.fail("ifftplanr:size", fmt("IfftPlanR(%d).size()=%d", n, plan.size()));
    struct G { const char* name; const char* form; std::vector<cld> y; };
    G got[] = {
      {"irfft(X[n], n)", "full", real_to_cld(irfft(X, n))},
      {"irfft(X[n/2+1], n)", "half", real_to_cld(irfft(Xh, n))},
      {"irfft(X[n])", "full", real_to_cld(irfft(X))},
      {"IfftPlanR(n)(X[n])", "full", real_to_cld(plan(X))},
      {"IfftPlanR(n).solve(X[n/2+1])", "half", real_to_cld(plan.solve(Xh))},
      {"irfft(rfft(x))", "roundtrip", real_to_cld(irfft(rfft(x)))},
      {"irfft(rfft(x)[0..n/2], n)", "roundtrip-half", real_to_cld(irfft(head(rfft(x), n / 2 + 1), n))},
    };
    for (auto& g : got) {
        double rt = ratio_of(g.y, xl, n, 64);
        o.metric(std::string("irfft ") + g.form + " err/tol", rt);
        if (!(rt <= 1))
            o.fail(std::string("irfft:") + g.form + ":" + rkind(n), fmt("%s n=%d class=%s: ||y-x||/(64 n eps ||x||) = %.4g (size %zu)", g.name, n, sig_name(cls), rt, g.y.size()));
    }
    if (l2(xl) > 0) o.nontrivial(key_of(n, cls));
    o.label(n == 2 ? "n==2" : fmt("n%%4==%d", n % 4));
    o.label(std::string("half-plan:") + plan_kind(n / 2));
    o.label(std::string("input:") + sig_name(cls));
    o.evals = long(sizeof(got) / sizeof(got[0]));
}
static void ira_gen(Ctx& ctx) {
    const int reps = small_tier(ctx) ? 1 : 3;
    for (int h : length_list(ctx, C02_SAN ? 150 : 1024, 1024, 32, 0xC02B))   // n = 2h: every even n <= 2048 in both tiers
        for (int cls = 0; cls < S_NCLASSES; ++cls)
            for (int rep = 0; rep < reps; ++rep) {
                if (skip_class(ctx, 2 * h, cls)) continue;
                if (!ctx.mine()) continue;
                ctx.eval(Json::object().set("n", 2 * h).set("cls", cls).set("seed", (long long)(mix(ctx.seed, key_of(h, cls, rep, 2)) >> 16)));
            }
}

// =========================================================================================== odd n must be rejected
VK_SUB(odd, "irfft_odd_rejected");
static void odd_check(const Json& c, Out& o) {
    const int n = c.geti("n");
    Rng r(c.getu("seed"));
    const arr_real x = to_arr(gen_real(r, n, S_GAUSS));
    const arr_cmplx X = rounded_dft(x);
    const arr_cmplx Xh = head(X, n / 2 + 1);
    // in a child: a sanitizer report / crash on the rejected path is a failure of this case only
    run_forked(o, 60, [&](Out& co) {
        auto expect = [&](const char* what, const std::function<int()>& f) {
            try {
                int sz = f();
                co.fail("irfft:odd-accepted", fmt("%s with odd n=%d returned normally (%d values) instead of throwing", what, n, sz));
            } catch (const std::exception&) {
                // the contract
            } catch (...) {
                co.fail("irfft:odd-nonstd-exception", fmt("%s with odd n=%d threw something that is not a std::exception", what, n));
            }
        };
        expect("irfft(X[n], n)", [&]() { return irfft(X, n).size(); });
        expect("irfft(X[n/2+1], n)", [&]() { return irfft(Xh, n).size(); });
        expect("irfft(X[n])", [&]() { return irfft(X).size(); });
        expect("irfft(rfft(x))", [&]() { return irfft(rfft(x)).size(); });
        expect("IfftPlanR(n)", [&]() { IfftPlanR p(n); return p.size(); });
        co.evals = 5;
        co.nontrivial(key_of(n));
        co.label(n == 1 ? "n==1" : fmt("n%%4==%d", n % 4));
    });
}
static void odd_gen(Ctx& ctx) {
    for (int n = 1; n <= 257; n += 2) {
        if (!ctx.mine()) continue;
        ctx.eval(Json::object().set("n", n).set("seed", (long long)(mix(ctx.seed, key_of(n, 3)) >> 16)));
    }
}

// =========================================================================================== sampled larger n
// Dense input: round trip through the library's own forward transform (64 n eps).  Sparse spectrum (<= 6 non-zero bins):
// the inverse transform has an O(n J) closed form in long double, so the single inverse is checked without an O(n^2) sum.
VK_SUB(lg, "larger_lengths");
static void lg_check(const Json& c, Out& o) {
    const int n = c.geti("n"), J = c.geti("J");
    const bool real_out = c.geti("real") != 0;
    Rng r(c.getu("seed"));
    auto ph = [&](int k, int m) {
        uint64_t q = (uint64_t(k) * uint64_t(m)) % uint64_t(n);
        ld a = 2 * PI_L * ld(q) / ld(n);
        return cld(cosl(a), sinl(a));
    };
    if (!real_out) {
        arr_cmplx X(n);
        std::vector<int> ks;
        for (int j = 0; j < J; ++j) {
            int k = j == 0 ? r.range(0, 1) * (n - 1) : r.range(0, n - 1);
            ks.push_back(k);
            X[k] = cmplx_t(r.gauss() * n, r.gauss() * n);
        }
        std::sort(ks.begin(), ks.end());
        ks.erase(std::unique(ks.begin(), ks.end()), ks.end());
        std::vector<cld> ref(size_t(n), cld(0));
        for (int k : ks) { cld a = to_cld(X[k]) / ld(n); for (int m = 0; m < n; ++m) ref[size_t(m)] += a * ph(k, m); }
        IfftPlan plan(n);
        double r1 = ratio_of(to_cld(ifft(X)), ref, n, 32), r2 = ratio_of(to_cld(plan(X)), ref, n, 32);
        o.metric("ifft sparse err/tol", std::max(r1, r2));
        if (!(r1 <= 1) || !(r2 <= 1)) o.fail(std::string("ifft:idft:") + plan_kind(n), fmt("n=%d sparse spectrum (%d bins): err/(32 n eps ||ref||) = %.4g (ifft) %.4g (IfftPlan)", n, J, r1, r2));
        const arr_cmplx x = to_arr(gen_cmplx(r, n, S_GAUSS));
        double r3 = ratio_of(to_cld(ifft(fft(x))), to_cld(x), n, 64);
        o.metric("ifft-roundtrip err/tol", r3);
        if (!(r3 <= 1)) o.fail(std::string("ifft:roundtrip:") + plan_kind(n), fmt("ifft(fft(x)) n=%d: err/(64 n eps ||x||) = %.4g", n, r3));
        o.label(std::string("ifft plan:") + plan_kind(n));
    } else {
        arr_cmplx Xh(n / 2 + 1);
        std::vector<int> ks;
        for (int j = 0; j < J; ++j) {
            int k = j == 0 ? r.range(0, 1) * (n / 2) : r.range(0, n / 2);
            ks.push_back(k);
            Xh[k] = (k == 0 || k == n / 2) ? cmplx_t(r.gauss() * n, 0) : cmplx_t(r.gauss() * n, r.gauss() * n);
        }
        std::sort(ks.begin(), ks.end());
        ks.erase(std::unique(ks.begin(), ks.end()), ks.end());
        arr_cmplx X(n);
        for (int k = 0; k <= n / 2; ++k) X[k] = Xh[k];
        for (int k = n / 2 + 1; k < n; ++k) X[k] = cmplx_t(Xh[n - k].re, -Xh[n - k].im);
        std::vector<cld> ref(size_t(n), cld(0));
        for (int k : ks) {
            cld a = to_cld(Xh[k]) / ld(n);
            ld w = (k == 0 || k == n / 2) ? 1 : 2;
            for (int m = 0; m < n; ++m) ref[size_t(m)] += cld(w * (a * ph(k, m)).real(), 0);
        }
        IfftPlanR plan(n);
        double r1 = ratio_of(to_cld(irfft(Xh, n)), ref, n, 64), r2 = ratio_of(to_cld(irfft(X, n)), ref, n, 64), r4 = ratio_of(to_cld(plan(Xh)), ref, n, 64);
        o.metric("irfft sparse err/tol", std::max(r1, std::max(r2, r4)));
        if (!(r1 <= 1) || !(r2 <= 1) || !(r4 <= 1))
            o.fail("irfft:sparse:" + rkind(n), fmt("n=%d sparse half spectrum (%d bins): err/(64 n eps ||ref||) = %.4g (half) %.4g (full) %.4g (plan, half)", n, J, r1, r2, r4));
        const arr_real x = to_arr(gen_real(r, n, S_GAUSS));
        double r3 = ratio_of(to_cld(irfft(rfft(x))), to_cld(x), n, 64);
        double r5 = ratio_of(to_cld(irfft(head(fft(x), n / 2 + 1), n)), to_cld(x), n, 64);
        o.metric("irfft roundtrip err/tol", std::max(r3, r5));
        if (!(r3 <= 1) || !(r5 <= 1)) o.fail("irfft:roundtrip:" + rkind(n), fmt("irfft(rfft(x)) n=%d: err/(64 n eps ||x||) = %.4g (all bins) %.4g (first n/2+1)", n, r3, r5));
        o.label(fmt("irfft n%%4==%d", n % 4));
        o.label(std::string("irfft half-plan:") + plan_kind(n / 2));
    }
    o.nontrivial(key_of(n, int(real_out)));
    o.evals = real_out ? 5 : 3;
}
static void lg_gen(Ctx& ctx) {
    const int top = C02_SAN ? 8192 : ctx.by_tier(32768, 65536);
    std::vector<int> primes;
    for (int p = 2; p <= top; ++p) if (is_prime(p)) primes.push_back(p);
    auto prime_le = [&](int hi, int idx) {   // idx in [0, 1<<20) scaled onto the primes <= hi
        int k = int(std::upper_bound(primes.begin(), primes.end(), hi) - primes.begin());
        return primes[size_t((int64_t(idx) * k) >> 20)];
    };
    ctx.rc("random", C02_SAN ? 200 : ctx.by_tier(1600, 24000), [&]() {
        const bool real_out = flip();
        const int kind = pick(0, 5);
        const int idx = pick(0, (1 << 20) - 1);
        int n = 0;
        switch (kind) {
        case 0: n = 4096 << pick(0, top == 65536 ? 4 : top == 32768 ? 3 : 1); break;                       // 2^k
        case 1: n = 2 * prime_le(top / 2, idx); break;                                                      // 2 p   (n % 4 == 2)
        case 2: n = 4 * prime_le(top / 4, idx); break;                                                      // 4 p
        case 3: n = real_out ? 2 * (2 * pick(513, top / 4 - 1) + 1) : prime_le(top, idx); break;            // 2*odd | prime
        case 4: { n = 2; for (int f : {2, 2, 2, 3, 3, 5, 7, 11, 13}) if (flip() && int64_t(n) * f <= top) n *= f; break; }   // smooth
        default: n = 2 * pick(1025, top / 2);
        }
        if (!real_out && kind == 5 && flip()) n += 1;
        if (n <= 2048) n = 2 * pick(1025, top / 2);
        return Json::object().set("n", n).set("real", int(real_out)).set("J", pick(1, 6)).set("seed", (long long)seed64());
    });
}

// =========================================================================================== stft / istft
namespace {
enum Fam { W_RECT = 0, W_HANN, W_HAMMING, W_BLACKMAN, W_COSINE, W_KAISER, W_NFAM };
const char* fam_name(int f) {
    static const char* n[] = {"rectangular", "hann", "hamming", "blackman", "cosine", "kaiser"};
    return (f >= 0 && f < W_NFAM) ? n[f] : "?";
}
bool has_periodic(int f) { return f == W_HANN || f == W_HAMMING || f == W_BLACKMAN || f == W_COSINE; }
arr_real make_window(int fam, int nwin, bool sym, double beta) {
    switch (fam) {
    case W_HANN: return window::hann(nwin, sym);
    case W_HAMMING: return window::hamming(nwin, sym);
    case W_BLACKMAN: return window::blackman(nwin, sym);
    case W_COSINE: return window::cosine(nwin, sym);
    case W_KAISER: return window::kaiser(nwin, beta);
    default: return ones(nwin);
    }
}
const StftRange kRanges[] = {StftRange::Onesided, StftRange::Twosided, StftRange::Centered};
const char* kRangeName[] = {"onesided", "twosided", "centered"};
const OverlapMethod kMethods[] = {OverlapMethod::Ola, OverlapMethod::Wola};
const char* kMethodName[] = {"ola", "wola"};
const int kStftClasses[] = {S_GAUSS, S_TONE, S_IMPULSE_RAND, S_CONST, S_ALT, S_DYNRANGE, S_IMPULSE_LAST, S_IMPULSE0};

Json stft_case(int nfft, int fam, bool sym, double beta, int nwin, int ov, int range, int method, int cls, int nseg, int r, int dflt, uint64_t seed) {
    return Json::object().set("nfft", nfft).set("win", fam).set("sym", int(sym)).set("beta", beta).set("nwin", nwin).set("ov", ov)
      .set("range", range).set("method", method).set("cls", cls).set("nseg", nseg).set("r", r).set("dflt", dflt).set("seed", (long long)seed);
}
}   // namespace

VK_SUB(st, "stft_istft");
static void st_check(const Json& c, Out& o) {
    const int nfft = c.geti("nfft"), fam = c.geti("win"), nwin = c.geti("nwin"), ov = c.geti("ov");
    const bool sym = c.geti("sym") != 0;
    const double beta = c.getd("beta");
    const int range = c.geti("range"), method = c.geti("method"), cls = c.geti("cls"), nseg = c.geti("nseg"), r = c.geti("r");
    const bool dflt = c.geti("dflt") != 0;   // the overloads with the built-in window (periodic hann, overlap nfft/2)
    if (nfft < 2 || nfft % 2 || nwin < 1 || nwin > nfft || ov < 0 || ov >= nwin || nseg < 1 || range < 0 || range > 2 || method < 0 || method > 1 ||
        (dflt && !(fam == W_HANN && !sym && nwin == nfft && ov == nfft / 2))) {
        o.discard = true;
        return;
    }
    const arr_real win = make_window(fam, nwin, sym, beta);
    const int hop = nwin - ov;
    if (r < 0 || r >= hop) { o.discard = true; return; }
    // premise of the property: the pair is accepted by iscola for this method
    if (!iscola(win, ov, kMethods[method])) { o.discard = true; return; }

    const int ylen = nwin + (nseg - 1) * hop;
    const int L = ylen + r;
    Rng rg(c.getu("seed"));
    const arr_real x = to_arr(gen_real(rg, L, cls, 100));

    const auto S = dflt ? stft(x, nfft, kRanges[range]) : stft(x, win, ov, nfft, kRanges[range]);
    const arr_real y = dflt ? istft(S, nfft, kRanges[range], kMethods[method]) : istft(S, win, ov, nfft, kRanges[range], kMethods[method]);

    const std::string where = fmt("nfft=%d %s/%s nwin=%d ov=%d (hop %d) %s %s nseg=%d len=%d class=%s%s", nfft, fam_name(fam), sym ? "sym" : "periodic", nwin, ov, hop,
                                  kRangeName[range], kMethodName[method], nseg, L, sig_name(cls), dflt ? " [default-window overloads]" : "");
    if (y.size() != ylen) {
        o.fail("istft:length", fmt("%s: istft returned %d samples from %zu frames, %d complete frames fit => %d samples carry weight", where.c_str(), y.size(), S.size(), nseg, ylen));
        return;
    }
    // finite everywhere
    for (int i = 0; i < ylen; ++i)
        if (!std::isfinite(y[i])) {
            o.fail("istft:nonfinite", fmt("%s: y[%d] = %g of %d samples (x[%d] = %g)", where.c_str(), i, y[i], ylen, i, x[i]));
            return;
        }

    // accumulated weight W[i] = sum_t win^(a+1)[i - t hop] (a = 0 ola, 1 wola), and the error budget next to it:
    // each frame comes back from irfft(rfft()) with an error of at most 64 nfft eps max|frame| (<= max|x in frame| max|win|),
    // is weighted by win^a and divided by W; the accumulation itself adds (2 cnt + 8) eps |x[i]| sum|win|^(a+1) / W.
    const int a = method;
    std::vector<ld> W(size_t(ylen), 0), Wabs(size_t(ylen), 0), E(size_t(ylen), 0);
    std::vector<int> cnt(size_t(ylen), 0);
    ld wmax = 0;
    for (int j = 0; j < nwin; ++j) wmax = std::max(wmax, std::fabs(ld(win[j])));
    for (int t = 0; t < nseg; ++t) {
        const int t1 = t * hop;
        ld fm = 0;
        for (int j = 0; j < nwin; ++j) fm = std::max(fm, std::fabs(ld(x[t1 + j])));
        for (int j = 0; j < nwin; ++j) {
            const ld w = win[j];
            const size_t i = size_t(t1 + j);
            W[i] += a ? w * w : w;
            Wabs[i] += a ? w * w : std::fabs(w);
            E[i] += fm * (a ? std::fabs(w) : ld(1));
            cnt[i]++;
        }
    }
    ld Wmax = 0;
    for (ld v : W) Wmax = std::max(Wmax, v);
    const ld thr = 1e-9L * Wmax;
    long skipped = 0, skipped_tiny = 0, compared = 0;
    double worst = 0;
    for (int i = 0; i < ylen; ++i) {
        const ld w = W[size_t(i)];
        if (!(w > thr) || !(w > 0)) {   // zero (or flushed-to-one) weight: nothing is claimed but finiteness
            ++skipped;
            if (w != 0) ++skipped_tiny;
            continue;
        }
        const ld tol = (64 * ld(nfft) * EPS * wmax * E[size_t(i)] + (2 * cnt[size_t(i)] + 8) * EPS * std::fabs(ld(x[i])) * Wabs[size_t(i)]) / w;
        const ld e = std::fabs(ld(y[i]) - ld(x[i]));
        ++compared;
        if (tol > 0) worst = std::max(worst, double(e / tol));
        if (!(e <= tol)) {
            const char* zone = i < nwin - hop ? "head" : i >= ylen - (nwin - hop) ? "tail" : "steady";
            o.fail(std::string("istft:value:") + kRangeName[range] + ":" + kMethodName[method],
                   fmt("%s: y[%d] = %.17g, x[%d] = %.17g, |diff| = %.3Lg > tol %.3Lg (weight %.3Lg of max %.3Lg, %d frames, %s zone)", where.c_str(), i, y[i], i, x[i], e, tol, w, Wmax,
                       cnt[size_t(i)], zone));
            break;
        }
    }
    o.metric("stft err/tol", worst);
    const bool ends_zero = (win[0] == 0 || win[nwin - 1] == 0);
    bool nonzero = false;
    for (int i = 0; i < ylen; ++i) nonzero |= (x[i] != 0);
    if (nseg >= 2 && (r > 0 || ends_zero || skipped > 0) && compared > 0 && nonzero)
        o.nontrivial(key_of(nfft, fam, int(sym), nwin, ov, range, method, int(beta * 16)));
    o.label(std::string("window:") + fam_name(fam) + (has_periodic(fam) ? (sym ? "/sym" : "/periodic") : ""));
    o.label(std::string("range:") + kRangeName[range]);
    o.label(std::string("method:") + kMethodName[method]);
    o.label(hop == 1 ? "hop:1" : ov == 0 ? "hop:nwin (no overlap)" : nwin % hop ? "hop:does-not-divide-nwin" : "hop:divides-nwin");
    o.label(r > 0 ? "length:not-hop-aligned" : "length:hop-aligned");
    o.label(nwin < nfft ? "nwin<nfft" : "nwin==nfft");
    o.label((nfft & (nfft - 1)) == 0 ? "nfft:pow2" : "nfft:other-multiple-of-4");
    o.label(nseg == 1 ? "frames:1" : nseg * hop >= nwin + hop ? "frames:steady-state-reached" : "frames:partial-overlap-only");
    if (ends_zero) o.label("window-ends-in-zero");
    if (skipped) o.label("zero-weight-samples:value-check-skipped");
    if (skipped_tiny) o.label("zero-weight-samples:of-which-weight-tiny-but-not-exactly-0 (<1e-9 max)");
    if (dflt) o.label("api:default-window-overloads");
    o.label(std::string("input:") + sig_name(cls));
}

namespace {
// signal variants for one (window, overlap, range, method): number of frames and the remainder r in [0, hop)
void stft_variants(Ctx& ctx, int nfft, int fam, bool sym, double beta, int nwin, int ov, int range, int method, int nvar, long cap_work) {
    const int hop = nwin - ov;
    const int full = (nwin + hop - 1) / hop;   // frames until every hop position is covered by the maximal number of frames
    const int cap = int(std::max<long>(3, cap_work / nwin));
    Rng r(mix(ctx.seed, key_of(nfft, fam, int(sym), nwin, ov, range, method, int(beta * 16), 7)));
    for (int v = 0; v < nvar; ++v) {
        int nseg;
        switch (v % 4) {
        case 0: nseg = std::min(cap, full + 1 + r.range(0, 3)); break;
        case 1: nseg = 2 + r.range(0, 1); break;
        case 2: nseg = std::min(cap, std::max(2, r.range(2, 2 * full + 2))); break;
        default: nseg = r.range(1, 4);
        }
        int rem = hop == 1 ? 0 : (v % 3 == 0 ? r.range(1, hop - 1) : v % 3 == 1 ? hop - 1 : r.range(0, hop - 1));
        int cls = kStftClasses[size_t(r.range(0, int(sizeof(kStftClasses) / sizeof(int)) - 1))];
        if (v == 0) cls = S_GAUSS;
        const int dflt = (fam == W_HANN && !sym && nwin == nfft && ov == nfft / 2 && (v & 1)) ? 1 : 0;
        ctx.eval(stft_case(nfft, fam, sym, beta, nwin, ov, range, method, cls, nseg, rem, dflt, r.next() >> 16));
    }
}
std::vector<int> accepted_overlaps(const arr_real& win, int method) {
    std::vector<int> acc;
    for (int ov = 0; ov < win.size(); ++ov)
        if (iscola(win, ov, kMethods[method])) acc.push_back(ov);
    return acc;
}
}   // namespace

static void st_gen(Ctx& ctx) {
    const bool small = small_tier(ctx);
    // (1) the stated grid: every overlap 0..nwin-1 that iscola accepts
    const int nffts[] = {8, 16, 32, 64, 128, 256, 512, 1024, 12, 20, 24, 36, 40, 100, 200, 400};
    struct WS { int fam; bool sym; double beta; };
    std::vector<WS> wins;
    for (int f : {W_HANN, W_HAMMING, W_BLACKMAN, W_COSINE}) { wins.push_back({f, true, 0}); wins.push_back({f, false, 0}); }
    wins.push_back({W_RECT, true, 0});
    for (double b : {0.5, 2.5, 6.0, 12.0}) wins.push_back({W_KAISER, true, b});
    const long cap_work = C02_SAN ? 60000 : ctx.by_tier(250000L, 1500000L);
    const int nvar = small ? 2 : 4;
    for (int nfft : nffts) {
        std::vector<int> nwins = {nfft, nfft / 2, nfft - 3};
        if (!small) { nwins.push_back(nfft - 1); nwins.push_back(nfft / 4 * 3); nwins.push_back(nfft / 4 + 1); }
        std::sort(nwins.begin(), nwins.end());
        nwins.erase(std::unique(nwins.begin(), nwins.end()), nwins.end());
        for (int nwin : nwins) {
            if (nwin < 3) continue;
            for (auto& ws : wins)
                for (int method = 0; method < 2; ++method) {
                    if (!ctx.mine()) continue;   // sharded per (nfft, nwin, window, method): the overlap scan is done once
                    const arr_real win = make_window(ws.fam, nwin, ws.sym, ws.beta);
                    for (int ov : accepted_overlaps(win, method))
                        for (int range = 0; range < 3; ++range) stft_variants(ctx, nfft, ws.fam, ws.sym, ws.beta, nwin, ov, range, method, nvar, cap_work);
                }
        }
    }
    // (2) random: any multiple of 4 up to 1024, any window length <= nfft, any kaiser beta, one of the accepted overlaps
    ctx.rc("random", C02_SAN ? 1500 : ctx.by_tier(60000, 1200000), [&]() {
        const int nfft = 4 * pick_log(2, 256);
        const int nwin = flip() ? nfft : pick(3, nfft);   // periodic windows of length 2 throw in window::* (not this property)
        const int fam = pick(0, W_NFAM - 1);
        const bool sym = has_periodic(fam) ? flip() : true;
        const double beta = fam == W_KAISER ? pickd(0, 20) : 0.0;
        const int method = pick(0, 1);
        const arr_real win = make_window(fam, nwin, sym, beta);
        const auto acc = accepted_overlaps(win, method);   // never empty: hop = 1 is always accepted
        const int ov = acc.empty() ? nwin - 1 : acc[size_t(pick(0, int(acc.size()) - 1))];
        const int hop = nwin - ov;
        const int full = (nwin + hop - 1) / hop;
        const int cap = std::max(3, int((C02_SAN ? 40000 : 200000) / nwin));
        const int nseg = std::min(cap, flip() ? pick(1, 4) : pick(2, 2 * full + 2));
        const int rem = hop == 1 ? 0 : (flip() ? pick(1, hop - 1) : pick(0, hop - 1));
        const int cls = kStftClasses[size_t(pick(0, int(sizeof(kStftClasses) / sizeof(int)) - 1))];
        return stft_case(nfft, fam, sym, beta, nwin, ov, pick(0, 2), method, cls, nseg, rem, 0, seed64());
    });
}


// ------------------------------------------------------------------------------------------- sequences of inverse-transform calls
// Successive ifft / irfft / IfftPlanR calls of neighbouring sizes inside ONE case (one thread): every call must still return the
// inverse for ITS OWN arguments and every odd irfft size must still be rejected, whatever was requested just before
// (a result or a rejection must not depend on the previous call).
// =========================================================================================== stft / istft: every way of calling
// The header documents the short forms: stft(x, nfft[, range]) and istft(S, nfft[, range[, method]]) use hann(nfft, periodic) and
// overlap nfft/2; range defaults to Onesided, istft's method to Wola, iscola's to Ola.  Each short form must return exactly what the
// fully explicit call returns (bit for bit - it is the same computation), for every range and both methods, whether or not the
// pair is COLA (the forms must agree even where no reconstruction is claimed).
namespace {
bool same_frames(const std::vector<arr_cmplx>& a, const std::vector<arr_cmplx>& b) {
    if (a.size() != b.size()) return false;
    for (size_t i = 0; i < a.size(); ++i) {
        if (a[i].size() != b[i].size()) return false;
        for (int k = 0; k < a[i].size(); ++k) if (std::memcmp(&a[i][k], &b[i][k], sizeof(cmplx_t)) != 0 && !(a[i][k].re == b[i][k].re && a[i][k].im == b[i][k].im)) return false;
    }
    return true;
}
bool same_real(const arr_real& a, const arr_real& b) {
    if (a.size() != b.size()) return false;
    for (int i = 0; i < a.size(); ++i) if (!(a[i] == b[i]) && !(a[i] != a[i] && b[i] != b[i])) return false;
    return true;
}
}   // namespace
VK_SUB(forms, "stft_call_forms");
static void forms_check(const Json& c, Out& o) {
    const int nfft = c.geti("nfft"), L = c.geti("len"), nwin = c.geti("nwin"), ov = c.geti("ov");
    Rng r(c.getu("seed"));
    const arr_real x = to_arr(gen_real(r, L, int(S_GAUSS), 100));
    const StftRange ranges[3] = {StftRange::Onesided, StftRange::Twosided, StftRange::Centered};
    const char* rn[3] = {"onesided", "twosided", "centered"};
    const arr_real hp = window::hann(nfft, false);
    long ev = 0;
    for (int ri = 0; ri < 3; ++ri) {
        const auto S_short = stft(x, nfft, ranges[ri]);
        const auto S_full = stft(x, hp, nfft / 2, nfft, ranges[ri]);
        ++ev;
        if (!same_frames(S_short, S_full)) { o.fail("forms:stft(x,nfft,range)", fmt("stft(x, %d, %s) differs from stft(x, hann(%d, periodic), %d, %d, %s) (len x = %d)", nfft, rn[ri], nfft, nfft / 2, nfft, rn[ri], L)); return; }
        for (int mi = 0; mi < 2; ++mi) {
            const OverlapMethod m = mi ? OverlapMethod::Wola : OverlapMethod::Ola;
            ++ev;
            if (!same_real(istft(S_full, nfft, ranges[ri], m), istft(S_full, hp, nfft / 2, nfft, ranges[ri], m))) {
                o.fail("forms:istft(S,nfft,range,method)", fmt("istft(S, %d, %s, %s) differs from istft(S, hann(%d, periodic), %d, %d, ...) (len x = %d)", nfft, rn[ri], mi ? "wola" : "ola", nfft, nfft / 2, nfft, L));
                return;
            }
        }
        ++ev;
        if (!same_real(istft(S_full, nfft, ranges[ri]), istft(S_full, hp, nfft / 2, nfft, ranges[ri], OverlapMethod::Wola))) { o.fail("forms:istft(S,nfft,range) default method", fmt("nfft=%d %s", nfft, rn[ri])); return; }
    }
    ++ev;
    if (!same_frames(stft(x, nfft), stft(x, hp, nfft / 2, nfft, StftRange::Onesided))) { o.fail("forms:stft(x,nfft) default range", fmt("nfft=%d", nfft)); return; }
    // an arbitrary window / overlap: the defaulted trailing arguments
    const arr_real w = window::hamming(nwin, (c.geti("sym") != 0));
    if (L >= nwin) {
        const auto S1 = stft(x, w, ov, nfft);
        ev += 4;
        if (!same_frames(S1, stft(x, w, ov, nfft, StftRange::Onesided))) { o.fail("forms:stft(x,win,ov,nfft) default range", fmt("nfft=%d nwin=%d ov=%d", nfft, nwin, ov)); return; }
        if (!same_real(istft(S1, w, ov, nfft), istft(S1, w, ov, nfft, StftRange::Onesided, OverlapMethod::Wola))) { o.fail("forms:istft(S,win,ov,nfft) defaults", fmt("nfft=%d nwin=%d ov=%d", nfft, nwin, ov)); return; }
        const auto S2 = stft(x, w, ov, nfft, StftRange::Twosided);
        if (!same_real(istft(S2, w, ov, nfft, StftRange::Twosided), istft(S2, w, ov, nfft, StftRange::Twosided, OverlapMethod::Wola))) { o.fail("forms:istft(...,range) default method", fmt("nfft=%d nwin=%d ov=%d", nfft, nwin, ov)); return; }
        if (iscola(w, ov) != iscola(w, ov, OverlapMethod::Ola)) { o.fail("forms:iscola(win,ov) default method", fmt("nwin=%d ov=%d", nwin, ov)); return; }
    }
    o.evals = ev;
    o.nontrivial(key_of(nfft, L, nwin, ov, 0xF0));
    o.label(L >= 4 * nfft ? "frames:many" : L >= nfft ? "frames:few" : "frames:none (x shorter than the window)");
}
static void forms_gen(Ctx& ctx) {
    ctx.rc("random", ctx.by_tier(6000, 60000), [&]() {
        const int nfft = pick(0, 2) == 0 ? 4 * pick(2, 64) : (8 << pick(0, 7));
        const int nwin = pick(0, 1) ? nfft : pick(3, nfft);
        const int L = pick(0, 9) == 0 ? pick(1, nfft) : pick(nfft, 6 * nfft + 7);
        return Json::object().set("nfft", nfft).set("len", L).set("nwin", nwin).set("ov", pick(0, nwin - 1)).set("sym", pick(0, 1)).set("seed", (long long)seed64());
    });
}

VK_SUB(seqs, "inverse_call_sequences");
static void seqs_check(const Json& c, Out& o) {
    int idx = 0;
    o.evals = 0;
    for (auto& call : c.at("calls").a) {
        const int n = call.geti("n"), form = call.geti("form");
        Rng r(call.getu("seed"));
        ++o.evals;
        if (form == 4) {   // complex ifft round trip against the long-double inverse DFT
            arr_cmplx X = to_arr(gen_cmplx(r, n, S_GAUSS));
            auto ref = ld_dft(to_cld(X), true);
            ld e = l2diff(to_cld(ifft(X)), ref), tol = 32 * ld(n) * EPS * std::max<ld>(l2(ref), 1e-300L);
            if (!(e <= tol)) { o.fail("sequence:ifft:value", fmt("call %d: ifft n=%d differs from the inverse DFT by %.3Lg (tol %.3Lg)", idx, n, e, tol)); break; }
        } else if (n % 2 == 1) {   // odd size: must throw in every form
            arr_cmplx X = to_arr(gen_cmplx(r, form == 0 ? n : n / 2 + 1, S_GAUSS));
            bool threw = false;
            size_t got = 0;
            try {
                if (form == 2) { IfftPlanR plan(n); got = size_t(plan(X).size()); }
                else got = size_t(irfft(X, n).size());
            } catch (const std::exception&) { threw = true; }
            if (!threw) { o.fail("sequence:irfft:odd-accepted", fmt("call %d of the sequence: irfft(X[%d], n=%d) did not throw (returned %zu samples)", idx, X.size(), n, got)); break; }
        } else {
            std::vector<double> x = gen_real(r, n, S_GAUSS);
            std::vector<cld> xl(x.size());
            for (size_t i = 0; i < x.size(); ++i) xl[i] = cld(x[i], 0);
            auto Xl = ld_dft(xl);
            arr_cmplx X(form == 0 ? n : n / 2 + 1);
            for (int k = 0; k < X.size(); ++k) X[k] = cmplx_t(double(Xl[size_t(k)].real()), double(Xl[size_t(k)].imag()));
            arr_real y;
            if (form == 2) { IfftPlanR plan(n); y = plan(X); }
            else if (form == 3 && X.size() == n) y = irfft(X);
            else y = irfft(X, n);
            if (y.size() != n) { o.fail("sequence:irfft:size", fmt("call %d: irfft n=%d returned %d samples", idx, n, y.size())); break; }
            std::vector<cld> yl = to_cld(y);
            ld e = l2diff(yl, xl), tol = 64 * ld(n) * EPS * std::max<ld>(l2(xl), 1e-300L);
            if (!(e <= tol)) { o.fail("sequence:irfft:value", fmt("call %d: irfft n=%d form=%d differs from x by %.3Lg (tol %.3Lg)", idx, n, form, e, tol)); break; }
        }
        ++idx;
    }
    if (c.at("calls").size() >= 2) {
        uint64_t k = 0x5E9;
        for (auto& call : c.at("calls").a) k = mix(k, key_of(call.geti("n"), call.geti("form")));
        o.nontrivial(k);
    }
    o.label(fmt("calls:%d", int(c.at("calls").size())));
}
static void seqs_gen(Ctx& ctx) {
    ctx.rc("random", ctx.by_tier(20000, 200000), [&]() {
        Json calls = Json::array();
        int base = pick(1, 96);
        int ncalls = pick(2, 7);
        for (int k = 0; k < ncalls; ++k) {
            int n = std::max(1, base + pick(-2, 2) + (pick(0, 5) == 0 ? base : 0));
            if (pick(0, 6) == 0) base = pick(1, 96);
            int form = pick(0, 4);
            if (form == 3 && n % 2 == 1) form = 0;
            calls.push(Json::object().set("n", n).set("form", form).set("seed", (long long)seed64()));
        }
        return Json::object().set("calls", calls);
    });
}

VK_FRESH_THREADS;
VK_MAIN("C02")
