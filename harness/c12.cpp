// C12  LMS / NLMS / RLS adaptive filters: e = d - y exactly, a-priori output, lock honoured, convergence,
//      real RLS == exponentially weighted, diagonally regularised least squares.
//
// Conventions derived from include/dsplib/lms.h and include/dsplib/rls.h (not from names):
//   * output            y[k] = sum_j c[j] * x[k-j]           plain product, NO conjugation (c = coeffs(), j = 0..N-1)
//   * LMS update        c[j] <- leak*c[j] + mu * e[k] * conj(x[k-j])
//   * NLMS update       c[j] <- leak*c[j] + mu * e[k] * conj(x[k-j]) / (sum_j |x[k-j]|^2 + 2^-52)
//   * RLS               P(-1) = diag_load * I;  g = P u / (lambda + u^H P u);  c <- c + conj(g) e;  P <- (P - g u^H P)/lambda
//                       => c(k) = argmin sum_i lambda^(k-i) |d_i - c^T u_i|^2 + lambda^(k+1) ||c||^2 / diag_load
//   * locked            output and e are still produced, the delay line still advances, c (and RLS P) are frozen
//
// Sub-checks
//   stream     (a) e == d - y bit for bit, (b) y at the first sample of every process() call (every sample while locked)
//              equals coeffs()-before . x within 4 N eps sum|c||x|, (c) locked: coeffs() bit-identical, output = fixed FIR;
//              unlocked with a visible error: coeffs() move; LMS/NLMS single-sample calls: one textbook step from coeffs()-before.
//   recursion  (d) complete long-double textbook recursion (with the same lock schedule) over horizons <= 200.
//   converge   (e) NLMS / RLS, white input, noise-free unknown system, horizon from theory, misalignment < 1e-6.
//   rls_ls     (f) real RLS at generated time points == long-double Cholesky solution of the regularised normal equations.
#include "kit/num.h"
#include "kit/prelude.h"
#include <dsplib.h>
#include <memory>

using namespace vk;
static const long double DENORM = std::numeric_limits<double>::denorm_min();

using namespace dsplib;

namespace {

using cd = std::complex<double>;

// ------------------------------------------------------------------------------------------- reference scalar layer
template<class R>
struct Cx
{
    R re{0}, im{0};
    Cx() = default;
    Cx(R r, R i = 0) : re(r), im(i) {}
};
template<class R> inline Cx<R> operator+(Cx<R> a, Cx<R> b) { return {a.re + b.re, a.im + b.im}; }
template<class R> inline Cx<R> operator-(Cx<R> a, Cx<R> b) { return {a.re - b.re, a.im - b.im}; }
template<class R> inline Cx<R> operator*(Cx<R> a, Cx<R> b) { return {a.re * b.re - a.im * b.im, a.re * b.im + a.im * b.re}; }
template<class R> inline Cx<R> operator/(Cx<R> a, Cx<R> b) {
    R q = b.re * b.re + b.im * b.im;
    return {(a.re * b.re + a.im * b.im) / q, (a.im * b.re - a.re * b.im) / q};
}
inline double cj(double a) { return a; }
inline ld cj(ld a) { return a; }
template<class R> inline Cx<R> cj(Cx<R> a) { return {a.re, -a.im}; }
inline double ab2(double a) { return a * a; }
inline ld ab2(ld a) { return a * a; }
template<class R> inline R ab2(Cx<R> a) { return a.re * a.re + a.im * a.im; }
inline double mag(double a) { return std::fabs(a); }
inline ld mag(ld a) { return fabsl(a); }
template<class R> inline R mag(Cx<R> a) { return std::sqrt(ab2(a)); }
inline double sc(double a, double r) { return a * r; }
inline ld sc(ld a, ld r) { return a * r; }
template<class R> inline Cx<R> sc(Cx<R> a, R r) { return {a.re * r, a.im * r}; }
inline ld re_of(double a) { return a; }
inline ld re_of(ld a) { return a; }
template<class R> inline ld re_of(Cx<R> a) { return a.re; }
inline ld im_of(double) { return 0; }
inline ld im_of(ld) { return 0; }
template<class R> inline ld im_of(Cx<R> a) { return a.im; }

template<class S> struct RealOf { using type = S; };
template<class R> struct RealOf<Cx<R>> { using type = R; };

template<class S> inline S mkS(cd v);
template<> inline double mkS<double>(cd v) { return v.real(); }
template<> inline ld mkS<ld>(cd v) { return v.real(); }
template<> inline Cx<double> mkS<Cx<double>>(cd v) { return {v.real(), v.imag()}; }
template<> inline Cx<ld> mkS<Cx<ld>>(cd v) { return {ld(v.real()), ld(v.imag())}; }

// library side
template<class T> inline T mkT(cd v);
template<> inline real_t mkT<real_t>(cd v) { return v.real(); }
template<> inline cmplx_t mkT<cmplx_t>(cd v) { return cmplx_t(v.real(), v.imag()); }
inline cd to_cd(real_t v) { return cd(v, 0); }
inline cd to_cd(cmplx_t v) { return cd(v.re, v.im); }
inline bool same(real_t a, real_t b) { return a == b; }   // -0 == +0
inline bool same(cmplx_t a, cmplx_t b) { return a.re == b.re && a.im == b.im; }
inline bool fin(real_t a) { return std::isfinite(a); }
inline bool fin(cmplx_t a) { return std::isfinite(a.re) && std::isfinite(a.im); }

// ------------------------------------------------------------------------------------------- textbook recursions
// (Haykin, Adaptive Filter Theory: LMS ch.5, normalised LMS ch.6 with leakage, exponentially weighted RLS ch.9/10),
// written for the library's conjugation convention y = c^T u (c is the conjugate of Haykin's w).
template<class S>
struct RefLms
{
    using R = typename RealOf<S>::type;
    int n;
    R mu, lk;
    bool nlms;
    std::vector<S> c, u;   // u[j] = x[k-j]
    RefLms(int n_, double mu_, double lk_, bool nl) : n(n_), mu(mu_), lk(lk_), nlms(nl), c(size_t(n_)), u(size_t(n_)) {}
    void step(S x, S d, bool locked, S& y, S& e) {
        for (int j = n - 1; j > 0; --j) u[size_t(j)] = u[size_t(j - 1)];
        u[0] = x;
        S acc{};
        for (int j = 0; j < n; ++j) acc = acc + c[size_t(j)] * u[size_t(j)];
        y = acc;
        e = d - y;
        if (locked) return;
        R g = mu;
        if (nlms) {
            R p = 0;
            for (int j = 0; j < n; ++j) p += ab2(u[size_t(j)]);
            g = mu / (p + R(EPS));   // the library's regulariser is eps() = 2^-52
        }
        for (int j = 0; j < n; ++j) c[size_t(j)] = sc(c[size_t(j)], lk) + sc(e * cj(u[size_t(j)]), g);
    }
    const std::vector<S>& coeffs() const { return c; }
};

template<class S>
struct RefRls
{
    using R = typename RealOf<S>::type;
    int n;
    R lam;
    std::vector<S> c, u, P, pi, uhp, g;
    R pmax{0};
    RefRls(int n_, double lam_, double delta_) : n(n_), lam(lam_), c(size_t(n_)), u(size_t(n_)), P(size_t(n_) * size_t(n_)), pi(size_t(n_)), uhp(size_t(n_)), g(size_t(n_)) {
        for (int i = 0; i < n; ++i) P[size_t(i) * size_t(n) + size_t(i)] = S(R(delta_));
    }
    void step(S x, S d, bool locked, S& y, S& e) {
        const size_t N = size_t(n);
        for (size_t j = N - 1; j > 0; --j) u[j] = u[j - 1];
        u[0] = x;
        S acc{};
        for (size_t j = 0; j < N; ++j) acc = acc + c[j] * u[j];
        y = acc;
        e = d - y;
        if (locked) return;
        for (size_t i = 0; i < N; ++i) {
            S a{};
            for (size_t k = 0; k < N; ++k) a = a + P[i * N + k] * u[k];
            pi[i] = a;
        }
        for (size_t k = 0; k < N; ++k) uhp[k] = S{};
        for (size_t i = 0; i < N; ++i) {
            const S ui = cj(u[i]);
            for (size_t k = 0; k < N; ++k) uhp[k] = uhp[k] + ui * P[i * N + k];
        }
        S den = S(lam);
        for (size_t i = 0; i < N; ++i) den = den + cj(u[i]) * pi[i];
        for (size_t i = 0; i < N; ++i) g[i] = pi[i] / den;
        const R il = R(1) / lam;
        for (size_t i = 0; i < N; ++i)
            for (size_t k = 0; k < N; ++k) P[i * N + k] = sc(P[i * N + k] - g[i] * uhp[k], il);
        for (size_t i = 0; i < N; ++i) c[i] = c[i] + cj(g[i]) * e;
    }
    const std::vector<S>& coeffs() const { return c; }
};

// Cholesky A = L L^H (lower triangle of A is read), solves A v = b in place; false when A is not positive definite
template<class S>
bool chol_solve(std::vector<S>& A, std::vector<S>& b, int n) {
    using R = typename RealOf<S>::type;
    const size_t N = size_t(n);
    for (size_t j = 0; j < N; ++j) {
        R dsum = R(re_of(A[j * N + j]));
        for (size_t k = 0; k < j; ++k) dsum -= ab2(A[j * N + k]);
        if (!(dsum > 0)) return false;
        const R ljj = std::sqrt(dsum);
        A[j * N + j] = S(ljj);
        for (size_t i = j + 1; i < N; ++i) {
            S s = A[i * N + j];
            for (size_t k = 0; k < j; ++k) s = s - A[i * N + k] * cj(A[j * N + k]);
            A[i * N + j] = sc(s, R(1) / ljj);
        }
    }
    for (size_t i = 0; i < N; ++i) {   // L z = b
        S s = b[i];
        for (size_t k = 0; k < i; ++k) s = s - A[i * N + k] * b[k];
        b[i] = s / A[i * N + i];
    }
    for (size_t ii = N; ii-- > 0;) {   // L^H v = z
        S s = b[ii];
        for (size_t k = ii + 1; k < N; ++k) s = s - cj(A[k * N + ii]) * b[k];
        b[ii] = s / A[ii * N + ii];
    }
    return true;
}

// argmin_c  sum_{i<=k, i adapted} lambda^{m(k)-m(i)} |d_i - c^T u_i|^2 + lambda^{m(k)} ||c||^2 / delta,
// m(i) = number of adapted (unlocked) samples among 0..i.  adapted[i] = 0 for samples processed while locked.
// Normal equations: (sum wt conj(u) u^T + reg I) c = sum wt conj(u) d.   Also returns the 1-norm condition estimate.
template<class S>
bool ls_solution(const std::vector<cd>& x, const std::vector<cd>& d, const std::vector<char>& adapted, int k, int n, double lam_, double delta_,
                 std::vector<S>& c, ld* cond1 = nullptr) {
    using R = typename RealOf<S>::type;
    const size_t N = size_t(n);
    const R lam = lam_;
    std::vector<S> A(N * N), b(N), u(N);
    int after = 0;   // adapted samples strictly after i, up to k
    for (int i = k; i >= 0; --i) {
        if (!adapted[size_t(i)]) continue;
        const R wt = std::pow(lam, R(after));
        ++after;
        if (wt < R(1e-40L)) break;
        for (size_t j = 0; j < N; ++j) u[j] = (i - int(j) >= 0) ? mkS<S>(x[size_t(i - int(j))]) : S{};
        const S di = mkS<S>(d[size_t(i)]);
        for (size_t r = 0; r < N; ++r) {
            const S cu = sc(cj(u[r]), wt);
            if (re_of(cu) == 0 && im_of(cu) == 0) continue;
            for (size_t q = 0; q <= r; ++q) A[r * N + q] = A[r * N + q] + cu * u[q];
            b[r] = b[r] + cu * di;
        }
    }
    int m = 0;
    for (int i = 0; i <= k; ++i) m += adapted[size_t(i)] ? 1 : 0;
    const R reg = std::pow(lam, R(m)) / R(delta_);
    for (size_t r = 0; r < N; ++r) A[r * N + r] = A[r * N + r] + S(reg);
    std::vector<S> Afull;
    if (cond1) {
        Afull = A;
        for (size_t r = 0; r < N; ++r) for (size_t q = r + 1; q < N; ++q) Afull[r * N + q] = cj(A[q * N + r]);
    }
    std::vector<S> L = A;
    c = b;
    if (!chol_solve(L, c, n)) return false;
    if (cond1) {
        // ||A||_1 * ||A^-1||_1 with A^-1 from n solves against unit vectors (n <= 64)
        ld na = 0, ni = 0;
        for (size_t q = 0; q < N; ++q) { ld s = 0; for (size_t r = 0; r < N; ++r) s += ld(mag(Afull[r * N + q])); na = std::max(na, s); }
        for (size_t q = 0; q < N; ++q) {
            std::vector<S> e(N);
            e[q] = S(R(1));
            // forward/back substitution only (L already factored)
            for (size_t i = 0; i < N; ++i) { S s = e[i]; for (size_t kk = 0; kk < i; ++kk) s = s - L[i * N + kk] * e[kk]; e[i] = s / L[i * N + i]; }
            for (size_t ii = N; ii-- > 0;) { S s = e[ii]; for (size_t kk = ii + 1; kk < N; ++kk) s = s - cj(L[kk * N + ii]) * e[kk]; e[ii] = s / L[ii * N + ii]; }
            ld s = 0;
            for (size_t r = 0; r < N; ++r) s += ld(mag(e[r]));
            ni = std::max(ni, s);
        }
        *cond1 = na * ni;
    }
    return true;
}

// ------------------------------------------------------------------------------------------- cases
enum Alg { A_LMS = 0, A_NLMS = 1, A_RLS = 2 };
const char* alg_name(int a) { return a == A_LMS ? "lms" : a == A_NLMS ? "nlms" : "rls"; }
enum XCls { X_GAUSS = 0, X_UNIFORM, X_BINARY, X_AR1, X_LEADZERO, X_CONST, X_TONE, X_SPARSE, X_TERNARY, X_GAPS, X_NCLS };
const char* xcls_name(int c) {
    static const char* n[] = {"white-gauss", "white-uniform", "white-binary/qpsk", "ar1", "leading-zeros", "const", "tone", "sparse", "white-ternary (exact zeros)", "white with silent gaps"};
    return (c >= 0 && c < X_NCLS) ? n[c] : "?";
}
enum DMode { D_SYSTEM = 0, D_SYSTEM_NOISE, D_INDEPENDENT };
const char* dmode_name(int m) { return m == D_SYSTEM ? "system" : m == D_SYSTEM_NOISE ? "system+noise" : "independent"; }

struct Plan
{
    int alg{0}, n{2}, H{0};
    bool cx{false};
    double mu{0}, leak{1}, lam{1}, delta{1};
    std::vector<cd> x, d, h;   // h zero-padded to n
    std::vector<int> flen;
    std::vector<char> flock;   // lock state during frame f
    std::vector<char> adapted;   // per sample: 1 = processed while unlocked
    bool relock{false};
    double px{0};
    int nlocks{0}, nunlocks{0};   // transitions between consecutive frames
    uint64_t sched_hash{0};
};

// Builds signals, framing and lock schedule from the flat case.  H is given explicitly (sub-checks with a theoretical horizon compute it first).
Plan make_plan(const Json& c, int H) {
    Plan p;
    p.alg = c.geti("alg");
    p.n = c.geti("n");
    p.cx = c.geti("cx") != 0;
    p.H = H;
    p.leak = c.getd("leak", 1.0);
    p.lam = c.getd("lam", 1.0);
    p.delta = c.getd("delta", 1.0);
    const int xcls = c.geti("xcls", 0), dmode = c.geti("dmode", 0);
    const double amp = c.getd("amp", 1.0), noise = c.getd("noise", 0.0);
    const int sysl = std::min(std::max(1, c.geti("sysl", p.n)), p.n);
    Rng root(c.getu("seed"));
    Rng rx = root.fork(1), rh = root.fork(2), rd = root.fork(3), rf = root.fork(4);
    const size_t Hs = size_t(H);
    p.x.assign(Hs, cd(0, 0));
    auto white = [&](Rng& r) -> cd {
        if (p.cx) return cd(r.gauss(), r.gauss()) * std::sqrt(0.5);
        return cd(r.gauss(), 0);
    };
    switch (xcls) {
    case X_UNIFORM:
        for (auto& v : p.x) v = p.cx ? cd(rx.uni(-1, 1), rx.uni(-1, 1)) * std::sqrt(1.5) : cd(rx.uni(-1, 1) * std::sqrt(3.0), 0);
        break;
    case X_BINARY:
        for (auto& v : p.x) v = p.cx ? cd(rx.coin() ? 1 : -1, rx.coin() ? 1 : -1) * std::sqrt(0.5) : cd(rx.coin() ? 1 : -1, 0);
        break;
    case X_AR1: {
        const double rho = rx.uni(0.3, 0.95), g = std::sqrt(1 - rho * rho);
        cd s = white(rx);
        for (auto& v : p.x) { s = rho * s + g * white(rx); v = s; }
        break;
    }
    case X_LEADZERO: {
        const int z = rx.range(1, std::max(1, std::min(H - 1, 2 * p.n)));
        for (size_t i = 0; i < Hs; ++i) p.x[i] = int(i) < z ? cd(0, 0) : white(rx);
        break;
    }
    case X_CONST: { cd a = white(rx); for (auto& v : p.x) v = a; break; }
    case X_TONE: {
        const double w = rx.uni(0, M_PI), ph = rx.uni(0, 2 * M_PI);
        for (size_t i = 0; i < Hs; ++i) p.x[i] = p.cx ? std::polar(1.0, w * double(i) + ph) : cd(std::sqrt(2.0) * std::cos(w * double(i) + ph), 0);
        break;
    }
    case X_SPARSE:
        for (auto& v : p.x) v = rx.range(0, 7) == 0 ? white(rx) * 2.8 : cd(0, 0);
        break;
    case X_TERNARY: {   // white, unit power, one third of the samples (per component) exactly zero
        const double a = std::sqrt(1.5);
        auto t = [&]() { int k = rx.range(0, 2); return k == 0 ? 0.0 : k == 1 ? a : -a; };
        for (auto& v : p.x) v = p.cx ? cd(t(), t()) * std::sqrt(0.5) : cd(t(), 0);
        break;
    }
    case X_GAPS: {      // white gaussian with a few runs of exact zeros after a non-zero lead-in (a stream that pauses and resumes)
        for (auto& v : p.x) v = white(rx);
        const int runs = rx.range(1, 3);
        for (int q = 0; q < runs && H > 2; ++q) {
            const int len = rx.range(1, std::max(1, std::min(H / 3, 2 * p.n)));
            const int at = rx.range(1, std::max(1, H - len));
            for (int i = at; i < std::min(H, at + len); ++i) p.x[size_t(i)] = cd(0, 0);
        }
        break;
    }
    default: for (auto& v : p.x) v = white(rx);
    }
    for (auto& v : p.x) v *= amp;
    double pw = 0;
    for (auto& v : p.x) pw += std::norm(v);
    p.px = H > 0 ? pw / H : 0;

    // unknown system, no longer than the filter
    p.h.assign(size_t(p.n), cd(0, 0));
    const double decay = rh.coin() ? 1.0 : rh.uni(0.6, 0.98);
    double env = 1;
    for (int j = 0; j < sysl; ++j) { p.h[size_t(j)] = p.cx ? cd(rh.gauss(), rh.gauss()) * env : cd(rh.gauss() * env, 0); env *= decay; }
    if (std::abs(p.h[size_t(sysl - 1)]) == 0) p.h[size_t(sysl - 1)] = 1;
    p.d.assign(Hs, cd(0, 0));
    if (dmode == D_INDEPENDENT) {
        for (auto& v : p.d) v = white(rd) * amp;
    } else {
        for (size_t k = 0; k < Hs; ++k) {
            cd a = 0;
            for (int j = 0; j < sysl && j <= int(k); ++j) a += p.h[size_t(j)] * p.x[k - size_t(j)];   // plain product, no conjugation
            p.d[k] = a;
        }
        if (dmode == D_SYSTEM_NOISE) for (auto& v : p.d) v += white(rd) * (noise * amp);
    }
    if (!p.cx) for (auto& v : p.d) v = cd(v.real(), 0);

    // step size: LMS gets a fraction of 2/(N Px) = 2/trace(R) (valid for any input spectrum), NLMS the value itself
    const double mu = c.getd("mu", 0.5);
    if (p.alg == A_LMS) p.mu = mu * 2.0 / (p.n * std::max(p.px, 1e-300));
    else p.mu = mu;

    // framing
    const int fmode = c.geti("fmode", 2);
    int left = H;
    bool run_single = rf.coin();
    int run_left = 0;
    while (left > 0) {
        int L = 1;
        switch (fmode) {
        case 0: L = 1; break;
        case 1: L = left; break;
        case 2: L = rf.range(1, 8); break;
        case 3: L = std::max(1, int(std::pow(double(std::max(2, H)), rf.uni()))); break;
        default:   // 4: runs of single-sample frames alternating with runs of longer ones
            if (run_left == 0) { run_single = !run_single; run_left = rf.range(1, 12); }
            --run_left;
            L = run_single ? 1 : rf.range(2, 40);
        }
        L = std::min(L, left);
        p.flen.push_back(L);
        left -= L;
    }
    // lock schedule: nlock toggles at distinct frame boundaries, optionally starting locked
    const int F = int(p.flen.size());
    int nt = std::min(c.geti("nlock", 0), std::max(0, F - 1));
    std::vector<char> toggle(size_t(F), 0);
    for (int t = 0, guard = 0; t < nt && guard < 64 * nt + 64; ++guard) {
        int f = rf.range(1, F - 1);
        if (!toggle[size_t(f)]) { toggle[size_t(f)] = 1; ++t; }
    }
    bool st = c.geti("lock0", 0) != 0;
    p.flock.resize(size_t(F));
    uint64_t hsh = st ? 77 : 5;
    for (int f = 0; f < F; ++f) {
        if (f > 0 && toggle[size_t(f)]) { st = !st; if (st) ++p.nlocks; else ++p.nunlocks; }
        p.flock[size_t(f)] = st;
        hsh = mix(hsh, uint64_t(p.flen[size_t(f)]) * 2 + (st ? 1 : 0));
    }
    p.sched_hash = hsh;
    p.adapted.assign(Hs, 1);
    for (int f = 0, k = 0; f < F; ++f) for (int i = 0; i < p.flen[size_t(f)]; ++i, ++k) p.adapted[size_t(k)] = p.flock[size_t(f)] ? 0 : 1;
    p.relock = c.geti("relock", 0) != 0;
    return p;
}

template<class T>
struct Ad
{
    std::unique_ptr<LmsFilter<T>> l;
    std::unique_ptr<RlsFilter<T>> r;
    explicit Ad(const Plan& p) {
        if (p.alg == A_RLS) r = std::make_unique<RlsFilter<T>>(p.n, p.lam, p.delta);
        else l = std::make_unique<LmsFilter<T>>(p.n, p.mu, p.alg == A_NLMS ? LmsType::NLMS : LmsType::LMS, p.leak);
    }
    void proc(const base_array<T>& x, const base_array<T>& d, bool call_op, base_array<T>& y, base_array<T>& e) {
        if (r) { auto q = call_op ? (*r)(x, d) : r->process(x, d); y = q.y; e = q.e; }
        else { auto q = call_op ? (*l)(x, d) : l->process(x, d); y = q.y; e = q.e; }
    }
    base_array<T> coeffs() const { return r ? base_array<T>(r->coeffs()) : l->coeffs(); }
    void lock(bool v) { if (r) r->set_lock_coeffs(v); else l->set_lock_coeffs(v); }
    bool locked() const { return r ? r->coeffs_locked() : l->coeffs_locked(); }
};

template<class T>
base_array<T> frame_of(const std::vector<cd>& v, int k0, int L) {
    base_array<T> a(L);
    for (int i = 0; i < L; ++i) a[i] = mkT<T>(v[size_t(k0 + i)]);
    return a;
}

std::string param_bucket(const Plan& p) {
    if (p.alg == A_RLS) {
        const char* lb = p.lam == 1.0 ? "1" : p.lam >= 0.999 ? "[.999,1)" : p.lam >= 0.99 ? "[.99,.999)" : p.lam >= 0.95 ? "[.95,.99)" : "[.9,.95)";
        return fmt("lambda:%s delta:1e%d", lb, int(std::floor(std::log10(p.delta) + 1e-9)));
    }
    return fmt("leak:%s", p.leak == 1.0 ? "1" : "<1");
}
uint64_t param_key(const Json& c, const Plan& p) {
    if (p.alg == A_RLS) return key_of(uint64_t(p.lam == 1.0 ? 1000 : int((p.lam - 0.9) * 200)), uint64_t(int(std::floor(std::log10(p.delta) * 2 + 100))));
    return key_of(uint64_t(int(std::floor(std::log10(c.getd("mu", 0.5)) * 4 + 100))), uint64_t(p.leak == 1.0 ? 0 : 1 + int((p.leak - 0.9) * 50)));
}
void common_labels(const Json& c, const Plan& p, Out& o) {
    o.label(std::string("alg:") + alg_name(p.alg) + (p.cx ? "/complex" : "/real"));
    o.label(fmt("N:%s", p.n <= 4 ? "2-4" : p.n <= 16 ? "5-16" : p.n <= 32 ? "17-32" : "33-64"));
    o.label(std::string("input:") + xcls_name(c.geti("xcls", 0)));
    o.label(std::string("desired:") + dmode_name(c.geti("dmode", 0)));
    o.label(std::string(alg_name(p.alg)) + " " + param_bucket(p));
    o.label(fmt("framing:%s", c.geti("fmode", 2) == 0 ? "single-sample" : c.geti("fmode", 2) == 1 ? "whole" : c.geti("fmode", 2) == 2 ? "1..8" : c.geti("fmode", 2) == 3 ? "log-uniform" : "runs"));
    o.label(p.nlocks > 0 && p.nunlocks > 0 ? "schedule:lock+unlock" : (p.nlocks + p.nunlocks > 0 || p.flock[0]) ? "schedule:one-sided" : "schedule:never-locked");
}
bool nontrivial_rule(const Plan& p) { return (p.nlocks >= 1 && p.nunlocks >= 1) || p.H >= 4 * p.n; }
uint64_t case_key(const Json& c, const Plan& p) { return key_of(uint64_t(p.alg), uint64_t(p.cx), uint64_t(p.n), param_key(c, p), p.sched_hash); }

// ------------------------------------------------------------------------------------------- (a)(b)(c): stream
template<class T>
void stream_run(const Json& c, const Plan& p, Out& o) {
    using S = typename std::conditional<std::is_same<T, real_t>::value, ld, Cx<ld>>::type;
    const int N = p.n;
    const std::string an = alg_name(p.alg);
    Ad<T> f(p);
    if (f.locked()) { o.fail(an + ":lock-default", "a new filter reports coeffs_locked() == true"); return; }
    {
        base_array<T> c0 = f.coeffs();
        if (c0.size() != N) { o.fail(an + ":coeffs-size", fmt("coeffs().size()=%d for length %d", c0.size(), N)); return; }
        for (int j = 0; j < N; ++j) if (!same(c0[j], T(0))) { o.fail(an + ":coeffs-init", fmt("initial coeffs()[%d] != 0", j)); return; }
    }
    bool cur = false;
    int k0 = 0;
    long evals = 0;
    double m_apri = 0, m_step = 0;
    bool stopped = false, stopped_underflow = false;
    bool moved_after_unlock = false, was_locked = false;
    const uint64_t bad = c.has("bad") ? c.getu("bad") : 0;
    Rng br(bad);
    int refused = 0;
    for (size_t fi = 0; fi < p.flen.size(); ++fi) {
        const int L = p.flen[fi];
        const bool want = p.flock[fi] != 0;
        if (want != cur || p.relock || (fi == 0 && want)) {
            f.lock(want);
            cur = want;
            if (f.locked() != want) { o.fail(an + ":lock-flag", fmt("coeffs_locked()=%d after set_lock_coeffs(%d)", int(f.locked()), int(want))); return; }
        }
        if (bad && br.range(0, 2) == 0) {
            // the caller hands over x and d of different lengths, catches the exception and carries on: nothing of that call may
            // have reached the filter (everything below is checked against the stream of ACCEPTED frames only)
            const int la = br.range(0, 2 * N + 3);
            int lb = br.range(0, 2 * N + 3);
            if (lb == la) lb = la + 1;
            base_array<T> bx(la), bd(lb);
            for (int i = 0; i < la; ++i) bx[i] = mkT<T>(cd(br.gauss(), br.gauss()) * std::sqrt(p.px + 1e-300));
            for (int i = 0; i < lb; ++i) bd[i] = mkT<T>(cd(br.gauss(), br.gauss()));
            bool threw = false;
            try { base_array<T> by, be; f.proc(bx, bd, (fi & 1) == 0, by, be); } catch (const std::exception&) { threw = true; }
            if (!threw) { o.label("mismatched-lengths-accepted"); o.discard = true; return; }
            ++refused;
        }
        const base_array<T> cb = f.coeffs();
        const base_array<T> xf = frame_of<T>(p.x, k0, L), df = frame_of<T>(p.d, k0, L);
        base_array<T> y, e;
        f.proc(xf, df, (fi & 1) != 0, y, e);
        const base_array<T> ca = f.coeffs();
        if (y.size() != L || e.size() != L || ca.size() != N) { o.fail(an + ":size", fmt("frame of %d samples: y has %d, e has %d, coeffs %d", L, y.size(), e.size(), ca.size())); return; }
        // premise: values stay finite.  A diverging recursion (LMS beyond its mean-square bound, conventional RLS with lambda < 1 on a
        // non-persistent input, where P grows like lambda^-k and loses definiteness) overflows legitimately; the identities are then
        // undefined (NaN != NaN), so the case stops here and keeps what was decided before.
        bool finite = true;
        for (int i = 0; i < L; ++i) finite &= fin(y[i]) && fin(e[i]);
        for (int j = 0; j < N; ++j) finite &= fin(ca[j]);
        if (!finite) { stopped = true; break; }
        // ... and normal: once outputs or coefficients have decayed into the underflow range (|v| < 1e-290: an exactly identified
        // noise-free system makes the error shrink geometrically for ever) products are rounded to the subnormal grid and no relative
        // error bound applies; the case stops here as well
        {
            bool under = false;
            auto tiny = [](double v) { return v != 0 && std::fabs(v) < 1e-290; };
            for (int i = 0; i < L; ++i) under |= tiny(to_cd(y[i]).real()) || tiny(to_cd(y[i]).imag()) || tiny(to_cd(e[i]).real()) || tiny(to_cd(e[i]).imag());
            for (int j = 0; j < N; ++j) under |= tiny(to_cd(ca[j]).real()) || tiny(to_cd(ca[j]).imag());
            if (under) { stopped_underflow = true; break; }
        }
        // (a) e == d - y, bit for bit
        for (int i = 0; i < L; ++i) {
            const T want_e = df[i] - y[i];
            ++evals;
            if (!same(e[i], want_e)) {
                const cd ge = to_cd(e[i]), we = to_cd(want_e);
                o.fail(an + ":e!=d-y", fmt("%s N=%d sample %d (frame %zu, %s): e=(%.17g,%.17g) but d-y=(%.17g,%.17g)", p.cx ? "complex" : "real", N, k0 + i, fi, cur ? "locked" : "adapting", ge.real(), ge.imag(), we.real(), we.imag()));
                return;
            }
        }
        // (b) a-priori output: first sample of the call uses the coefficients held before the call; while locked, every sample does
        const int ncheck = cur ? L : 1;
        for (int i = 0; i < ncheck; ++i) {
            const int k = k0 + i;
            S acc{};
            ld bound = 0;
            for (int j = 0; j < N && j <= k; ++j) {
                const S cj_ = mkS<S>(to_cd(cb[j])), xj = mkS<S>(p.x[size_t(k - j)]);
                acc = acc + cj_ * xj;
                bound += ld(mag(cj_)) * ld(mag(xj));
            }
            const ld tol = 4 * ld(N) * EPS * bound + 4 * ld(N) * DENORM;   // + underflow: below 2.2e-308 results are rounded to the 4.9e-324 grid, not relatively
            const cd yy = to_cd(y[i]);
            const ld err = std::hypot(ld(yy.real()) - re_of(acc), ld(yy.imag()) - im_of(acc));
            ++evals;
            if (tol > 0) m_apri = std::max(m_apri, double(err / tol));
            if (!(err <= tol)) {
                o.fail(an + (cur ? ":locked-output!=fir" : ":not-a-priori"),
                       fmt("%s N=%d sample %d (%s, frame %zu of %d samples): y=(%.17g,%.17g), coeffs()-before . x = (%.17Lg,%.17Lg), |diff|=%.3Lg > tol %.3Lg", p.cx ? "complex" : "real", N, k,
                           cur ? "locked" : "adapting", fi, L, yy.real(), yy.imag(), re_of(acc), im_of(acc), err, tol));
                return;
            }
        }
        // (c) lock honoured / adaptation resumes
        if (cur) {
            was_locked = true;
            for (int j = 0; j < N; ++j)
                if (!same(ca[j], cb[j])) {
                    o.fail(an + ":locked-coeffs-changed", fmt("N=%d: coeffs()[%d] changed from %.17g to %.17g while locked (frame %zu, samples %d..%d)", N, j, to_cd(cb[j]).real(), to_cd(ca[j]).real(), fi, k0, k0 + L - 1));
                    return;
                }
        } else {
            // "unlocking resumes adaptation".  LMS / NLMS: decided quantitatively by the one-step check below (a leaky filter driven by a
            // constant input legitimately reaches a bit-stationary fixed point, so "coefficients move" is not a consequence there).
            // RLS (no leakage: c <- c + conj(g) e): with a clearly visible error and a persistently exciting (white) input the gain is
            // non-zero, so the coefficients must move.  Constant / tonal / sparse regressors with lambda < 1 are excluded: there the
            // conventional recursion's P is legitimately swamped by the unexcited directions (P u can round to 0).
            double emax = 0, dmax = 0, xe = 0;
            for (int i = 0; i < L; ++i) {
                emax = std::max(emax, std::abs(to_cd(e[i])));
                dmax = std::max(dmax, std::abs(p.d[size_t(k0 + i)]));
            }
            for (int j = 0; j < N && j <= k0 + L - 1; ++j) xe = std::max(xe, std::abs(p.x[size_t(k0 + L - 1 - j)]));
            const int xc = c.geti("xcls", 0);
            const bool persistent = xc == X_GAUSS || xc == X_UNIFORM || xc == X_BINARY || xc == X_LEADZERO;
            bool moved = false;
            for (int j = 0; j < N; ++j) moved |= !same(ca[j], cb[j]);
            if (moved && was_locked) moved_after_unlock = true;
            if (p.alg == A_RLS && persistent && L == 1 && emax > 1e-3 * std::max(dmax, 1e-300) && dmax > 0 && xe > 1e-3 * std::sqrt(p.px)) {
                ++evals;
                if (!moved) {
                    o.fail(an + (was_locked ? ":no-adaptation-after-unlock" : ":no-adaptation"), fmt("N=%d sample %d: unlocked, |e|=%.3g, regressor max %.3g, but coeffs() are bit-identical before and after", N, k0, emax, xe));
                    return;
                }
            }
            // one textbook step from coeffs()-before (LMS / NLMS, single-sample calls): isolates the update rule at any horizon
            if (L == 1 && p.alg != A_RLS) {
                const S ee = mkS<S>(to_cd(e[0]));
                ld pn = 0;
                for (int j = 0; j < N && j <= k0; ++j) pn += ab2(mkS<S>(p.x[size_t(k0 - j)]));
                const ld g = p.alg == A_NLMS ? ld(p.mu) / (pn + ld(EPS)) : ld(p.mu);
                for (int j = 0; j < N; ++j) {
                    const S xj = j <= k0 ? mkS<S>(p.x[size_t(k0 - j)]) : S{};
                    const S cbj = mkS<S>(to_cd(cb[j]));
                    const S upd = sc(ee * cj(xj), g);
                    const S ref = sc(cbj, ld(p.leak)) + upd;
                    const ld tol = (16 + 4 * ld(N)) * EPS * (ld(mag(cbj)) * std::fabs(ld(p.leak)) + ld(mag(upd))) + 16 * DENORM;
                    const cd got = to_cd(ca[j]);
                    const ld err = std::hypot(ld(got.real()) - re_of(ref), ld(got.imag()) - im_of(ref));
                    if (tol > 0) m_step = std::max(m_step, double(err / tol));
                    if (!(err <= tol)) {
                        o.fail(an + ":one-step-update", fmt("%s N=%d sample %d: coeffs()[%d]=(%.17g,%.17g), textbook step from coeffs()-before gives (%.17Lg,%.17Lg), |diff|=%.3Lg > tol %.3Lg (mu=%.6g leak=%.6g)", p.cx ? "complex" : "real", N,
                                                             k0, j, got.real(), got.imag(), re_of(ref), im_of(ref), err, tol, p.mu, p.leak));
                        return;
                    }
                }
                ++evals;
            }
        }
        k0 += L;
    }
    o.evals = evals;
    o.metric("a-priori/fir err/tol", m_apri);
    if (p.alg != A_RLS) o.metric("one-step update err/tol", m_step);
    common_labels(c, p, o);
    if (moved_after_unlock) o.label("resume-after-unlock:observed");
    if (refused) o.label("refused-calls-between-frames");
    if (stopped) o.label("stopped:non-finite values (diverged recursion)");
    if (stopped_underflow) o.label("stopped:values decayed into the underflow range");
    if (nontrivial_rule(p)) o.nontrivial(case_key(c, p));
}

// ------------------------------------------------------------------------------------------- (d): recursion
template<class S, class Ref>
void ref_run(const Plan& p, Ref& ref, std::vector<S>& y, std::vector<S>& e, std::vector<std::vector<S>>& cfs) {
    int k = 0;
    y.resize(size_t(p.H));
    e.resize(size_t(p.H));
    for (size_t fi = 0; fi < p.flen.size(); ++fi) {
        for (int i = 0; i < p.flen[fi]; ++i, ++k) ref.step(mkS<S>(p.x[size_t(k)]), mkS<S>(p.d[size_t(k)]), p.flock[fi] != 0, y[size_t(k)], e[size_t(k)]);
        cfs.push_back(ref.coeffs());
    }
}
template<class S>
void ref_all(const Plan& p, std::vector<S>& y, std::vector<S>& e, std::vector<std::vector<S>>& cfs) {
    if (p.alg == A_RLS) { RefRls<S> r(p.n, p.lam, p.delta); ref_run<S>(p, r, y, e, cfs); }
    else { RefLms<S> r(p.n, p.mu, p.leak, p.alg == A_NLMS); ref_run<S>(p, r, y, e, cfs); }
}

template<class T>
void recursion_run(const Json& c, const Plan& p, Out& o) {
    using S = typename std::conditional<std::is_same<T, real_t>::value, ld, Cx<ld>>::type;
    using Sd = typename std::conditional<std::is_same<T, real_t>::value, double, Cx<double>>::type;
    const int N = p.n;
    const std::string an = alg_name(p.alg);
    const ld rel = p.alg == A_RLS ? 1e-7L : 1e-9L;
    std::vector<S> ry, re;
    std::vector<std::vector<S>> rc;
    ref_all<S>(p, ry, re, rc);
    // premise (reference side): the recursion itself is well conditioned on this input -- the same textbook recursion in plain double
    // stays within rel/20 of the long-double one.  Otherwise rounding alone may exceed the tolerance: counted as a discard.
    std::vector<Sd> dy, de;
    std::vector<std::vector<Sd>> dc;
    ref_all<Sd>(p, dy, de, dc);
    ld ymax = 0, cmax = 0, sens = 0;
    for (int k = 0; k < p.H; ++k) ymax = std::max(ymax, std::max(ld(mag(ry[size_t(k)])), ld(std::abs(p.d[size_t(k)]))));
    for (auto& v : rc) for (auto& q : v) cmax = std::max(cmax, ld(mag(q)));
    bool refs_finite = std::isfinite(double(ymax)) && std::isfinite(double(cmax));
    if (refs_finite) {
        for (int k = 0; k < p.H; ++k) sens = std::max(sens, std::hypot(re_of(ry[size_t(k)]) - re_of(dy[size_t(k)]), im_of(ry[size_t(k)]) - im_of(dy[size_t(k)])) / std::max(ymax, ld(1e-300L)));
        for (size_t f = 0; f < rc.size(); ++f)
            for (size_t j = 0; j < rc[f].size(); ++j)
                sens = std::max(sens, std::hypot(re_of(rc[f][j]) - re_of(dc[f][j]), im_of(rc[f][j]) - im_of(dc[f][j])) / std::max(cmax, ld(1e-300L)));
    }
    if (!refs_finite || !(sens <= rel / 20)) {
        o.discard = true;
        return;
    }
    o.metric("reference sensitivity/tol", double(sens / rel));

    Ad<T> f(p);
    bool cur = false;
    int k0 = 0;
    double m_y = 0, m_c = 0;
    for (size_t fi = 0; fi < p.flen.size(); ++fi) {
        const int L = p.flen[fi];
        const bool want = p.flock[fi] != 0;
        if (want != cur || p.relock || (fi == 0 && want)) { f.lock(want); cur = want; }
        base_array<T> y, e;
        f.proc(frame_of<T>(p.x, k0, L), frame_of<T>(p.d, k0, L), (fi & 1) != 0, y, e);
        if (y.size() != L || e.size() != L) { o.fail(an + ":size", fmt("frame of %d samples: y has %d, e has %d", L, y.size(), e.size())); return; }
        for (int i = 0; i < L; ++i) {
            const int k = k0 + i;
            const cd gy = to_cd(y[i]), ge = to_cd(e[i]);
            const ld ey = std::hypot(ld(gy.real()) - re_of(ry[size_t(k)]), ld(gy.imag()) - im_of(ry[size_t(k)]));
            const ld ee = std::hypot(ld(ge.real()) - re_of(re[size_t(k)]), ld(ge.imag()) - im_of(re[size_t(k)]));
            const ld tol = rel * ymax + 8 * ld(N) * DENORM;
            if (tol > 0) m_y = std::max(m_y, double(std::max(ey, ee) / tol));
            if (!(ey <= tol) || !(ee <= tol)) {
                o.fail(an + (p.cx ? ":recursion-output/complex" : ":recursion-output/real"),
                       fmt("N=%d sample %d (%s): y=(%.15g,%.15g) e=(%.15g,%.15g), textbook y=(%.15Lg,%.15Lg) e=(%.15Lg,%.15Lg); |dy|=%.3Lg |de|=%.3Lg > %.0Le * max(|y|,|d|)=%.3Lg", N, k, cur ? "locked" : "adapting", gy.real(), gy.imag(), ge.real(),
                           ge.imag(), re_of(ry[size_t(k)]), im_of(ry[size_t(k)]), re_of(re[size_t(k)]), im_of(re[size_t(k)]), ey, ee, rel, tol));
                return;
            }
        }
        const base_array<T> ca = f.coeffs();
        if (ca.size() != N) { o.fail(an + ":coeffs-size", fmt("coeffs().size()=%d, N=%d", ca.size(), N)); return; }
        for (int j = 0; j < N; ++j) {
            const cd g = to_cd(ca[j]);
            const ld ec = std::hypot(ld(g.real()) - re_of(rc[fi][size_t(j)]), ld(g.imag()) - im_of(rc[fi][size_t(j)]));
            const ld tol = rel * cmax + 8 * ld(N) * DENORM;
            if (tol > 0) m_c = std::max(m_c, double(ec / tol));
            if (!(ec <= tol)) {
                o.fail(an + (p.cx ? ":recursion-coeffs/complex" : ":recursion-coeffs/real"),
                       fmt("N=%d after sample %d (%s): coeffs()[%d]=(%.15g,%.15g), textbook (%.15Lg,%.15Lg), |diff|=%.3Lg > %.0Le * max|c|=%.3Lg (mu=%.6g leak=%.6g lambda=%.6g delta=%.6g)", N, k0 + L - 1, cur ? "locked" : "adapting", j, g.real(),
                           g.imag(), re_of(rc[fi][size_t(j)]), im_of(rc[fi][size_t(j)]), ec, rel, tol, p.mu, p.leak, p.lam, p.delta));
                return;
            }
        }
        k0 += L;
    }
    o.evals = 2L * p.H + long(p.flen.size());
    o.metric("output err/tol", m_y);
    o.metric("coeffs err/tol", m_c);
    common_labels(c, p, o);
    if (nontrivial_rule(p)) o.nontrivial(case_key(c, p));
}

// ------------------------------------------------------------------------------------------- (e): convergence
int nlms_horizon(int N, double mu) { return int(std::ceil(16.0 * N / (mu * (2 - mu)))) + 200; }
// smallest-eigenvalue lower estimate of sum over the latest m samples of white unit-power regressors: m (1 - sqrt(N/m))^2
double wishart_min(int N, double m) { return m <= N ? 0.0 : m * (1 - std::sqrt(N / m)) * (1 - std::sqrt(N / m)); }
// RLS: regularisation bias  ||c - h|| / ||h|| <= (lambda^H / delta) / lambda_min(Phi(H))  must be below 3e-4
int rls_horizon(int N, double lam, double delta) {
    const double target = 3e-4;
    if (lam == 1.0) {
        int H = 4 * N;
        while (!(wishart_min(N, H) * target * delta >= 1.0)) H = H + std::max(1, H / 64);
        return H;
    }
    // Phi >= lambda^m * (sum over the latest m samples): best m from a geometric grid
    double best = 0, mbest = 2 * N;
    for (double m = 1.125 * N; m <= 4096.0 * N; m *= 1.125) {
        const double v = std::pow(lam, m) * wishart_min(N, m);
        if (v > best) { best = v; mbest = m; }
    }
    double H = std::log(target * delta * best) / std::log(lam);
    return int(std::ceil(std::max(H, std::max(mbest, 2.0 * N)))) + 1;
}
int conv_horizon(const Json& c) {
    return c.geti("alg") == A_RLS ? rls_horizon(c.geti("n"), c.getd("lam"), c.getd("delta")) : nlms_horizon(c.geti("n"), c.getd("mu"));
}

template<class T>
void converge_run(const Json& c, const Plan& p, Out& o) {
    using S = typename std::conditional<std::is_same<T, real_t>::value, ld, Cx<ld>>::type;
    const int N = p.n;
    const std::string an = alg_name(p.alg);
    ld hn = 0;
    for (auto& v : p.h) hn += ld(std::norm(v));
    // premise (RLS): the exact regularised least-squares solution at the horizon is itself within 1e-7 of the system (bias from the
    // diagonal load has died out) -- establishes on the reference side that the horizon from theory suffices for this realisation.
    if (p.alg == A_RLS) {
        std::vector<S> w;
        if (!ls_solution<S>(p.x, p.d, p.adapted, p.H - 1, N, p.lam, p.delta, w)) { o.discard = true; return; }
        ld mis = 0;
        for (int j = 0; j < N; ++j) mis += std::pow(re_of(w[size_t(j)]) - ld(p.h[size_t(j)].real()), 2) + std::pow(im_of(w[size_t(j)]) - ld(p.h[size_t(j)].imag()), 2);
        mis /= hn;
        o.metric("exact-LS misalignment/1e-7 (premise)", double(mis / 1e-7L));
        if (!(mis <= 1e-7L)) { o.discard = true; return; }
    }
    // premise (NLMS): the horizon 16N/(mu(2-mu)) + 200 comes from the independence theory (mean e^-16 = 1.1e-7); the tap-delay-line
    // regressors are not independent and the realised misalignment has a heavy upper tail (measured sd of ln up to 1.2 at N = 64).
    // The textbook recursion in long double on the very same realisation must itself be below 2.5e-7 (4x under the claim);
    // NLMS is contractive, so a correct double-precision implementation tracks it to ~1e-12.
    if (p.alg == A_NLMS) {
        RefLms<S> ref(N, p.mu, p.leak, true);
        S yy, ee;
        for (int k = 0; k < p.H; ++k) ref.step(mkS<S>(p.x[size_t(k)]), mkS<S>(p.d[size_t(k)]), false, yy, ee);
        ld mis = 0;
        for (int j = 0; j < N; ++j) mis += std::pow(re_of(ref.c[size_t(j)]) - ld(p.h[size_t(j)].real()), 2) + std::pow(im_of(ref.c[size_t(j)]) - ld(p.h[size_t(j)].imag()), 2);
        mis /= hn;
        if (!(mis <= 2.5e-7L)) { o.discard = true; return; }
        o.metric("textbook-NLMS misalignment/2.5e-7 (premise)", double(mis / 2.5e-7L));
    }
    Ad<T> f(p);
    int k0 = 0;
    for (size_t fi = 0; fi < p.flen.size(); ++fi) {
        const int L = p.flen[fi];
        base_array<T> y, e;
        f.proc(frame_of<T>(p.x, k0, L), frame_of<T>(p.d, k0, L), (fi & 1) != 0, y, e);
        k0 += L;
    }
    const base_array<T> cf = f.coeffs();
    ld mis = 0;
    for (int j = 0; j < N; ++j) { const cd g = to_cd(cf[j]); mis += ld(std::norm(g - p.h[size_t(j)])); }
    mis /= hn;
    o.metric(an + " misalignment/1e-6", double(mis / 1e-6L));
    if (!(mis < 1e-6L)) {
        o.fail(an + (p.cx ? ":no-convergence/complex" : ":no-convergence/real"),
               fmt("N=%d %s after %d samples of white input (noise-free system of length %d): ||c-h||^2/||h||^2 = %.3Lg >= 1e-6 (mu=%.6g lambda=%.6g delta=%.6g)", N, p.cx ? "complex" : "real", p.H, c.geti("sysl", N), mis, p.mu, p.lam, p.delta));
        return;
    }
    common_labels(c, p, o);
    o.label(fmt("horizon:%s", p.H < 1000 ? "<1e3" : p.H < 10000 ? "1e3-1e4" : p.H < 100000 ? "1e4-1e5" : ">=1e5"));
    o.nontrivial(case_key(c, p));   // horizon >= 4N by construction
}

// ------------------------------------------------------------------------------------------- (f): RLS == regularised LS
void rls_ls_run(const Json& c, const Plan& p, Out& o) {
    const int N = p.n;
    const int npts = c.geti("npts", 3);
    // time points: frame boundaries (coeffs() is observable only between calls)
    std::vector<int> ends;
    { int k = 0; for (int L : p.flen) { k += L; ends.push_back(k - 1); } }
    Rng rt(mix(c.getu("seed"), 0x715));
    std::vector<char> pick_(ends.size(), 0);
    pick_.back() = 1;
    for (int i = 0; i < npts - 1; ++i) pick_[size_t(rt.range(0, int(ends.size()) - 1))] = 1;
    // early points (k < N: under-determined, the diagonal load decides) are included with priority
    for (size_t i = 0; i < ends.size(); ++i) if (ends[i] < N && rt.range(0, 3) == 0) pick_[i] = 1;

    // Conditioning history.  The double-precision recursion carries rounding made at EARLIER times, when R(k') may have been far worse
    // conditioned than R(k) (under-determined start: lambda_min(R) = lambda^m/delta exactly).  kappa_hist(k) = max over k' <= k of
    //   * (reg(k') + trace Phi(k')) / reg(k')   while fewer than N non-zero regressors have been adapted on (upper bound of cond_2), and
    //   * cond_1(R(k')) evaluated exactly at k' = kf, kf+N/4, kf+N/2, kf+N, kf+2N (kf = first full-count sample) and at k itself.
    const ld lam = p.lam;
    std::vector<ld> kb(size_t(p.H), 1);
    int kf = -1;
    {
        ld T = 0, reg = 1 / ld(p.delta), best = 1;
        int r = 0;
        for (int k = 0; k < p.H; ++k) {
            if (p.adapted[size_t(k)]) {
                ld un = 0;
                for (int j = 0; j < N && j <= k; ++j) un += ld(std::norm(p.x[size_t(k - j)]));
                T = lam * T + un;
                reg *= lam;
                if (un > 0) ++r;
                if (r < N) best = std::max(best, (reg + T) / reg);
                else if (kf < 0) kf = k;
            }
            kb[size_t(k)] = best;
        }
    }
    std::vector<std::pair<int, ld>> chk;   // exact cond1 at checkpoints (filled lazily)
    if (kf >= 0) for (int off : {0, N / 4, N / 2, N, 2 * N}) if (kf + off < p.H) chk.emplace_back(kf + off, ld(-1));

    RlsFilterR f(N, p.lam, p.delta);
    bool cur = false;
    int k0 = 0;
    double m_err = 0;
    long evals = 0;
    bool early = false, late = false, tight = false, scaled = false;
    for (size_t fi = 0; fi < p.flen.size(); ++fi) {
        const int L = p.flen[fi];
        const bool want = p.flock[fi] != 0;
        if (want != cur || (fi == 0 && want)) { f.set_lock_coeffs(want); cur = want; }
        auto q = f.process(frame_of<real_t>(p.x, k0, L), frame_of<real_t>(p.d, k0, L));
        k0 += L;
        if (!pick_[fi]) continue;
        const int k = k0 - 1;
        std::vector<ld> w;
        ld cond = 0;
        if (!ls_solution<ld>(p.x, p.d, p.adapted, k, N, p.lam, p.delta, w, &cond)) { o.discard = true; return; }
        ld kappa = std::max(cond, kb[size_t(k)]);
        for (auto& ck : chk) {
            if (ck.first > k) continue;
            if (ck.second < 0) { std::vector<ld> tmp; ld cc = 0; if (!ls_solution<ld>(p.x, p.d, p.adapted, ck.first, N, p.lam, p.delta, tmp, &cc)) { o.discard = true; return; } ck.second = cc; }
            kappa = std::max(kappa, ck.second);
        }
        ld wmax = 0;
        for (auto v : w) wmax = std::max(wmax, fabsl(v));
        // tolerance: 1e-6 relative to max|c_LS|, scaled by the conditioning history: rel = max(1e-6, 256 eps kappa_hist);
        // time points where that exceeds 1e-3 carry no information in double precision and are excluded (counted)
        const ld rel = std::max(ld(1e-6L), 256 * ld(EPS) * kappa);
        if (!(rel <= 1e-3L)) { o.label("excluded:time point with 256 eps kappa_hist > 1e-3"); continue; }
        const ld scale = std::max(wmax, ld(1e-300L));
        const arr_real cf = f.coeffs();
        ++evals;
        for (int j = 0; j < N; ++j) {
            const ld err = fabsl(ld(cf[j]) - w[size_t(j)]);
            m_err = std::max(m_err, double(err / (rel * scale)));
            if (!(err <= rel * scale)) {
                o.fail(std::string("rls:!=regularised-LS") + (p.nlocks + p.nunlocks > 0 || p.flock[0] ? "/with-lock" : ""),
                       fmt("N=%d lambda=%.9g delta=%.6g after sample %d: coeffs()[%d]=%.15g, argmin sum lambda^(k-i)(d_i-c'u_i)^2 + lambda^(k+1)|c|^2/delta gives %.15Lg (|diff|=%.3Lg > %.3Lg, cond1=%.3Lg, kappa_hist=%.3Lg)", N, p.lam, p.delta, k, j,
                           cf[j], w[size_t(j)], err, rel * scale, cond, kappa));
                return;
            }
        }
        o.metric("log10 kappa_hist (accepted)", double(std::log10(kappa)));
        if (rel > 1e-6L) scaled = true; else tight = true;
        if (k < N) early = true; else late = true;
    }
    if (evals == 0) { o.discard = true; return; }
    o.evals = evals;
    o.metric("LS err/tol", m_err);
    common_labels(c, p, o);
    if (early) o.label("timepoint:k<N (underdetermined)");
    if (late) o.label("timepoint:k>=N");
    if (tight) o.label("tolerance:1e-6");
    if (scaled) o.label("tolerance:cond-scaled (1e-6..1e-3)");
    if (nontrivial_rule(p)) o.nontrivial(case_key(c, p));
}

// ------------------------------------------------------------------------------------------- generators
// structural parameters of one case; `kind` selects the sub-check's domain
enum Kind { K_STREAM, K_RECURSION, K_CONVERGE, K_LS };
double pick_lambda() {
    switch (pick(0, 3)) {
    case 0: return 1.0;
    case 1: return 0.9;
    case 2: return 1.0 - std::pow(10.0, -pickd(1.0, 4.0));   // log-uniform distance from 1
    default: return pickd(0.9, 1.0);
    }
}
double pick_delta() {
    switch (pick(0, 4)) {
    case 0: return 1.0;
    case 1: return 1e-2;
    case 2: return 1e4;
    default: return std::pow(10.0, pickd(-2.0, 4.0));
    }
}
double pick_leak() { return pick(0, 2) == 0 ? pickd(0.9, 0.999999) : 1.0; }
Json gen_case(Kind kind, int alg, int cx, int n, const Ctx& ctx) {
    Json c = Json::object();
    c.set("alg", alg).set("cx", cx).set("n", n);
    if (alg == A_RLS) {
        c.set("lam", pick_lambda()).set("delta", pick_delta());
    } else {
        // LMS: fraction of 2/(N Px); NLMS: mu in (0,2)
        double mu = alg == A_LMS ? std::pow(10.0, pickd(-2.3, 0.0)) * 0.999 : (pick(0, 3) == 0 ? std::pow(10.0, pickd(-2.0, 0.0)) : pickd(0.01, 1.99));
        c.set("mu", mu).set("leak", kind == K_CONVERGE ? 1.0 : pick_leak());
    }
    int xcls = 0;
    switch (kind) {
    case K_CONVERGE: xcls = pick(0, 3) == 3 ? int(X_TERNARY) : pick(0, 2); break;
    case K_LS: xcls = pick(0, 5) <= 3 ? pick(0, 2) : pick(3, 4); break;
    case K_RECURSION: xcls = pick(0, 9) <= 6 ? pick(0, 4) : (alg == A_RLS ? pick(0, 4) : pick(5, 7)); break;
    default: xcls = pick(0, 9) <= 6 ? pick(0, 4) : pick(5, 7);
    }
    if (kind != K_CONVERGE && pick(0, 3) == 0) xcls = flip() ? int(X_TERNARY) : int(X_GAPS);   // exact zeros inside the regressor, mid-stream
    c.set("xcls", xcls);
    c.set("amp", kind == K_CONVERGE && alg == A_RLS ? 1.0 : (pick(0, 2) == 0 ? std::pow(10.0, pickd(-1.0, 1.0)) : 1.0));
    const int dmode = kind == K_CONVERGE ? int(D_SYSTEM) : pick(0, 2);
    c.set("dmode", dmode).set("sysl", pick(0, 2) == 0 ? n : pick(1, n));
    if (dmode == D_SYSTEM_NOISE) c.set("noise", std::pow(10.0, pickd(-3.0, 0.0)));
    if (kind == K_CONVERGE) {
        c.set("fmode", pick(1, 4)).set("nlock", 0).set("lock0", 0);
    } else {
        const int fmode = pick(0, 4);
        int nlock = pick(0, 5);
        if (nlock == 5) nlock = pick(2, 9);
        c.set("fmode", fmode).set("nlock", fmode == 1 ? 0 : nlock).set("lock0", pick(0, 5) == 0 ? 1 : 0).set("relock", pick(0, 3) == 0 ? 1 : 0);
    }
    (void)ctx;
    return c;
}
int pick_alg_stream() { return pick(0, 2); }

}   // namespace

// ------------------------------------------------------------------------------------------- stream
VK_SUB(stream, "stream");
static void stream_check(const Json& c, Out& o) {
    Plan p = make_plan(c, c.geti("H"));
    if (p.cx) stream_run<cmplx_t>(c, p, o); else stream_run<real_t>(c, p, o);
}
static void stream_gen(Ctx& ctx) {
    // every length x algorithm x type once with a lock+unlock schedule, then rapidcheck
    for (int n = 2; n <= 64; ++n)
        for (int alg = 0; alg < 3; ++alg)
            for (int cx = 0; cx < 2; ++cx) {
                if (!ctx.mine()) continue;
                Rng r(mix(ctx.seed, key_of(n, alg, cx, 0x57)));
                Json c = Json::object().set("alg", alg).set("cx", cx).set("n", n);
                if (alg == A_RLS) c.set("lam", r.coin() ? 1.0 : r.uni(0.9, 1.0)).set("delta", std::pow(10.0, r.uni(-2, 4)));
                else c.set("mu", alg == A_LMS ? r.uni(0.02, 0.6) : r.uni(0.05, 1.95)).set("leak", r.coin() ? 1.0 : r.uni(0.9, 1.0));
                c.set("xcls", r.range(0, 4)).set("amp", 1.0).set("dmode", r.range(0, 2)).set("sysl", r.range(1, n)).set("noise", 0.1)
                  .set("fmode", 4).set("nlock", r.range(2, 6)).set("lock0", 0).set("relock", r.range(0, 1)).set("H", 6 * n + 40).set("seed", (long long)(r.next() >> 16));
                ctx.eval(c);
            }
    ctx.rc("random", ctx.by_tier(900000, 5400000), [&]() {
        const int alg = pick_alg_stream(), cx = pick(0, 1), n = pick(0, 3) == 0 ? pick(2, 64) : 1 + pick_log(1, 63);
        Json c = gen_case(K_STREAM, alg, cx, n, ctx);
        const int hmax = alg == A_RLS ? std::max(64, std::min(1500, 400000 / (n * n))) : 1500;
        int H = pick(0, 2) == 0 ? pick(1, hmax) : pick_log(1, hmax);
        // conventional RLS with lambda < 1 on a non-persistent input lets P grow like lambda^-k: keep lambda^-H <= 1e8 (domain: finite values)
        if (alg == A_RLS && c.geti("xcls") >= int(X_CONST) && c.geti("xcls") <= int(X_SPARSE) && c.getd("lam") < 1.0) H = std::min(H, std::max(1, int(std::log(1e8) / -std::log(c.getd("lam")))));
        c.set("H", H).set("seed", (long long)seed64());
        if (pick(0, 4) == 0) c.set("bad", (long long)(1 + pick64(0, 1 << 30)));
        return c;
    });
}

// ------------------------------------------------------------------------------------------- recursion
VK_SUB(recursion, "recursion");
static void recursion_check(const Json& c, Out& o) {
    Plan p = make_plan(c, c.geti("H"));
    if (p.cx) recursion_run<cmplx_t>(c, p, o); else recursion_run<real_t>(c, p, o);
}
static void recursion_gen(Ctx& ctx) {
    for (int n = 2; n <= 64; ++n)
        for (int alg = 0; alg < 3; ++alg)
            for (int cx = 0; cx < 2; ++cx) {
                if (!ctx.mine()) continue;
                Rng r(mix(ctx.seed, key_of(n, alg, cx, 0x4EC)));
                Json c = Json::object().set("alg", alg).set("cx", cx).set("n", n);
                if (alg == A_RLS) c.set("lam", r.coin() ? 1.0 : r.uni(0.9, 1.0)).set("delta", std::pow(10.0, r.uni(-2, 4)));
                else c.set("mu", alg == A_LMS ? r.uni(0.02, 0.6) : r.uni(0.05, 1.95)).set("leak", r.coin() ? 1.0 : r.uni(0.9, 1.0));
                c.set("xcls", r.range(0, 2)).set("amp", 1.0).set("dmode", r.range(0, 2)).set("sysl", r.range(1, n)).set("noise", 0.1)
                  .set("fmode", 4).set("nlock", r.range(2, 4)).set("lock0", 0).set("relock", 0).set("H", 200).set("seed", (long long)(r.next() >> 16));
                ctx.eval(c);
            }
    ctx.rc("random", ctx.by_tier(400000, 2400000), [&]() {
        const int alg = pick(0, 2), cx = pick(0, 1), n = pick(0, 3) == 0 ? pick(2, 64) : 1 + pick_log(1, 63);
        Json c = gen_case(K_RECURSION, alg, cx, n, ctx);
        c.set("H", pick(0, 1) == 0 ? pick(1, 200) : 200).set("seed", (long long)seed64());
        return c;
    });
}

// ------------------------------------------------------------------------------------------- converge
VK_SUB(converge, "converge");
static void converge_check(const Json& c, Out& o) {
    Plan p = make_plan(c, conv_horizon(c));
    if (p.cx) converge_run<cmplx_t>(c, p, o); else converge_run<real_t>(c, p, o);
}
static void converge_gen(Ctx& ctx) {
    const double budget = ctx.by_tier(2.0e7, 6.0e7);   // RLS: H * N^2
    ctx.rc("random", ctx.by_tier(20000, 100000), [&]() {
        const int alg = pick(1, 2), cx = pick(0, 1);
        int n = pick(0, 2) == 0 ? pick(2, 64) : 1 + pick_log(1, 63);
        Json c = gen_case(K_CONVERGE, alg, cx, n, ctx);
        if (alg == A_RLS) {
            // keep the case affordable: shorten the filter (never the horizon) until H N^2 fits the budget
            while (n > 2 && double(rls_horizon(n, c.getd("lam"), c.getd("delta"))) * n * n > budget) n = std::max(2, n / 2);
            c.set("n", n).set("sysl", std::min(c.geti("sysl"), n));
        }
        c.set("seed", (long long)seed64());
        return c;
    });
}

// ------------------------------------------------------------------------------------------- rls_ls
VK_SUB(rlsls, "rls_ls");
static void rlsls_check(const Json& c, Out& o) {
    Plan p = make_plan(c, c.geti("H"));
    rls_ls_run(c, p, o);
}
static void rlsls_gen(Ctx& ctx) {
    for (int n = 2; n <= 64; ++n)
        for (int v = 0; v < 2; ++v) {
            if (!ctx.mine()) continue;
            Rng r(mix(ctx.seed, key_of(n, v, 0x15)));
            Json c = Json::object().set("alg", int(A_RLS)).set("cx", 0).set("n", n).set("lam", v == 0 ? 1.0 : r.uni(0.9, 1.0)).set("delta", std::pow(10.0, r.uni(-2, 4)));
            c.set("xcls", r.range(0, 2)).set("amp", 1.0).set("dmode", 1).set("sysl", r.range(1, n)).set("noise", 0.1).set("fmode", 4).set("nlock", v == 0 ? 0 : 2).set("lock0", 0)
              .set("H", 4 * n + 20).set("npts", 4).set("seed", (long long)(r.next() >> 16));
            ctx.eval(c);
        }
    ctx.rc("random", ctx.by_tier(240000, 1440000), [&]() {
        const int n = pick(0, 3) == 0 ? pick(2, 64) : 1 + pick_log(1, 63);
        Json c = gen_case(K_LS, A_RLS, 0, n, ctx);
        const int hmax = std::min(300, std::max(6 * n, 40));
        c.set("H", pick(0, 1) == 0 ? pick(1, hmax) : pick(std::min(hmax, 4 * n), hmax)).set("npts", pick(1, 4)).set("seed", (long long)seed64());
        return c;
    });
}

VK_FRESH_THREADS;
VK_MAIN("C12")
