// C08  Multirate converters equal the zero-stuff / filter / keep-every-M-th definition.
//
// Oracle (long double, shares no code with the library):
//   u = input with L-1 zeros inserted (u[k*L] = x[k]),  g = h * L / sum(h),  v[n] = sum_t g[t] u[n-t],
//   converter output y[i] = v[i*M + phi] for ONE phase phi in [0, M) ("which of the M residues is kept") that is the same
//   for every input, frame and call of that (class, L, M, len h).  phi is never hard-coded: it is determined from a dense
//   Gaussian probe stream (every sample is an impulse of its own amplitude) and then asserted on the other inputs, on a
//   fresh object each, and -- for custom h -- on a second coefficient vector of the same length.
//   FIRDecimator applies h in correlation form; the property's premise is a linear-phase h, for which correlation and
//   convolution are the same filter, so the oracle for decimator objects is the chain built on rev(h): bit-identical to h
//   for the exactly symmetric custom vectors, and for the library's default design (a symmetric design of N+1 taps whose
//   ~1e-20 last tap is dropped) the same linear-phase filter up to that negligible tap.
//   Tolerance per output sample: 8 * len_padded(h) * eps * kappa * sum_t |g[t] u[n-t]|, kappa = sum|h| / |sum h|
//   (forward bound: normalisation by a rounded sum, one rounding per coefficient, one per accumulated term).
//
// resample(): size p'*ceil(len/q'); p == q bit-identical; never throws for valid ratios; alignment: three band-limited tones
// with closed-form values at any real time, tau = argmin of the interior least-squares residual, |tau| <= 1.05 output samples.
// The alignment fit covers all three overloads (default, (n, beta), custom linear-phase h of odd / even length); what a given
// filter can deliver is measured from its frequency response at the tones and their images before the 2 % criterion is applied.
// Direct FIRRateConverter(L, M) on NON-coprime pairs is held to the chain with L and M exactly as given.
// design_symmetry: every design_multirate_fir(L, M, hlen, astop) is linear-phase (the premise of all of the above).
#include "kit/num.h"
#include "kit/prelude.h"
#include <dsplib.h>

#include <cstring>
#include <numeric>

using namespace vk;
using namespace dsplib;

namespace {

// ------------------------------------------------------------------------------------------------ ratios
struct Ratio { int L, M; };
const std::vector<Ratio>& all_ratios() {
    static std::vector<Ratio> v = [] {
        std::vector<Ratio> r;
        for (int L = 1; L <= 16; ++L)
            for (int M = 1; M <= 16; ++M)
                if (std::gcd(L, M) == 1) r.push_back({L, M});
        for (Ratio a : {Ratio{160, 441}, Ratio{441, 160}, Ratio{147, 160}, Ratio{160, 147}, Ratio{320, 147}}) r.push_back(a);
        return r;
    }();
    return v;
}
// direct FIRRateConverter(L, M) with a NON-reduced pair, taken exactly as given (the class does not simplify): every L, M in
// 2..16 with gcd > 1, including L == M
const std::vector<Ratio>& noncoprime_ratios() {
    static std::vector<Ratio> v = [] {
        std::vector<Ratio> r;
        for (int L = 2; L <= 16; ++L)
            for (int M = 2; M <= 16; ++M)
                if (std::gcd(L, M) > 1) r.push_back({L, M});
        return r;
    }();
    return v;
}
const int kMult[] = {1, 2, 3, 7, 10, 100, 300};   // non-reduced rates: (L*k, M*k); 160/147*300 = 48000/44100

enum Cls { C_INTERP = 0, C_DECIM, C_RATE, C_RESAMPLER, C_NCLS };
const char* cls_name(int c) {
    static const char* n[] = {"FIRInterpolator", "FIRDecimator", "FIRRateConverter", "FIRResampler"};
    return n[c];
}
enum Mode { M_BYPASS, M_INTERP, M_DECIM, M_RATE };
Mode mode_of(int cls, int L, int M) {
    if (cls == C_INTERP) return M_INTERP;
    if (cls == C_DECIM) return M_DECIM;
    if (cls == C_RATE) return M_RATE;
    if (L == M) return M_BYPASS;
    if (L == 1) return M_DECIM;
    if (M == 1) return M_INTERP;
    return M_RATE;
}
const char* mode_name(Mode m) {
    static const char* n[] = {"bypass", "interp", "decim", "rate"};
    return n[m];
}

// ------------------------------------------------------------------------------------------------ inputs
enum In { I_GAUSS = 0, I_IMPULSE, I_TRAIN, I_CHIRP, I_CONST, I_DYN, I_NIN };
const char* in_name(int c) {
    static const char* n[] = {"gauss", "impulse", "impulse-train", "swept-tone", "const", "dynrange"};
    return n[c];
}
// band = pass-band edge in cycles/sample of the input rate
std::vector<double> make_input(Rng& r, int n, int cls, double band) {
    std::vector<double> x(size_t(n), 0.0);
    if (n == 0) return x;
    switch (cls) {
    case I_IMPULSE: x[size_t(r.range(0, std::max(0, n / 2)))] = r.uni(0.5, 2.0) * (r.coin() ? 1 : -1); break;
    case I_TRAIN: {
        int k = std::max(1, n / 7);
        for (int j = 0; j < k; ++j) x[size_t(r.range(0, n - 1))] = r.gauss();
        break;
    }
    case I_CHIRP: {   // instantaneous frequency sweeps 0 .. band over the stream
        double a = r.uni(0.5, 2.0), p0 = r.uni(0, 2 * M_PI);
        for (int i = 0; i < n; ++i) x[size_t(i)] = a * std::cos(p0 + M_PI * band * double(i) * double(i) / double(n));
        break;
    }
    case I_CONST: { double a = r.gauss() + 2.0; for (auto& v : x) v = a; break; }
    case I_DYN: for (auto& v : x) v = r.gauss() * r.logmag(-6, 6); break;
    default: for (auto& v : x) v = r.gauss();
    }
    return x;
}

// exactly symmetric coefficient vector with a well-conditioned sum (kappa = sum|h| / |sum h| <= 8)
enum HShape { HS_GAUSS_POS = 0, HS_LOWPASS, HS_POSITIVE, HS_NEGSUM, HS_NSHAPE };
arr_real make_sym_h(Rng& r, int len, int shape, int maxLM) {
    std::vector<double> h(static_cast<size_t>(len));
    for (int attempt = 0;; ++attempt) {
        const int half = (len + 1) / 2;
        const double c = 0.5 * (len - 1);
        for (int i = 0; i < half; ++i) {
            double v;
            switch (shape) {
            case HS_LOWPASS: {
                double t = (double(i) - c) / double(maxLM);
                double s = (t == 0) ? 1.0 : std::sin(M_PI * t) / (M_PI * t);
                double w = 0.5 + 0.5 * std::cos(M_PI * (double(i) - c) / (c + 1.0));
                v = s * w * (1.0 + 0.05 * r.gauss());
                break;
            }
            case HS_POSITIVE: v = r.uni(0.1, 1.0); break;
            case HS_NEGSUM: v = -(r.gauss() + 0.7 + 0.3 * attempt); break;
            default: v = r.gauss() + 0.7 + 0.3 * attempt;
            }
            h[size_t(i)] = v;
            h[size_t(len - 1 - i)] = v;
        }
        ld s = 0, a = 0;
        for (double v : h) { s += v; a += std::fabs(v); }
        if (std::fabs(s) * 8 >= a && a > 0) break;
        if (attempt > 20) { for (auto& v : h) v = 1.0; break; }
    }
    return arr_real(h);
}

// ------------------------------------------------------------------------------------------------ the chain oracle
struct Chain
{
    int L{1}, M{1}, nh{0}, nhp{0};
    std::vector<ld> g;   // h * L / sum(h) in long double (orientation as applied: reversed for decimator objects)
    ld kappa{1};
    Chain(const arr_real& h, int L_, int M_, bool reversed, int pc) : L(L_), M(M_) {
        nh = h.size();
        nhp = (nh % pc == 0) ? nh : (nh / pc + 1) * pc;
        ld s = 0, a = 0;
        for (int i = 0; i < nh; ++i) { s += ld(h[i]); a += std::fabs(ld(h[i])); }
        kappa = a / std::fabs(s);
        g.resize(size_t(nh));
        for (int i = 0; i < nh; ++i) g[size_t(i)] = ld(h[reversed ? nh - 1 - i : i]) * ld(L) / s;
    }
    // v[m] and sum of |terms| for the stream x (zero before its start; nothing after its end is ever needed causally,
    // samples beyond the end count as zero)
    void at(const std::vector<double>& x, int64_t m, ld& v, ld& s) const {
        v = 0; s = 0;
        if (m < 0) return;
        const int64_t nx = int64_t(x.size());
        for (int64_t t = m % L; t < nh; t += L) {
            const int64_t k = (m - t) / L;
            if (k < 0) break;
            if (k >= nx) continue;
            const ld p = g[size_t(t)] * ld(x[size_t(k)]);
            v += p;
            s += std::fabs(p);
        }
    }
    ld tol(ld s) const { return 8 * ld(nhp) * EPS * kappa * s; }
};

struct MatchInfo { double worst{0}; int bad_i{-1}; double got{0}; ld ref{0}, tol{0}; };
// does y[i] == v[i*M+phi] for every i?  (early exit on the first mismatch)
bool match_phase(const Chain& ch, const std::vector<double>& x, const std::vector<double>& y, int phi, MatchInfo& mi) {
    mi = MatchInfo{};
    for (size_t i = 0; i < y.size(); ++i) {
        ld v, s;
        ch.at(x, int64_t(i) * ch.M + phi, v, s);
        const ld t = ch.tol(s);
        const ld e = std::fabs(ld(y[i]) - v);
        const bool fin = std::isfinite(y[i]);
        double ratio = (!fin) ? 1e300 : (t > 0 ? double(e / t) : (e == 0 ? 0.0 : 1e300));
        if (ratio > mi.worst) mi.worst = ratio;
        if (!(ratio <= 1)) { mi.bad_i = int(i); mi.got = y[i]; mi.ref = v; mi.tol = t; return false; }
    }
    return true;
}

// ------------------------------------------------------------------------------------------------ object under test
struct Spec
{
    int cls, L, M, k, hk, hlen, hshape, in;
    uint64_t seed;
    int sexp{0};    // the whole stream is scaled by 10^sexp (the chain is linear: levels hundreds of dB from unity change nothing)
    int longf{0};   // > 0: the stream holds one frame of more than 65536 input samples (16-bit offsets inside a call)
};
// failure-signature tag; a direct converter built on a non-reduced pair is a class of its own
std::string tag_of(const Spec& s, Mode mode) {
    std::string t = std::string(cls_name(s.cls)) + ":" + mode_name(mode);
    if (s.cls == C_RATE && std::gcd(s.L, s.M) > 1) t += ":non-coprime";
    return t;
}
std::unique_ptr<IResampler> build(const Spec& s, const arr_real* h) {
    switch (s.cls) {
    case C_INTERP: return h ? std::make_unique<FIRInterpolator>(s.L, *h) : std::make_unique<FIRInterpolator>(s.L);
    case C_DECIM: return h ? std::make_unique<FIRDecimator>(s.M, *h) : std::make_unique<FIRDecimator>(s.M);
    case C_RATE: return h ? std::make_unique<FIRRateConverter>(s.L, s.M, *h) : std::make_unique<FIRRateConverter>(s.L, s.M);
    default: return h ? std::make_unique<FIRResampler>(s.L * s.k, s.M * s.k, *h) : std::make_unique<FIRResampler>(s.L * s.k, s.M * s.k);
    }
}

// One stream through one fresh object: valid frames (multiples of M, possibly empty) interleaved with invalid ones that
// must throw and leave the stream position untouched.  Returns the concatenated valid input and the concatenated output.
struct StreamResult { std::vector<double> x, y; int frames{0}, rejected{0}; };
bool run_stream(const Spec& sp, const arr_real* h, Mode mode, Rng& r, int units, int in_cls, bool force_bad, Out& o, StreamResult& res) {
    const int L = sp.L, M = sp.M;
    const std::string tag = tag_of(sp, mode);
    auto obj = build(sp, h);
    if (obj->interp_rate() != (mode == M_BYPASS ? 1 : L) || obj->decim_rate() != (mode == M_BYPASS ? 1 : M)) {
        o.fail("rates:" + tag, fmt("%s(L=%d,M=%d,k=%d): interp_rate()=%d decim_rate()=%d, expected %d/%d (the reduced rates; a direct converter keeps its arguments)", cls_name(sp.cls), L, M, sp.k,
                                    obj->interp_rate(), obj->decim_rate(), L, M));
        return false;
    }
    const int total = units * M;
    const double band = 0.5 * std::min(1.0, double(L) / double(M));
    res.x = make_input(r, total, in_cls, band);
    if (sp.sexp) { const double g = std::pow(10.0, double(sp.sexp)); for (auto& v : res.x) v *= g; }
    // cut the stream into 1..4 frames (cuts may coincide: empty frames are multiples of M too)
    const int nf = sp.longf ? r.range(1, 2) : r.range(1, 4);
    std::vector<int> cuts = {0, units};
    for (int j = 1; j < nf; ++j) cuts.push_back(sp.longf ? r.range(0, std::max(0, units - (65537 + M - 1) / M)) * (r.coin() ? 1 : 0) : r.range(0, units));
    std::sort(cuts.begin(), cuts.end());
    const bool can_reject = (M >= 2) && (mode == M_DECIM || mode == M_RATE);
    const int forced_at = force_bad ? r.range(0, nf - 1) : -1;
    for (int f = 0; f < nf; ++f) {
        const int a = cuts[size_t(f)] * M, b = cuts[size_t(f + 1)] * M;
        if (can_reject && (f == forced_at || r.range(0, 3) == 0)) {
            // a frame whose length is not a multiple of M: must throw, and the stream continues as if it never happened
            const int blen = r.range(0, 3) * M + r.range(1, M - 1);
            arr_real bad(blen);
            for (int i = 0; i < blen; ++i) bad[i] = 3.0 + r.gauss();
            bool threw = false;
            try {
                arr_real yy = obj->process(bad);
                (void)yy;
            } catch (const std::exception&) {
                threw = true;
            }
            if (!threw) { o.fail("reject:" + tag + ":no-throw", fmt("%s(L=%d,M=%d) accepted a frame of %d samples (not a multiple of %d)", cls_name(sp.cls), L, M, blen, M)); return false; }
            res.rejected++;
        }
        arr_real fr(b - a);
        for (int i = a; i < b; ++i) fr[i - a] = res.x[size_t(i)];
        arr_real yy;
        try {
            yy = obj->process(fr);
        } catch (const std::exception& e) {
            o.fail("process:" + tag + ":throws", fmt("%s(L=%d,M=%d,len h=%d) threw on a valid frame of %d samples: %s", cls_name(sp.cls), L, M, sp.hlen, b - a, e.what()));
            return false;
        }
        const int64_t want = int64_t(b - a) * L / M;
        if (yy.size() != want) {
            o.fail("count:" + tag, fmt("%s(L=%d,M=%d,len h=%d): frame of %d samples produced %d outputs, expected len*L/M = %lld", cls_name(sp.cls), L, M, sp.hlen, b - a, yy.size(), (long long)want));
            return false;
        }
        for (int i = 0; i < yy.size(); ++i) res.y.push_back(yy[i]);
        res.frames++;
    }
    return true;
}

Spec decode(const Json& c) {
    Spec s;
    s.cls = c.geti("cls"); s.L = c.geti("L"); s.M = c.geti("M"); s.k = c.geti("k", 1);
    s.hk = c.geti("hk"); s.hlen = c.geti("hlen", 0); s.hshape = c.geti("hshape", 0); s.in = c.geti("in");
    s.seed = c.getu("seed");
    return s;
}

}   // namespace

// ================================================================================================ chain identity
VK_SUB(chain, "chain_identity");
static void chain_check(const Json& c, Out& o) {
    Spec sp = decode(c);
    sp.longf = c.geti("long", 0);
    sp.sexp = c.geti("sexp", 0);
    if (sp.sexp) o.label(sp.sexp < 0 ? "stream level: 1e-20 .. 1e-45" : "stream level: 1e20 .. 1e45");
    if (sp.longf) o.label("frame > 65536 input samples");
    const int L = sp.L, M = sp.M;
    const Mode mode = mode_of(sp.cls, L, M);
    const std::string tag = tag_of(sp, mode);
    Rng r(sp.seed);
    o.label(std::string("class:") + cls_name(sp.cls));
    o.label(std::string("mode:") + mode_name(mode));
    o.label(std::string("input:") + in_name(sp.in));
    if (sp.cls == C_RESAMPLER) o.label(sp.k > 1 ? "rates:non-reduced" : "rates:reduced");
    if (sp.cls == C_RATE && std::gcd(L, M) > 1) o.label(L == M ? "direct:non-coprime(L==M)" : (L % M == 0 || M % L == 0 ? "direct:non-coprime(one divides the other)" : "direct:non-coprime"));

    if (mode == M_BYPASS) {
        // equal rates: the chain with L = M = 1 and no filter is the identity
        arr_real hh = make_sym_h(r, std::max(2, sp.hlen), sp.hshape, 1);
        StreamResult sr;
        if (!run_stream(sp, sp.hk ? &hh : nullptr, mode, r, r.range(1, 64), sp.in, false, o, sr)) return;
        for (size_t i = 0; i < sr.x.size(); ++i)
            if (!(sr.x[i] == sr.y[i])) { o.fail("bypass:value", fmt("FIRResampler(%d,%d) output[%zu]=%.17g, input %.17g", L * sp.k, M * sp.k, i, sr.y[i], sr.x[i])); return; }
        return;
    }

    // the coefficient vectors: library default, or two exactly symmetric vectors of the same length
    const int pc = (mode == M_DECIM) ? M : L;   // polyphase count
    const int maxLM = std::max(L, M);
    std::vector<arr_real> hs;
    if (sp.hk == 0) hs.push_back(design_multirate_fir(L, M));
    else {
        hs.push_back(make_sym_h(r, sp.hlen, sp.hshape, maxLM));
        hs.push_back(make_sym_h(r, sp.hlen, (sp.hshape + 1 + r.range(0, HS_NSHAPE - 2)) % HS_NSHAPE, maxLM));
    }
    const int nh = hs[0].size();
    const bool padded = (nh % pc) != 0;
    const char* hname = sp.hk == 0 ? "h:default" : (padded ? "h:custom,len%polyphase!=0" : "h:custom,len%polyphase==0");
    o.label(hname);
    o.label(std::string("combo:") + mode_name(mode) + "/" + hname);

    // polyphase memory in input samples; the streams are at least twice as long
    const int mem = (mode == M_DECIM) ? ((nh + M - 1) / M) * M : (nh + L - 1) / L;
    const int min_units = (2 * mem + M - 1) / M + 2;

    std::vector<int> cand;
    for (int p = 0; p < M; ++p) cand.push_back(p);
    double worst = 0;
    int run_no = 0;
    long calls = 0;
    for (size_t hi = 0; hi < hs.size(); ++hi) {
        const arr_real& h = hs[hi];
        Chain ch(h, L, M, mode == M_DECIM, pc);
        // run 0: dense Gaussian probe determines phi; run 1: the case's input class; second h: Gaussian again
        const int nruns = (hi == 0) ? 2 : 1;
        for (int q = 0; q < nruns; ++q, ++run_no) {
            const int in_cls = (hi == 0 && q == 1) ? sp.in : int(I_GAUSS);
            const int units = min_units + r.range(0, 6) + ((sp.longf && q == nruns - 1 && hi == 0) ? (65537 + r.range(0, 6000) + M - 1) / M : 0);
            StreamResult sr;
            if (!run_stream(sp, sp.hk ? &h : nullptr, mode, r, units, in_cls, run_no == 1, o, sr)) return;
            calls += sr.frames + sr.rejected;
            if (sr.rejected) o.label("rejected-frame-then-continue");
            std::vector<int> keep;
            MatchInfo best;
            int best_phi = -1;
            best.worst = 1e301;
            for (int phi : cand) {
                MatchInfo mi;
                if (match_phase(ch, sr.x, sr.y, phi, mi)) { keep.push_back(phi); worst = std::max(worst, mi.worst); }
                else if (best_phi < 0 || mi.bad_i > best.bad_i) { best = mi; best_phi = phi; }
            }
            if (keep.empty()) {
                const char* what = (run_no == 0) ? "no-phase" : (hi == 0 ? "phase-not-fixed" : "phase-depends-on-h");
                std::string pads = padded ? ":padded" : "";
                o.fail("chain:" + tag + ":" + what + (sp.hk ? pads : std::string(":default-h")),
                       fmt("%s(L=%d,M=%d,k=%d) len h=%d (%s) input=%s run %d: no phi in the %zu candidate(s) left of [0,%d) gives y[i]=v[i*M+phi]; closest phi=%d fails first at "
                           "i=%d: y=%.17g ref=%.17Lg tol=%.3Lg",
                           cls_name(sp.cls), L, M, sp.k, nh, sp.hk ? "custom symmetric" : "design_multirate_fir", in_name(in_cls), run_no, cand.size(), M, best_phi, best.bad_i,
                           best.got, best.ref, best.tol));
                return;
            }
            cand = keep;
        }
    }
    o.metric("chain err/tol", worst);
    o.evals = calls;   // process() calls judged (accepted frames compared with the chain + rejected frames)
    if (cand.size() > 1) o.label("phase:ambiguous");
    else o.label(cand[0] == 0 ? "phase:0" : (cand[0] == M - 1 ? "phase:M-1" : "phase:other"));
    if (L * M > 1) o.nontrivial(key_of(sp.cls, L, M, sp.hk, nh % (L * M), sp.in));
}

static Json chain_case(int cls, int L, int M, int k, int hk, int hlen, int hshape, int in, uint64_t seed) {
    return Json::object().set("cls", cls).set("L", L).set("M", M).set("k", k).set("hk", hk).set("hlen", hlen).set("hshape", hshape).set("in", in).set("seed", (long long)(seed >> 16));
}
// length of a custom h: kind 1 = multiple of the polyphase count, 2 = not a multiple (when the count is > 1)
static int pick_hlen(Rng& r, int pc, int maxLM, int kind) {
    const int top = 40 * maxLM;
    if (kind == 1 || pc == 1) {
        int lo = (2 + pc - 1) / pc;
        int n = r.range(lo, std::max(lo, top / pc));
        if (r.coin()) n = r.range(lo, std::max(lo, std::min(top / pc, 6)));   // short filters: few taps per branch
        return n * pc;
    }
    for (;;) {
        int n = r.coin() ? r.range(2, top) : r.range(2, std::min(top, 4 * pc + 3));
        if (n % pc != 0) return n;
    }
}
static void chain_gen(Ctx& ctx) {
    // (1) complete: every reduced ratio x every class that accepts it x {default, custom multiple, custom non-multiple} x input class
    const int reps = ctx.by_tier(4, 24);
    for (int rep = 0; rep < reps; ++rep)
        for (const Ratio& q : all_ratios())
            for (int cls = 0; cls < C_NCLS + 1; ++cls) {           // C_NCLS = FIRResampler with non-reduced rates
                const int rc = std::min(cls, int(C_RESAMPLER));
                if (rc == C_INTERP && q.M != 1) continue;
                if (rc == C_DECIM && q.L != 1) continue;
                for (int hk = 0; hk < 3; ++hk)
                    for (int in = 1; in < I_NIN; ++in) {
                        if (!ctx.mine()) continue;
                        uint64_t sd = mix(ctx.seed, key_of(rep, q.L, q.M, cls, hk, in));
                        Rng r(sd);
                        const int k = (cls == C_NCLS) ? kMult[r.range(1, 6)] : 1;
                        const Mode md = mode_of(rc, q.L, q.M);
                        const int pc = md == M_DECIM ? q.M : q.L;
                        const int hlen = hk ? pick_hlen(r, pc, std::max(q.L, q.M), hk) : 0;
                        ctx.eval(chain_case(rc, q.L, q.M, k, hk ? 1 : 0, hlen, r.range(0, HS_NSHAPE - 1), in, sd));
                    }
            }
    // (1b) complete: direct FIRRateConverter(L, M[, h]) for every NON-coprime pair in 2..16, as given
    for (int rep = 0; rep < reps; ++rep)
        for (const Ratio& q : noncoprime_ratios())
            for (int hk = 0; hk < 3; ++hk)
                for (int in = 1; in < I_NIN; ++in) {
                    if (!ctx.mine()) continue;
                    uint64_t sd = mix(ctx.seed, key_of(rep, q.L, q.M, 0x6C, hk, in));
                    Rng r(sd);
                    const int hlen = hk ? pick_hlen(r, q.L, std::max(q.L, q.M), hk) : 0;
                    ctx.eval(chain_case(C_RATE, q.L, q.M, 1, hk ? 1 : 0, hlen, r.range(0, HS_NSHAPE - 1), in, sd));
                }
    // (1c) one frame of more than 65536 input samples for every class (counters and offsets inside a single call)
    {
        struct LC { int cls, L, M; };
        const LC lcs[] = {{C_RATE, 3, 2}, {C_RATE, 2, 3}, {C_RATE, 5, 4}, {C_RATE, 4, 6}, {C_INTERP, 2, 1}, {C_INTERP, 3, 1}, {C_DECIM, 1, 2}, {C_DECIM, 1, 5}, {C_RESAMPLER, 3, 2}, {C_RESAMPLER, 2, 5}, {C_RESAMPLER, 160, 147}};
        for (const LC& lc : lcs)
            for (int hk = 0; hk < ctx.by_tier(2, 3); ++hk) {
                if (lc.L > 16 && hk) continue;
                if (!ctx.mine()) continue;
                uint64_t sd = mix(ctx.seed, key_of(lc.cls, lc.L, lc.M, hk, 0x10F));
                Rng r(sd);
                const Mode md = mode_of(lc.cls, lc.L, lc.M);
                const int pc = md == M_DECIM ? lc.M : lc.L;
                const int hlen = hk ? pick_hlen(r, pc, std::max(lc.L, lc.M), hk) : 0;
                ctx.eval(chain_case(lc.cls, lc.L, lc.M, 1, hk ? 1 : 0, hlen, r.range(0, HS_NSHAPE - 1), int(I_GAUSS), sd).set("long", 1));
            }
    }
    // (2) random: everything free, h length anywhere in 2..40*max(L,M)
    const auto& rs = all_ratios();
    const auto& nc = noncoprime_ratios();
    ctx.rc("random", ctx.by_tier(1600000, 20000000), [&]() {
        if (pick(0, 11) == 11) {   // direct converter on a non-reduced pair
            const Ratio q = nc[size_t(pick(0, int(nc.size()) - 1))];
            const int hk = pick(0, 3) == 0 ? 0 : 1;
            const int hlen = hk ? pick_log(2, 40 * std::max(q.L, q.M)) : 0;
            return chain_case(C_RATE, q.L, q.M, 1, hk, hlen, pick(0, HS_NSHAPE - 1), pick(0, I_NIN - 1), seed64() << 16);
        }
        const Ratio q = rs[size_t(pick(0, int(rs.size()) - 1))];
        std::vector<int> ok = {C_RATE, C_RESAMPLER};
        if (q.M == 1) ok.push_back(C_INTERP);
        if (q.L == 1) ok.push_back(C_DECIM);
        const int cls = one_of(ok);
        const int k = cls == C_RESAMPLER ? kMult[pick(0, 6)] : 1;
        const int hk = pick(0, 3) == 0 ? 0 : 1;
        const int hlen = hk ? pick_log(2, 40 * std::max(q.L, q.M)) : 0;
        Json cc = chain_case(cls, q.L, q.M, k, hk, hlen, pick(0, HS_NSHAPE - 1), pick(0, I_NIN - 1), seed64() << 16);
        if (pick(0, 5) == 0) cc.set("sexp", (flip() ? 1 : -1) * pick(20, 45));
        return cc;
    });
}

// ================================================================================================ next_size / prev_size
VK_SUB(sizes, "frame_sizes");
// "direct":1 = FIRRateConverter(L, M) built on a NON-reduced pair exactly as given: the object keeps interp_rate() = L and
// decim_rate() = M, process() accepts multiples of M only (chain_identity), so the frame-size helpers OF THE OBJECT must return
// multiples of M ("nearest multiple of frame size to process"), verified functionally: process() takes a frame of next_size(s)
// and of prev_size(s) samples.  The static helpers keep their documented meaning (multiples of the reduced M).
static void sizes_direct_check(const Json& c, Out& o) {
    const int L = c.geti("L"), M = c.geti("M");
    const int Mr = M / std::gcd(L, M);
    const bool member = c.geti("member", 1) != 0;
    FIRRateConverter rc(L, M);
    if (rc.interp_rate() != L || rc.decim_rate() != M) {
        o.fail("rates:FIRRateConverter:non-coprime", fmt("FIRRateConverter(%d,%d): interp_rate()=%d decim_rate()=%d, the class converts by the pair as given", L, M, rc.interp_rate(), rc.decim_rate()));
        return;
    }
    const int top = 4 * M + 3;
    for (int s = 0; s <= top; ++s) {
        const int nxr = ((s + Mr - 1) / Mr) * Mr, pvr = (s / Mr) * Mr;
        const int g1 = IResampler::next_size(s, L, M), g2 = IResampler::prev_size(s, L, M);
        if (g1 != nxr) { o.fail("next_size", fmt("static next_size(%d, %d, %d) = %d, expected %d", s, L, M, g1, nxr)); return; }
        if (g2 != pvr) { o.fail("prev_size", fmt("static prev_size(%d, %d, %d) = %d, expected %d", s, L, M, g2, pvr)); return; }
        const int g3 = rc.next_size(s), g4 = rc.prev_size(s);
        if (!member) {
            // excluded class (reported): the member helpers forward to the static ones, which reduce the pair
            if (g3 != g1 || g4 != g2) { o.fail("size-helpers:member!=static", fmt("FIRRateConverter(%d,%d): next_size(%d)=%d prev_size=%d, static %d / %d", L, M, s, g3, g4, g1, g2)); return; }
            continue;
        }
        const int nx = ((s + M - 1) / M) * M, pv = (s / M) * M;
        for (int w = 0; w < 2; ++w) {
            const int got = w ? g4 : g3, want = w ? pv : nx;
            bool accepted = true;
            std::string what;
            try {
                arr_real y = rc.process(zeros(got));
                if (y.size() != int64_t(got) * L / M) { accepted = false; what = fmt("returned %d samples", y.size()); }
            } catch (const std::exception& e) {
                accepted = false;
                what = std::string("threw: ") + e.what();
            }
            if (got != want || !accepted) {
                o.fail(w ? "prev_size:FIRRateConverter:non-coprime" : "next_size:FIRRateConverter:non-coprime",
                       fmt("FIRRateConverter(%d,%d).%s(%d) = %d, but the object processes frames that are multiples of %d only (expected %d); process() on %d samples %s", L, M,
                           w ? "prev_size" : "next_size", s, got, M, want, got, accepted ? "accepted it" : what.c_str()));
                return;
            }
        }
    }
    o.evals = 4L * (top + 1);
    o.nontrivial(key_of(L, M, 0x44, member));
    o.label(L == M ? "direct:non-coprime(L==M)" : "direct:non-coprime");
    if (!member) o.label("excluded:member-next/prev_size-of-non-reduced-FIRRateConverter");
}
static void sizes_check(const Json& c, Out& o) {
    if (c.geti("direct", 0)) { sizes_direct_check(c, o); return; }
    const int L = c.geti("L"), M = c.geti("M"), k = c.geti("k");
    FIRResampler rs(L * k, M * k);
    std::unique_ptr<IResampler> direct;
    if (L > 1 && M > 1) direct = std::make_unique<FIRRateConverter>(L, M);
    else if (M > 1) direct = std::make_unique<FIRDecimator>(M);
    else if (L > 1) direct = std::make_unique<FIRInterpolator>(L);
    const int top = 4 * M + 3;
    for (int s = 0; s <= top; ++s) {
        const int nx = ((s + M - 1) / M) * M, pv = (s / M) * M;
        int g1 = IResampler::next_size(s, L * k, M * k), g2 = IResampler::prev_size(s, L * k, M * k);
        int g3 = rs.next_size(s), g4 = rs.prev_size(s);
        int g5 = direct ? direct->next_size(s) : nx, g6 = direct ? direct->prev_size(s) : pv;
        if (g1 != nx || g3 != nx || g5 != nx) { o.fail("next_size", fmt("next_size(%d) for %d/%d: static %d, FIRResampler %d, converter %d, expected %d", s, L * k, M * k, g1, g3, g5, nx)); return; }
        if (g2 != pv || g4 != pv || g6 != pv) { o.fail("prev_size", fmt("prev_size(%d) for %d/%d: static %d, FIRResampler %d, converter %d, expected %d", s, L * k, M * k, g2, g4, g6, pv)); return; }
    }
    o.evals = 6L * (top + 1);
    if (M > 1) o.nontrivial(key_of(L, M, k));
    o.label(k > 1 ? "rates:non-reduced" : "rates:reduced");
}
static void sizes_gen(Ctx& ctx) {
    for (const Ratio& q : all_ratios())
        for (int k : kMult) {
            if (!ctx.mine()) continue;
            ctx.eval(Json::object().set("L", q.L).set("M", q.M).set("k", k));
        }
    // direct FIRRateConverter on a non-reduced pair.  member = 1 (the object's own next/prev_size must be frames the object
    // processes) fires on the unchanged library for every pair with M/gcd != M, see props/C08.json; those are generated with member = 0.
    for (const Ratio& q : noncoprime_ratios()) {
        if (!ctx.mine()) continue;
        ctx.eval(Json::object().set("L", q.L).set("M", q.M).set("k", 1).set("direct", 1).set("member", 0));
    }
}

// ================================================================================================ resample(): size, identity, no throw
VK_SUB(rsz, "resample_size");
static void rsz_check(const Json& c, Out& o) {
    const int L = c.geti("L"), M = c.geti("M"), k = c.geti("k"), len = c.geti("len"), form = c.geti("form");
    const int p = L * k, q = M * k;
    Rng r(c.getu("seed"));
    arr_real x = to_arr(make_input(r, len, I_GAUSS, 0.5));
    arr_real y;
    const char* fname = form == 0 ? "default" : form == 1 ? "n,beta" : "custom-h";
    std::string desc;
    try {
        if (form == 0) { desc = fmt("resample(x[%d], %d, %d)", len, p, q); y = resample(x, p, q); }
        else if (form == 1) {
            int n = r.range(1, 16);
            double beta = r.uni(0, 10);
            desc = fmt("resample(x[%d], %d, %d, n=%d, beta=%.3f)", len, p, q, n, beta);
            y = resample(x, p, q, n, beta);
        } else {
            int pc = (L == 1) ? M : L;
            int hlen = pick_hlen(r, pc, std::max(L, M), r.range(1, 2));
            arr_real h = make_sym_h(r, hlen, r.range(0, HS_NSHAPE - 1), std::max(L, M));
            desc = fmt("resample(x[%d], %d, %d, h[%d])", len, p, q, hlen);
            y = resample(x, p, q, h);
        }
    } catch (const std::exception& e) {
        o.fail(std::string("resample:throws:") + fname, desc + " threw: " + e.what());
        return;
    }
    o.label(std::string("form:") + fname);
    if (L == M) {
        // "returns x itself": same length, every sample the same bit pattern -- in every call form
        bool same = y.size() == x.size();
        if (same && len > 0) same = std::memcmp(y.data(), x.data(), sizeof(double) * size_t(len)) == 0;
        if (!same) o.fail(form == 0 ? std::string("resample:identity") : std::string("resample:identity:") + fname, desc + " with p == q did not return x bit-identically");
        o.label("p==q");
        o.label(std::string("p==q:form:") + fname + (p > 1 ? ",non-reduced" : ""));
        if (k > 0) o.nontrivial(key_of(1, p, len, form));
        return;
    }
    const int64_t want = int64_t(L) * ((len + M - 1) / M);
    if (y.size() != want) { o.fail(std::string("resample:size:") + fname, desc + fmt(" returned %d samples, expected p'*ceil(len/q') = %lld", y.size(), (long long)want)); return; }
    if (!all_finite(y)) { o.fail(std::string("resample:nonfinite:") + fname, desc + " returned a non-finite sample"); return; }
    o.label(len % M == 0 ? "len%q'==0" : "len%q'!=0");
    o.label(k > 1 ? "ratio:non-reduced" : "ratio:reduced");
    o.nontrivial(key_of(2, L, M, len % M == 0, form, k > 1));
}
static void rsz_gen(Ctx& ctx) {
    const int reps = ctx.by_tier(1, 4);
    for (int rep = 0; rep < reps; ++rep)
        for (const Ratio& q : all_ratios())
            for (int ki = 0; ki < 2; ++ki)
                for (int form = 0; form < 3; ++form)
                    for (int lk = 0; lk < 5; ++lk) {
                        if (!ctx.mine()) continue;
                        uint64_t sd = mix(ctx.seed, key_of(rep, q.L, q.M, ki, form, lk, 0x52));
                        Rng r(sd);
                        const int k = ki ? kMult[r.range(1, 6)] : 1;
                        int len;
                        switch (lk) {
                        case 0: len = r.range(1, std::max(1, q.M - 1)); break;          // shorter than one block
                        case 1: len = q.M * r.range(1, 4); break;                        // multiple
                        case 2: len = q.M * r.range(1, 4) + 1; break;                    // multiple + 1
                        case 3: len = q.M * r.range(1, 4) + q.M - 1; break;             // multiple - 1
                        default: len = r.range(1, 6 * q.M + 40);
                        }
                        ctx.eval(Json::object().set("L", q.L).set("M", q.M).set("k", k).set("len", len).set("form", form).set("seed", (long long)(sd >> 16)));
                    }
    // p == q in every form, reduced or not
    for (int p : {1, 2, 3, 7, 16, 147, 441, 44100, 48000, 6, 12})   // appended values keep the enumeration order of the older ones
        for (int form = 0; form < 3; ++form)
            for (int len : {1, 2, 17, 100}) {
                if (!ctx.mine()) continue;
                ctx.eval(Json::object().set("L", 1).set("M", 1).set("k", p).set("len", len).set("form", form).set("seed", (long long)(mix(ctx.seed, key_of(p, form, len)) >> 16)));
            }
    const auto& rs = all_ratios();
    ctx.rc("random", ctx.by_tier(400000, 4000000), [&]() {
        const Ratio q = rs[size_t(pick(0, int(rs.size()) - 1))];
        return Json::object().set("L", q.L).set("M", q.M).set("k", kMult[pick(0, 6)]).set("len", pick_log(1, 8 * q.M + 64)).set("form", pick(0, 2)).set("seed", (long long)seed64());
    });
}

// ================================================================================================ resample(): alignment
// x(t) = sum_k A_k cos(2 pi f_k t + th_k), all f_k in [0.10, 0.35] * min(1, p/q) of the input Nyquist frequency.
// y = resample(x[0..len), p, q) with the default filter; interior = output instants whose filter support (documented
// order 2*n*max(p,q), n = 10) plus the tau search range lies inside the record.
// tau = argmin over [-4, 4] of sum_interior (y[i] - x((i + tau) q/p))^2  (0.05 grid, then golden section to 1e-6).
VK_SUB(ral, "resample_alignment");
// Call forms ("form", default 0 = resample(x, p, q)):
//   1  resample(x, p, q, n, beta), n = case "n", beta = "beta10"/10 -- documented filter: order 2*n*max(p,q), Kaiser(beta)
//   2  resample(x, p, q, h) with a linear-phase h designed for the ratio: "hdes" 0 = the library's own
//      design_multirate_fir(p', q', "n", "astop") taken as data, 1 = a Kaiser-windowed sinc of "hlen" taps (odd or even, any
//      residue modulo p'), cut-off 1/max(p',q') of the interpolated Nyquist frequency, computed here.
// What accuracy a filter can deliver is MEASURED, not assumed: for the three tones the error of the ideal chain (zero-stuff by p',
// g = h*p'/sum h, any output phase) is bounded by  E = sum_k A_k ( |G0(f_k/p')/p' - 1| + (1/p') sum_{r=1..p'-1} |G((r+f_k)/p')| ) / sum A
// (pass-band deviation of the zero-phase response + every image line), evaluated on the h that is passed (form 2) or on the
// documented filter (form 1).  The 2 % / one-output-sample criterion is asserted when E <= 0.5 %; otherwise the case is discarded.
namespace {
struct Tones { double A[3], f[3], th[3]; };
inline double tone_at(const Tones& t, double time) {
    double s = 0;
    for (int k = 0; k < 3; ++k) s += t.A[k] * std::cos(2 * M_PI * t.f[k] * time + t.th[k]);
    return s;
}
// DEVIATION CLASS (reported): for 1 < p < q the filter resample(x, p, q, n, beta) designs has order 2*n*p, not the documented
// 2*n*max(p,q): it spans n*p/q lobes of its sinc.  A Kaiser(beta) main lobe is sqrt(1 + (beta/pi)^2) lobes wide; below 1.5 main-lobe
// widths the pass band does not reach the tones (residual 0.6-4 % measured, <= 0.5 % above).  For n = 10, beta = 5 this is q > 3.55 p;
// the older rule of the three-argument form (5p < q, where the error exceeds 2 %) is kept for form 0.
bool short_filter_class(int form, int L, int M, int n, double beta) {
    if (!(L > 1 && M > L) || form == 2) return false;
    if (form == 0) return 2 * M > n * L;
    return double(n) * L / M < 1.5 * std::sqrt(1.0 + (beta / M_PI) * (beta / M_PI));
}
double bessel_i0(double x) {
    double s = 1, t = 1;
    for (int k = 1; k < 500; ++k) {
        const double u = x / (2.0 * k);
        t *= u * u;
        s += t;
        if (t < 1e-18 * s) break;
    }
    return s;
}
// exactly symmetric Kaiser-windowed sinc: nh taps, cut-off fc (fraction of the Nyquist frequency)
std::vector<double> kaiser_sinc(int nh, double fc, double beta) {
    std::vector<double> h(size_t(nh), 1.0);
    const double c = 0.5 * (nh - 1), i0b = bessel_i0(beta);
    for (int i = 0; i < (nh + 1) / 2; ++i) {
        const double t = double(i) - c;
        const double sn = (t == 0) ? 1.0 : std::sin(M_PI * fc * t) / (M_PI * fc * t);
        const double u = (c > 0) ? t / c : 0.0;
        const double w = bessel_i0(beta * std::sqrt(std::max(0.0, 1.0 - u * u))) / i0b;
        h[size_t(i)] = h[size_t(nh - 1 - i)] = sn * w;
    }
    return h;
}
// E of the comment above for a symmetric h of nh taps (group delay (nh-1)/2); f in cycles per input sample
double chain_error_bound(const std::vector<double>& h, int L, const Tones& t, double asum) {
    const int nh = int(h.size());
    double sh = 0;
    for (double v : h) sh += v;
    const double D = 0.5 * (nh - 1);
    std::vector<std::complex<double>> tw(static_cast<size_t>(L));
    for (int b = 0; b < L; ++b) tw[size_t(b)] = std::polar(1.0, -2 * M_PI * double(b) / double(L));
    double e = 0;
    for (int k = 0; k < 3; ++k) {
        // c_b = sum_{t == b mod L} g[t] e^{-j 2 pi (f/L)(t - D)},  G((r+f)/L) e^{j 2 pi (f/L) D} = sum_b c_b e^{-j 2 pi r (b - 0)/L}
        std::vector<std::complex<double>> cb(size_t(L), 0.0);
        const double w = 2 * M_PI * t.f[k] / double(L);
        for (int i = 0; i < nh; ++i) cb[size_t(i % L)] += (h[size_t(i)] * double(L) / sh) * std::polar(1.0, -w * (double(i) - D));
        double ek = 0;
        for (int r = 0; r < L; ++r) {
            std::complex<double> G = 0;
            for (int b = 0; b < L; ++b) G += cb[size_t(b)] * tw[size_t((int64_t(r) * b) % L)];
            ek += (r == 0) ? std::abs(G / double(L) - 1.0) : std::abs(G) / double(L);
        }
        e += t.A[k] * ek;
    }
    return e / asum;
}
}   // namespace
static void ral_check(const Json& c, Out& o) {
    const int L = c.geti("L"), M = c.geti("M"), k = c.geti("k");
    const int form = c.geti("form", 0);
    const int p = L * k, q = M * k;
    Rng r(c.getu("seed"));
    const double ratio = double(M) / double(L);   // input samples per output sample
    const double s = std::min(1.0, double(L) / double(M));
    Tones t;
    const double bands[3][2] = {{0.10, 0.16}, {0.20, 0.26}, {0.29, 0.35}};
    double asum = 0;
    for (int j = 0; j < 3; ++j) {
        t.f[j] = 0.5 * s * r.uni(bands[j][0], bands[j][1]);
        t.A[j] = r.uni(0.5, 1.0);
        t.th[j] = r.uni(0, 2 * M_PI);
        asum += t.A[j];
    }
    // ---- the call form, its filter, and the measured premise
    const int n = c.geti("n", 10);
    const double beta = c.geti("beta10", 50) / 10.0;
    const int hdes = c.geti("hdes", 0);
    const int maxLM = std::max(L, M);
    const int pc = (L == 1) ? M : L;   // polyphase count of the converter resample() builds
    arr_real h;
    int nh = 0, pad = 0;
    double half_in = 10.0 * std::max(1.0, ratio);   // filter half-length in input samples (form 0: documented n = 10)
    double epred = -1;
    std::string fname = "default", call = fmt("%d, %d", p, q);
    if (form == 1) {
        fname = "n,beta";
        call = fmt("%d, %d, n=%d, beta=%.1f", p, q, n, beta);
        half_in = double(n) * std::max(1.0, ratio);
        epred = chain_error_bound(kaiser_sinc(2 * n * maxLM + 1, 1.0 / maxLM, beta), L, t, asum);
    } else if (form == 2) {
        fname = "custom-h";
        if (hdes == 0) h = design_multirate_fir(L, M, n, real_t(c.geti("astop", 90)));
        else h = to_arr(kaiser_sinc(c.geti("hlen"), 1.0 / maxLM, beta));
        nh = h.size();
        pad = (pc - nh % pc) % pc;
        call = hdes == 0 ? fmt("%d, %d, h = design_multirate_fir(%d, %d, %d, %d) [%d taps]", p, q, L, M, n, c.geti("astop", 90), nh)
                         : fmt("%d, %d, h = Kaiser(%.1f)-windowed sinc, %d taps", p, q, beta, nh);
        half_in = 0.5 * double(nh + pad) / double(L) + 1.0;
        std::vector<double> hv(static_cast<size_t>(nh), 0.0);
        for (int i = 0; i < nh; ++i) hv[size_t(i)] = h[i];
        epred = chain_error_bound(hv, L, t, asum);
    }
    // excluded misalignment class (reported, see props/C08.json): generated with "alignx":1, which widens the search and the bound
    const bool alignx = c.geti("alignx", 0) != 0;
    const double srch = alignx ? 4.0 + 0.5 * pad + 1.0 : 4.0;   // tau search range, output samples
    const double margin = half_in + (srch + 1.0) * ratio + 2.0;   // input samples
    const double interior = 120.0 * std::max(1.0, ratio) * r.uni(1.0, 1.6);
    const int len = int(std::ceil(interior + 2 * margin)) + r.range(0, M);
    if (form != 0) {
        o.metric("E(filter, tones)/0.005 [" + fname + "]", epred / 0.005);
        if (!(epred <= 0.005)) { o.discard = true; return; }
    }
    arr_real x(len);
    for (int i = 0; i < len; ++i) x[i] = tone_at(t, double(i));
    arr_real y;
    try {
        y = form == 0 ? resample(x, p, q) : (form == 1 ? resample(x, p, q, n, real_t(beta)) : resample(x, p, q, h));
    } catch (const std::exception& e) {
        o.fail("resample:throws:" + fname, fmt("resample(x[%d], %s) threw: %s", len, call.c_str(), e.what()));
        return;
    }
    const int64_t want = int64_t(L) * ((len + M - 1) / M);
    if (y.size() != want) { o.fail("resample:size:" + fname, fmt("resample(x[%d], %s) returned %d samples, expected %lld", len, call.c_str(), y.size(), (long long)want)); return; }
    const int i0 = int(std::ceil(margin / ratio)), i1 = int(std::floor((double(len - 1) - margin) / ratio));
    if (i1 - i0 < 60) { o.discard = true; return; }
    auto J = [&](double tau) {
        double a = 0;
        for (int i = i0; i <= i1; ++i) { double d = y[i] - tone_at(t, (double(i) + tau) * ratio); a += d * d; }
        return a;
    };
    double best = 1e300, tau0 = 0;
    const int G = int(std::lround(srch / 0.05));
    for (int g = -G; g <= G; ++g) { double v = J(0.05 * g); if (v < best) { best = v; tau0 = 0.05 * g; } }
    double a = tau0 - 0.05, b = tau0 + 0.05;
    const double gr = 0.6180339887498949;
    double x1 = b - gr * (b - a), x2 = a + gr * (b - a), f1 = J(x1), f2 = J(x2);
    for (int it = 0; it < 30; ++it) {
        if (f1 < f2) { b = x2; x2 = x1; f2 = f1; x1 = b - gr * (b - a); f1 = J(x1); }
        else { a = x1; x1 = x2; f1 = f2; x2 = a + gr * (b - a); f2 = J(x2); }
    }
    const double tau = 0.5 * (a + b);
    double rmax = 0;
    for (int i = i0; i <= i1; ++i) rmax = std::max(rmax, std::fabs(y[i] - tone_at(t, (double(i) + tau) * ratio)));
    const double rel = rmax / asum;
    const std::string suffix = form == 0 ? std::string() : " [" + fname + "]";
    // DEVIATION CLASS (reported): for 1 < p < q the default filter has order 2*n*p, not the documented 2*n*max(p,q); when
    // n*p < 2q (n = 10: 2/11, 2/13, 2/15, 3/16) it spans fewer than two lobes of its own sinc and the pass-band error reaches 2-4 %.
    // The generator marks these ratios strict=0: alignment is still asserted, the 2 % criterion is replaced by 20 %.
    const bool short_filter = short_filter_class(form, L, M, n, beta);
    const bool strict = c.geti("strict", 1) != 0;
    // DEVIATION CLASS (reported): resample(x, p, 1, h) with len h not a multiple of p: FIRInterpolator::delay() is half the
    // ZERO-PADDED length, so the output lags by up to (padding+1)/2 output samples.
    const bool padded_interp = (form == 2 && M == 1 && pad > 0);
    const double tau_max = alignx ? 1.05 + 0.5 * pad : 1.05;
    if (!alignx) {
        o.metric("|tau| (output samples)" + suffix, std::fabs(tau));
        o.metric("(|tau|-1)/0.05 slack used" + suffix, std::max(0.0, std::fabs(tau) - 1.0) / 0.05);
    } else o.metric("|tau|/(1.05 + padding/2) [custom-h, interpolator with zero-padded h]", std::fabs(tau) / tau_max);
    o.metric((strict ? "residual/(0.02 sum A)" : "residual/(0.20 sum A) [short-filter class]") + suffix, rel / (strict ? 0.02 : 0.20));
    const char* kind = (L == 1) ? "decim" : (M == 1 ? "interp" : "rate");
    const std::string fsig = form == 0 ? std::string() : fname + ":";
    if (!(std::fabs(tau) <= tau_max))
        o.fail("resample:align:" + fsig + kind + (padded_interp ? ":len(h)%p!=0" : ""),
               fmt("resample(x[%d], %s): best-fit tau = %.4f output samples (|tau| <= %.2f claimed), residual there %.3g of sum A", len, call.c_str(), tau, tau_max, rel));
    else if (strict && !(rel <= 0.02))
        o.fail("resample:residual:" + fsig + (short_filter ? (form == 0 ? "short-filter(1<p<q,5p<q)" : "short-filter(1<p<q)") : kind),
               fmt("resample(x[%d], %s): at the best tau = %.4f the interior residual is %.3g of the amplitude (> 2%%)", len, call.c_str(), tau, rel));
    else if (!strict && !(rel <= 0.20))
        o.fail("resample:residual-loose:" + fsig + kind, fmt("resample(x[%d], %s): at the best tau = %.4f the interior residual is %.3g of the amplitude (> 20%%)", len, call.c_str(), tau, rel));
    if (!strict) o.label(form == 0 ? "excluded:2%-residual-criterion:short-filter(1<p<q,5p<q)" : "excluded:2%-residual-criterion:n,beta:short-filter(1<p<q,n*p/q<1.5*sqrt(1+(beta/pi)^2))");
    if (alignx) o.label("excluded:1-sample-alignment:custom-h,interpolator,len(h)%p!=0");
    o.label(std::string("kind:") + kind);
    o.label(len % M == 0 ? "len%q'==0" : "len%q'!=0");
    o.label(std::fabs(tau) < 0.05 ? "tau~0" : (std::fabs(tau) > 0.95 ? "tau~1" : "tau:fractional"));
    o.evals = i1 - i0 + 1;
    if (form == 0) { o.nontrivial(key_of(L, M, k > 1, len % M == 0)); return; }
    o.label("form:" + fname + "/" + kind);
    if (form == 1) {
        o.label(n < 10 ? "n<10" : (n == 10 ? "n=10" : "n>10"));
        o.label(beta < 4.5 ? "beta<4.5" : (beta <= 5.5 ? "beta~5" : "beta>5.5"));
    } else {
        o.label(hdes == 0 ? "h:design_multirate_fir(non-default hlen/astop)" : (nh % 2 ? "h:own-windowed-sinc,odd-length" : "h:own-windowed-sinc,even-length"));
        o.label(pad == 0 ? "h:len%polyphase==0" : "h:len%polyphase!=0");
    }
    o.nontrivial(key_of(L, M, k > 1, len % M == 0, form, form == 1 ? n : (hdes ? 100 + nh % 2 + 2 * (pad > 0) : 99)));
}
static void ral_gen(Ctx& ctx) {
    const int reps = ctx.by_tier(64, 480);
    for (int rep = 0; rep < reps; ++rep)
        for (const Ratio& q : all_ratios()) {
            if (q.L == q.M) continue;
            if (!ctx.mine()) continue;
            uint64_t sd = mix(ctx.seed, key_of(rep, q.L, q.M, 0xA1));
            Rng r(sd);
            const int k = (rep % 3 == 2) ? kMult[r.range(1, 6)] : 1;
            const int strict = (q.L > 1 && q.M > 5 * q.L) ? 0 : 1;   // see DEVIATION CLASS in ral_check
            ctx.eval(Json::object().set("L", q.L).set("M", q.M).set("k", k).set("strict", strict).set("seed", (long long)(sd >> 16)));
        }
    // the other overloads: rep % 4 = 0: (n, beta); 1: library design with non-default (hlen, astop); 2 / 3: own windowed sinc of odd / even length
    static const int ns[] = {6, 7, 8, 9, 10, 11, 12, 14, 16};
    for (int rep = 0; rep < reps; ++rep)
        for (const Ratio& q : all_ratios()) {
            if (q.L == q.M) continue;
            if (!ctx.mine()) continue;
            uint64_t sd = mix(ctx.seed, key_of(rep, q.L, q.M, 0xA2));
            Rng r(sd);
            const int k = (rep % 3 == 2) ? kMult[r.range(1, 6)] : 1;
            const int maxLM = std::max(q.L, q.M);
            Json cs = Json::object().set("L", q.L).set("M", q.M).set("k", k);
            int strict = 1, alignx = 0;
            const int n = ns[r.range(0, 8)];
            switch (rep % 4) {
            case 0: {
                const int b10 = r.range(45, 90);
                cs.set("form", 1).set("n", n).set("beta10", b10);
                strict = short_filter_class(1, q.L, q.M, n, b10 / 10.0) ? 0 : 1;
                break;
            }
            case 1: {
                static const int as[] = {60, 70, 80, 90, 100, 110};
                int a = as[r.range(0, 5)];
                cs.set("form", 2).set("hdes", 0).set("n", (n == 12 && a == 90) ? 11 : n).set("astop", a);
                break;
            }
            default: {
                const int parity = (rep % 4 == 2) ? 1 : 0;
                int hlen = 2 * n * maxLM + r.range(-maxLM, maxLM);
                if (hlen % 2 != parity) ++hlen;
                cs.set("form", 2).set("hdes", 1).set("hlen", hlen).set("beta10", r.range(45, 90));
                // interpolator whose h needs >= 2 padding taps (exactly 2 with an odd length is still within one sample): misaligned
                const int pad = (q.L - hlen % q.L) % q.L;
                if (q.M == 1 && pad >= 2 && !(pad == 2 && hlen % 2 == 1)) alignx = 1;
            }
            }
            cs.set("strict", strict);
            if (alignx) cs.set("alignx", 1);
            ctx.eval(cs.set("seed", (long long)(sd >> 16)));
        }
}

// ================================================================================================ designed h is linear-phase
// The statement's premise is "a linear-phase coefficient vector h", and the default-designed h is design_multirate_fir's.
// For every argument set the returned vector must be symmetric about its centre, either as it stands or -- the documented
// construction drops the (zero) last tap of an odd-length symmetric design -- with one zero tap restored at an end.
// Tolerance 4*eps*max|h|: mirrored taps come from the same expression evaluated at mirrored arguments (a few roundings each);
// the dropped tap is a sinc zero (~1e-20).
VK_SUB(dsym, "design_symmetry");
static void dsym_check(const Json& c, Out& o) {
    const int L = c.geti("L"), M = c.geti("M"), hn = c.geti("hn"), astop = c.geti("astop");
    const bool defaults = c.geti("defaults", 0) != 0;
    arr_real h;
    try {
        h = defaults ? design_multirate_fir(L, M) : design_multirate_fir(L, M, hn, real_t(astop));
    } catch (const std::exception& e) {
        o.fail("design:throws", fmt("design_multirate_fir(%d, %d, %d, %d) threw: %s", L, M, hn, astop, e.what()));
        return;
    }
    const int n = h.size();
    if (n < 1 || !all_finite(h)) { o.fail("design:degenerate", fmt("design_multirate_fir(%d, %d, %d, %d) returned %d taps / a non-finite tap", L, M, hn, astop, n)); return; }
    double sc = 0;
    for (int i = 0; i < n; ++i) sc = std::max(sc, std::fabs(h[i]));
    // v = h with `pre` zeros in front and `post` zeros behind
    auto asym = [&](int pre, int post) {
        const int m = n + pre + post;
        auto at = [&](int i) { i -= pre; return (i < 0 || i >= n) ? 0.0 : double(h[i]); };
        double a = 0;
        for (int i = 0; i < m; ++i) a = std::max(a, std::fabs(at(i) - at(m - 1 - i)));
        return a;
    };
    const double a0 = asym(0, 0), a1 = asym(0, 1), a2 = asym(1, 0);
    const double best = std::min(a0, std::min(a1, a2));
    const double tol = 4 * EPS * sc;
    o.metric("asymmetry/(4 eps max|h|)", sc > 0 ? best / tol : 1e300);
    if (!(sc > 0) || !(best <= tol))
        o.fail(std::string("design:not-linear-phase:") + (L == 1 ? "decim" : M == 1 ? "interp" : (L > M ? "rate,L>M" : "rate,L<M")),
               fmt("design_multirate_fir(%d, %d, %d, %d): %d taps, max|h|=%.3g, max |h[i]-h[n-1-i]| = %.3g as returned, %.3g with a zero tap appended, %.3g with one prepended (tolerance %.3g)", L, M,
                   hn, astop, n, sc, a0, a1, a2, tol));
    o.label(best == a0 ? "symmetric:as-returned" : (best == a1 ? "symmetric:last-zero-tap-dropped" : "symmetric:first-zero-tap-dropped"));
    o.label(defaults ? "args:default" : ((hn == 12 && astop == 90) ? "args:explicit-defaults" : "args:non-default"));
    o.label(astop >= 50 ? "astop>=50" : (astop > 21 ? "21<astop<50" : "astop<=21"));
    o.label(n % 2 ? "len:odd" : "len:even");
    if (std::gcd(L, M) > 1) o.label("ratio:non-reduced");
    if (L != M) o.nontrivial(key_of(L, M, hn, astop, defaults));
}
static void dsym_gen(Ctx& ctx) {
    for (int L = 1; L <= 16; ++L)
        for (int M = 1; M <= 16; ++M) {
            if (ctx.mine()) ctx.eval(Json::object().set("L", L).set("M", M).set("hn", 12).set("astop", 90).set("defaults", 1));
            for (int hn : {1, 2, 3, 5, 8, 12, 24})
                for (int astop : {10, 21, 30, 50, 60, 90, 120}) {
                    if (!ctx.mine()) continue;
                    ctx.eval(Json::object().set("L", L).set("M", M).set("hn", hn).set("astop", astop));
                }
        }
}

VK_FRESH_THREADS;
VK_MAIN("C08")
