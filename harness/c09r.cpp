// C09 (second harness, plain release build)  Plan creation and the plan caches under concurrent churn.
// The ThreadSanitizer harness (c09.cpp) decides data races; what it cannot afford is volume.  A defect that is *synchronised*
// (so no race is reported) but wrong for a particular interleaving - a cache shared between threads whose lookup and fetch are
// two separately locked steps, an entry evicted between them, a plan handed out half-built - only shows as a wrong result or an
// unexpected exception, and only if enough lookups collide.  Here 2..16 threads released from a common barrier create plan
// objects and call the free transforms over more distinct lengths than any cache holds (24 lengths from 8 to 65536: small,
// medium and large, powers of two, composites, primes, 2p), tens of thousands of creations per program.  Oracle: no call throws,
// and every result is bit-identical to the same call sequence executed single-threaded afterwards.
#include "kit/num.h"
#include <dsplib.h>
#include "ma-filter.h"
#include <atomic>
#include <thread>

using namespace vk;
using namespace dsplib;

namespace {

const int LENS[24] = {
    // large (>= 2^14): powers of two, composites, one 2p-free odd composite
    16384, 32768, 65536, 20480, 24576, 18432, 28672, 49152,
    // medium
    1024, 2048, 4096, 8192, 1000, 13230, 6561, 22050,   // (13230, 22050, 6562: even but not divisible by 4 - irfft has a branch of its own there)
    // small, every algorithm class
    8, 64, 60, 105, 94, 41, 47, 257};
const char* len_class(int i) { return i < 8 ? "large" : i < 16 ? "medium" : "small"; }

uint64_t hb(const arr_cmplx& a) { uint64_t h = 0xC09; for (int i = 0; i < a.size(); ++i) { uint64_t u; double v = a[i].re; memcpy(&u, &v, 8); h = mix(h, u); v = a[i].im; memcpy(&u, &v, 8); h = mix(h, u); } return mix(h, uint64_t(a.size())); }
uint64_t hb(const arr_real& a) { uint64_t h = 0xC09A; for (int i = 0; i < a.size(); ++i) { uint64_t u; double v = a[i]; memcpy(&u, &v, 8); h = mix(h, u); } return mix(h, uint64_t(a.size())); }

// sparse deterministic inputs (cheap to build even for 65536 samples)
arr_cmplx cin(int n, uint64_t tag) { Rng r(mix(tag, uint64_t(n))); arr_cmplx x(n); int k = std::min(n, 12); for (int i = 0; i < k; ++i) x[int(r.range(0, n - 1))] = cmplx_t(r.gauss(), r.gauss()); return x; }
arr_real rin(int n, uint64_t tag) { Rng r(mix(tag, uint64_t(n) + 7)); arr_real x(n); int k = std::min(n, 12); for (int i = 0; i < k; ++i) x[int(r.range(0, n - 1))] = r.gauss(); return x; }

// one op = `reps` plan creations walking through the table from `start` with stride `st` inside the window [lo, lo+span);
// kind selects which API creates/uses the plan; every `every`-th creation is also solved and hashed.
struct OpSpec { int kind, start, st, lo, span, reps, every; };

uint64_t run_op(const OpSpec& s, uint64_t tag) {
    uint64_t h = 0x5EED;
    for (int j = 0; j < s.reps; ++j) {
        const int li = s.lo + (s.start + j * s.st) % s.span;
        const int n = LENS[li % 24];
        const bool solve = (j % s.every) == 0;
        switch (s.kind) {
        case 0: { FftPlan p(n); if (solve) h = mix(h, hb(p.solve(cin(n, tag + uint64_t(j))))); h = mix(h, uint64_t(p.size())); break; }
        case 1: { FftPlanR p(n); if (solve) h = mix(h, hb(p.solve(rin(n, tag + uint64_t(j))))); h = mix(h, uint64_t(p.size())); break; }
        case 2: { IfftPlan p(n); if (solve) h = mix(h, hb(p.solve(cin(n, tag + uint64_t(j))))); break; }
        case 3: { const int m = n + (n & 1); IfftPlanR p(m); if (solve) h = mix(h, hb(p.solve(cin(m / 2 + 1, tag + uint64_t(j))))); break; }
        case 4: if (solve || n <= 4096) h = mix(h, hb(fft(cin(n, tag + uint64_t(j))))); else { FftPlan p(n); h = mix(h, uint64_t(p.size())); } break;
        case 5: if (solve || n <= 4096) h = mix(h, hb(rfft(rin(n, tag + uint64_t(j))))); else { FftPlanR p(n); h = mix(h, uint64_t(p.size())); } break;
        default: if (solve || n <= 4096) h = mix(h, hb(ifft(cin(n, tag + uint64_t(j))))); else { IfftPlan p(n); (void)p; } break;
        }
    }
    return h;
}

}   // namespace

VK_SUB(churn, "plan_churn");
static void churn_check(const Json& c, Out& o) {
    std::vector<std::vector<OpSpec>> prog;
    long creations = 0;
    std::set<int> large_used;
    for (auto& t : c.at("threads").a) {
        std::vector<OpSpec> ops;
        for (size_t i = 0; i + 6 < t.a.size(); i += 7) {
            OpSpec s{int(t.a[i].integer()), int(t.a[i + 1].integer()), int(t.a[i + 2].integer()), int(t.a[i + 3].integer()), int(t.a[i + 4].integer()), int(t.a[i + 5].integer()), int(t.a[i + 6].integer())};
            if (s.span < 1) s.span = 1;
            if (s.every < 1) s.every = 1;
            if (s.st < 1) s.st = 1;
            ops.push_back(s);
            creations += s.reps;
            for (int j = 0; j < std::min(s.reps, s.span); ++j) { int li = (s.lo + (s.start + j * s.st) % s.span) % 24; if (li < 8) large_used.insert(li); }
        }
        prog.push_back(ops);
    }
    const int T = int(prog.size());
    const uint64_t seed = c.getu("seed");
    o.label(fmt("threads:%s", T <= 2 ? "2" : T <= 4 ? "3-4" : T <= 8 ? "5-8" : "9-16"));
    o.label(fmt("distinct-large-lengths:%s", large_used.size() > 4 ? ">4 (more than a cache holds)" : large_used.empty() ? "0" : "1-4"));
    if (T >= 2 && creations >= 100) o.nontrivial(mix(seed, uint64_t(creations)));
    for (int round = 0, rounds = replay_rounds(25); round < rounds && !o.failed; ++round)
    run_forked(o, 600.0, [&](Out& co) {
        std::vector<std::vector<uint64_t>> got(static_cast<size_t>(T)), ref(static_cast<size_t>(T));
        std::vector<std::string> errs(static_cast<size_t>(T));
        std::atomic<int> ready{0};
        std::atomic<bool> go{false};
        std::vector<std::thread> th;
        for (int t = 0; t < T; ++t)
            th.emplace_back([&, t]() {
                ready.fetch_add(1);
                while (!go.load()) std::this_thread::yield();
                try {
                    for (size_t i = 0; i < prog[size_t(t)].size(); ++i) got[size_t(t)].push_back(run_op(prog[size_t(t)][i], mix(seed, uint64_t(t) * 1000 + i)));
                } catch (const std::exception& e) { errs[size_t(t)] = e.what(); }
            });
        while (ready.load() < T) std::this_thread::yield();
        go.store(true);
        for (auto& x : th) x.join();
        for (int t = 0; t < T; ++t) {
            // sequential reference, each thread's sequence in a fresh thread of its own (pristine per-thread caches)
            std::thread r([&]() { for (size_t i = 0; i < prog[size_t(t)].size(); ++i) ref[size_t(t)].push_back(run_op(prog[size_t(t)][i], mix(seed, uint64_t(t) * 1000 + i))); });
            r.join();
        }
        for (int t = 0; t < T && !co.failed; ++t) {
            if (!errs[size_t(t)].empty()) { co.fail("mt:exception", fmt("thread %d threw: %s", t, errs[size_t(t)].c_str())); break; }
            for (size_t i = 0; i < ref[size_t(t)].size(); ++i)
                if (i >= got[size_t(t)].size() || got[size_t(t)][i] != ref[size_t(t)][i]) {
                    co.fail("mt:result-differs:churn", fmt("thread %d op %zu (kind %d): results differ from the single-threaded run", t, i, prog[size_t(t)][i].kind));
                    break;
                }
        }
    });
    o.evals = creations;
}
static void churn_gen(Ctx& ctx) {
    ctx.no_shrink = true;   // a failure here depends on the schedule: the generated program is the reproduction unit
    ctx.rc("churn", ctx.by_tier(640, 6400), [&]() {
        const int T = pick(2, pick(0, 2) == 0 ? 16 : 8);
        Json threads = Json::array();
        // half of the programs keep every thread inside one length window (maximal contention on the same few entries)
        const bool same_window = flip();
        const int wlo = one_of(std::vector<int>{0, 0, 0, 8, 16, 0}), wspan = one_of(std::vector<int>{8, 8, 6, 16, 24, 5});
        for (int t = 0; t < T; ++t) {
            std::vector<int> ops;
            const int nops = pick(1, 4);
            for (int i = 0; i < nops; ++i) {
                const int lo = same_window ? wlo : one_of(std::vector<int>{0, 0, 8, 16});
                const int span = same_window ? wspan : one_of(std::vector<int>{8, 5, 6, 16, 24});
                ops.push_back(pick(0, 6));
                ops.push_back(pick(0, 23));
                ops.push_back(one_of(std::vector<int>{1, 1, 3, 5, 7}));
                ops.push_back(lo);
                ops.push_back(span);
                ops.push_back(int(pick_log(20, 1500)));
                ops.push_back(one_of(std::vector<int>{16, 16, 8, 64, 5}));
            }
            threads.push(Json(ops));
        }
        return Json::object().set("threads", threads).set("seed", (long long)(seed64() >> 12));
    });
}

// ------------------------------------------------------------------------------------------- free functions under churn
// "Free functions ... may be used from any number of threads at once ... each call returns what it would return single-threaded":
// a value memoised between calls in shared (even atomic - no race to report) storage only goes wrong when two threads interleave
// inside it, so volume decides.  2..16 threads call small pure functions (windows with a parameter, filter designs, number theory,
// small transforms and estimators, scalar and array random draws after a per-thread rng(seed)) thousands of times with arguments
// that differ between threads; every result is hashed and compared with the same sequence run alone in a fresh thread.
namespace {
uint64_t hbi(const arr_int& a) { uint64_t h = 0xC09B; for (int i = 0; i < a.size(); ++i) h = mix(h, uint64_t(uint32_t(a[i]))); return mix(h, uint64_t(a.size())); }
uint64_t hd(double v) { uint64_t u; memcpy(&u, &v, 8); return u; }
const int FF_NFN = 21;
const char* ff_name(int f) {
    static const char* n[FF_NFN] = {"kaiser", "gauss", "tukey", "hamming/hann", "fir1", "design_multirate_fir", "primes", "factor", "nextprime/isprime", "resample(n,beta)", "czt", "hilbert", "welch", "xcorr",
                                    "randn()", "rand()", "randi(int)", "randi(range)", "rand(range,n)", "randi(int,n)", "irfft(n = 2 mod 4, several thousand)"};
    return n[f % FF_NFN];
}
uint64_t ff_call(int fn, int a, int b, uint64_t tag) {
    const int n = 8 + (a * 7) % 57;
    switch (fn % FF_NFN) {
    case 0: return hb(window::kaiser(n, 0.5 + 1.25 * b));
    case 1: return hb(window::gauss(n, 0.5 + 0.5 * b));
    case 2: return hb(window::tukey(n, 0.1 * (b % 11)));
    case 3: return (b & 1) ? hb(window::hamming(n, (b & 2) != 0)) : hb(window::hann(n, (b & 2) != 0));
    case 4: return hb(fir1(2 * (1 + a % 20), 0.05 + 0.04 * (b % 20)));
    case 5: return hb(design_multirate_fir(1 + a % 7, 1 + b % 7));
    case 6: return hbi(primes(uint32_t(10 + a * 97 + b)));
    case 7: return hbi(factor(uint32_t(1000003u * uint32_t(a + 1) + uint32_t(b))));
    case 8: return mix(uint64_t(nextprime(uint32_t(a * 7919 + b))), uint64_t(isprime(uint32_t(a * 104729 + b))));
    case 9: return hb(resample(rin(40 + a, tag), 1 + a % 5, 1 + b % 5, 4 + b % 7, 2.0 + b));
    case 10: return hb(czt(cin(n, tag), 1 + b * 3, expj(-2 * pi * 0.7 / n), cmplx_t(1.0)));
    case 11: return hb(real(hilbert(rin(n, tag)))) ^ hb(imag(hilbert(rin(n, tag))));
    case 12: { auto w = welch(rin(64 + n, tag), 32, 16 + b % 8, 32); return mix(hb(w.pxx), hb(w.f)); }
    case 13: return hb(xcorr(rin(n, tag), rin(5 + b, tag + 1)));
    case 14: return hd(randn());
    case 15: return hd(dsplib::rand());
    case 16: return uint64_t(uint32_t(randi(1 + a)));
    case 17: return uint64_t(uint32_t(randi({-5 - a, 5 + b})));
    case 18: return hb(dsplib::rand({-1.0 - a, 2.0 + b}, 3 + b));
    case 19: return hbi(randi(1 + a, 3 + b));
    default: { static const int ms[6] = {4098, 6562, 10002, 13230, 22050, 4102}; const int m = ms[(a + b) % 6]; return hb(irfft(cin(m / 2 + 1, tag), m)); }   // even, not divisible by 4
    }
}
}   // namespace

VK_SUB(ffc, "free_function_churn");
static void ffc_check(const Json& c, Out& o) {
    std::vector<std::vector<int>> prog;   // per thread: flattened (fn, a, b, reps)
    long calls = 0;
    for (auto& t : c.at("threads").a) { std::vector<int> v; for (auto& e : t.a) v.push_back(int(e.integer())); prog.push_back(v); for (size_t i = 0; i + 3 < v.size(); i += 4) calls += v[i + 3]; }
    const int T = int(prog.size());
    const uint64_t seed = c.getu("seed");
    auto run_thread = [&](int t, std::vector<uint64_t>& out) {
        rng(int(mix(seed, uint64_t(t)) & 0x7FFFFFFF));
        const auto& v = prog[size_t(t)];
        for (size_t i = 0; i + 3 < v.size(); i += 4) {
            uint64_t h = 0xFF;
            for (int r = 0; r < v[i + 3]; ++r) h = mix(h, ff_call(v[i], v[i + 1] + (r & 3), v[i + 2] + ((r >> 2) & 3), mix(seed, uint64_t(t) * 100 + i)));
            out.push_back(h);
        }
    };
    for (int round = 0, rounds = replay_rounds(25); round < rounds && !o.failed; ++round)
    run_forked(o, 600.0, [&](Out& co) {
        std::vector<std::vector<uint64_t>> got(static_cast<size_t>(T)), ref(static_cast<size_t>(T));
        std::vector<std::string> errs(static_cast<size_t>(T));
        std::atomic<int> ready{0};
        std::atomic<bool> go{false};
        std::vector<std::thread> th;
        for (int t = 0; t < T; ++t)
            th.emplace_back([&, t]() {
                ready.fetch_add(1);
                while (!go.load()) std::this_thread::yield();
                try { run_thread(t, got[size_t(t)]); } catch (const std::exception& e) { errs[size_t(t)] = e.what(); }
            });
        while (ready.load() < T) std::this_thread::yield();
        go.store(true);
        for (auto& x : th) x.join();
        for (int t = 0; t < T; ++t) { std::thread r([&]() { run_thread(t, ref[size_t(t)]); }); r.join(); }
        for (int t = 0; t < T && !co.failed; ++t) {
            if (!errs[size_t(t)].empty()) { co.fail("mt:exception", fmt("thread %d threw: %s", t, errs[size_t(t)].c_str())); break; }
            for (size_t i = 0; i < ref[size_t(t)].size(); ++i)
                if (i >= got[size_t(t)].size() || got[size_t(t)][i] != ref[size_t(t)][i]) {
                    co.fail(std::string("mt:result-differs:") + ff_name(prog[size_t(t)][4 * i]), fmt("thread %d op %zu (%s a=%d b=%d x%d): results differ from the same calls made alone", t, i, ff_name(prog[size_t(t)][4 * i]), prog[size_t(t)][4 * i + 1], prog[size_t(t)][4 * i + 2], prog[size_t(t)][4 * i + 3]));
                    break;
                }
        }
    });
    o.evals = calls;
    std::set<int> fns;
    for (auto& v : prog) for (size_t i = 0; i + 3 < v.size(); i += 4) fns.insert(v[i] % FF_NFN);
    for (int f : fns) o.label(std::string("fn:") + ff_name(f));
    o.label(fmt("threads:%s", T <= 2 ? "2" : T <= 4 ? "3-4" : T <= 8 ? "5-8" : "9-16"));
    if (T >= 2 && calls >= 100) o.nontrivial(mix(seed, uint64_t(calls)));
}
static void ffc_gen(Ctx& ctx) {
    ctx.no_shrink = true;
    ctx.rc("churn", ctx.by_tier(16000, 160000), [&]() {
        const int T = pick(2, pick(0, 2) == 0 ? 16 : 8);
        Json threads = Json::array();
        // most programs concentrate every thread on ONE function (different arguments per thread): maximal contention inside it
        const int focus = pick(0, 3) == 0 ? -1 : pick(0, FF_NFN - 1);
        for (int t = 0; t < T; ++t) {
            std::vector<int> ops;
            for (int i = pick(1, 3); i > 0; --i) {
                const int fn = focus >= 0 ? focus : pick(0, FF_NFN - 1);
                ops.push_back(fn);
                ops.push_back(pick(0, 40));
                ops.push_back(pick(0, 12));
                ops.push_back(int(pick_log(50, ((fn >= 6 && fn <= 13 && fn != 8) || fn == 20) ? 400 : 4000)));
            }
            threads.push(Json(ops));
        }
        return Json::object().set("threads", threads).set("seed", (long long)(seed64() >> 12));
    });
}

// ------------------------------------------------------------------------------------------- shared plans whose creator has ended
// "Transform plan objects may additionally be shared": also when the thread that constructed them no longer exists (its
// thread_local state - plan caches, any table a plan might point into - has been destroyed).  A creator thread builds plans of
// every kind and ends; the allocator is churned; then 2..8 threads solve on the shared objects at once.  Oracle: bit-identical to
// plans built and used by one fresh thread.
VK_SUB(ended, "plans_from_ended_thread");
static void ended_check(const Json& c, Out& o) {
    const std::vector<int> lens = c.ints("lens");
    const int T = c.geti("T"), churn = c.geti("churn");
    const uint64_t seed = c.getu("seed");
    struct Plans { std::vector<std::shared_ptr<FftPlan>> c; std::vector<std::shared_ptr<FftPlanR>> r; std::vector<std::shared_ptr<IfftPlan>> ic; std::vector<std::shared_ptr<IfftPlanR>> ir; std::vector<std::shared_ptr<CztPlan>> z; };
    auto build = [&](Plans& P) {
        for (int n : lens) {
            P.c.push_back(std::make_shared<FftPlan>(n));
            P.r.push_back(std::make_shared<FftPlanR>(n));
            P.ic.push_back(std::make_shared<IfftPlan>(n));
            P.ir.push_back(std::make_shared<IfftPlanR>(n + (n & 1)));
            P.z.push_back(std::make_shared<CztPlan>(n, n, expj(-2 * pi * 0.9 / n), cmplx_t(1.0)));
        }
    };
    auto use = [&](const Plans& P, int t, std::vector<uint64_t>& out) {
        for (size_t i = 0; i < lens.size(); ++i) {
            const int n = lens[i];
            const uint64_t tag = mix(seed, uint64_t(t) * 64 + i);
            out.push_back(hb(P.c[i]->solve(cin(n, tag))));
            out.push_back(hb((*P.r[i])(rin(n, tag))));
            out.push_back(hb(P.ic[i]->solve(cin(n, tag + 1))));
            out.push_back(hb(P.ir[i]->solve(cin((n + (n & 1)) / 2 + 1, tag + 2))));
            out.push_back(hb(P.z[i]->solve(cin(n, tag + 3))));
        }
    };
    for (int round = 0, rounds = replay_rounds(5); round < rounds && !o.failed; ++round)
    run_forked(o, 300.0, [&](Out& co) {
        Plans P;
        { std::thread creator([&]() { build(P); }); creator.join(); }
        for (int k = 0; k < churn; ++k) { (void)fft(cin(16 + 13 * k, seed + uint64_t(k))); (void)xcorr(rin(20 + k, seed), rin(7 + k, seed + 1)); (void)window::kaiser(30 + k, 2.0 + k); }
        std::vector<std::vector<uint64_t>> got(static_cast<size_t>(T)), ref(static_cast<size_t>(T));
        std::vector<std::string> errs(static_cast<size_t>(T));
        std::atomic<int> ready{0};
        std::atomic<bool> go{false};
        std::vector<std::thread> th;
        for (int t = 0; t < T; ++t)
            th.emplace_back([&, t]() {
                ready.fetch_add(1);
                while (!go.load()) std::this_thread::yield();
                try { use(P, t, got[size_t(t)]); } catch (const std::exception& e) { errs[size_t(t)] = e.what(); }
            });
        while (ready.load() < T) std::this_thread::yield();
        go.store(true);
        for (auto& x : th) x.join();
        { std::thread r([&]() { Plans Q; build(Q); for (int t = 0; t < T; ++t) use(Q, t, ref[size_t(t)]); }); r.join(); }
        for (int t = 0; t < T && !co.failed; ++t) {
            if (!errs[size_t(t)].empty()) { co.fail("mt:exception", fmt("thread %d threw: %s", t, errs[size_t(t)].c_str())); break; }
            for (size_t i = 0; i < ref[size_t(t)].size(); ++i)
                if (i >= got[size_t(t)].size() || got[size_t(t)][i] != ref[size_t(t)][i]) {
                    static const char* kinds[5] = {"FftPlan", "FftPlanR", "IfftPlan", "IfftPlanR", "CztPlan"};
                    co.fail("mt:plan-from-ended-thread", fmt("thread %d: %s(%d) built by a thread that has ended gives a result different from a plan built and used by one thread", t, kinds[i % 5], lens[i / 5]));
                    break;
                }
        }
    });
    o.evals = long(lens.size()) * 5 * T;
    uint64_t k = mix(seed, uint64_t(T));
    for (int n : lens) k = mix(k, uint64_t(n));
    o.nontrivial(k);
    o.label(churn ? "allocator-churn:yes" : "allocator-churn:no");
    o.label(fmt("threads:%s", T <= 2 ? "2" : T <= 4 ? "3-4" : "5-8"));
}
static void ended_gen(Ctx& ctx) {
    ctx.no_shrink = true;
    ctx.rc("random", ctx.by_tier(4800, 48000), [&]() {
        std::vector<int> lens;
        for (int i = pick(1, 4); i > 0; --i) {
            switch (pick(0, 4)) {
            case 0: lens.push_back(pick(3, 41)); break;
            case 1: lens.push_back(one_of(std::vector<int>{5, 7, 11, 13, 17, 31, 37, 41, 43, 47, 97, 127})); break;
            case 2: lens.push_back(1 << pick(1, 9)); break;
            case 3: lens.push_back(one_of(std::vector<int>{12, 15, 35, 60, 105, 120, 124, 243, 360, 94, 86})); break;
            default: lens.push_back(pick(3, 300));
            }
        }
        return Json::object().set("lens", lens).set("T", pick(2, 8)).set("churn", pick(0, 2) == 0 ? 0 : pick(1, 10)).set("seed", (long long)(seed64() >> 12));
    });
}

// ------------------------------------------------------------------------------------------- distinct objects, one per thread
// "Free functions and DISTINCT OBJECTS of the library may be used from any number of threads at once": every thread owns its own
// stateful processors (adaptive filters, FIR / FFT filters, multirate converters, median / moving-average filters, delay, Hilbert
// filter, tuner, AGC, compressor, detector) and drives them frame by frame while the other threads do the same with theirs
// (same classes, other parameters).  Scratch storage that is shared between objects (a function-local static, a class-wide
// buffer) only shows as a result that differs from the same object run alone.
namespace {
const int OB_N = 15;
const char* ob_name(int k) {
    static const char* n[OB_N] = {"RlsFilterR", "RlsFilterC", "LmsFilterR(NLMS)", "LmsFilterC(LMS)", "FirFilterR", "FftFilter", "FIRDecimator", "FIRInterpolator", "FIRRateConverter", "MedianFilter", "MAFilterR", "HilbertFilter", "Tuner", "Agc", "Compressor"};
    return n[k % OB_N];
}
uint64_t ob_run(int kind, int a, int b, int frames, uint64_t tag) {
    uint64_t h = 0x0B;
    const int n = 2 + a % 23;
    auto fr = [&](int i, int mult) { return std::max(mult, ((3 + (b + i * 7) % 40) / mult) * mult); };
    auto R = [&](int len, int i) { arr_real x(len); Rng r(mix(tag, uint64_t(i))); for (int k = 0; k < len; ++k) x[k] = r.gauss(); return x; };
    auto Cx = [&](int len, int i) { arr_cmplx x(len); Rng r(mix(tag, uint64_t(i) + 99)); for (int k = 0; k < len; ++k) x[k] = cmplx_t(r.gauss(), r.gauss()); return x; };
    switch (kind % OB_N) {
    case 0: { RlsFilterR f(n, 0.95 + 0.001 * (b % 50), 1.0 + a % 5); for (int i = 0; i < frames; ++i) { auto q = f.process(R(fr(i, 1), i), R(fr(i, 1), i + 1000)); h = mix(h, hb(q.y) ^ hb(q.e)); } h = mix(h, hb(arr_real(f.coeffs()))); break; }
    case 1: { RlsFilterC f(n, 0.95 + 0.001 * (b % 50), 1.0 + a % 5); for (int i = 0; i < frames; ++i) { auto q = f.process(Cx(fr(i, 1), i), Cx(fr(i, 1), i + 1000)); h = mix(h, hb(q.y) ^ hb(q.e)); } break; }
    case 2: { LmsFilterR f(n, 0.1 + 0.01 * (b % 50), LmsType::NLMS); for (int i = 0; i < frames; ++i) { auto q = f.process(R(fr(i, 1), i), R(fr(i, 1), i + 1000)); h = mix(h, hb(q.y) ^ hb(q.e)); } break; }
    case 3: { LmsFilterC f(n, 0.001 + 0.0005 * (b % 20), LmsType::LMS); for (int i = 0; i < frames; ++i) { auto q = f.process(Cx(fr(i, 1), i), Cx(fr(i, 1), i + 1000)); h = mix(h, hb(q.y) ^ hb(q.e)); } break; }
    case 4: { FirFilterR f(R(n + 1, 7777)); for (int i = 0; i < frames; ++i) h = mix(h, hb(f.process(R(fr(i, 1), i)))); break; }
    case 5: { FftFilter f(R(n + 1, 7777)); for (int i = 0; i < frames; ++i) h = mix(h, hb(f.process(R(fr(i, 1) * 3, i)))); break; }
    case 6: { const int M = 2 + a % 5; FIRDecimator f(M); for (int i = 0; i < frames; ++i) h = mix(h, hb(f.process(R(fr(i, M), i)))); break; }
    case 7: { const int L = 2 + a % 5; FIRInterpolator f(L); for (int i = 0; i < frames; ++i) h = mix(h, hb(f.process(R(fr(i, 1), i)))); break; }
    case 8: { const int L = 2 + a % 4, M = 2 + b % 5; FIRRateConverter f(L, M); for (int i = 0; i < frames; ++i) h = mix(h, hb(f.process(R(fr(i, M), i)))); break; }
    case 9: { MedianFilter f(3 + a % 20); for (int i = 0; i < frames; ++i) h = mix(h, hb(f.process(R(fr(i, 1), i)))); break; }
    case 10: { MAFilterR f(1 + a % 30); for (int i = 0; i < frames; ++i) h = mix(h, hb(f.process(R(fr(i, 1), i)))); break; }
    case 11: { HilbertFilter f(31 + 2 * (a % 40), 0.02 + 0.001 * (b % 50)); for (int i = 0; i < frames; ++i) h = mix(h, hb(f.process(R(fr(i, 1), i)))); break; }
    case 12: { Tuner f(100 + a * 37, double((b % 40) - 20) + 0.25 * (a % 4)); for (int i = 0; i < frames; ++i) h = mix(h, hb(f.process(Cx(fr(i, 1) * 4, i)))); break; }
    case 13: { Agc f(0.5 + 0.1 * (a % 10), 40, 1 + b % 60, 0.01, 0.02); for (int i = 0; i < frames; ++i) { auto q = f.process(R(fr(i, 1) * 2, i)); h = mix(h, hb(q.out) ^ hb(q.gain)); } break; }
    default: { Compressor f(8000 + 1000 * (a % 40), -20.0 + (b % 15), 2 + a % 8, double(b % 10), 0.001 * (a % 5), 0.002 * (b % 7)); for (int i = 0; i < frames; ++i) { auto q = f.process(R(fr(i, 1) * 2, i)); h = mix(h, hb(q.out) ^ hb(q.gain)); } break; }
    }
    return h;
}
}   // namespace

VK_SUB(dobj, "distinct_objects");
static void dobj_check(const Json& c, Out& o) {
    std::vector<std::vector<int>> prog;   // per thread: flattened (kind, a, b, frames)
    long calls = 0;
    for (auto& t : c.at("threads").a) { std::vector<int> v; for (auto& e : t.a) v.push_back(int(e.integer())); prog.push_back(v); for (size_t i = 0; i + 3 < v.size(); i += 4) calls += v[i + 3]; }
    const int T = int(prog.size());
    const uint64_t seed = c.getu("seed");
    auto run_thread = [&](int t, std::vector<uint64_t>& out) {
        const auto& v = prog[size_t(t)];
        for (size_t i = 0; i + 3 < v.size(); i += 4) out.push_back(ob_run(v[i], v[i + 1], v[i + 2], v[i + 3], mix(seed, uint64_t(t) * 100 + i)));
    };
    for (int round = 0, rounds = replay_rounds(25); round < rounds && !o.failed; ++round)
    run_forked(o, 600.0, [&](Out& co) {
        std::vector<std::vector<uint64_t>> got(static_cast<size_t>(T)), ref(static_cast<size_t>(T));
        std::vector<std::string> errs(static_cast<size_t>(T));
        std::atomic<int> ready{0};
        std::atomic<bool> go{false};
        std::vector<std::thread> th;
        for (int t = 0; t < T; ++t)
            th.emplace_back([&, t]() {
                ready.fetch_add(1);
                while (!go.load()) std::this_thread::yield();
                try { run_thread(t, got[size_t(t)]); } catch (const std::exception& e) { errs[size_t(t)] = e.what(); }
            });
        while (ready.load() < T) std::this_thread::yield();
        go.store(true);
        for (auto& x : th) x.join();
        for (int t = 0; t < T; ++t) { std::thread r([&]() { run_thread(t, ref[size_t(t)]); }); r.join(); }
        for (int t = 0; t < T && !co.failed; ++t) {
            if (!errs[size_t(t)].empty()) { co.fail("mt:exception", fmt("thread %d threw: %s", t, errs[size_t(t)].c_str())); break; }
            for (size_t i = 0; i < ref[size_t(t)].size(); ++i)
                if (i >= got[size_t(t)].size() || got[size_t(t)][i] != ref[size_t(t)][i]) {
                    co.fail(std::string("mt:object-result-differs:") + ob_name(prog[size_t(t)][4 * i]), fmt("thread %d object %zu (%s a=%d b=%d, %d frames): output differs from the same object run alone", t, i, ob_name(prog[size_t(t)][4 * i]), prog[size_t(t)][4 * i + 1], prog[size_t(t)][4 * i + 2], prog[size_t(t)][4 * i + 3]));
                    break;
                }
        }
    });
    o.evals = calls;
    std::set<int> ks;
    for (auto& v : prog) for (size_t i = 0; i + 3 < v.size(); i += 4) ks.insert(v[i] % OB_N);
    for (int k : ks) o.label(std::string("class:") + ob_name(k));
    o.label(fmt("threads:%s", T <= 2 ? "2" : T <= 4 ? "3-4" : T <= 8 ? "5-8" : "9-16"));
    if (T >= 2) o.nontrivial(mix(seed, uint64_t(calls)));
}
static void dobj_gen(Ctx& ctx) {
    ctx.no_shrink = true;
    ctx.rc("random", ctx.by_tier(4800, 48000), [&]() {
        const int T = pick(2, pick(0, 2) == 0 ? 16 : 8);
        Json threads = Json::array();
        const int focus = pick(0, 2) == 0 ? -1 : pick(0, OB_N - 1);   // two programs in three: every thread runs the SAME class
        for (int t = 0; t < T; ++t) {
            std::vector<int> ops;
            for (int i = pick(1, 3); i > 0; --i) { ops.push_back(focus >= 0 ? focus : pick(0, OB_N - 1)); ops.push_back(pick(0, 60)); ops.push_back(pick(0, 60)); ops.push_back(pick(4, 60)); }
            threads.push(Json(ops));
        }
        return Json::object().set("threads", threads).set("seed", (long long)(seed64() >> 12));
    });
}

VK_MAIN("C09")
