// C04  Slices select and assign exactly the numpy-designated elements.
// Reference model: Python's range() semantics for x[i1:i2:step] restricted to the property's accepted index domain
// ("pyslice"); arrays are pre-filled with distinct sentinels so that any write outside the designated positions, any
// wrong element and any wrong order is visible.  The same binary is also run under ASan (+ annotated std::vector) so that
// a read or write outside the storage is an error even when it lands on slack memory.
#include "kit/vk.h"
#include <dsplib/array.h>

using namespace vk;
using namespace dsplib;

namespace {

struct Model
{
    bool throws{false};
    std::vector<int> idx;
};

Model pyslice(int n, int i1, int i2, int st) {
    Model m;
    if (n == 0 || st == 0 || i1 < -n || i1 > n - 1 || i2 < -n || i2 > n) { m.throws = true; return m; }
    const int r1 = i1 < 0 ? i1 + n : i1, r2 = i2 < 0 ? i2 + n : i2;
    if ((st > 0 && r1 > r2) || (st < 0 && r1 < r2)) { m.throws = true; return m; }
    if (st > 0) for (int k = r1; k < r2; k += st) m.idx.push_back(k);
    else for (int k = r1; k > r2; k += st) m.idx.push_back(k);
    return m;
}

template<class T> T val(int v);
template<> real_t val<real_t>(int v) { return real_t(v); }
template<> cmplx_t val<cmplx_t>(int v) { return cmplx_t(real_t(v), real_t(-v) - 0.5); }
template<class T> bool same(const T& a, const T& b);
template<> bool same<real_t>(const real_t& a, const real_t& b) { return std::memcmp(&a, &b, sizeof a) == 0; }   // bit-exact (-0 != +0)
template<> bool same<cmplx_t>(const cmplx_t& a, const cmplx_t& b) { return std::memcmp(&a.re, &b.re, sizeof a.re) == 0 && std::memcmp(&a.im, &b.im, sizeof a.im) == 0; }

template<class T>
base_array<T> sentinel(int n, int base = 1000) {
    base_array<T> x(n);
    for (int i = 0; i < n; ++i) x[i] = val<T>(base + i);
    return x;
}
template<class T>
bool equal_arr(const base_array<T>& a, const std::vector<T>& b) {
    if (a.size() != int(b.size())) return false;
    for (int i = 0; i < a.size(); ++i) if (!same(a[i], b[size_t(i)])) return false;
    return true;
}
template<class T>
std::vector<T> vec_of(const base_array<T>& a) { return std::vector<T>(a.begin(), a.end()); }

template<class T>
std::string show(const std::vector<T>& v) {
    std::string s = "[";
    for (size_t i = 0; i < v.size() && i < 14; ++i) {
        if constexpr (std::is_same_v<T, real_t>) s += fmt("%g ", v[i]);
        else s += fmt("%g ", v[i].re);
    }
    return s + (v.size() > 14 ? "...]" : "]");
}

struct Q
{
    int n, i1, i2, st;
    bool cst, use_end;
    std::string str() const { return fmt("n=%d slice(%d,%s,%d)%s", n, i1, use_end ? "end" : fmt("%d", i2).c_str(), st, cst ? " const" : ""); }
};

// ---- reads through any slice type
template<class T, class S>
void check_reads(const S& s, const Model& m, const base_array<T>& x, const std::vector<T>& before, const Q& q, Out& o) {
    const int cnt = int(m.idx.size());
    std::vector<T> want;
    for (int k : m.idx) want.push_back(before[size_t(k)]);
    if (s.size() != cnt) { o.fail("slice:size", fmt("%s: size()=%d, model %d", q.str().c_str(), s.size(), cnt)); return; }
    if (s.stride() != q.st) o.fail("slice:stride", fmt("%s: stride()=%d", q.str().c_str(), s.stride()));
    {
        base_array<T> a(s);
        if (!equal_arr(a, want)) o.fail("slice:read-materialise", fmt("%s: array(slice)=%s, model %s", q.str().c_str(), show(vec_of(a)).c_str(), show(want).c_str()));
    }
    {
        base_array<T> b = *s;
        if (!equal_arr(b, want)) o.fail("slice:read-deref", fmt("%s: *slice=%s, model %s", q.str().c_str(), show(vec_of(b)).c_str(), show(want).c_str()));
    }
    {
        std::vector<T> it;
        int guard = 0;
        for (auto p = s.begin(); p != s.end() && guard <= cnt + 2; ++p, ++guard) it.push_back(*p);
        if (it.size() != want.size() || !std::equal(it.begin(), it.end(), want.begin(), same<T>))
            o.fail("slice:read-iterate", fmt("%s: iteration gives %s, model %s", q.str().c_str(), show(it).c_str(), show(want).c_str()));
    }
    {   // a copy of the slice object denotes the same elements
        bool threw = false;
        try {
            S cp(s);
            base_array<T> c(cp);
            if (cp.size() != cnt || cp.stride() != q.st || !equal_arr(c, want))
                o.fail("slice:copy-denotes-other", fmt("%s: copy of the slice denotes %s, model %s", q.str().c_str(), show(vec_of(c)).c_str(), show(want).c_str()));
        } catch (const std::exception& e) { threw = true; o.fail("slice:copy-throws", fmt("%s: copying the slice object threw: %s", q.str().c_str(), e.what())); }
        (void)threw;
    }
    if (!equal_arr(x, before)) o.fail("slice:read-modifies", fmt("%s: reading changed the array", q.str().c_str()));
}

// initializer lists of run-time length (0..12) built from v[0..L)
template<class T, class S>
void assign_list(S&& s, const std::vector<T>& v, int L) {
    switch (L) {
    case 0: s = std::initializer_list<T>{}; break;
    case 1: s = {v[0]}; break;
    case 2: s = {v[0], v[1]}; break;
    case 3: s = {v[0], v[1], v[2]}; break;
    case 4: s = {v[0], v[1], v[2], v[3]}; break;
    case 5: s = {v[0], v[1], v[2], v[3], v[4]}; break;
    case 6: s = {v[0], v[1], v[2], v[3], v[4], v[5]}; break;
    case 7: s = {v[0], v[1], v[2], v[3], v[4], v[5], v[6]}; break;
    case 8: s = {v[0], v[1], v[2], v[3], v[4], v[5], v[6], v[7]}; break;
    case 9: s = {v[0], v[1], v[2], v[3], v[4], v[5], v[6], v[7], v[8]}; break;
    case 10: s = {v[0], v[1], v[2], v[3], v[4], v[5], v[6], v[7], v[8], v[9]}; break;
    case 11: s = {v[0], v[1], v[2], v[3], v[4], v[5], v[6], v[7], v[8], v[9], v[10]}; break;
    default: s = {v[0], v[1], v[2], v[3], v[4], v[5], v[6], v[7], v[8], v[9], v[10], v[11]}; break;
    }
}

// one write through x.slice(q) with right-hand side produced by rhs(slice); compares with the model
template<class T, class F>
void check_write(const Q& q, const Model& m, const char* kind, int L, const std::vector<T>& src, bool scalar, F&& rhs, Out& o) {
    const int cnt = int(m.idx.size());
    base_array<T> x = sentinel<T>(q.n);
    const std::vector<T> before = vec_of(x);
    std::vector<T> want = before;
    const std::string tag = std::string(kind);
    const bool match = scalar || (L == cnt);
    if (match) for (int k = 0; k < cnt; ++k) want[size_t(m.idx[size_t(k)])] = scalar ? src[0] : src[size_t(k)];
    bool threw = false;
    std::string what;
    try {
        if (q.use_end) rhs(x.slice(q.i1, indexing::end, q.st));
        else rhs(x.slice(q.i1, q.i2, q.st));
    } catch (const std::exception& e) { threw = true; what = e.what(); }
    const std::vector<T> after = vec_of(x);
    const bool eq = after.size() == want.size() && std::equal(after.begin(), after.end(), want.begin(), same<T>);
    if (match) {
        const bool empty_to_empty = (cnt == 0 && L == 0 && !scalar && tag == "array");   // empty array -> empty slice may be a no-op or may throw
        if (threw && !empty_to_empty) o.fail("slice:write-throws:" + tag, fmt("%s = %s[%d]: threw '%s' although the counts match", q.str().c_str(), kind, L, what.c_str()));
        else if (!eq) o.fail("slice:write-wrong:" + tag, fmt("%s = %s[%d]: array is %s, model %s", q.str().c_str(), kind, L, show(after).c_str(), show(want).c_str()));
    } else {
        if (!threw) o.fail("slice:mismatch-accepted:" + tag, fmt("%s (count %d) = %s of %d elements did not throw; array is %s", q.str().c_str(), cnt, kind, L, show(after).c_str()));
        if (!eq) o.fail("slice:mismatch-writes:" + tag, fmt("%s (count %d) = %s of %d elements modified the array: %s", q.str().c_str(), cnt, kind, L, show(after).c_str()));
    }
    o.evals++;
}

template<class T>
void quad_case(const Q& q, Out& o) {
    const Model m = pyslice(q.n, q.i1, q.use_end ? q.n : q.i2, q.st);
    base_array<T> x = sentinel<T>(q.n);
    const base_array<T>& cx = x;
    const std::vector<T> before = vec_of(x);
    // ---- construction: throws exactly when the model says so
    bool threw = false;
    std::string what;
    try {
        if (q.cst) {
            if (q.use_end) { auto s = cx.slice(q.i1, indexing::end, q.st); if (!m.throws) check_reads<T>(s, m, x, before, q, o); }
            else { auto s = cx.slice(q.i1, q.i2, q.st); if (!m.throws) check_reads<T>(s, m, x, before, q, o); }
        } else {
            if (q.use_end) { auto s = x.slice(q.i1, indexing::end, q.st); if (!m.throws) { check_reads<T>(s, m, x, before, q, o); const_slice_t<T> cs(s); check_reads<T>(cs, m, x, before, q, o); } }
            else { auto s = x.slice(q.i1, q.i2, q.st); if (!m.throws) { check_reads<T>(s, m, x, before, q, o); const_slice_t<T> cs(s); check_reads<T>(cs, m, x, before, q, o); } }
        }
    } catch (const std::exception& e) { threw = true; what = e.what(); }
    if (threw != m.throws) {
        o.fail(m.throws ? "slice:invalid-accepted" : "slice:valid-rejected",
               fmt("%s: %s, model says %s", q.str().c_str(), threw ? ("threw '" + what + "'").c_str() : "no exception", m.throws ? "throw" : fmt("%zu elements", m.idx.size()).c_str()));
        return;
    }
    if (!equal_arr(x, before)) o.fail("slice:ctor-modifies", fmt("%s: constructing the slice changed the array", q.str().c_str()));
    if (m.throws) { o.label("invalid"); return; }
    const int cnt = int(m.idx.size());
    o.label(cnt == 0 ? "valid-empty" : cnt == 1 ? "valid-single" : "valid-multi");
    if (cnt >= 2 || std::abs(q.st) >= 2 || q.i1 < 0 || q.i2 < 0) o.nontrivial(key_of(q.n, q.i1, q.use_end ? 99 : q.i2, q.st, int(q.cst), sizeof(T)));
    if (q.cst) return;

    // ---- writes
    std::vector<T> src;
    for (int k = 0; k < 16; ++k) src.push_back(val<T>(5000 + k));
    check_write<T>(q, m, "scalar", 1, src, true, [&](auto&& s) { s = src[0]; }, o);
    {   // the values a fast path is most likely to special-case: zero and negative zero
        std::vector<T> z0(1, T(0)), zn(1, T(-0.0));
        check_write<T>(q, m, "scalar-zero", 1, z0, true, [&](auto&& s) { s = z0[0]; }, o);
        check_write<T>(q, m, "scalar-negzero", 1, zn, true, [&](auto&& s) { s = zn[0]; }, o);
    }
    for (int L : {cnt - 1, cnt, cnt + 1}) {
        if (L < 0) continue;
        base_array<T> rhs(L);
        for (int k = 0; k < L; ++k) rhs[k] = src[size_t(k)];
        check_write<T>(q, m, "array", L, src, false, [&](auto&& s) { s = rhs; }, o);
        if (L <= 12) check_write<T>(q, m, "list", L, src, false, [&](auto&& s) { assign_list<T>(s, src, L); }, o);
        // slices of another array: unit, strided and reversed sources, mutable and const
        for (int ss : {1, 2, -1, -3}) {
            const int ny = 96;
            base_array<T> y = sentinel<T>(ny, 7000);
            const base_array<T>& cy = y;
            const int a = ss > 0 ? 3 : 3 + (L > 0 ? (L - 1) * (-ss) : 0) ;
            // source denotes y[a], y[a+ss], ... (L elements)
            const int stop = a + L * ss;
            if (a < 0 || a >= ny || stop < -1 || stop > ny) continue;
            std::vector<T> sv;
            for (int k = 0; k < L; ++k) sv.push_back(y[a + k * ss]);   // exclusive stop; may be -1 for reversed sources reaching index 0 -> avoid by a >= 3
            if (L == 0) {
                check_write<T>(q, m, "slice(empty)", 0, sv, false, [&](auto&& s) { s = y.slice(a, a, ss); }, o);
                continue;
            }
            if (stop < 0 || stop > ny) continue;
            check_write<T>(q, m, "slice", L, sv, false, [&](auto&& s) { s = y.slice(a, stop, ss); }, o);
            check_write<T>(q, m, "const-slice", L, sv, false, [&](auto&& s) { s = cy.slice(a, stop, ss); }, o);
        }
    }
}

Q decode_q(const Json& c) {
    Q q;
    q.n = c.geti("n"); q.i1 = c.geti("i1"); q.i2 = c.geti("i2", 0); q.st = c.geti("st");
    q.cst = c.geti("const", 0) != 0;
    q.use_end = c.geti("end", 0) != 0;
    return q;
}

}   // namespace

// ------------------------------------------------------------------------------------------- exhaustive quadruples
VK_SUB(quad, "quadruples_exhaustive");
static void quad_check(const Json& c, Out& o) {
    Q q = decode_q(c);
    o.evals = 0;
    if (c.geti("cx", 0)) quad_case<cmplx_t>(q, o);
    else quad_case<real_t>(q, o);
    o.evals = std::max<long>(o.evals, 1);
}
static void quad_gen(Ctx& ctx) {
    for (int n = 0; n <= ctx.by_tier(10, 13); ++n)
        for (int i1 = -n - 3; i1 <= n + 3; ++i1)
            for (int st = -5; st <= 5; ++st)
                for (int cx = 0; cx < 2; ++cx)
                    for (int cst = 0; cst < 2; ++cst) {
                        for (int i2 = -n - 3; i2 <= n + 3; ++i2) {
                            if (!ctx.mine()) continue;
                            ctx.eval(Json::object().set("n", n).set("i1", i1).set("i2", i2).set("st", st).set("cx", cx).set("const", cst));
                        }
                        if (!ctx.mine()) continue;
                        ctx.eval(Json::object().set("n", n).set("i1", i1).set("st", st).set("cx", cx).set("const", cst).set("end", 1));
                    }
}

// ------------------------------------------------------------------------------------------- aliasing pairs on one array
namespace {
template<class T>
void alias_case(int n, const std::vector<int>& d, const std::vector<int>& s, bool src_const, Out& o) {
    const Model md = pyslice(n, d[0], d[1], d[2]), ms = pyslice(n, s[0], s[1], s[2]);
    if (md.throws || ms.throws || md.idx.size() != ms.idx.size()) { o.discard = true; return; }
    base_array<T> x = sentinel<T>(n);
    const base_array<T>& cx = x;
    const std::vector<T> before = vec_of(x);
    std::vector<T> want = before;
    for (size_t k = 0; k < md.idx.size(); ++k) want[size_t(md.idx[k])] = before[size_t(ms.idx[k])];   // source copied first
    bool threw = false;
    std::string what;
    try {
        if (src_const) x.slice(d[0], d[1], d[2]) = cx.slice(s[0], s[1], s[2]);
        else x.slice(d[0], d[1], d[2]) = x.slice(s[0], s[1], s[2]);
    } catch (const std::exception& e) { threw = true; what = e.what(); }
    const std::vector<T> after = vec_of(x);
    const std::string desc = fmt("n=%d x.slice(%d,%d,%d) = %sx.slice(%d,%d,%d)", n, d[0], d[1], d[2], src_const ? "const " : "", s[0], s[1], s[2]);
    if (threw) o.fail("alias:throws", desc + " threw '" + what + "'");
    else if (!std::equal(after.begin(), after.end(), want.begin(), same<T>)) {
        const bool unit = std::abs(d[2]) == 1 && std::abs(s[2]) == 1 && d[2] == 1 && s[2] == 1;
        o.fail(unit ? "alias:unit-stride-overlap" : "alias:strided-overlap", desc + ": array is " + show(after) + ", copy-first model " + show(want));
    }
    bool overlap = false;
    for (int a : md.idx) for (int b : ms.idx) overlap |= (a == b);
    o.label(overlap ? "overlapping" : "disjoint");
    o.nontrivial(key_of(n, d[0], d[1], d[2], s[0], s[1], s[2], int(src_const), sizeof(T)));
}
}   // namespace
VK_SUB(alias, "alias_pairs");
static void alias_check(const Json& c, Out& o) {
    auto d = c.ints("d"), s = c.ints("s");
    if (c.geti("cx", 0)) alias_case<cmplx_t>(c.geti("n"), d, s, c.geti("sc", 0) != 0, o);
    else alias_case<real_t>(c.geti("n"), d, s, c.geti("sc", 0) != 0, o);
}
static void alias_gen(Ctx& ctx) {
    const int nmax = 8;
    Rng r(mix(ctx.seed, 0xA11A5));
    for (int n = 1; n <= nmax; ++n) {
        std::vector<std::vector<int>> tri;
        for (int i1 = -n; i1 <= n - 1; ++i1)
            for (int i2 = -n; i2 <= n; ++i2)
                for (int st = -4; st <= 4; ++st) {
                    if (st == 0) continue;
                    // canonical non-negative forms always; negative-index forms only when they differ in spelling (kept: every 3rd)
                    if ((i1 < 0 || i2 < 0) && ((i1 + 2 * i2 + st + 100) % 3 != 0)) continue;
                    Model m = pyslice(n, i1, i2, st);
                    if (!m.throws && !m.idx.empty()) tri.push_back({i1, i2, st, int(m.idx.size())});
                }
        // quick: all pairs for n <= 6, a seed-chosen quarter for n = 7, 8; thorough: all
        for (auto& d : tri)
            for (auto& s : tri) {
                if (d[3] != s[3]) continue;
                for (int v = 0; v < 4; ++v) {
                    if (ctx.quick() && n >= 8 && (r.next() & 1) != 0) continue;
                    if (!ctx.mine()) continue;
                    ctx.eval(Json::object().set("n", n).set("d", std::vector<int>{d[0], d[1], d[2]}).set("s", std::vector<int>{s[0], s[1], s[2]}).set("cx", v & 1).set("sc", v >> 1));
                }
            }
    }
}

// ------------------------------------------------------------------------------------------- random large arrays
VK_SUB(big, "random_large");
static void big_check(const Json& c, Out& o) {
    const int n = c.geti("n"), i1 = c.geti("i1"), i2 = c.geti("i2"), st = c.geti("st");
    const Model m = pyslice(n, i1, i2, st);
    arr_real x(n);
    for (int i = 0; i < n; ++i) x[i] = 1000 + i;
    const arr_real& cx = x;
    bool threw = false;
    arr_real got;
    try { got = arr_real(cx.slice(i1, i2, st)); } catch (const std::exception&) { threw = true; }
    if (threw != m.throws) { o.fail(m.throws ? "slice:invalid-accepted" : "slice:valid-rejected", fmt("n=%d slice(%d,%d,%d): threw=%d model throws=%d", n, i1, i2, st, int(threw), int(m.throws))); return; }
    if (m.throws) { o.label("invalid"); return; }
    const int cnt = int(m.idx.size());
    if (got.size() != cnt) { o.fail("slice:size", fmt("n=%d slice(%d,%d,%d): %d elements, model %d", n, i1, i2, st, got.size(), cnt)); return; }
    for (int k = 0; k < cnt; ++k) if (got[k] != 1000 + m.idx[size_t(k)]) { o.fail("slice:read-materialise", fmt("n=%d slice(%d,%d,%d): element %d is %g, model %d", n, i1, i2, st, k, got[k], 1000 + m.idx[size_t(k)])); return; }
    // iteration
    {
        auto s = cx.slice(i1, i2, st);
        int k = 0;
        for (auto p = s.begin(); p != s.end() && k <= cnt; ++p, ++k) if (*p != 1000 + m.idx[size_t(std::min(k, cnt - 1))]) { o.fail("slice:read-iterate", fmt("n=%d slice(%d,%d,%d): iteration element %d wrong", n, i1, i2, st, k)); return; }
        if (k != cnt) { o.fail("slice:read-iterate", fmt("n=%d slice(%d,%d,%d): iteration visited %d elements, model %d", n, i1, i2, st, k, cnt)); return; }
    }
    // scalar write and array write: exactly the designated positions
    for (int mode = 0; mode < 3; ++mode) {
        arr_real y(x);
        std::vector<char> hit(size_t(n), 0);
        for (int k : m.idx) hit[size_t(k)] = 1;
        bool wthrew = false;
        try {
            if (mode == 0) y.slice(i1, i2, st) = ((n + cnt) & 1) ? -7.0 : 0.0;
            else if (mode == 1) { arr_real rhs(cnt); for (int k = 0; k < cnt; ++k) rhs[k] = -1 - k; if (cnt > 0) y.slice(i1, i2, st) = rhs; }
            else { arr_real rhs(cnt + 1); y.slice(i1, i2, st) = rhs; }
        } catch (const std::exception&) { wthrew = true; }
        if (mode == 2) {
            if (!wthrew) { o.fail("slice:mismatch-accepted:array", fmt("n=%d slice(%d,%d,%d) count %d accepted an array of %d", n, i1, i2, st, cnt, cnt + 1)); return; }
            for (int i = 0; i < n; ++i) if (y[i] != x[i]) { o.fail("slice:mismatch-writes:array", fmt("n=%d slice(%d,%d,%d): rejected assignment changed element %d", n, i1, i2, st, i)); return; }
            continue;
        }
        if (wthrew) { o.fail("slice:write-throws:array", fmt("n=%d slice(%d,%d,%d) mode %d threw", n, i1, i2, st, mode)); return; }
        int pos = 0;
        for (int i = 0; i < n; ++i) {
            if (!hit[size_t(i)] && y[i] != x[i]) { o.fail("slice:write-outside", fmt("n=%d slice(%d,%d,%d) mode %d: element %d outside the slice was modified", n, i1, i2, st, mode, i)); return; }
        }
        for (int k : m.idx) {
            double w = mode == 0 ? (((n + cnt) & 1) ? -7.0 : 0.0) : double(-1 - pos);
            if (y[k] != w) { o.fail("slice:write-wrong:array", fmt("n=%d slice(%d,%d,%d) mode %d: element %d is %g, model %g", n, i1, i2, st, mode, k, y[k], w)); return; }
            ++pos;
        }
    }
    // same-array shifted copy (overlap) behaves as copy-first
    if (cnt >= 1 && c.geti("shift", 0) != 0) {
        const int sh = c.geti("shift");
        const int r1 = i1 < 0 ? i1 + n : i1, r2 = i2 < 0 ? i2 + n : i2;
        const int s1 = r1 + sh, s2 = r2 + sh;
        const Model ms = pyslice(n, s1, s2, st);
        if (!ms.throws && int(ms.idx.size()) == cnt && s1 >= 0 && s2 >= 0) {
            arr_real y(x);
            y.slice(i1, i2, st) = y.slice(s1, s2, st);
            std::vector<double> want(x.begin(), x.end());
            for (int k = 0; k < cnt; ++k) want[size_t(m.idx[size_t(k)])] = x[ms.idx[size_t(k)]];
            for (int i = 0; i < n; ++i) if (y[i] != want[size_t(i)]) { o.fail(std::abs(st) == 1 ? "alias:unit-stride-overlap" : "alias:strided-overlap", fmt("n=%d x.slice(%d,%d,%d) = x.slice(%d,%d,%d): element %d is %g, copy-first model %g", n, i1, i2, st, s1, s2, st, i, y[i], want[size_t(i)])); return; }
            o.label("shifted-self-copy");
        }
    }
    const int d = std::abs((i2 < 0 ? i2 + n : i2) - (i1 < 0 ? i1 + n : i1)), am = std::abs(st);
    o.label(d % am == 0 ? "rem=0" : d % am == 1 ? "rem=1" : d % am == am - 1 ? "rem=|step|-1" : "rem=other");
    if (cnt >= 2 || am >= 2) o.nontrivial(key_of(n, i1, i2, st));
}
#if defined(__has_feature)
#if __has_feature(address_sanitizer)
#define C04_ASAN 1
#endif
#endif
static void big_gen(Ctx& ctx) {
#ifdef C04_ASAN
    const int budget = ctx.by_tier(40000, 400000), nmax = 20000;   // instrumented build: ~15x slower per element
#else
    const int budget = ctx.by_tier(600000, 6000000), nmax = 100000;
#endif
    ctx.rc("triples", budget, [&]() {
        int n = pick_log(1, nmax);
        int st = pick(1, 9) * (flip() ? 1 : -1);
        if (pick(0, 9) == 0) st = pick(-n - 1, n + 1);
        if (st == 0 && pick(0, 3) != 0) st = 1;
        int a = pick(-n - 1, n), b;
        // bias |i2-i1| mod |step| to 0, 1, |step|-1
        int len = pick_log(0, n);
        int rem = one_of<int>({0, 0, 1, std::abs(st) - 1, pick(0, std::max(1, std::abs(st)) - 1)});
        int k = std::abs(st) == 0 ? len : (len / std::abs(st)) * std::abs(st) + rem;
        b = st >= 0 ? a + k : a - k;
        if (pick(0, 7) == 0) b = pick(-n - 1, n + 1);
        return Json::object().set("n", n).set("i1", a).set("i2", b).set("st", st).set("shift", pick(-3, 3));
    });
}

VK_FRESH_THREADS;
VK_MAIN("C04")
