// C03  Element-wise array arithmetic, type promotion and value semantics.
//
// Oracle: a scalar interpreter over std::complex<long double> using the field formulas written out by hand
// (no std::complex operator* / operator/), with a forward-error bound per element:
//   stage 1 (one operator, exact inputs):  +,-,unary: C_ADD*eps*|component|  (component-wise, correctly rounded op)
//                                          real*real, real/real: C_ADD*eps*|v|
//                                          complex product: C_MUL*eps*|a||b|     textbook quotient: C_DIV*eps*|a|/|b|
//   stage 2 (programs): running error  e(+-) = (e1+e2)(1+4eps) + C_ADD eps |v|
//                                      e(*)  = |a|e2 + |b|e1 + e1e2 + C_MUL eps (|a|+e1)(|b|+e2)
//                                      e(/)  = (e1|b| + |a|e2)/(|b|(|b|-e2)) + C_DIV eps (|a|+e1)/(|b|-e2)
// Result types are checked at compile time (static_assert on decltype) and again on the variant at run time.
// Copies / selections / concatenations are compared exactly (==, so -0 == +0); "operand unchanged" is bit-identical.
#include "kit/num.h"
#include <dsplib.h>

#include <climits>
#include <cstring>
#include <deque>
#include <variant>

using namespace vk;
using namespace dsplib;

namespace {

using zc = std::complex<double>;
using Val = std::variant<arr_real, arr_cmplx, real_t, cmplx_t, int, zc>;
enum Ty { T_AR = 0, T_AC, T_SR, T_SC, T_SI, T_SZ, T_N };
const char* const TY_NAME[] = {"arr_real", "arr_cmplx", "real_t", "cmplx_t", "int", "std::complex<double>"};
enum Op { ADD = 0, SUB, MUL, DIV };
const char* const OP_NAME[] = {"+", "-", "*", "/"};
enum Form { F_BIN = 0, F_CMP, F_NEG, F_POS };
const char* const FORM_NAME[] = {"binary", "compound", "unary-", "unary+"};

constexpr double C_ADD = 2, C_MUL = 6, C_DIV = 12;

// `-arr_cmplx` did not compile before repo commit a9934c7 (array.h operator-(): `base_array<T> r{_vec}` picked the
// initializer_list constructor through cmplx_t's unconstrained converting constructor).  0 = leave that overload out.
#ifndef C03_CMPLX_NEG
#define C03_CMPLX_NEG 1
#endif

// ------------------------------------------------------------------------------------------- which overloads exist
template<class T> constexpr bool is_arr = std::is_same_v<T, arr_real> || std::is_same_v<T, arr_cmplx>;
template<class T> constexpr bool is_cx = std::is_same_v<T, arr_cmplx> || std::is_same_v<T, cmplx_t> || std::is_same_v<T, zc>;
template<class L, class R> using Promoted = std::conditional_t<is_cx<L> || is_cx<R>, arr_cmplx, arr_real>;

// binary: at least one array; std::complex<double> with arr_real only has the dedicated operator* overloads
template<class L, class R>
constexpr bool adm_bin(int op) {
    if (!is_arr<L> && !is_arr<R>) return false;
    if ((std::is_same_v<L, arr_real> && std::is_same_v<R, zc>) || (std::is_same_v<L, zc> && std::is_same_v<R, arr_real>)) return op == MUL;
    return true;
}
// compound: the result type must be the left type ("the operation changes the type" static_assert otherwise)
template<class L, class R>
constexpr bool adm_cmp(int) {
    if (!is_arr<L>) return false;
    if (std::is_same_v<L, arr_cmplx>) return true;
    return std::is_same_v<R, arr_real> || std::is_same_v<R, real_t> || std::is_same_v<R, int>;
}
bool ty_arr(int t) { return t == T_AR || t == T_AC; }
bool ty_cx(int t) { return t == T_AC || t == T_SC || t == T_SZ; }
// run-time mirror of the tables above (cross-checked against the compile-time ones by Exec::admitted)
bool adm_rt(int form, int op, int lt, int rt) {
    if (form == F_NEG && lt == T_AC && !C03_CMPLX_NEG) return false;
    if (form == F_NEG || form == F_POS) return ty_arr(lt);
    if (form == F_BIN) {
        if (!ty_arr(lt) && !ty_arr(rt)) return false;
        if ((lt == T_AR && rt == T_SZ) || (lt == T_SZ && rt == T_AR)) return op == MUL;
        return true;
    }
    if (!ty_arr(lt)) return false;
    if (lt == T_AC) return true;
    return rt == T_AR || rt == T_SR || rt == T_SI;
}

struct Exec
{
    bool admitted{false};
    bool ref_ok{true};   // compound forms must return a reference to the left operand
    Val out;
};

template<class L, class R>
void exec_bin(int op, const L& a, const R& b, Exec& ex) {
#define C03_BIN(OPC, EXPR)                                                                                      \
    case OPC:                                                                                                   \
        if constexpr (adm_bin<L, R>(OPC)) {                                                                     \
            static_assert(std::is_same_v<decltype(EXPR), Promoted<L, R>>, "promotion: result type of " #EXPR);  \
            ex.out = Val(std::in_place_type<Promoted<L, R>>, EXPR);                                             \
            ex.admitted = true;                                                                                 \
        }                                                                                                       \
        break;
    switch (op) {
        C03_BIN(ADD, a + b)
        C03_BIN(SUB, a - b)
        C03_BIN(MUL, a * b)
        C03_BIN(DIV, a / b)
    default: break;
    }
#undef C03_BIN
}

template<class L, class R>
void exec_cmp(int op, L& a, const R& b, Exec& ex) {
#define C03_CMP(OPC, EXPR)                                                                         \
    case OPC:                                                                                      \
        if constexpr (adm_cmp<L, R>(OPC)) {                                                        \
            static_assert(std::is_same_v<decltype(EXPR), L&>, "compound result type of " #EXPR);   \
            L& r_ = (EXPR);                                                                        \
            ex.ref_ok = (&r_ == &a);                                                               \
            ex.admitted = true;                                                                    \
        }                                                                                          \
        break;
    switch (op) {
        C03_CMP(ADD, a += b)
        C03_CMP(SUB, a -= b)
        C03_CMP(MUL, a *= b)
        C03_CMP(DIV, a /= b)
    default: break;
    }
#undef C03_CMP
}

Exec run_bin(int op, const Val& a, const Val& b) {
    Exec ex;
    std::visit([&](const auto& x, const auto& y) { exec_bin(op, x, y, ex); }, a, b);
    return ex;
}
// a op= b in place (a and b may be the same object)
Exec run_cmp(int op, Val& a, const Val& b) {
    Exec ex;
    std::visit([&](auto& x, const auto& y) { exec_cmp(op, x, y, ex); }, a, b);
    return ex;
}
Exec run_unary(bool neg, const Val& a) {
    Exec ex;
    std::visit(
      [&](const auto& x) {
          using L = std::decay_t<decltype(x)>;
          if constexpr (is_arr<L>) {
              if (neg) {
                  if constexpr (std::is_same_v<L, arr_real> || C03_CMPLX_NEG) {
                      static_assert(std::is_same_v<decltype(-x), L>, "unary minus result type");
                      ex.out = Val(std::in_place_type<L>, -x);
                  } else {
                      return;
                  }
              } else {
                  static_assert(std::is_same_v<std::decay_t<decltype(+x)>, L>, "unary plus result type");
                  ex.out = Val(std::in_place_type<L>, +x);
              }
              ex.admitted = true;
          }
      },
      a);
    return ex;
}

// ------------------------------------------------------------------------------------------- value helpers
int ty_of(const Val& v) { return int(v.index()); }
int len_of(const Val& v) {
    if (auto p = std::get_if<arr_real>(&v)) return p->size();
    if (auto p = std::get_if<arr_cmplx>(&v)) return p->size();
    return -1;
}
bool same_bits(const Val& a, const Val& b) {
    if (a.index() != b.index()) return false;
    return std::visit(
      [&](const auto& x) {
          using T = std::decay_t<decltype(x)>;
          const T& y = std::get<T>(b);
          if constexpr (is_arr<T>) {
              if (x.size() != y.size()) return false;
              return x.size() == 0 || std::memcmp(x.data(), y.data(), size_t(x.size()) * sizeof(*x.data())) == 0;
          } else {
              return std::memcmp(&x, &y, sizeof(T)) == 0;
          }
      },
      a);
}
// reference view: n elements (scalars are broadcast)
std::vector<cld> ref_of(const Val& v, int n) {
    std::vector<cld> r(static_cast<size_t>(n));
    std::visit(
      [&](const auto& x) {
          using T = std::decay_t<decltype(x)>;
          if constexpr (std::is_same_v<T, arr_real>) { for (int i = 0; i < n; ++i) r[size_t(i)] = cld(ld(x[i]), 0); }
          else if constexpr (std::is_same_v<T, arr_cmplx>) { for (int i = 0; i < n; ++i) r[size_t(i)] = cld(ld(x[i].re), ld(x[i].im)); }
          else if constexpr (std::is_same_v<T, cmplx_t>) { for (auto& e : r) e = cld(ld(x.re), ld(x.im)); }
          else if constexpr (std::is_same_v<T, zc>) { for (auto& e : r) e = cld(ld(x.real()), ld(x.imag())); }
          else { for (auto& e : r) e = cld(ld(x), 0); }
      },
      v);
    return r;
}
ld mod(const cld& v) { return hypotl(v.real(), v.imag()); }

// the field formulas, written out
cld ref_op(int op, const cld& a, const cld& b) {
    const ld ar = a.real(), ai = a.imag(), br = b.real(), bi = b.imag();
    switch (op) {
    case ADD: return cld(ar + br, ai + bi);
    case SUB: return cld(ar - br, ai - bi);
    case MUL: return cld(ar * br - ai * bi, ar * bi + ai * br);
    default: {
        const ld d = br * br + bi * bi;
        return cld((ar * br + ai * bi) / d, (ai * br - ar * bi) / d);
    }
    }
}

// ---- element generators.  Classes are ordered so that shrinking (towards 0) simplifies.
enum VCls { V_SMALLINT = 0, V_SPECIAL, V_GAUSS, V_WIDE, V_MIXED, V_NCLS };
const char* const VCLS_NAME[] = {"small-int", "special(+-0,+-1,+-i,1e+-100)", "gauss", "wide(1e-100..1e100)", "mixed"};

// the special values (also enumerated as a full cross product by the scalar_ops sub-check)
constexpr int N_RV_SPECIAL = 10, N_CV_SPECIAL = 16, N_IV_SPECIAL = 8;
const double RV_SPECIAL[N_RV_SPECIAL] = {0.0, -0.0, 1.0, -1.0, 0.5, -2.0, 1e-100, -1e-100, 1e100, -1e100};
const double CV_SPECIAL[N_CV_SPECIAL][2] = {{0.0, 0.0}, {-0.0, 0.0}, {0.0, -0.0}, {-0.0, -0.0}, {1, 0}, {-1, 0}, {0, 1}, {0, -1}, {1, 1}, {-1, -0.0},
                                            {1e100, 0}, {0, -1e100}, {1e-100, 0}, {-0.0, 1e-100}, {7e99, -7e99}, {1e-100, 1e-100}};
const int IV_SPECIAL[N_IV_SPECIAL] = {0, 1, -1, 2, INT_MAX, INT_MIN, 1000000007, -7};

double rv(Rng& r, int cls) {
    switch (cls) {
    case V_SMALLINT: return double(r.range(-3, 3));
    case V_SPECIAL: return RV_SPECIAL[r.range(0, 9)];
    case V_GAUSS: return r.range(0, 7) == 0 ? (r.coin() ? 1.0 : -1.0) * (1.0 + (r.coin() ? 1 : -1) * std::pow(10.0, r.uni(-15.5, -3.0))) : r.gauss();   // some values log-uniformly close to +-1
    case V_WIDE: return (r.coin() ? 1.0 : -1.0) * r.logmag(-99.5, 99.5);
    default: return rv(r, r.range(0, 3));
    }
}
cmplx_t cv(Rng& r, int cls) {
    switch (cls) {
    case V_SMALLINT: { double a = r.range(-3, 3), b = r.range(-3, 3); return {a, b}; }
    case V_SPECIAL: {
        int k = r.range(0, 15);
        return {CV_SPECIAL[k][0], CV_SPECIAL[k][1]};
    }
    case V_GAUSS: {
        // one value in six lies log-uniformly close to the unit circle (phasors that drifted: a shortcut for "unit modulus" needs them)
        if (r.range(0, 5) == 0) { const double m = 1.0 + (r.coin() ? 1 : -1) * std::pow(10.0, r.uni(-15.5, -3.0)), ph = r.uni(0, 6.283185307179586); return {m * std::cos(ph), m * std::sin(ph)}; }
        double a = r.gauss(), b = r.gauss(); return {a, b};
    }
    case V_WIDE: {
        int k = r.range(0, 9);
        if (k < 7) { double m = r.logmag(-99.5, 99.5), ph = r.uni(0, 6.283185307179586); return {m * std::cos(ph), m * std::sin(ph)}; }
        if (k < 8) {   // on an axis, the other component an exact (signed) zero
            double m = (r.coin() ? 1.0 : -1.0) * r.logmag(-99.5, 99.5), z = r.coin() ? 0.0 : -0.0;
            return r.coin() ? cmplx_t{m, z} : cmplx_t{z, m};
        }
        double a = (r.coin() ? 1.0 : -1.0) * r.logmag(-99, 99), b = (r.coin() ? 1.0 : -1.0) * r.logmag(-99, 99);   // components of unrelated size
        return {a, b};
    }
    default: return cv(r, r.range(0, 3));
    }
}
int iv(Rng& r, int cls) {
    switch (cls) {
    case V_SMALLINT: return r.range(-3, 3);
    case V_SPECIAL: return IV_SPECIAL[r.range(0, 7)];
    case V_GAUSS: return r.range(-1000, 1000);
    case V_WIDE: return int(uint32_t(r.next()));
    default: return iv(r, r.range(0, 3));
    }
}
double rv_nz(Rng& r, int cls) { double v = rv(r, cls); return v == 0 ? (r.coin() ? 1.0 : -1.0) : v; }
cmplx_t cv_nz(Rng& r, int cls) { cmplx_t v = cv(r, cls); return (v.re == 0 && v.im == 0) ? (r.coin() ? cmplx_t{0.0, 1.0} : cmplx_t{-1.0, 0.0}) : v; }
int iv_nz(Rng& r, int cls) { int v = iv(r, cls); return v == 0 ? (r.coin() ? 1 : -1) : v; }

arr_real mk_real(Rng& r, int n, int cls, bool nz = false) {
    arr_real x(n);
    for (int i = 0; i < n; ++i) x[i] = nz ? rv_nz(r, cls) : rv(r, cls);
    return x;
}
arr_cmplx mk_cmplx(Rng& r, int n, int cls, bool nz = false) {
    arr_cmplx x(n);
    for (int i = 0; i < n; ++i) x[i] = nz ? cv_nz(r, cls) : cv(r, cls);
    return x;
}
Val mk(Rng& r, int ty, int n, int cls, bool nz) {
    switch (ty) {
    case T_AR: return Val(std::in_place_type<arr_real>, mk_real(r, n, cls, nz));
    case T_AC: return Val(std::in_place_type<arr_cmplx>, mk_cmplx(r, n, cls, nz));
    case T_SR: return Val(std::in_place_type<real_t>, nz ? rv_nz(r, cls) : rv(r, cls));
    case T_SC: return Val(std::in_place_type<cmplx_t>, nz ? cv_nz(r, cls) : cv(r, cls));
    case T_SI: return Val(std::in_place_type<int>, nz ? iv_nz(r, cls) : iv(r, cls));
    default: { cmplx_t v = nz ? cv_nz(r, cls) : cv(r, cls); return Val(std::in_place_type<zc>, zc(v.re, v.im)); }
    }
}

std::string combo_name(int form, int op, int lt, int rt) {
    if (form == F_NEG || form == F_POS) return std::string(form == F_NEG ? "-" : "+") + TY_NAME[lt];
    return std::string(TY_NAME[lt]) + " " + OP_NAME[op] + (form == F_CMP ? "= " : " ") + TY_NAME[rt];
}

// Stage-1 comparison of one operator result with the scalar definition.  A, B are the operand values *before* the call.
// unary: op = SUB with A = 0 is not used; unary minus/plus are handled by `unary` (1 = minus, 2 = plus).
void compare_single(const Val& out, int unary, int op, const Val& A, const Val& B, int n, const std::string& what, Out& o) {
    const bool exp_cx = unary ? ty_cx(ty_of(A)) : (ty_cx(ty_of(A)) || ty_cx(ty_of(B)));
    const int exp_ty = exp_cx ? T_AC : T_AR;
    if (ty_of(out) != exp_ty) { o.fail("type:" + what, fmt("%s returned %s, promotion rule demands %s", what.c_str(), TY_NAME[ty_of(out)], TY_NAME[exp_ty])); return; }
    if (len_of(out) != n) { o.fail("length:" + what, fmt("%s returned %d elements for operands of length %d", what.c_str(), len_of(out), n)); return; }
    const std::vector<cld> a = ref_of(A, n), g = ref_of(out, n);
    const std::vector<cld> b = unary ? std::vector<cld>() : ref_of(B, n);
    const bool real_only = !exp_cx;
    double worst = 0;
    for (int i = 0; i < n; ++i) {
        const size_t k = size_t(i);
        cld v;
        ld tol_re, tol_im;
        if (unary) {
            v = unary == 1 ? cld(-a[k].real(), -a[k].imag()) : a[k];
            tol_re = tol_im = 0;   // exact
        } else {
            v = ref_op(op, a[k], b[k]);
            if (op == ADD || op == SUB) {
                tol_re = C_ADD * EPS * std::fabs(v.real());
                tol_im = C_ADD * EPS * std::fabs(v.imag());
            } else if (real_only) {
                tol_re = C_ADD * EPS * std::fabs(v.real());
                tol_im = 0;
            } else {
                if (op == MUL) {
                    // the usual product formula (ac - bd, ad + bc) is accurate per COMPONENT relative to the sum of the magnitudes of its
                    // two terms; a form that is only accurate relative to |a||b| (three-multiplication products) loses the small component
                    tol_re = C_MUL * EPS * (std::fabs(a[k].real() * b[k].real()) + std::fabs(a[k].imag() * b[k].imag()));
                    tol_im = C_MUL * EPS * (std::fabs(a[k].real() * b[k].imag()) + std::fabs(a[k].imag() * b[k].real()));
                } else {
                    const ld t = C_DIV * EPS * mod(a[k]) / mod(b[k]);
                    tol_re = tol_im = -t;   // marker: modulus criterion
                }
            }
        }
        ld err, tol;
        bool ok;
        if (tol_re < 0) {
            err = mod(g[k] - v);
            tol = -tol_re;
            ok = err <= tol;
        } else {
            const ld er = std::fabs(g[k].real() - v.real()), ei = std::fabs(g[k].imag() - v.imag());
            ok = er <= tol_re && ei <= tol_im;
            // report the worse component
            const ld rr = tol_re > 0 ? er / tol_re : (er == 0 ? 0 : 1e300L), ri = tol_im > 0 ? ei / tol_im : (ei == 0 ? 0 : 1e300L);
            if (rr >= ri) { err = er; tol = tol_re; } else { err = ei; tol = tol_im; }
        }
        if (!std::isfinite(double(g[k].real())) || !std::isfinite(double(g[k].imag()))) ok = false;
        const double ratio = tol > 0 ? double(err / tol) : (err == 0 ? 0.0 : 1e300);
        if (ok) worst = std::max(worst, ratio);
        if (!ok) {
            o.fail("value:" + what, fmt("%s, n=%d: element %d is (%.17g, %.17g), scalar definition gives (%.17Lg, %.17Lg) from a=(%.17Lg, %.17Lg)%s; |err|=%.3Lg > tol %.3Lg",
                                        what.c_str(), n, i, double(g[k].real()), double(g[k].imag()), v.real(), v.imag(), a[k].real(), a[k].imag(),
                                        unary ? "" : fmt(" b=(%.17Lg, %.17Lg)", b[k].real(), b[k].imag()).c_str(), err, tol));
            return;
        }
    }
    o.metric(std::string("err/tol ") + (unary ? "unary" : OP_NAME[op]) + (real_only ? " real" : " complex"), worst);
}

// An int scalar at the ends of its range (INT_MIN, INT_MAX) with + or -: the int converts to double exactly and every component
// is ONE correctly rounded operation, so the element must equal x + double(s) / x - double(s) / double(s) - x exactly
// (x - INT_MIN == x + 2147483648.0; a library that negates or offsets the int before converting it wraps around).
void int_extreme_exact(const Val& out, int form, int op, const Val& A, const Val& B, int n, const std::string& what, Out& o) {
    const bool left = ty_of(A) == T_SI;
    if (!left && ty_of(B) != T_SI) return;
    const int s = std::get<int>(left ? A : B);
    if (s != INT_MIN && s != INT_MAX) return;
    o.label(std::string("int-scalar:") + (s == INT_MIN ? "INT_MIN " : "INT_MAX ") + OP_NAME[op] + (form == F_CMP ? "= (compound)" : left ? " (int on the left)" : " (int on the right)"));
    if (op != ADD && op != SUB) return;
    if (len_of(out) != n) return;
    const double sd = double(s);
    const std::vector<cld> x = ref_of(left ? B : A, n), g = ref_of(out, n);
    for (int i = 0; i < n; ++i) {
        const double xr = double(x[size_t(i)].real()), xi = double(x[size_t(i)].imag());   // exact: these are the doubles of the operand
        const double er = op == ADD ? xr + sd : left ? sd - xr : xr - sd;
        const double ei = (op == SUB && left) ? -xi : xi;
        const double gr = double(g[size_t(i)].real()), gi = double(g[size_t(i)].imag());
        if (!(gr == er && gi == ei)) {
            o.fail("int-extreme:" + what, fmt("%s with the int = %d, n=%d: element %d is (%.17g, %.17g) from x=(%.17g, %.17g); one exact double operation with %.1f gives (%.17g, %.17g)",
                                              what.c_str(), s, n, i, gr, gi, xr, xi, sd, er, ei));
            return;
        }
    }
}

bool all_zero(const Val& v) {
    int n = len_of(v);
    if (n < 0) n = 1;
    for (auto& e : ref_of(v, n)) if (e.real() != 0 || e.imag() != 0) return false;
    return true;
}

struct Combo { int form, op, lt, rt; };
const std::vector<Combo>& all_combos() {
    static std::vector<Combo> v = [] {
        std::vector<Combo> r;
        for (int form : {F_BIN, F_CMP})
            for (int op = 0; op < 4; ++op)
                for (int lt = 0; lt < T_N; ++lt)
                    for (int rt = 0; rt < T_N; ++rt)
                        if (adm_rt(form, op, lt, rt)) r.push_back({form, op, lt, rt});
        for (int form : {F_NEG, F_POS})
            for (int lt : {T_AR, T_AC}) if (adm_rt(form, 0, lt, lt)) r.push_back({form, 0, lt, lt});
        return r;
    }();
    return v;
}
std::vector<Combo> array_array_combos() {
    std::vector<Combo> r;
    for (auto& c : all_combos()) if ((c.form == F_BIN || c.form == F_CMP) && ty_arr(c.lt) && ty_arr(c.rt)) r.push_back(c);
    return r;
}
const char* side_of(const Combo& c) {
    if (c.form == F_NEG || c.form == F_POS) return "unary";
    if (ty_arr(c.lt) && ty_arr(c.rt)) return "array-array";
    return ty_arr(c.lt) ? "scalar-right" : "scalar-left";
}
// sanitizer builds run the same enumerations and a tenth of the sampled cases
#if defined(__SANITIZE_ADDRESS__)
#define C03_ASAN 1
#elif defined(__has_feature)
#if __has_feature(address_sanitizer)
#define C03_ASAN 1
#endif
#endif
#ifdef C03_ASAN
constexpr int SAN_DIV = 10;
#else
constexpr int SAN_DIV = 1;
#endif
int budget(const Ctx& ctx, int q, int t) { return ctx.by_tier(q, t) / SAN_DIV; }
template<class T>
base_array<T> with_spare_capacity(const base_array<T>& x, int at_least = 0) {
    std::vector<T> v;
    v.reserve(size_t(std::max(x.size() * 3, at_least)) + 8);
    v.assign(x.begin(), x.end());
    return base_array<T>(std::move(v));
}
long long case_seed(uint64_t base, uint64_t key) { return (long long)(mix(base, key) >> 16); }

}   // namespace

// =========================================================================================== stage 1: operator matrix
VK_SUB(mx, "op_matrix");
static void mx_check(const Json& c, Out& o) {
    const int form = c.geti("form"), op = c.geti("op"), lt = c.geti("lt"), rt = c.geti("rt"), n = c.geti("n"), vcls = c.geti("vcls");
    if (form < 0 || form > F_POS || op < 0 || op > 3 || lt < 0 || lt >= T_N || rt < 0 || rt >= T_N || n < 0 || !adm_rt(form, op, lt, rt)) { o.discard = true; return; }
    Rng r(c.getu("seed"));
    const bool unary = form == F_NEG || form == F_POS;
    const std::string what = combo_name(form, op, lt, rt);
    Val a = mk(r, lt, n, vcls, false);
    Val b = unary ? Val(std::in_place_type<int>, 0) : mk(r, rt, n, vcls, op == DIV);   // divisors away from zero by construction
    // "ispec" (absent = 0 = whatever the value class drew): 1 / 2 pin an int scalar operand to INT_MIN / INT_MAX
    const int ispec = c.geti("ispec", 0);
    if (!unary && (ispec == 1 || ispec == 2)) {
        if (lt == T_SI) a = Val(std::in_place_type<int>, ispec == 1 ? INT_MIN : INT_MAX);
        if (rt == T_SI) b = Val(std::in_place_type<int>, ispec == 1 ? INT_MIN : INT_MAX);
    }
    const Val sa = a, sb = b;
    Exec ex;
    if (unary) ex = run_unary(form == F_NEG, a);
    else if (form == F_BIN) ex = run_bin(op, a, b);
    else {
        ex = run_cmp(op, a, b);
        ex.out = a;
    }
    if (!ex.admitted) throw std::logic_error("C03 harness: run-time and compile-time overload tables disagree for " + what);
    compare_single(ex.out, unary ? (form == F_NEG ? 1 : 2) : 0, op, sa, sb, n, what, o);
    if (form == F_CMP) {
        if (!ex.ref_ok) o.fail("compound-ref:" + what, what + " did not return a reference to its left operand");
    } else if (!same_bits(a, sa)) {
        o.fail("operand-modified:" + what, fmt("%s, n=%d: the left/only operand changed", what.c_str(), n));
    }
    if (!unary && !same_bits(b, sb)) o.fail("operand-modified:" + what, fmt("%s, n=%d: the right operand changed", what.c_str(), n));
    if (!unary && !o.failed) int_extreme_exact(ex.out, form, op, sa, sb, n, what, o);
    if (n >= 2 && !(all_zero(sa) && (unary || all_zero(sb)))) o.nontrivial(key_of(form, op, lt, rt, n, vcls));
    o.label(std::string("form:") + FORM_NAME[form] + (unary ? "" : std::string(" ") + OP_NAME[op]));
    o.label(std::string("side:") + side_of({form, op, lt, rt}));
    o.label(std::string("types:") + TY_NAME[lt] + (unary ? "" : std::string(",") + TY_NAME[rt]));
    o.label(std::string("values:") + VCLS_NAME[vcls]);
    o.label(n == 0 ? "len:0" : n == 1 ? "len:1" : n <= 64 ? "len:2..64" : n <= 1000 ? "len:65..1000" : "len:1001..10000");
}
static void mx_gen(Ctx& ctx) {
    const auto& combos = all_combos();
    for (size_t ci = 0; ci < combos.size(); ++ci)
        for (int n = 0; n <= 64; ++n)
            for (int vcls = 0; vcls < V_NCLS; ++vcls)
                for (int rep = 0; rep < ctx.by_tier(1, 4); ++rep) {
                    if (!ctx.mine()) continue;
                    const Combo& k = combos[ci];
                    ctx.eval(Json::object().set("form", k.form).set("op", k.op).set("lt", k.lt).set("rt", k.rt).set("n", n).set("vcls", vcls)
                               .set("seed", case_seed(ctx.seed, key_of(ci, n, vcls, rep))));
                }
    // every form with an int scalar x {INT_MIN, INT_MAX} x a few lengths x every value class of the array operand
    for (size_t ci = 0; ci < combos.size(); ++ci)
        for (int n : {0, 1, 2, 3, 8, 64})
            for (int vcls = 0; vcls < V_NCLS; ++vcls)
                for (int ispec = 1; ispec <= 2; ++ispec) {
                    const Combo& k = combos[ci];
                    if (k.form != F_BIN && k.form != F_CMP) continue;
                    if (k.lt != T_SI && k.rt != T_SI) continue;
                    if (!ctx.mine()) continue;
                    ctx.eval(Json::object().set("form", k.form).set("op", k.op).set("lt", k.lt).set("rt", k.rt).set("n", n).set("vcls", vcls).set("ispec", ispec)
                               .set("seed", case_seed(ctx.seed, key_of(ci, n, vcls, ispec, 41))));
                }
    ctx.rc("sampled", budget(ctx, 1500000, 12000000), [&]() {
        const Combo& k = combos[size_t(pick(0, int(combos.size()) - 1))];
        int n = pick(0, 3) == 0 ? pick_log(65, 10000) : pick(0, 64);
        Json j = Json::object().set("form", k.form).set("op", k.op).set("lt", k.lt).set("rt", k.rt).set("n", n).set("vcls", pick(0, V_NCLS - 1));
        if ((k.form == F_BIN || k.form == F_CMP) && (k.lt == T_SI || k.rt == T_SI)) { const int e = pick(0, 7); if (e >= 6) j.set("ispec", e - 5); }
        return j.set("seed", (long long)seed64());
    });
}

// =========================================================================================== stage 1: mismatched lengths
VK_SUB(mm, "length_mismatch");
static void mm_body(int form, int op, int lt, int rt, int n, int m, int vcls, uint64_t seed, Out& o) {
    Rng r(seed);
    const std::string what = combo_name(form, op, lt, rt);
    Val a = mk(r, lt, n, vcls, true), b = mk(r, rt, m, vcls, true);
    // With the left operand longer, a library that forgot the check would read past the end of the right one; give the right
    // operand spare capacity (invisible to the value) so that such a library is reported as a failure instead of killing the shard.
    if (n > m) {
        if (rt == T_AR) b = Val(std::in_place_type<arr_real>, with_spare_capacity(std::get<arr_real>(b), n));
        else b = Val(std::in_place_type<arr_cmplx>, with_spare_capacity(std::get<arr_cmplx>(b), n));
    }
    const Val sa = a, sb = b;
    bool threw = false;
    std::string how;
    try {
        Exec ex = form == F_BIN ? run_bin(op, a, b) : run_cmp(op, a, b);
        if (!ex.admitted) throw std::logic_error("C03 harness: overload tables disagree for " + what);
        how = fmt("returned normally (result length %d)", form == F_BIN ? len_of(ex.out) : len_of(a));
    } catch (const std::logic_error&) {
        throw;
    } catch (const std::exception&) {
        threw = true;
    } catch (...) {
        how = "threw something that is not a std::exception";
    }
    if (!threw) o.fail("mismatch-accepted:" + what, fmt("%s with lengths %d and %d %s; an exception is required", what.c_str(), n, m, how.c_str()));
    if (!same_bits(a, sa)) o.fail("mismatch-modified:" + what, fmt("%s with lengths %d and %d: left operand changed", what.c_str(), n, m));
    if (!same_bits(b, sb)) o.fail("mismatch-modified:" + what, fmt("%s with lengths %d and %d: right operand changed", what.c_str(), n, m));
    o.nontrivial(key_of(form, op, lt, rt, n, m));
    o.label(std::string("form:") + FORM_NAME[form] + " " + OP_NAME[op]);
    o.label(std::string("types:") + TY_NAME[lt] + "," + TY_NAME[rt]);
    o.label(n == 0 || m == 0 ? "one-empty" : n < m ? "left-shorter" : "left-longer");
}
static void mm_check(const Json& c, Out& o) {
    const int form = c.geti("form"), op = c.geti("op"), lt = c.geti("lt"), rt = c.geti("rt"), n = c.geti("n"), m = c.geti("m"), vcls = c.geti("vcls");
    if (!(form == F_BIN || form == F_CMP) || op < 0 || op > 3 || !ty_arr(lt) || !ty_arr(rt) || !adm_rt(form, op, lt, rt) || n < 0 || m < 0 || n == m) { o.discard = true; return; }
    const uint64_t seed = c.getu("seed");
    mm_body(form, op, lt, rt, n, m, vcls, seed, o);
}
static void mm_gen(Ctx& ctx) {
    const auto combos = array_array_combos();
    const int top = ctx.by_tier(16, 64);
    // left shorter first: even a library without the check stays inside its buffers there
    for (int pass = 0; pass < 2; ++pass)
        for (size_t ci = 0; ci < combos.size(); ++ci)
            for (int n = 0; n <= top; ++n)
                for (int m = 0; m <= top; ++m) {
                    if (n == m || (pass == 0) != (n < m)) continue;
                    if (!ctx.mine()) continue;
                    const Combo& k = combos[ci];
                    ctx.eval(Json::object().set("form", k.form).set("op", k.op).set("lt", k.lt).set("rt", k.rt).set("n", n).set("m", m).set("vcls", int((n + m) % V_NCLS))
                               .set("seed", case_seed(ctx.seed, key_of(ci, n, m, 77))));
                }
    ctx.rc("sampled", budget(ctx, 500000, 5000000), [&]() {
        const Combo& k = combos[size_t(pick(0, int(combos.size()) - 1))];
        int n = pick_log(0, 10000), m = flip() ? pick_log(0, 10000) : std::max(0, n + pick(-2, 2));
        if (m == n) m = n + 1;
        return Json::object().set("form", k.form).set("op", k.op).set("lt", k.lt).set("rt", k.rt).set("n", n).set("m", m).set("vcls", pick(0, V_NCLS - 1)).set("seed", (long long)seed64());
    });
}

// =========================================================================================== stage 1: aliasing
VK_SUB(al, "aliasing");
namespace {
enum AliasKind { AL_CMP = 0, AL_BIN, AL_BAR_EQ, AL_BAR_EQ_SPARE, AL_BAR, AL_CONCAT, AL_N };
const char* const AL_NAME[] = {"a op= a", "a op a", "a |= a", "a |= a (spare capacity)", "a | a", "concatenate(a,..,a)"};

template<class T>
bool elems_equal(const T& x, const T& y) {
    if constexpr (std::is_same_v<T, cmplx_t>) return x.re == y.re && x.im == y.im;
    else return x == y;
}
// out must be the concatenation of parts, element by element (== so that -0 == +0)
template<class T>
bool check_concat(const base_array<T>& out, const std::vector<const base_array<T>*>& parts, const std::string& what, Out& o) {
    int total = 0;
    for (auto p : parts) total += p->size();
    if (out.size() != total) { o.fail("concat-length:" + what, fmt("%s returned %d elements, expected %d", what.c_str(), out.size(), total)); return false; }
    int k = 0;
    for (size_t pi = 0; pi < parts.size(); ++pi)
        for (int i = 0; i < parts[pi]->size(); ++i, ++k)
            if (!elems_equal(out[k], (*parts[pi])[i])) { o.fail("concat-value:" + what, fmt("%s: element %d differs from element %d of argument %zu", what.c_str(), k, i, pi + 1)); return false; }
    return true;
}
template<class T>
void alias_concat(int kind, int nargs, const base_array<T>& src, const std::string& tname, Out& o) {
    using A = base_array<T>;
    const std::string what = std::string(AL_NAME[kind]) + " on " + tname;
    A a = kind == AL_BAR_EQ_SPARE ? with_spare_capacity(src) : src;
    if (kind == AL_BAR_EQ || kind == AL_BAR_EQ_SPARE) {
        static_assert(std::is_same_v<decltype(a |= a), A&>);
        A& r = (a |= a);
        if (&r != &a) o.fail("compound-ref:" + what, what + " did not return a reference to its left operand");
        check_concat<T>(a, {&src, &src}, what, o);
        return;
    }
    A out;
    int copies = 2;
    if (kind == AL_BAR) {
        static_assert(std::is_same_v<decltype(a | a), A>);
        out = a | a;
    } else {
        copies = nargs;
        switch (nargs) {
        case 2: out = concatenate(a, a); break;
        case 3: out = concatenate(a, a, a); break;
        case 4: out = concatenate(a, a, a, a); break;
        default: out = concatenate(a, a, a, a, a); copies = 5;
        }
    }
    check_concat<T>(out, std::vector<const A*>(size_t(copies), &src), what, o);
    if (a.size() != src.size() || (a.size() && std::memcmp(a.data(), src.data(), size_t(a.size()) * sizeof(T)) != 0)) o.fail("operand-modified:" + what, what + ": the operand changed");
}
}   // namespace
static void al_check(const Json& c, Out& o) {
    const int kind = c.geti("kind"), op = c.geti("op"), ty = c.geti("ty"), n = c.geti("n"), vcls = c.geti("vcls"), nargs = c.geti("nargs", 2);
    if (kind < 0 || kind >= AL_N || !ty_arr(ty) || op < 0 || op > 3 || n < 0) { o.discard = true; return; }
    Rng r(c.getu("seed"));
    Val a = mk(r, ty, n, vcls, op == DIV && kind <= AL_BIN);
    const Val sa = a;
    if (kind == AL_CMP || kind == AL_BIN) {
        const std::string what = std::string(TY_NAME[ty]) + " a; a " + OP_NAME[op] + (kind == AL_CMP ? "= a" : " a");
        Exec ex;
        if (kind == AL_CMP) { ex = run_cmp(op, a, a); ex.out = a; }
        else ex = run_bin(op, a, a);
        if (!ex.admitted) throw std::logic_error("C03 harness: overload tables disagree for " + what);
        compare_single(ex.out, 0, op, sa, sa, n, what, o);
        if (kind == AL_CMP && !ex.ref_ok) o.fail("compound-ref:" + what, what + " did not return a reference to its left operand");
        if (kind == AL_BIN && !same_bits(a, sa)) o.fail("operand-modified:" + what, what + ": the operand changed");
    } else if (ty == T_AR) alias_concat<real_t>(kind, nargs, std::get<arr_real>(sa), TY_NAME[ty], o);
    else alias_concat<cmplx_t>(kind, nargs, std::get<arr_cmplx>(sa), TY_NAME[ty], o);
    if (n >= 1) o.nontrivial(key_of(kind, kind <= AL_BIN ? op : nargs, ty, n, vcls));
    o.label(std::string("alias:") + AL_NAME[kind] + (kind <= AL_BIN ? std::string(" [") + OP_NAME[op] + "]" : ""));
    o.label(std::string("types:") + TY_NAME[ty]);
}
static void al_gen(Ctx& ctx) {
    for (int kind = 0; kind < AL_N; ++kind)
        for (int sub = 0; sub < 4; ++sub)   // op for arithmetic kinds, nargs-2 for concatenate
            for (int ty : {T_AR, T_AC})
                for (int n = 0; n <= 64; ++n)
                    for (int vcls = 0; vcls < V_NCLS; ++vcls) {
                        if (kind >= AL_BAR_EQ && kind != AL_CONCAT && sub > 0) continue;
                        if (!ctx.mine()) continue;
                        ctx.eval(Json::object().set("kind", kind).set("op", kind <= AL_BIN ? sub : 0).set("nargs", kind == AL_CONCAT ? sub + 2 : 2).set("ty", ty).set("n", n).set("vcls", vcls)
                                   .set("seed", case_seed(ctx.seed, key_of(kind, sub, ty, n, vcls))));
                    }
    ctx.rc("sampled", budget(ctx, 800000, 8000000), [&]() {
        int kind = pick(0, AL_N - 1);
        int n = pick(0, 2) == 0 ? pick_log(65, 10000) : pick(0, 64);
        return Json::object().set("kind", kind).set("op", kind <= AL_BIN ? pick(0, 3) : 0).set("nargs", kind == AL_CONCAT ? pick(2, 5) : 2).set("ty", pick(0, 1)).set("n", n)
          .set("vcls", pick(0, V_NCLS - 1)).set("seed", (long long)seed64());
    });
}

// =========================================================================================== stage 2: expression programs
VK_SUB(pg, "programs");
namespace {
enum NodeKind { N_LEAF = 0, N_BIN_AA, N_BIN_AS, N_BIN_SA, N_CMP_AA, N_CMP_AS, N_NEG, N_POS, N_KINDS };
const char* const NK_NAME[] = {"leaf", "array op array", "array op scalar", "scalar op array", "array op= array", "array op= scalar", "unary -", "unary +"};
const char* const MODE_NAME[] = {"benign(gauss,+-0,+-1,+-i)", "moderate(1e-10..1e10)", "wide(1e-100..1e100)"};
constexpr ld LO = 1e-100L, HI = 1e100L;

struct PNode
{
    Val val;
    std::vector<cld> ref;   // n elements (scalars: 1)
    std::vector<ld> err;    // bound on |library value - ref|
    bool cx{false}, arr{true};
    double centre{0};       // log10 scale the leaf was drawn around (pool reuse)
    uint64_t shape{0};
};

struct Prog
{
    Rng r;
    int n, mode;
    Out& o;
    std::deque<PNode> nodes;   // stable addresses
    std::vector<int> pool;     // array variables that may be referenced more than once
    int ops{0}, mixed{0}, scalar_left{0}, regen_op{0}, fallback{0}, reused{0};
    bool kinds_seen[N_KINDS] = {};
    bool excluded_neg{false};
    double worst{0};
    double S;   // exponent budget of this mode
    double pcx{0.5};   // probability that a leaf is complex (0: a purely real program)
    bool op_seen[4] = {};

    Prog(uint64_t seed, int n_, int mode_, Out& o_) : r(seed), n(n_), mode(mode_), o(o_) { S = mode == 0 ? 0 : mode == 1 ? 10 : 95; static const double pc[] = {0.0, 0.15, 0.5, 0.5}; pcx = pc[r.range(0, 3)]; }

    double spread() const { return mode == 0 ? 0 : mode == 1 ? 1.0 : 1.5; }

    // one element around 10^centre; exact (signed) zeros only where the leaf was chosen to carry them
    cmplx_t elem(bool cx, double centre, bool zeros) {
        if (zeros && r.range(0, 5) == 0) {
            const double z = r.coin() ? 0.0 : -0.0;
            return {z, cx ? (r.coin() ? 0.0 : -0.0) : 0.0};
        }
        if (mode == 0) {
            const int k = r.range(0, 9);
            if (k < 6) return cx ? cmplx_t{r.gauss(), r.gauss()} : cmplx_t{r.gauss(), 0};
            if (k < 8) {   // +-1, +-i, +-2, +-1/2 (a zero component only in the complex case, never both)
                static const double s[] = {1, -1, 2, -0.5};
                if (!cx) return {s[r.range(0, 3)], 0};
                static const double c2[][2] = {{1, 0}, {-1, 0}, {0, 1}, {0, -1}, {1, -0.0}, {-0.0, -1}, {1, 1}, {-2, 0.5}};
                const int j = r.range(0, 7);
                return {c2[j][0], c2[j][1]};
            }
            const double a = double(r.range(1, 3)) * (r.coin() ? 1 : -1), b = cx ? double(r.range(-3, 3)) : 0.0;
            return {a, b};
        }
        const double e = std::min(99.0, std::max(-99.0, centre + r.uni(-spread(), spread())));
        const double m = std::pow(10.0, e);
        if (!cx) return {(r.coin() ? m : -m), 0};
        if (r.range(0, 9) == 0) { const double z = r.coin() ? 0.0 : -0.0; return r.coin() ? cmplx_t{r.coin() ? m : -m, z} : cmplx_t{z, r.coin() ? m : -m}; }
        const double ph = r.uni(0, 6.283185307179586);
        return {m * std::cos(ph), m * std::sin(ph)};
    }

    int push_leaf(PNode&& p) {
        p.err.assign(p.ref.size(), 0);
        nodes.push_back(std::move(p));
        return int(nodes.size()) - 1;
    }
    int leaf_arr(bool cx, double centre) {
        // reuse a variable of the right type and scale (x*x, x-x, a+b*a ...)
        if (!pool.empty() && r.range(0, 3) == 0) {
            std::vector<int> cand;
            for (int id : pool) if (nodes[size_t(id)].cx == cx && std::fabs(nodes[size_t(id)].centre - centre) <= 2.0) cand.push_back(id);
            if (!cand.empty()) { ++reused; return cand[size_t(r.range(0, int(cand.size()) - 1))]; }
        }
        PNode p;
        p.cx = cx;
        p.arr = true;
        p.centre = centre;
        const bool zeros = r.range(0, 3) == 0;
        if (cx) { arr_cmplx x(n); for (int i = 0; i < n; ++i) x[i] = elem(true, centre, zeros); p.val = Val(std::in_place_type<arr_cmplx>, std::move(x)); }
        else { arr_real x(n); for (int i = 0; i < n; ++i) x[i] = elem(false, centre, zeros).re; p.val = Val(std::in_place_type<arr_real>, std::move(x)); }
        p.ref = ref_of(p.val, n);
        p.shape = cx ? 0xC1 : 0xA1;
        int id = push_leaf(std::move(p));
        pool.push_back(id);
        return id;
    }
    int leaf_scalar(int sty, double centre) {
        PNode p;
        p.arr = false;
        p.cx = ty_cx(sty);
        p.centre = centre;
        if (sty == T_SI) {
            int v;
            if (mode == 0 || std::fabs(centre) < 0.5) v = r.range(-9, 9);
            else if (centre > 0 && centre < 9.3) { double m = std::pow(10.0, std::min(9.3, centre + r.uni(-0.3, 0.3))); v = int(std::min(2147483647.0, m)) * (r.coin() ? 1 : -1); }
            else v = r.coin() ? 1 : -1;   // no int near 10^centre: the scale stays with the array operand
            p.val = Val(std::in_place_type<int>, v);
        } else {
            cmplx_t e = elem(p.cx, centre, r.range(0, 15) == 0);
            if (sty == T_SR) p.val = Val(std::in_place_type<real_t>, e.re);
            else if (sty == T_SC) p.val = Val(std::in_place_type<cmplx_t>, e);
            else p.val = Val(std::in_place_type<zc>, zc(e.re, e.im));
        }
        p.ref = ref_of(p.val, 1);
        p.shape = 0x51 + uint64_t(sty);
        return push_leaf(std::move(p));
    }

    cld rv_at(const PNode& p, int i) const { return p.arr ? p.ref[size_t(i)] : p.ref[0]; }
    ld re_at(const PNode& p, int i) const { return p.arr ? p.err[size_t(i)] : p.err[0]; }

    // reference + bound for `a op b`; false if some element leaves the domain the property speaks about
    bool ref_binary(int op, const PNode& a, const PNode& b, std::vector<cld>& v, std::vector<ld>& e) const {
        v.resize(size_t(n));
        e.resize(size_t(n));
        for (int i = 0; i < n; ++i) {
            const cld x = rv_at(a, i), y = rv_at(b, i);
            const ld ex = re_at(a, i), ey = re_at(b, i), mx = mod(x), my = mod(y);
            if (op == DIV && !(my >= LO && my <= HI)) return false;
            const cld w = ref_op(op, x, y);
            const ld mw = mod(w);
            ld ew;
            if (op == ADD || op == SUB) ew = (ex + ey) * (1 + 4 * ld(EPS)) + C_ADD * EPS * mw;
            else if (op == MUL) ew = mx * ey + my * ex + ex * ey + C_MUL * EPS * (mx + ex) * (my + ey);
            else ew = (ex * my + mx * ey) / (my * (my - ey)) + C_DIV * EPS * (mx + ex) / (my - ey);
            if (!acceptable(mw, ew)) return false;
            v[size_t(i)] = w;
            e[size_t(i)] = ew;
        }
        return true;
    }
    // every node is an exact zero, or has modulus in [1e-100, 1e100] and is known to ~6 digits (keeps divisors away from zero
    // and keeps the library's own operand magnitudes inside the range the property covers)
    static bool acceptable(ld m, ld e) {
        if (m == 0) return e == 0;
        return m >= LO && m <= HI && e <= 1e-6L * m;
    }

    void compare(const PNode& p, const std::string& what) {
        const int exp_ty = p.cx ? T_AC : T_AR;
        if (ty_of(p.val) != exp_ty) { o.fail("type:" + what, fmt("program node %s returned %s, promotion rule demands %s", what.c_str(), TY_NAME[ty_of(p.val)], TY_NAME[exp_ty])); return; }
        if (len_of(p.val) != n) { o.fail("length:" + what, fmt("program node %s returned %d elements, operands have %d", what.c_str(), len_of(p.val), n)); return; }
        const auto g = ref_of(p.val, n);
        for (int i = 0; i < n; ++i) {
            const size_t k = size_t(i);
            const ld d = mod(g[k] - p.ref[k]);
            const bool fin = std::isfinite(double(g[k].real())) && std::isfinite(double(g[k].imag()));
            if (!fin || !(d <= p.err[k])) {
                o.fail("value:" + what, fmt("program node %s (n=%d): element %d is (%.17g, %.17g), interpreter gives (%.17Lg, %.17Lg); |diff|=%.3Lg > running bound %.3Lg",
                                            what.c_str(), n, i, double(g[k].real()), double(g[k].imag()), p.ref[k].real(), p.ref[k].imag(), d, p.err[k]));
                return;
            }
            if (p.err[k] > 0) worst = std::max(worst, double(d / p.err[k]));
        }
    }

    // builds and evaluates a sub-expression of height <= depth whose value sits around 10^hint; returns its node id
    int build(int depth, double hint) {
        if (depth <= 0) return leaf_arr(r.uni() < pcx, hint);
        const double u = r.uni();
        int kind = u < 0.28 ? N_BIN_AA : u < 0.46 ? N_BIN_AS : u < 0.66 ? N_BIN_SA : u < 0.78 ? N_CMP_AA : u < 0.90 ? N_CMP_AS : u < 0.97 ? N_NEG : N_POS;
        if (kind == N_NEG || kind == N_POS) {
            const int c = build(depth - 1, hint);
            if (o.failed) return c;
            const PNode& pc = nodes[size_t(c)];
            if (kind == N_NEG && pc.cx && !C03_CMPLX_NEG) { kind = N_POS; excluded_neg = true; }
            const Val snap = pc.val;
            Exec ex = run_unary(kind == N_NEG, pc.val);
            PNode p;
            p.cx = pc.cx;
            p.centre = hint;
            p.val = std::move(ex.out);
            p.ref = pc.ref;
            if (kind == N_NEG) for (auto& v : p.ref) v = cld(-v.real(), -v.imag());
            p.err = pc.err;
            p.shape = key_of(kind, pc.shape);
            const std::string what = std::string(kind == N_NEG ? "-" : "+") + TY_NAME[ty_of(pc.val)];
            if (!same_bits(pc.val, snap)) o.fail("operand-modified:" + what, "program node " + what + ": operand changed");
            nodes.push_back(std::move(p));
            compare(nodes.back(), what);
            kinds_seen[kind] = true;
            ++ops;
            return int(nodes.size()) - 1;
        }
        int op = r.range(0, 3);
        // exponent hints for the children
        auto child_hints = [&](int op_, double& h1, double& h2) {
            if (op_ == ADD || op_ == SUB) { h1 = hint; h2 = r.range(0, 9) < 7 ? hint : std::max(-S, hint - r.uni(0, 20)); if (r.coin()) std::swap(h1, h2); return; }
            const double lo = std::max(-S, hint - S), hi = std::min(S, hint + S);
            h1 = lo <= hi ? r.uni(lo, hi) : 0;
            h2 = op_ == MUL ? hint - h1 : h1 - hint;
            h2 = std::min(S, std::max(-S, h2));
        };
        double h1, h2;
        child_hints(op, h1, h2);
        const bool scalar_is_left = kind == N_BIN_SA;
        const bool has_scalar = kind == N_BIN_AS || kind == N_BIN_SA || kind == N_CMP_AS;
        int ia, ib;   // left, right operand nodes
        if (has_scalar) {
            const int sty = r.uni() < pcx ? (r.coin() ? T_SC : T_SZ) : (r.coin() ? T_SR : T_SI);
            if (scalar_is_left) { ib = build(depth - 1, h2); if (o.failed) return ib; ia = leaf_scalar(sty, h1); }
            else { ia = build(depth - 1, h1); if (o.failed) return ia; ib = leaf_scalar(sty, h2); }
        } else {
            const int d2 = r.range(0, depth - 1);
            const bool deep_left = r.coin();
            ia = build(deep_left ? depth - 1 : d2, h1);
            if (o.failed) return ia;
            ib = build(deep_left ? d2 : depth - 1, h2);
            if (o.failed) return ib;
        }
        const int arr_child = scalar_is_left ? ib : ia;
        const int lt = ty_of(nodes[size_t(ia)].val), rt = ty_of(nodes[size_t(ib)].val);
        int form = (kind == N_CMP_AA || kind == N_CMP_AS) ? F_CMP : F_BIN;
        if (form == F_CMP && !adm_rt(F_CMP, op, lt, rt)) { form = F_BIN; kind = kind == N_CMP_AA ? N_BIN_AA : N_BIN_AS; }   // arr_real op= complex does not exist
        // pick an operator whose result stays in the domain: the drawn one first, then the others
        int order[4] = {op, (op + 1) % 4, (op + 2) % 4, (op + 3) % 4};
        std::vector<cld> v;
        std::vector<ld> e;
        int chosen = -1;
        for (int t = 0; t < 4; ++t) {
            if (!adm_rt(form, order[t], lt, rt)) continue;
            if (ref_binary(order[t], nodes[size_t(ia)], nodes[size_t(ib)], v, e)) { chosen = order[t]; break; }
        }
        if (chosen < 0) { ++fallback; return arr_child; }
        if (chosen != op) ++regen_op;
        op = chosen;
        const PNode& pa = nodes[size_t(ia)];
        const PNode& pb = nodes[size_t(ib)];
        const std::string what = combo_name(form, op, lt, rt);
        const Val sa = pa.val, sb = pb.val;
        PNode p;
        p.cx = pa.cx || pb.cx;
        p.centre = hint;
        if (form == F_BIN) {
            Exec ex = run_bin(op, pa.val, pb.val);
            if (!ex.admitted) throw std::logic_error("C03 harness: overload tables disagree for " + what);
            p.val = std::move(ex.out);
        } else {
            Val t = pa.val;   // a copy; the source must stay as it is
            Exec ex = run_cmp(op, t, pb.val);
            if (!ex.admitted) throw std::logic_error("C03 harness: overload tables disagree for " + what);
            if (!ex.ref_ok) o.fail("compound-ref:" + what, "program node " + what + " did not return a reference to its left operand");
            p.val = std::move(t);
        }
        if (!same_bits(pa.val, sa)) o.fail(std::string(form == F_BIN ? "operand-modified:" : "copy-not-independent:") + what, "program node " + what + ": the left operand (or the source of the copy it was applied to) changed");
        if (!same_bits(pb.val, sb)) o.fail("operand-modified:" + what, "program node " + what + ": the right operand changed");
        p.ref = std::move(v);
        p.err = std::move(e);
        p.shape = key_of(kind, op, pa.shape, pb.shape);
        if (pa.cx != pb.cx) ++mixed;
        if (scalar_is_left) ++scalar_left;
        kinds_seen[kind] = true;
        op_seen[op] = true;
        ++ops;
        nodes.push_back(std::move(p));
        compare(nodes.back(), what);
        return int(nodes.size()) - 1;
    }
};
}   // namespace
static void pg_check(const Json& c, Out& o) {
    const int depth = c.geti("depth"), n = c.geti("n"), mode = c.geti("mode");
    if (depth < 1 || depth > 6 || n < 0 || mode < 0 || mode > 2) { o.discard = true; return; }
    Prog p(c.getu("seed"), n, mode, o);
    const double hint = p.S > 0 ? p.r.uni(-p.S, p.S) : 0;
    const int root = p.build(depth, hint);
    o.evals = std::max(1, p.ops);
    if (o.failed) return;
    o.metric("err/bound", p.worst);
    if (n >= 2 && p.ops >= 1 && (p.mixed > 0 || p.scalar_left > 0)) o.nontrivial(key_of(p.nodes[size_t(root)].shape, n));
    o.label(fmt("depth-requested:%d", depth));
    o.label(std::string("mode:") + MODE_NAME[mode]);
    o.label(fmt("ops:%s", p.ops == 0 ? "0" : p.ops <= 3 ? "1..3" : p.ops <= 10 ? "4..10" : p.ops <= 30 ? "11..30" : ">30"));
    for (int k = 1; k < N_KINDS; ++k) if (p.kinds_seen[k]) o.label(std::string("has:") + NK_NAME[k]);
    if (p.excluded_neg) o.label("excluded:-arr_cmplx (does not compile)");
    for (int k = 0; k < 4; ++k) if (p.op_seen[k]) o.label(std::string("has-op:") + OP_NAME[k] + (mode == 2 ? " (wide values)" : ""));
    o.label(p.pcx == 0 ? "leaves:all real" : p.pcx < 0.3 ? "leaves:15% complex" : "leaves:50% complex");
    if (p.mixed) o.label("has:mixed real/complex node");
    if (p.reused) o.label("has:variable used more than once");
    if (p.regen_op) o.label("regenerated:operator replaced (result left the domain)");
    if (p.fallback) o.label("regenerated:node dropped (no operator stays in the domain)");
    o.label(p.nodes[size_t(root)].cx ? "root:arr_cmplx" : "root:arr_real");
}
static void pg_gen(Ctx& ctx) {
    // small programs on every small length
    for (int depth = 1; depth <= 6; ++depth)
        for (int n = 0; n <= 16; ++n)
            for (int mode = 0; mode < 3; ++mode)
                for (int rep = 0; rep < ctx.by_tier(8, 64); ++rep) {
                    if (!ctx.mine()) continue;
                    ctx.eval(Json::object().set("depth", depth).set("n", n).set("mode", mode).set("seed", case_seed(ctx.seed, key_of(depth, n, mode, rep, 3))));
                }
    ctx.rc("random", budget(ctx, 1200000, 8000000), [&]() {
        int depth = pick(1, 6);
        int n = pick(0, 7) == 0 ? pick_log(65, 2000) : pick(0, 64);
        return Json::object().set("depth", depth).set("n", n).set("mode", pick(0, 2)).set("seed", (long long)seed64());
    });
}

// =========================================================================================== selection / concatenation
VK_SUB(sc, "select_concat");
namespace {
enum SelKind { SK_MASK = 0, SK_IDX_VEC, SK_IDX_ARR, SK_BAR, SK_BAR_EQ, SK_CONCAT, SK_ZEROPAD, SK_N };
const char* const SK_NAME[] = {"x[vector<bool>]", "x[vector<int>]", "x[arr_int]", "x | y", "x |= y", "concatenate", "zeropad"};

template<class A>
bool bits_same(const A& x, const A& y) {
    return x.size() == y.size() && (x.size() == 0 || std::memcmp(x.data(), y.data(), size_t(x.size()) * sizeof(*x.data())) == 0);
}
template<class T>
base_array<T> mk_arr(Rng& r, int n, int cls) {
    if constexpr (std::is_same_v<T, real_t>) return mk_real(r, n, cls);
    else return mk_cmplx(r, n, cls);
}
cmplx_t as_cx(real_t v) { return {v, 0.0}; }
cmplx_t as_cx(const cmplx_t& v) { return v; }

// index-list / mask selection on one element type
template<class T>
void select_case(int kind, int n, int k, int icls, int vcls, Rng& r, Out& o) {
    using A = base_array<T>;
    const std::string tn = std::is_same_v<T, real_t> ? "arr_real" : "arr_cmplx";
    const std::string what = std::string(SK_NAME[kind]) + " on " + tn;
    const A x = mk_arr<T>(r, n, vcls);
    const A snap = x;
    std::vector<int> want;   // designated elements, in order
    A got;
    if (kind == SK_MASK) {
        std::vector<bool> m(static_cast<size_t>(n));
        const double p = icls == 0 ? 0.0 : icls == 1 ? 1.0 : icls == 2 ? 0.5 : icls == 3 ? 0.1 : 0.9;
        for (int i = 0; i < n; ++i) m[size_t(i)] = p >= 1 ? true : r.uni() < p;
        if (icls == 5 && n > 0) { std::fill(m.begin(), m.end(), false); m[size_t(r.range(0, n - 1))] = true; }
        for (int i = 0; i < n; ++i) if (m[size_t(i)]) want.push_back(i);
        const std::vector<bool> msnap = m;
        static_assert(std::is_same_v<decltype(x[m]), A>);
        got = x[m];
        if (m != msnap) o.fail("mask-modified:" + what, "the mask changed");
    } else {
        if (n == 0) k = 0;
        switch (n == 0 ? 0 : icls) {
        case 0: k = 0; break;                                                       // empty list
        case 1: for (int i = 0; i < n; ++i) want.push_back(i); break;               // identity
        case 2: for (int i = n - 1; i >= 0; --i) want.push_back(i); break;          // reversed
        case 3: { int j = n ? r.range(0, n - 1) : 0; for (int i = 0; i < k; ++i) want.push_back(j); break; }   // one element repeated
        case 4: for (int i = 0; i < k; ++i) want.push_back(i % 2 ? n - 1 : 0); break;                          // the two ends
        case 6: {   // a contiguous run lo..lo+len-1 in shuffled order
            int len = std::max(1, std::min(n, k)), lo = r.range(0, n - len);
            for (int i = 0; i < len; ++i) want.push_back(lo + i);
            for (int i = len - 1; i > 0; --i) std::swap(want[size_t(i)], want[size_t(r.range(0, i))]);
            break;
        }
        case 7: {   // first = minimum, last = maximum, length = span, interior permuted or repeated (looks like a run)
            int len = std::max(1, std::min(n, k)), lo = r.range(0, n - len), hi = lo + len - 1;
            want.push_back(lo);
            for (int i = 1; i + 1 < len; ++i) want.push_back(r.range(lo, hi));
            if (len >= 2) want.push_back(hi);
            break;
        }
        case 8: {   // non-decreasing with repeats
            for (int i = 0; i < k; ++i) want.push_back(r.range(0, n - 1));
            std::sort(want.begin(), want.end());
            break;
        }
        default: for (int i = 0; i < k; ++i) want.push_back(r.range(0, n - 1));                                // random with repeats
        }
        if (icls == 0 || n == 0) want.clear();
        if (kind == SK_IDX_VEC) {
            const std::vector<int> idx = want;
            static_assert(std::is_same_v<decltype(x[idx]), A>);
            got = x[idx];
            if (idx != want) o.fail("index-list-modified:" + what, "the index list changed");
        } else {
            arr_int idx(int(want.size()));
            for (size_t i = 0; i < want.size(); ++i) idx[int(i)] = want[i];
            const arr_int isnap = idx;
            static_assert(std::is_same_v<decltype(x[idx]), A>);
            got = x[idx];
            if (!bits_same(idx, isnap)) o.fail("index-list-modified:" + what, "the index list changed");
        }
    }
    if (got.size() != int(want.size())) o.fail("select-length:" + what, fmt("%s (n=%d): %d elements returned, %zu designated", what.c_str(), n, got.size(), want.size()));
    else
        for (size_t i = 0; i < want.size(); ++i)
            if (!elems_equal(got[int(i)], x[want[i]])) { o.fail("select-value:" + what, fmt("%s (n=%d): result[%zu] is not source[%d]", what.c_str(), n, i, want[i])); break; }
    if (!bits_same(x, snap)) o.fail("source-modified:" + what, what + ": the source array changed");
    // the result is a value of its own: writing to it leaves the source alone
    if (got.size() > 0) { got[0] = T(12345.0); if (!bits_same(x, snap)) o.fail("select-aliases-source:" + what, what + ": writing to the result changed the source"); }
    bool identity = int(want.size()) == n;
    for (size_t i = 0; identity && i < want.size(); ++i) identity = want[i] == int(i);
    if (want.size() >= 2 && !identity) o.nontrivial(key_of(kind, sizeof(T), n, int(want.size()), icls, vcls));
    o.label(std::string("sel:") + SK_NAME[kind] + (want.empty() ? " empty-result" : identity ? " identity" : " proper"));
}

// x | y and x |= y for one type pair
template<class TL, class TR>
void bar_case(int kind, int n, int m, int vcls, Rng& r, Out& o) {
    using AL = base_array<TL>;
    using AR = base_array<TR>;
    using TO = std::conditional_t<std::is_same_v<TL, cmplx_t> || std::is_same_v<TR, cmplx_t>, cmplx_t, real_t>;
    using AO = base_array<TO>;
    const std::string what = std::string(std::is_same_v<TL, real_t> ? "arr_real" : "arr_cmplx") + (kind == SK_BAR ? " | " : " |= ") + (std::is_same_v<TR, real_t> ? "arr_real" : "arr_cmplx");
    AL x = mk_arr<TL>(r, n, vcls);
    const AR y = mk_arr<TR>(r, m, vcls);
    const AL sx = x;
    const AR sy = y;
    AO got;
    if (kind == SK_BAR) {
        static_assert(std::is_same_v<decltype(x | y), AO>, "promotion of operator|");
        got = x | y;
        if (!bits_same(x, sx)) o.fail("source-modified:" + what, what + ": left operand changed");
    } else {
        if constexpr (std::is_same_v<TL, TO>) {
            static_assert(std::is_same_v<decltype(x |= y), AL&>);
            AL& ref = (x |= y);
            if (&ref != &x) o.fail("compound-ref:" + what, what + " did not return a reference to its left operand");
            got = x;
        }
    }
    if (!bits_same(y, sy)) o.fail("source-modified:" + what, what + ": right operand changed");
    if (got.size() != n + m) { o.fail("concat-length:" + what, fmt("%s with lengths %d, %d returned %d elements", what.c_str(), n, m, got.size())); return; }
    for (int i = 0; i < n + m; ++i) {
        const cmplx_t e = i < n ? as_cx(sx[i]) : as_cx(sy[i - n]);
        const cmplx_t g = as_cx(got[i]);
        if (!(g.re == e.re && g.im == e.im)) { o.fail("concat-value:" + what, fmt("%s with lengths %d, %d: element %d is (%.17g, %.17g), designated (%.17g, %.17g)", what.c_str(), n, m, i, g.re, g.im, e.re, e.im)); return; }
    }
    if (n + m >= 2 && n > 0 && m > 0) o.nontrivial(key_of(kind, sizeof(TL), sizeof(TR), n, m, vcls));
    o.label(std::string("concat:") + what + (n == 0 || m == 0 ? " (one empty)" : ""));
}

template<class T>
void concat_case(int nargs, const std::vector<int>& lens, int vcls, Rng& r, Out& o) {
    using A = base_array<T>;
    const std::string what = fmt("concatenate(%d x %s)", nargs, std::is_same_v<T, real_t> ? "arr_real" : "arr_cmplx");
    std::vector<A> a, s;
    for (int i = 0; i < nargs; ++i) a.push_back(mk_arr<T>(r, lens[size_t(i)], vcls));
    s = a;
    A got;
    static_assert(std::is_same_v<decltype(concatenate(a[0], a[1])), A>);
    switch (nargs) {
    case 2: got = concatenate(a[0], a[1]); break;
    case 3: got = concatenate(a[0], a[1], a[2]); break;
    case 4: got = concatenate(a[0], a[1], a[2], a[3]); break;
    default: got = concatenate(a[0], a[1], a[2], a[3], a[4]);
    }
    std::vector<const A*> parts;
    int total = 0, nonempty = 0;
    for (auto& e : s) { parts.push_back(&e); total += e.size(); nonempty += e.size() > 0; }
    check_concat<T>(got, parts, what, o);
    for (int i = 0; i < nargs; ++i) if (!bits_same(a[size_t(i)], s[size_t(i)])) o.fail("source-modified:" + what, fmt("%s: argument %d changed", what.c_str(), i + 1));
    if (nonempty >= 2) o.nontrivial(key_of(SK_CONCAT, sizeof(T), nargs, total, lens[0], lens[1], vcls));
    o.label(std::string("concat:") + what);
}

template<class T>
void zeropad_case(int n, int n2, int vcls, Rng& r, Out& o) {
    using A = base_array<T>;
    const std::string what = std::string("zeropad(") + (std::is_same_v<T, real_t> ? "arr_real" : "arr_cmplx") + ")";
    const A x = mk_arr<T>(r, n, vcls);
    const A sx = x;
    static_assert(std::is_same_v<decltype(zeropad(x, n2)), A>);
    if (n2 < n) {
        // A target shorter than the array has no designated result (padding never drops elements): the library rejects it
        // ("padding size error"); returning normally - truncated or otherwise - is the failure, and the source must stay as it is.
        bool threw = false;
        std::string how;
        try {
            A t = zeropad(x, n2);
            how = fmt("returned normally with %d elements", t.size());
        } catch (const std::exception&) {
            threw = true;
        } catch (...) {
            how = "threw something that is not a std::exception";
        }
        if (!threw) o.fail("zeropad-shorter-accepted:" + what, fmt("%s of %d elements to the shorter length %d %s; an exception is required", what.c_str(), n, n2, how.c_str()));
        if (!bits_same(x, sx)) o.fail("source-modified:" + what, what + ": the source changed (rejected call)");
        o.nontrivial(key_of(SK_ZEROPAD, sizeof(T), n, n2, 1234));
        o.label(std::string("concat:") + what + (n2 < 0 ? " (negative target: rejected)" : n2 == 0 ? " (target 0 < size: rejected)" : " (target shorter than the array: rejected)"));
        return;
    }
    A got = zeropad(x, n2);
    if (got.size() != n2) { o.fail("zeropad-length:" + what, fmt("%s of %d elements to %d returned %d", what.c_str(), n, n2, got.size())); return; }
    for (int i = 0; i < n2; ++i) {
        const cmplx_t e = i < n ? as_cx(sx[i]) : cmplx_t{0.0, 0.0};
        const cmplx_t g = as_cx(got[i]);
        if (!(g.re == e.re && g.im == e.im)) { o.fail("zeropad-value:" + what, fmt("%s of %d elements to %d: element %d is (%.17g, %.17g), designated (%.17g, %.17g)", what.c_str(), n, n2, i, g.re, g.im, e.re, e.im)); return; }
    }
    if (!bits_same(x, sx)) o.fail("source-modified:" + what, what + ": the source changed");
    if (n >= 1 && n2 > n) o.nontrivial(key_of(SK_ZEROPAD, sizeof(T), n, n2, vcls));
    o.label(std::string("concat:") + what + (n2 == n ? " (no padding)" : ""));
}
}   // namespace
static void sc_check(const Json& c, Out& o) {
    const int kind = c.geti("kind"), tl = c.geti("tl"), tr = c.geti("tr", 0), n = c.geti("n"), m = c.geti("m", 0), icls = c.geti("icls", 0), vcls = c.geti("vcls");
    // m < 0 only for zeropad: the target length n + m is then shorter than the array (n + m may be negative too)
    if (kind < 0 || kind >= SK_N || n < 0 || (m < 0 && kind != SK_ZEROPAD) || tl < 0 || tl > 1 || tr < 0 || tr > 1) { o.discard = true; return; }
    Rng r(c.getu("seed"));
    switch (kind) {
    case SK_MASK:
    case SK_IDX_VEC:
    case SK_IDX_ARR:
        if (tl == 0) select_case<real_t>(kind, n, m, icls, vcls, r, o);
        else select_case<cmplx_t>(kind, n, m, icls, vcls, r, o);
        break;
    case SK_BAR:
    case SK_BAR_EQ:
        if (kind == SK_BAR_EQ && tl == 0 && tr == 1) { o.discard = true; return; }   // arr_real |= arr_cmplx does not exist
        if (tl == 0 && tr == 0) bar_case<real_t, real_t>(kind, n, m, vcls, r, o);
        else if (tl == 0) bar_case<real_t, cmplx_t>(kind, n, m, vcls, r, o);
        else if (tr == 0) bar_case<cmplx_t, real_t>(kind, n, m, vcls, r, o);
        else bar_case<cmplx_t, cmplx_t>(kind, n, m, vcls, r, o);
        break;
    case SK_CONCAT: {
        const int nargs = std::min(5, std::max(2, c.geti("nargs")));
        std::vector<int> lens = c.ints("lens");
        lens.resize(5, 0);
        if (tl == 0) concat_case<real_t>(nargs, lens, vcls, r, o);
        else concat_case<cmplx_t>(nargs, lens, vcls, r, o);
        break;
    }
    default:
        if (tl == 0) zeropad_case<real_t>(n, n + m, vcls, r, o);
        else zeropad_case<cmplx_t>(n, n + m, vcls, r, o);
    }
    o.label(tl == 0 ? "types:arr_real" : "types:arr_cmplx");
}
static void sc_gen(Ctx& ctx) {
    const int top = ctx.by_tier(24, 64);
    // selection: every n, every list class, a few list lengths
    for (int kind : {SK_MASK, SK_IDX_VEC, SK_IDX_ARR})
        for (int tl = 0; tl < 2; ++tl)
            for (int n = 0; n <= top; ++n)
                for (int icls = 0; icls < 9; ++icls)
                    for (int k : {1, 2, n, 2 * n + 3}) {
                        if (kind == SK_MASK && k != 1) continue;
                        if (kind != SK_MASK && icls < 3 && k != 1) continue;
                        if (!ctx.mine()) continue;
                        ctx.eval(Json::object().set("kind", kind).set("tl", tl).set("n", n).set("m", k).set("icls", icls).set("vcls", int((n + icls) % V_NCLS))
                                   .set("seed", case_seed(ctx.seed, key_of(kind, tl, n, icls, k))));
                    }
    // | and |= : every pair of lengths
    for (int kind : {SK_BAR, SK_BAR_EQ})
        for (int tl = 0; tl < 2; ++tl)
            for (int tr = 0; tr < 2; ++tr)
                for (int n = 0; n <= top; ++n)
                    for (int m = 0; m <= top; ++m) {
                        if (kind == SK_BAR_EQ && tl == 0 && tr == 1) continue;
                        if (!ctx.mine()) continue;
                        ctx.eval(Json::object().set("kind", kind).set("tl", tl).set("tr", tr).set("n", n).set("m", m).set("vcls", int((n + 2 * m) % V_NCLS))
                                   .set("seed", case_seed(ctx.seed, key_of(kind, tl, tr, n, m))));
                    }
    // zeropad: every n, every amount of padding
    for (int tl = 0; tl < 2; ++tl)
        for (int n = 0; n <= top; ++n)
            for (int pad = 0; pad <= top; ++pad) {
                if (!ctx.mine()) continue;
                ctx.eval(Json::object().set("kind", int(SK_ZEROPAD)).set("tl", tl).set("n", n).set("m", pad).set("vcls", int((n + pad) % V_NCLS)).set("seed", case_seed(ctx.seed, key_of(9, tl, n, pad))));
            }
    // zeropad to a shorter (or negative) length: every n, every target in -2..n-1
    for (int tl = 0; tl < 2; ++tl)
        for (int n = 0; n <= top; ++n)
            for (int n2 = -2; n2 < n; ++n2) {
                if (!ctx.mine()) continue;
                ctx.eval(Json::object().set("kind", int(SK_ZEROPAD)).set("tl", tl).set("n", n).set("m", n2 - n).set("vcls", int((n + n2 + 2) % V_NCLS)).set("seed", case_seed(ctx.seed, key_of(10, tl, n, n2 + 2))));
            }
    // concatenate with 2..5 arguments: all length tuples over {0,1,2,3}
    for (int tl = 0; tl < 2; ++tl)
        for (int nargs = 2; nargs <= 5; ++nargs) {
            int combos = 1;
            for (int i = 0; i < nargs; ++i) combos *= 4;
            for (int code = 0; code < combos; ++code) {
                if (!ctx.mine()) continue;
                std::vector<int> lens;
                for (int i = 0, q = code; i < nargs; ++i, q /= 4) lens.push_back(q % 4);
                ctx.eval(Json::object().set("kind", int(SK_CONCAT)).set("tl", tl).set("n", 0).set("nargs", nargs).set("lens", Json(lens)).set("vcls", code % V_NCLS)
                           .set("seed", case_seed(ctx.seed, key_of(11, tl, nargs, code))));
            }
        }
    ctx.rc("sampled", budget(ctx, 900000, 6000000), [&]() {
        int kind = pick(0, SK_N - 1);
        Json j = Json::object().set("kind", kind).set("tl", pick(0, 1));
        int n = pick(0, 3) == 0 ? pick_log(65, 10000) : pick(0, 64);
        if (kind == SK_BAR || kind == SK_BAR_EQ) {
            int tr = pick(0, 1);
            if (kind == SK_BAR_EQ && j.geti("tl") == 0) tr = 0;
            j.set("tr", tr).set("n", n).set("m", pick(0, 3) == 0 ? pick_log(0, 10000) : pick(0, 64));
        } else if (kind == SK_CONCAT) {
            int nargs = pick(2, 5);
            std::vector<int> lens;
            for (int i = 0; i < nargs; ++i) lens.push_back(pick(0, 5) == 0 ? pick_log(0, 3000) : pick(0, 20));
            j.set("n", 0).set("nargs", nargs).set("lens", Json(lens));
        } else if (kind == SK_ZEROPAD) {
            const int w = pick(0, 5);
            j.set("n", n).set("m", w < 2 ? 0 : w < 5 ? pick_log(0, 10000) : -pick(1, n + 2));   // the last: a target shorter than the array
        } else {
            j.set("n", n).set("m", pick_log(0, 2 * n + 3)).set("icls", pick(0, 8));
        }
        return j.set("vcls", pick(0, V_NCLS - 1)).set("seed", (long long)seed64());
    });
}

// =========================================================================================== a copy is independent
VK_SUB(cp, "copy_independence");
namespace {
// CH_CONV_ARRAY and later: the other constructors of base_array (array.h); their source is not a base_array<T> of the same type
enum CopyHow { CH_CTOR = 0, CH_ASSIGN, CH_ASSIGN_OVER, CH_VIA_VECTOR, CH_CONV_ARRAY, CH_VECTOR, CH_VECTOR_MOVE, CH_POINTER, CH_INIT_LIST, CH_SLICE, CH_CONST_SLICE, CH_N };
const char* const CH_NAME[] = {"copy-construct", "copy-assign to empty", "copy-assign over another", "through to_vec()/vector ctor",
                               "converting ctor base_array<T2>", "ctor from std::vector lvalue", "ctor from std::vector rvalue", "ctor from pointer+count",
                               "ctor from initializer_list", "ctor from slice_t", "ctor from const_slice_t"};
// element type of the source ("src" in the case; 0 = the array's own element type)
enum SrcTy { ST_SAME = 0, ST_INT, ST_FLOAT, ST_ZC, ST_N };
const char* const ST_NAME[] = {"same element type", "int", "float", "std::complex<double>"};
// which (how, source type) pairs array.h admits for arr_real (ty 0) / arr_cmplx (ty 1): is_array_convertible allows real->real and
// cmplx->cmplx only (arr_real -> arr_cmplx is a static_assert, so is float -> int)
bool adm_conv(int how, int ty, int src) {
    const bool other = ty == 0 ? (src == ST_INT || src == ST_FLOAT) : src == ST_ZC;
    switch (how) {
    case CH_CONV_ARRAY: return other;
    case CH_VECTOR:
    case CH_POINTER: return src == ST_SAME || other;
    case CH_VECTOR_MOVE:
    case CH_INIT_LIST:
    case CH_SLICE:
    case CH_CONST_SLICE: return src == ST_SAME;
    default: return false;
    }
}
constexpr int IL_MAX = 8;   // initializer lists have a static length: 0..8 elements
enum Mut { MU_ELEM = 0, MU_SCALAR_OP, MU_ARRAY_OP, MU_BAR_EQ, MU_NEG_ASSIGN, MU_DATA, MU_N };
const char* const MU_NAME[] = {"element write", "op= scalar", "op= array", "|= array", "b = -b", "write through data()/iterators"};

template<class T>
void mutate(base_array<T>& b, int mut, int op, Rng& r) {
    using A = base_array<T>;
    const int n = b.size();
    switch (mut) {
    case MU_ELEM: if (n) b[r.range(0, n - 1)] = T(r.gauss() + 3.0); break;
    case MU_SCALAR_OP: { real_t s = 1.5 + r.uni(); if (op == ADD) b += s; else if (op == SUB) b -= s; else if (op == MUL) b *= s; else b /= s; break; }
    case MU_ARRAY_OP: { A c = mk_arr<T>(r, n, V_GAUSS); if (op == ADD) b += c; else if (op == SUB) b -= c; else if (op == MUL) b *= c; else b /= c; break; }
    case MU_BAR_EQ: { A c = mk_arr<T>(r, r.range(1, 5), V_GAUSS); b |= c; break; }
    case MU_NEG_ASSIGN: if constexpr (std::is_same_v<T, real_t> || C03_CMPLX_NEG) b = -b; else b = A(b) * real_t(-1); break;
    default: if (n) { b.data()[n - 1] = T(7.0); for (auto& v : b) v = v + T(1.0); }
    }
}
template<class T>
void copy_case(int how, int mut, int op, int n, int vcls, Rng& r, Out& o) {
    using A = base_array<T>;
    const std::string what = std::string(std::is_same_v<T, real_t> ? "arr_real " : "arr_cmplx ") + CH_NAME[how];
    A a = mk_arr<T>(r, n, vcls);
    const A sa = a;
    A b;
    switch (how) {
    case CH_CTOR: { A t(a); b = std::move(t); break; }
    case CH_ASSIGN: b = a; break;
    case CH_ASSIGN_OVER: b = mk_arr<T>(r, r.range(0, 2 * n + 2), V_GAUSS); b = a; break;
    default: { std::vector<T> v = a.to_vec(); b = A(v); }
    }
    if (!bits_same(b, sa)) { o.fail("copy-differs:" + what, fmt("%s of %d elements is not bit-identical to its source", what.c_str(), n)); return; }
    if (!bits_same(a, sa)) { o.fail("copy-modified-source:" + what, what + ": making the copy changed the source"); return; }
    if (n > 0 && a.data() == b.data()) { o.fail("copy-shares-storage:" + what, what + ": copy and source share storage"); return; }
    // change the copy: the source must not move
    mutate(b, mut, op, r);
    if (!bits_same(a, sa)) { o.fail(std::string("copy-not-independent:") + MU_NAME[mut], fmt("%s (n=%d): %s on the copy changed the source", what.c_str(), n, MU_NAME[mut])); return; }
    // change the source: the copy must not move
    const A sb = b;
    mutate(a, (mut + 1 + r.range(0, MU_N - 2)) % MU_N, (op + 1) % 4, r);
    if (!bits_same(b, sb)) { o.fail(std::string("copy-not-independent:") + MU_NAME[mut], fmt("%s (n=%d): changing the source changed the copy", what.c_str(), n)); return; }
    // self-assignment keeps the value
    const A sa2 = a;
    A& self = a;
    a = self;
    if (!bits_same(a, sa2)) o.fail("self-assign:" + what, "a = a changed a");
    if (n >= 1) o.nontrivial(key_of(how, mut, op, sizeof(T), n, vcls));
    o.label(std::string("copy:") + CH_NAME[how]);
    o.label(std::string("then:") + MU_NAME[mut]);
}
// ---- the other constructors: value = the source elements converted exactly, then independent of the source in both directions
template<class S> S src_elem(Rng& r, int cls) {
    if constexpr (std::is_same_v<S, real_t>) return rv(r, cls);
    else if constexpr (std::is_same_v<S, cmplx_t>) return cv(r, cls);
    else if constexpr (std::is_same_v<S, int>) return iv(r, cls);
    else if constexpr (std::is_same_v<S, zc>) { const cmplx_t v = cv(r, cls); return zc(v.re, v.im); }
    else {   // float: every value is exactly representable in real_t
        switch (cls) {
        case V_SMALLINT: return float(r.range(-3, 3));
        case V_SPECIAL: { static const float f[] = {0.0f, -0.0f, 1.0f, -1.0f, 0.5f, -2.0f, 1e-30f, -1e-30f, 1e30f, -1e30f}; return f[r.range(0, 9)]; }
        case V_GAUSS: return float(r.gauss());
        case V_WIDE: return float((r.coin() ? 1.0 : -1.0) * r.logmag(-30, 30));
        default: return src_elem<float>(r, r.range(0, 3));
        }
    }
}
// what the element must become (written out, no library conversion)
template<class T, class S> T conv_elem(const S& v) {
    if constexpr (std::is_same_v<S, T>) return v;
    else if constexpr (std::is_same_v<S, zc>) return cmplx_t{v.real(), v.imag()};
    else return static_cast<T>(v);   // int / float -> real_t: exact
}
template<class S> bool raw_same(const std::vector<S>& x, const std::vector<S>& y) {
    return x.size() == y.size() && (x.empty() || std::memcmp(x.data(), y.data(), x.size() * sizeof(S)) == 0);
}
template<class S> void scribble(S& v, int i) {   // a value the element did not have
    if constexpr (std::is_same_v<S, cmplx_t>) v = cmplx_t{v.re + 1.0 + i, -v.im - 2.0};
    else if constexpr (std::is_same_v<S, zc>) v = zc(v.real() + 1.0 + i, -v.imag() - 2.0);
    else if constexpr (std::is_same_v<S, int>) v = (v >= 0 ? v / 2 - 3 - i : v / 2 + 5 + i);
    else v = (v == S(0)) ? S(1 + i) : -v * S(0.5);
}
template<class T, class S>
void conv_case(int how, int mut, int op, int n, int vcls, Rng& r, Out& o) {
    using A = base_array<T>;
    constexpr int sidx = std::is_same_v<S, T> ? ST_SAME : std::is_same_v<S, int> ? ST_INT : std::is_same_v<S, float> ? ST_FLOAT : ST_ZC;
    const std::string tn = std::is_same_v<T, real_t> ? "arr_real" : "arr_cmplx";
    const std::string what = tn + " " + CH_NAME[how] + " (" + (sidx == ST_SAME ? (std::is_same_v<T, real_t> ? "real_t" : "cmplx_t") : ST_NAME[sidx]) + ")";
    const std::string path = CH_NAME[how];
    std::vector<S> src(static_cast<size_t>(n));
    for (auto& e : src) e = src_elem<S>(r, vcls);
    const std::vector<S> ssnap = src;
    std::vector<T> want;
    for (auto& e : src) want.push_back(conv_elem<T, S>(e));
    auto is_want = [&](const A& b) { return b.size() == int(want.size()) && (want.empty() || std::memcmp(b.data(), want.data(), want.size() * sizeof(T)) == 0); };
    auto differs = [&](const A& b) { o.fail("convert-differs:" + path, fmt("%s of %d elements does not hold exactly the source elements (size %d)", what.c_str(), n, b.size())); };
    auto dep_fwd = [&]() { o.fail("convert-not-independent:" + path, fmt("%s (n=%d): %s on the new array changed its source", what.c_str(), n, MU_NAME[mut])); };
    auto dep_back = [&]() { o.fail("convert-not-independent:" + path, fmt("%s (n=%d): changing the source afterwards changed the array", what.c_str(), n)); };
    A b;
    std::string region;
    if (how == CH_INIT_LIST) {
        if constexpr (std::is_same_v<S, T>) {
            // the list's backing array is immutable: construct, compare, change the new array, the list must still read the same
            auto with = [&](std::initializer_list<T> il) {
                static_assert(std::is_constructible_v<A, const std::initializer_list<T>&>);
                A t(il);
                if (!is_want(t)) { differs(t); return; }
                if (n > 0 && t.data() == il.begin()) { o.fail("copy-shares-storage:" + path, what + ": array and list share storage"); return; }
                mutate(t, mut, op, r);
                if (!(il.size() == want.size() && (want.empty() || std::memcmp(il.begin(), want.data(), want.size() * sizeof(T)) == 0))) dep_fwd();
            };
            const std::vector<T>& w = want;
            switch (n) {
            case 0: with({}); break;
            case 1: with({w[0]}); break;
            case 2: with({w[0], w[1]}); break;
            case 3: with({w[0], w[1], w[2]}); break;
            case 4: with({w[0], w[1], w[2], w[3]}); break;
            case 5: with({w[0], w[1], w[2], w[3], w[4]}); break;
            case 6: with({w[0], w[1], w[2], w[3], w[4], w[5]}); break;
            case 7: with({w[0], w[1], w[2], w[3], w[4], w[5], w[6]}); break;
            default: with({w[0], w[1], w[2], w[3], w[4], w[5], w[6], w[7]}); break;
            }
        }
    } else if (how == CH_SLICE || how == CH_CONST_SLICE) {
        if constexpr (std::is_same_v<S, T>) {
            // source: an array x and a window (i1, i2, step) on it; n >= 1 (slicing an empty array is rejected by the library)
            A x(src);
            const A sx = x;
            static const int steps[] = {1, 1, 2, 3, -1, -2, 5};
            const int m = steps[r.range(0, 6)];
            const int i1 = r.range(0, n - 1), i2 = m > 0 ? r.range(i1, n) : r.range(0, i1);
            const int via = r.range(0, 2);   // 0: constructor, 1: operator* of the slice, 2: assignment over an existing array
            want.clear();
            if (m > 0) for (int k = i1; k < i2; k += m) want.push_back(sx[k]);
            else for (int k = i1; k > i2; k += m) want.push_back(sx[k]);
            const A& cx = x;
            static_assert(std::is_constructible_v<A, const slice_t<T>&> && std::is_constructible_v<A, const const_slice_t<T>&>);
            if (how == CH_SLICE) {
                if (via == 0) { A t(x.slice(i1, i2, m)); b = std::move(t); }
                else if (via == 1) { A t = *x.slice(i1, i2, m); b = std::move(t); }
                else { b = mk_arr<T>(r, r.range(0, n + 2), V_GAUSS); b = x.slice(i1, i2, m); }
            } else {
                if (via == 0) { A t(cx.slice(i1, i2, m)); b = std::move(t); }
                else if (via == 1) { A t = *cx.slice(i1, i2, m); b = std::move(t); }
                else { b = mk_arr<T>(r, r.range(0, n + 2), V_GAUSS); b = cx.slice(i1, i2, m); }
            }
            if (!is_want(b)) { o.fail("convert-differs:" + path, fmt("%s: x.slice(%d, %d, %d) of %d elements gave %d elements that are not exactly x[%d], x[%d], ... (%zu expected)", what.c_str(), i1, i2, m, n, b.size(), i1, i1 + m, want.size())); return; }
            if (!bits_same(x, sx)) { o.fail("copy-modified-source:" + path, what + ": making the array changed the source"); return; }
            if (b.size() > 0 && b.data() >= x.data() && b.data() < x.data() + n) { o.fail("copy-shares-storage:" + path, what + ": array and sliced source share storage"); return; }
            mutate(b, mut, op, r);
            if (!bits_same(x, sx)) { dep_fwd(); return; }
            const A sb = b;
            mutate(x, (mut + 1 + r.range(0, MU_N - 2)) % MU_N, (op + 1) % 4, r);
            if (!bits_same(b, sb)) { dep_back(); return; }
            x = A();
            if (!bits_same(b, sb)) { dep_back(); return; }
            region = std::string(m == 1 ? "slice:step 1" : m > 1 ? "slice:step > 1" : "slice:negative step") + (want.empty() ? ", empty" : int(want.size()) == n ? ", whole array" : ", proper part");
            o.label(via == 0 ? "slice-via:constructor" : via == 1 ? "slice-via:operator*" : "slice-via:assignment over an array");
        }
    } else {
        // sources that can be written to afterwards: base_array<S>, std::vector<S> (lvalue / moved-from), a raw buffer
        base_array<S> sarr;
        std::vector<S> moved;
        if (how == CH_CONV_ARRAY) {
            if constexpr (!std::is_same_v<S, T>) {
                sarr = base_array<S>(src);
                static_assert(std::is_constructible_v<A, const base_array<S>&>);
                A t(sarr);
                b = std::move(t);
                if (!raw_same(sarr.to_vec(), ssnap)) { o.fail("copy-modified-source:" + path, what + ": making the array changed the source"); return; }
            }
        } else if (how == CH_VECTOR) {
            static_assert(std::is_constructible_v<A, const std::vector<S>&>);
            A t(src);
            b = std::move(t);
        } else if (how == CH_VECTOR_MOVE) {
            if constexpr (std::is_same_v<S, T>) {
                moved = src;
                A t(std::move(moved));
                b = std::move(t);
            }
        } else {
            static_assert(std::is_constructible_v<A, const S*, size_t>);
            A t(static_cast<const S*>(src.data()), size_t(n));
            b = std::move(t);
        }
        if (!is_want(b)) { differs(b); return; }
        if (!raw_same(src, ssnap)) { o.fail("copy-modified-source:" + path, what + ": making the array changed the source"); return; }
        if constexpr (std::is_same_v<S, T>) if (n > 0 && b.data() == src.data()) { o.fail("copy-shares-storage:" + path, what + ": array and source share storage"); return; }
        // change the new array: the source must not move
        mutate(b, mut, op, r);
        if (!raw_same(src, ssnap) || (how == CH_CONV_ARRAY && !raw_same(sarr.to_vec(), ssnap))) { dep_fwd(); return; }
        // change the source (every element, then release its storage): the array must not move
        const A sb = b;
        if (how == CH_CONV_ARRAY) { for (int i = 0; i < n; ++i) scribble(sarr[i], i); if (!bits_same(b, sb)) { dep_back(); return; } sarr = base_array<S>(); }
        else if (how == CH_VECTOR_MOVE) { moved.assign(size_t(n) + 3, S(9)); if (!bits_same(b, sb)) { dep_back(); return; } std::vector<S>().swap(moved); }
        else { for (int i = 0; i < n; ++i) scribble(src[size_t(i)], i); if (!bits_same(b, sb)) { dep_back(); return; } std::vector<S>().swap(src); }
        if (!bits_same(b, sb)) { dep_back(); return; }
    }
    if (o.failed) return;
    if (n >= 1 && !want.empty()) o.nontrivial(key_of(how, sidx, mut, op, sizeof(T), n, vcls));
    o.label(std::string("copy:") + CH_NAME[how]);
    o.label(std::string("source-elements:") + (sidx == ST_SAME ? "same type" : ST_NAME[sidx]) + " -> " + tn);
    o.label(std::string("then:") + MU_NAME[mut]);
    if (!region.empty()) o.label(region);
}
}   // namespace
static void cp_check(const Json& c, Out& o) {
    const int how = c.geti("how"), mut = c.geti("mut"), op = c.geti("op"), ty = c.geti("ty"), n = c.geti("n"), vcls = c.geti("vcls"), src = c.geti("src", 0);
    if (how < 0 || how >= CH_N || mut < 0 || mut >= MU_N || op < 0 || op > 3 || n < 0 || ty < 0 || ty > 1) { o.discard = true; return; }
    Rng r(c.getu("seed"));
    if (how >= CH_CONV_ARRAY) {
        if (!adm_conv(how, ty, src) || (how == CH_INIT_LIST && n > IL_MAX) || ((how == CH_SLICE || how == CH_CONST_SLICE) && n < 1)) { o.discard = true; return; }
        if (ty == 0) {
            if (src == ST_SAME) conv_case<real_t, real_t>(how, mut, op, n, vcls, r, o);
            else if (src == ST_INT) conv_case<real_t, int>(how, mut, op, n, vcls, r, o);
            else conv_case<real_t, float>(how, mut, op, n, vcls, r, o);
        } else {
            if (src == ST_SAME) conv_case<cmplx_t, cmplx_t>(how, mut, op, n, vcls, r, o);
            else conv_case<cmplx_t, zc>(how, mut, op, n, vcls, r, o);
        }
        o.label(ty == 0 ? "types:arr_real" : "types:arr_cmplx");
        return;
    }
    if (ty == 0) copy_case<real_t>(how, mut, op, n, vcls, r, o);
    else copy_case<cmplx_t>(how, mut, op, n, vcls, r, o);
    o.label(ty == 0 ? "types:arr_real" : "types:arr_cmplx");
}
static void cp_gen(Ctx& ctx) {
    for (int how = 0; how < CH_CONV_ARRAY; ++how)
        for (int mut = 0; mut < MU_N; ++mut)
            for (int ty = 0; ty < 2; ++ty)
                for (int n = 0; n <= 64; ++n)
                    for (int op = 0; op < 4; ++op) {
                        if (op > 0 && mut != MU_SCALAR_OP && mut != MU_ARRAY_OP) continue;
                        if (!ctx.mine()) continue;
                        ctx.eval(Json::object().set("how", how).set("mut", mut).set("op", op).set("ty", ty).set("n", n).set("vcls", int((n + how) % V_NCLS)).set("seed", case_seed(ctx.seed, key_of(how, mut, ty, n, op, 5))));
                    }
    // the other constructors: every admitted (constructor, source element type) x mutation x length (slices: 4 windows per length)
    for (int how = CH_CONV_ARRAY; how < CH_N; ++how)
        for (int src = 0; src < ST_N; ++src)
            for (int mut = 0; mut < MU_N; ++mut)
                for (int ty = 0; ty < 2; ++ty)
                    for (int n = 0; n <= 64; ++n)
                        for (int op = 0; op < 4; ++op)
                            for (int rep = 0; rep < 4; ++rep) {
                                const bool sl = how == CH_SLICE || how == CH_CONST_SLICE;
                                if (!adm_conv(how, ty, src) || (how == CH_INIT_LIST && n > IL_MAX) || (sl && n < 1) || (!sl && rep > 0)) continue;
                                if (op > 0 && mut != MU_SCALAR_OP && mut != MU_ARRAY_OP) continue;
                                if (!ctx.mine()) continue;
                                ctx.eval(Json::object().set("how", how).set("src", src).set("mut", mut).set("op", op).set("ty", ty).set("n", n).set("vcls", int((n + how + rep) % V_NCLS))
                                           .set("seed", case_seed(ctx.seed, key_of(how, src, mut, ty, n, op, rep, 6))));
                            }
    ctx.rc("sampled", budget(ctx, 600000, 6000000), [&]() {
        int n = pick(0, 2) == 0 ? pick_log(65, 10000) : pick(0, 64);
        return Json::object().set("how", pick(0, CH_CONV_ARRAY - 1)).set("mut", pick(0, MU_N - 1)).set("op", pick(0, 3)).set("ty", pick(0, 1)).set("n", n).set("vcls", pick(0, V_NCLS - 1)).set("seed", (long long)seed64());
    });
    ctx.rc("sampled-constructors", budget(ctx, 300000, 3000000), [&]() {
        const int how = pick(CH_CONV_ARRAY, CH_N - 1), ty = pick(0, 1);
        int src = pick(0, ST_N - 1);
        if (!adm_conv(how, ty, src)) src = adm_conv(how, ty, ST_SAME) ? int(ST_SAME) : ty == 0 ? int(ST_INT) : int(ST_ZC);
        int n = how == CH_INIT_LIST ? pick(0, IL_MAX) : pick(0, 2) == 0 ? pick_log(65, 10000) : pick(0, 64);
        if ((how == CH_SLICE || how == CH_CONST_SLICE) && n < 1) n = 1;
        return Json::object().set("how", how).set("src", src).set("mut", pick(0, MU_N - 1)).set("op", pick(0, 3)).set("ty", ty).set("n", n).set("vcls", pick(0, V_NCLS - 1)).set("seed", (long long)seed64());
    });
}

// =========================================================================================== cmplx_t scalar operators
// Every operator form types.h declares on a cmplx_t SCALAR (the array loops above reach only some of them, and only through
// the compound forms): cmplx_t op {cmplx_t, real_t, int, std::complex<double>}, {real_t, int, std::complex<double>} op cmplx_t
// (the left-scalar templates), the 16 compound forms, unary - and +, the conversions real_t/int/std::complex <-> cmplx_t, and
// the four global int +- std::complex<T> helpers of types.h.  One case = a batch of operand pairs; the batch of results is
// compared by compare_single (same formulas, same tolerances as for the array operators).
VK_SUB(so, "scalar_ops");
namespace {
// `std::complex<double> - cmplx_t` selects the left-scalar template operator-(const T&, const cmplx_t&) of types.h, whose body
// `{lhs - rhs.re, -rhs.im}` is a hard compile error for a complex T (and would drop lhs.imag()).  0 = leave that form out.
#ifndef C03_ZC_MINUS_CMPLX
#define C03_ZC_MINUS_CMPLX 0
#endif
enum SForm { SF_BIN = 0, SF_CMP, SF_NEG, SF_POS, SF_CONV, SF_N };

template<class T> constexpr bool is_sc4 = std::is_same_v<T, real_t> || std::is_same_v<T, cmplx_t> || std::is_same_v<T, int> || std::is_same_v<T, zc>;
template<class L, class R>
constexpr bool adm_sbin(int op) {
    if (!is_sc4<L> || !is_sc4<R>) return false;
    if (std::is_same_v<L, cmplx_t> || std::is_same_v<R, cmplx_t>) {
        if (std::is_same_v<L, zc> && op == SUB) return C03_ZC_MINUS_CMPLX != 0;
        return true;
    }
    // types.h, global namespace: int +- std::complex<T> and std::complex<T> +- int (result std::complex<T>)
    if ((std::is_same_v<L, int> && std::is_same_v<R, zc>) || (std::is_same_v<L, zc> && std::is_same_v<R, int>)) return op == ADD || op == SUB;
    return false;
}
template<class L, class R> using SRes = std::conditional_t<std::is_same_v<L, cmplx_t> || std::is_same_v<R, cmplx_t>, cmplx_t, zc>;
bool ty_sc4(int t) { return t == T_SR || t == T_SC || t == T_SI || t == T_SZ; }
// run-time mirror (cross-checked against the compile-time table through SExec::admitted)
bool adm_srt(int sform, int op, int lt, int rt) {
    if (!ty_sc4(lt)) return false;
    if (sform == SF_NEG || sform == SF_POS) return lt == T_SC;
    if (sform == SF_CONV) return true;
    if (!ty_sc4(rt)) return false;
    if (sform == SF_CMP) return lt == T_SC;
    if (lt == T_SC || rt == T_SC) return !(lt == T_SZ && op == SUB && !C03_ZC_MINUS_CMPLX);
    if ((lt == T_SI && rt == T_SZ) || (lt == T_SZ && rt == T_SI)) return op == ADD || op == SUB;
    return false;
}
cmplx_t sc_store(const cmplx_t& v) { return v; }
cmplx_t sc_store(const zc& v) { return cmplx_t{v.real(), v.imag()}; }

struct SExec
{
    bool admitted{false};
    bool ref_ok{true};
    cmplx_t out;
};
template<class L, class R>
void exec_sbin(int op, const L& a, const R& b, SExec& ex) {
#define C03_SBIN(OPC, EXPR)                                                                                            \
    case OPC:                                                                                                          \
        if constexpr (adm_sbin<L, R>(OPC)) {                                                                           \
            static_assert(std::is_same_v<decltype(EXPR), SRes<L, R>>, "scalar promotion: result type of " #EXPR);      \
            ex.out = sc_store(EXPR);                                                                                   \
            ex.admitted = true;                                                                                        \
        }                                                                                                              \
        break;
    switch (op) {
        C03_SBIN(ADD, a + b)
        C03_SBIN(SUB, a - b)
        C03_SBIN(MUL, a * b)
        C03_SBIN(DIV, a / b)
    default: break;
    }
#undef C03_SBIN
}
template<class L, class R>
void exec_scmp(int op, L& a, const R& b, SExec& ex) {
    if constexpr (std::is_same_v<L, cmplx_t> && is_sc4<R>) {
#define C03_SCMP(OPC, EXPR)                                                                                            \
    case OPC: {                                                                                                        \
        static_assert(std::is_same_v<decltype(EXPR), cmplx_t&>, "scalar compound result type of " #EXPR);              \
        cmplx_t& r_ = (EXPR);                                                                                          \
        ex.ref_ok = (&r_ == &a);                                                                                       \
        ex.out = a;                                                                                                    \
        ex.admitted = true;                                                                                            \
        break;                                                                                                         \
    }
        switch (op) {
            C03_SCMP(ADD, a += b)
            C03_SCMP(SUB, a -= b)
            C03_SCMP(MUL, a *= b)
            C03_SCMP(DIV, a /= b)
        default: break;
        }
#undef C03_SCMP
    }
}
SExec run_sbin(int op, const Val& a, const Val& b) {
    SExec ex;
    std::visit([&](const auto& x, const auto& y) { exec_sbin(op, x, y, ex); }, a, b);
    return ex;
}
SExec run_scmp(int op, Val& a, const Val& b) {
    SExec ex;
    std::visit([&](auto& x, const auto& y) { exec_scmp(op, x, y, ex); }, a, b);
    return ex;
}
bool bits_eq(double x, double y) { return std::memcmp(&x, &y, sizeof x) == 0; }
// unary -, unary +, conversions; `problem` is set when a conversion is not bit-exact
SExec run_sunary(int sform, const Val& a, std::string& problem) {
    SExec ex;
    std::visit(
      [&](const auto& x) {
          using L = std::decay_t<decltype(x)>;
          if constexpr (std::is_same_v<L, cmplx_t>) {
              if (sform == SF_NEG) {
                  static_assert(std::is_same_v<decltype(-x), cmplx_t>, "unary minus result type");
                  ex.out = -x;
                  ex.admitted = true;
              } else if (sform == SF_POS) {
                  static_assert(std::is_same_v<std::decay_t<decltype(+x)>, cmplx_t>, "unary plus result type");
                  ex.out = +x;
                  ex.admitted = true;
              } else if (sform == SF_CONV) {   // cmplx_t -> std::complex<double> -> cmplx_t
                  static_assert(std::is_convertible_v<cmplx_t, zc> && std::is_convertible_v<zc, cmplx_t>);
                  const zc z = x;
                  const cmplx_t back = z;
                  if (!bits_eq(z.real(), x.re) || !bits_eq(z.imag(), x.im)) problem = fmt("std::complex<double>(cmplx_t{%.17g, %.17g}) is (%.17g, %.17g)", x.re, x.im, z.real(), z.imag());
                  ex.out = back;
                  ex.admitted = true;
              }
          } else if constexpr (std::is_same_v<L, zc>) {
              if (sform == SF_CONV) {   // std::complex<double> -> cmplx_t -> std::complex<double>
                  const cmplx_t cnv = x;
                  const zc back = cnv;
                  if (!bits_eq(back.real(), x.real()) || !bits_eq(back.imag(), x.imag())) problem = fmt("std::complex<double>(%.17g, %.17g) -> cmplx_t -> std::complex<double> gives (%.17g, %.17g)", x.real(), x.imag(), back.real(), back.imag());
                  ex.out = cnv;
                  ex.admitted = true;
              }
          } else if constexpr (std::is_same_v<L, real_t> || std::is_same_v<L, int>) {
              if (sform == SF_CONV) {   // the promotion real -> complex: (v, +0)
                  static_assert(std::is_convertible_v<L, cmplx_t>);
                  const cmplx_t cnv = x;
                  if (!bits_eq(cnv.im, 0.0)) problem = fmt("cmplx_t(%.17g) has the imaginary part %.17g", double(x), cnv.im);
                  ex.out = cnv;
                  ex.admitted = true;
              }
          }
      },
      a);
    return ex;
}
// the scalar operands of a batch as an array operand for compare_single (built by hand, no library conversion)
Val batch_arr(const std::vector<Val>& v, bool as_cx) {
    const int n = int(v.size());
    if (as_cx) {
        arr_cmplx x(n);
        for (int i = 0; i < n; ++i) { const cld e = ref_of(v[size_t(i)], 1)[0]; x[i] = cmplx_t{double(e.real()), double(e.imag())}; }
        return Val(std::in_place_type<arr_cmplx>, std::move(x));
    }
    arr_real x(n);
    for (int i = 0; i < n; ++i) x[i] = double(ref_of(v[size_t(i)], 1)[0].real());
    return Val(std::in_place_type<arr_real>, std::move(x));
}
std::vector<Val> specials_of(int ty) {
    std::vector<Val> v;
    if (ty == T_SR) for (double e : RV_SPECIAL) v.emplace_back(std::in_place_type<real_t>, e);
    else if (ty == T_SI) for (int e : IV_SPECIAL) v.emplace_back(std::in_place_type<int>, e);
    else for (auto& e : CV_SPECIAL) { if (ty == T_SC) v.emplace_back(std::in_place_type<cmplx_t>, cmplx_t{e[0], e[1]}); else v.emplace_back(std::in_place_type<zc>, zc(e[0], e[1])); }
    return v;
}
std::string sform_name(int sform, int op, int lt, int rt) {
    if (sform == SF_CONV) return std::string("convert ") + TY_NAME[lt] + (lt == T_SC ? " -> std::complex<double> -> cmplx_t" : " -> cmplx_t");
    return combo_name(sform == SF_BIN ? F_BIN : sform == SF_CMP ? F_CMP : sform == SF_NEG ? F_NEG : F_POS, op, lt, rt);
}
struct SCombo { int sform, op, lt, rt; };
const std::vector<SCombo>& all_scombos() {
    static std::vector<SCombo> v = [] {
        std::vector<SCombo> r;
        for (int sform : {SF_BIN, SF_CMP})
            for (int op = 0; op < 4; ++op)
                for (int lt = T_SR; lt < T_N; ++lt)
                    for (int rt = T_SR; rt < T_N; ++rt)
                        if (adm_srt(sform, op, lt, rt)) r.push_back({sform, op, lt, rt});
        r.push_back({SF_NEG, 0, T_SC, T_SC});
        r.push_back({SF_POS, 0, T_SC, T_SC});
        for (int lt = T_SR; lt < T_N; ++lt) r.push_back({SF_CONV, 0, lt, lt});
        return r;
    }();
    return v;
}
}   // namespace
static void so_check(const Json& c, Out& o) {
    const int sform = c.geti("sform"), op = c.geti("op"), lt = c.geti("lt"), rt = c.geti("rt"), vcls = c.geti("vcls"), grid = c.geti("grid", 0), k = c.geti("k", 64);
    if (sform < 0 || sform >= SF_N || op < 0 || op > 3 || vcls < 0 || vcls >= V_NCLS || k < 1 || k > 4096 || !adm_srt(sform, op, lt, rt)) { o.discard = true; return; }
    Rng r(c.getu("seed"));
    const bool unary = sform >= SF_NEG;
    const std::string what = sform_name(sform, op, lt, rt);
    // operand pairs: the full cross product of the special values (grid), or k draws from the value class
    std::vector<Val> A, B;
    if (grid) {
        const std::vector<Val> sa = specials_of(lt), sb = unary ? std::vector<Val>{Val(std::in_place_type<int>, 0)} : specials_of(rt);
        for (auto& x : sa)
            for (auto& y : sb) {
                if (!unary && op == DIV && all_zero(y)) continue;   // divisors non-zero by construction
                A.push_back(x);
                B.push_back(y);
            }
    } else {
        for (int i = 0; i < k; ++i) {
            A.push_back(mk(r, lt, 0, vcls, false));
            B.push_back(unary ? Val(std::in_place_type<int>, 0) : mk(r, rt, 0, vcls, op == DIV));
        }
    }
    const int K = int(A.size());
    o.evals = K;
    arr_cmplx out(K);
    for (int i = 0; i < K; ++i) {
        const size_t q = size_t(i);
        const Val sa = A[q], sb = B[q];
        SExec ex;
        std::string problem;
        if (unary) ex = run_sunary(sform, A[q], problem);
        else if (sform == SF_BIN) ex = run_sbin(op, A[q], B[q]);
        else {
            Val t = A[q];   // op= on a copy of the left operand
            ex = run_scmp(op, t, B[q]);
        }
        if (!ex.admitted) throw std::logic_error("C03 harness: run-time and compile-time scalar overload tables disagree for " + what);
        if (!problem.empty()) { o.fail("scalar-convert:" + what, what + ": " + problem); return; }
        if (!ex.ref_ok) { o.fail("compound-ref:" + what, what + " did not return a reference to its left operand"); return; }
        if (!same_bits(A[q], sa) || !same_bits(B[q], sb)) { o.fail("operand-modified:" + what, fmt("%s, pair %d: an operand changed", what.c_str(), i)); return; }
        out[i] = ex.out;
    }
    compare_single(Val(std::in_place_type<arr_cmplx>, out), unary ? (sform == SF_NEG ? 1 : 2) : 0, op, batch_arr(A, unary || ty_cx(lt)), unary ? Val(std::in_place_type<int>, 0) : batch_arr(B, ty_cx(rt)), K, what, o);
    // which value regions the batch reached
    bool nonzero = false, negzero = false, zero = false, axis = false, tiny = false, huge = false, imin = false, imax = false;
    auto scan = [&](const Val& v) {
        if (auto p = std::get_if<int>(&v)) { imin |= *p == INT_MIN; imax |= *p == INT_MAX; }
        const cld e = ref_of(v, 1)[0];
        const double re = double(e.real()), im = double(e.imag());
        const bool cx = ty_cx(ty_of(v));
        if ((re == 0 && std::signbit(re)) || (cx && im == 0 && std::signbit(im))) negzero = true;
        if (re == 0 && im == 0) { zero = true; return; }
        nonzero = true;
        if (cx && (re == 0 || im == 0)) axis = true;
        const ld m = mod(e);
        tiny |= m <= 1e-99L;
        huge |= m >= 1e99L;
    };
    for (int i = 0; i < K; ++i) { scan(A[size_t(i)]); if (!unary) scan(B[size_t(i)]); }
    if (nonzero) o.nontrivial(key_of(sform, op, lt, rt, vcls, grid));
    o.label(std::string("scalar-form:") + (sform == SF_BIN ? "binary " : sform == SF_CMP ? "compound " : sform == SF_NEG ? "unary -" : sform == SF_POS ? "unary +" : "conversion") + (unary ? "" : OP_NAME[op]));
    o.label(std::string("scalar-types:") + TY_NAME[lt] + (unary ? "" : std::string(",") + TY_NAME[rt]));
    if (!unary) o.label(lt == T_SC && rt == T_SC ? "scalar-side:cmplx op cmplx" : lt == T_SC ? "scalar-side:cmplx op other scalar" : rt == T_SC ? "scalar-side:other scalar op cmplx (left-scalar templates)" : "scalar-side:int with std::complex (global helpers)");
    o.label(grid ? "values:special x special (full cross product)" : std::string("values:") + VCLS_NAME[vcls]);
    if (zero) o.label("operand:exact zero");
    if (negzero) o.label("operand:negative zero component");
    if (axis) o.label("operand:axis-aligned complex (re==0 or im==0 exactly)");
    if (tiny) o.label("operand:|v|<=1e-99");
    if (huge) o.label("operand:|v|>=1e99");
    if (imin) o.label(std::string("operand:INT_MIN ") + OP_NAME[op]);
    if (imax) o.label(std::string("operand:INT_MAX ") + OP_NAME[op]);
    if (sform == SF_BIN && op == SUB && rt == T_SC && !C03_ZC_MINUS_CMPLX) o.label("excluded:std::complex<double> - cmplx_t (does not compile)");
}
static void so_gen(Ctx& ctx) {
    const auto& combos = all_scombos();
    for (size_t ci = 0; ci < combos.size(); ++ci) {
        const SCombo& k = combos[ci];
        if (ctx.mine()) ctx.eval(Json::object().set("sform", k.sform).set("op", k.op).set("lt", k.lt).set("rt", k.rt).set("vcls", int(V_SPECIAL)).set("grid", 1).set("seed", 0));
        for (int vcls = 0; vcls < V_NCLS; ++vcls)
            for (int rep = 0; rep < ctx.by_tier(8, 64); ++rep) {
                if (!ctx.mine()) continue;
                ctx.eval(Json::object().set("sform", k.sform).set("op", k.op).set("lt", k.lt).set("rt", k.rt).set("vcls", vcls).set("k", 64).set("seed", case_seed(ctx.seed, key_of(ci, vcls, rep, 51))));
            }
    }
    ctx.rc("sampled", budget(ctx, 600000, 6000000), [&]() {
        const SCombo& k = combos[size_t(pick(0, int(combos.size()) - 1))];
        return Json::object().set("sform", k.sform).set("op", k.op).set("lt", k.lt).set("rt", k.rt).set("vcls", pick(0, V_NCLS - 1)).set("k", pick(1, 64)).set("seed", (long long)seed64());
    });
}

#ifdef C03_ASAN
// Millions of short-lived arrays allocated below rapidcheck's deep, varied call stacks: the default 256 MB quarantine plus the
// stack depot grow a shard to several GB (16 shards exhausted the machine).  Values given in ASAN_OPTIONS still take precedence.
extern "C" const char* __asan_default_options() { return "quarantine_size_mb=32:malloc_context_size=6"; }
#endif

VK_FRESH_THREADS;
VK_MAIN("C03")
