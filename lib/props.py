"""Per-property registration: which harness binaries decide it, in which build configurations, with what evidence text."""

# runs: list of (harness source name, build cfg, tiers it runs in)
PROPS = {
    "C15": dict(
        runs=[("c15", "rel", ("quick", "thorough"))],
        rule=("Arguments are enumerated (every n in [0,2^18] quick / [0,2^22] thorough in 4096-wide ranges, 256-wide ranges within 4096 of "
              "2^16, 2^24, 2^31, 65521^2, 2^32 and three other prime-square/semiprime limits, every positive int for nextpow2/ispow2 in "
              "2^20-wide ranges thorough / <=2^24 + windows quick) or drawn by rapidcheck from six classes of 32-bit values (uniform, "
              "log-uniform, p*q and p^2 for primes p,q near 2^16, top of range, smooth). isprime/factor/nextprime/primes are compared with a "
              "sieve (<= 2^22+2^13) or deterministic Miller-Rabin; each call runs in a forked child with a progress watchdog. "
              "Non-trivial = an argument beyond the library's 54-entry table (n > 251); distinct = distinct argument (or distinct range for pow2)."),
        assumptions=["Miller-Rabin with bases 2,7,61 is deterministic for n < 4759123141",
                     "termination clause is judged by a watchdog of 20 s + 2 ms per call, three confirmations: a 10x slowdown that still terminates is not detected"],
    ),
}
