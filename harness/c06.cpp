// C06  Streaming processors are invariant to how the stream is framed; separately constructed instances never
//      influence one another.
//
// Oracle (DESIGN C06): the concatenated outputs of a framed run equal the single-call run of a FRESH instance built
// from the same parameters.  All processors are per-sample deterministic, so the two are expected to be bit-identical;
// the criterion is |delta| <= 1e-12 * max|out| per result member, and the harness reports how many cases were
// bit-identical (label bitwise:*).  All result members are compared (y and e; out and gain).  FftFilter emits
// floor(total/block)*block samples in both runs.  Independence: every one of 2..3 interleaved instances equals its solo run.
//
// Non-trivial (evidence rule): >= 2 frames, at least one frame shorter than the processor's memory (history / block /
// averaging length; recursive processors - tuner, AGC, dynamics, adaptive filters - have unbounded memory), and a
// reference output that is not identically zero.
//
// Segmented variants (adaptive filters whose coefficient lock is switched at stream positions, one FftFilter / Agc object
// fed real and complex segments in turn): the switch positions are part of the parameter point, every framing is refined
// so that it has a boundary at each of them, and the reference is the coarsest such framing (one call per segment) of a
// fresh instance - "one call on the whole stream" does not exist for these.
#include "kit/num.h"
#include "kit/prelude.h"
#include <dsplib.h>
#include "ma-filter.h"   // private header (lib/), the build adds -I/repo/lib

#include <climits>
#include <numeric>

using namespace vk;
using namespace dsplib;

namespace {

// ------------------------------------------------------------------------------------------- processors
enum Proc {
    P_FIRR, P_FIRC, P_FFTR, P_FFTC, P_DECIM, P_INTERP, P_RATECONV, P_RESAMPLER, P_DELAYR, P_DELAYC, P_MEDIAN, P_MAR, P_MAC,
    P_HILBERT, P_TUNER, P_AGCR, P_AGCC, P_COMP, P_LIMITER, P_GATE, P_LMSR, P_NLMSR, P_LMSC, P_NLMSC, P_RLSR, P_RLSC,
    P_FFTMIX, P_AGCMIX,   // one object fed real and complex segments in turn (appended: ids of saved cases stay valid)
    P_COUNT
};
const char* const PNAME[P_COUNT] = {"FirFilterR", "FirFilterC", "FftFilter-real", "FftFilter-cmplx", "FIRDecimator", "FIRInterpolator",
                                    "FIRRateConverter", "FIRResampler", "DelayReal", "DelayCmplx", "MedianFilter", "MAFilterR", "MAFilterC",
                                    "HilbertFilter", "Tuner", "Agc-real", "Agc-cmplx", "Compressor", "Limiter", "NoiseGate", "LmsFilterR-LMS",
                                    "LmsFilterR-NLMS", "LmsFilterC-LMS", "LmsFilterC-NLMS", "RlsFilterR", "RlsFilterC", "FftFilter-mixed", "Agc-mixed"};

// One parameter point.  Meaning of i1..i3 / d1..d4 per processor: see make_spec().
struct Params
{
    int p{0};
    int i1{0}, i2{0}, i3{0};
    double d1{0}, d2{0}, d3{0}, d4{0};
    uint64_t ps{0};   // seed of generated coefficients
};
Json& put_params(Json& c, const Params& q, const std::string& sfx = "") {
    c.set("p" + sfx, q.p).set("pn" + sfx, PNAME[q.p]).set("i1" + sfx, q.i1).set("i2" + sfx, q.i2).set("i3" + sfx, q.i3);
    c.set("d1" + sfx, q.d1).set("d2" + sfx, q.d2).set("d3" + sfx, q.d3).set("d4" + sfx, q.d4).set("ps" + sfx, (long long)q.ps);
    return c;
}
Params get_params(const Json& c, const std::string& sfx = "") {
    Params q;
    q.p = c.geti("p" + sfx);
    if (q.p < 0 || q.p >= P_COUNT) throw std::runtime_error("case: unknown processor id");
    q.i1 = c.geti("i1" + sfx, 0); q.i2 = c.geti("i2" + sfx, 0); q.i3 = c.geti("i3" + sfx, 0);
    q.d1 = c.getd("d1" + sfx, 0); q.d2 = c.getd("d2" + sfx, 0); q.d3 = c.getd("d3" + sfx, 0); q.d4 = c.getd("d4" + sfx, 0);
    q.ps = c.has("ps" + sfx) ? c.getu("ps" + sfx) : 0;
    return q;
}
uint64_t params_key(const Params& q) {
    auto bits = [](double d) { uint64_t u; std::memcpy(&u, &d, 8); return u; };
    return key_of(q.p, q.i1, q.i2, q.i3, bits(q.d1), bits(q.d2), bits(q.d3), bits(q.d4), q.ps);
}

// ------------------------------------------------------------------------------------------- streams
enum SKind { SK_REAL, SK_CMPLX, SK_REAL_XD, SK_CMPLX_XD, SK_BOTH };   // SK_BOTH: a real and a complex stream side by side
enum SigCls { G_GAUSS, G_TONE, G_BURSTY, G_QUANT, G_NCLS };
const char* const GNAME[G_NCLS] = {"gauss", "tone+noise", "bursty-levels", "quantised"};

struct Stream
{
    std::vector<real_t> xr, dr;
    std::vector<cmplx_t> xc, dc;
    arr_real real(int lo, int hi) const { return arr_real(xr.data() + lo, size_t(hi - lo)); }
    arr_real dreal(int lo, int hi) const { return arr_real(dr.data() + lo, size_t(hi - lo)); }
    arr_cmplx cmplx(int lo, int hi) const { return arr_cmplx(xc.data() + lo, size_t(hi - lo)); }
    arr_cmplx dcmplx(int lo, int hi) const { return arr_cmplx(dc.data() + lo, size_t(hi - lo)); }
};

std::vector<double> gen_sig(Rng& r, int n, int cls) {
    std::vector<double> x(static_cast<size_t>(n));
    switch (cls) {
    case G_TONE: {
        const double a = r.uni(0.2, 1.0), w = r.uni(0, M_PI), ph = r.uni(0, 2 * M_PI);
        for (int i = 0; i < n; ++i) x[size_t(i)] = a * std::cos(w * i + ph) + 0.05 * r.gauss();
        break;
    }
    case G_BURSTY: {
        // piecewise-constant envelope: crosses the thresholds of the dynamics processors, contains exact zeros
        static const double lev[] = {0.0, 1e-3, 0.03, 0.3, 1.0, 4.0};
        const double meanseg = std::min(20.0, std::max(1.0, n / 5.0));
        int left = 0;
        double a = 1;
        for (int i = 0; i < n; ++i) {
            if (left == 0) { a = lev[r.range(0, 5)]; left = 1 + int(-std::log(1.0 - r.uni()) * meanseg); }
            --left;
            x[size_t(i)] = a * r.gauss();
        }
        break;
    }
    case G_QUANT:   // many ties (median), exact zeros
        for (auto& v : x) v = std::round(r.gauss() * 2);
        break;
    default:
        for (auto& v : x) v = r.gauss();
    }
    return x;
}

Stream make_stream(int skind, int n, uint64_t seed, int cls) {
    Stream s;
    Rng r(mix(seed, 0x57EA));
    const bool cx = (skind == SK_CMPLX || skind == SK_CMPLX_XD);
    if (skind == SK_BOTH) {
        s.xr = gen_sig(r, n, cls);
        auto a = gen_sig(r, n, cls), b = gen_sig(r, n, cls);
        s.xc.resize(size_t(n));
        for (int i = 0; i < n; ++i) s.xc[size_t(i)] = cmplx_t(a[size_t(i)], b[size_t(i)]);
    } else if (!cx) {
        s.xr = gen_sig(r, n, cls);
    } else {
        auto a = gen_sig(r, n, cls), b = gen_sig(r, n, cls);
        s.xc.resize(size_t(n));
        for (int i = 0; i < n; ++i) s.xc[size_t(i)] = cmplx_t(a[size_t(i)], b[size_t(i)]);
    }
    if (skind == SK_REAL_XD) {
        // desired signal: an unknown 5-tap system plus noise
        double w0[5];
        for (auto& w : w0) w = r.gauss() * 0.5;
        s.dr.resize(size_t(n));
        for (int k = 0; k < n; ++k) {
            double acc = 0.01 * r.gauss();
            for (int i = 0; i < 5 && i <= k; ++i) acc += w0[i] * s.xr[size_t(k - i)];
            s.dr[size_t(k)] = acc;
        }
    } else if (skind == SK_CMPLX_XD) {
        cmplx_t w0[5];
        for (auto& w : w0) w = cmplx_t(r.gauss() * 0.5, r.gauss() * 0.5);
        s.dc.resize(size_t(n));
        for (int k = 0; k < n; ++k) {
            cmplx_t acc(0.01 * r.gauss(), 0.01 * r.gauss());
            for (int i = 0; i < 5 && i <= k; ++i) acc += w0[i] * s.xc[size_t(k - i)];
            s.dc[size_t(k)] = acc;
        }
    }
    return s;
}

// ------------------------------------------------------------------------------------------- result channels
struct Chans
{
    std::vector<std::vector<double>> v;
    explicit Chans(size_t n = 0) : v(n) {}
};
void put(Chans& o, int ch, const arr_real& y) {
    auto& d = o.v[size_t(ch)];
    d.insert(d.end(), y.data(), y.data() + y.size());
}
void put(Chans& o, int ch, const arr_cmplx& y) {
    auto& d = o.v[size_t(ch)];
    for (int i = 0; i < y.size(); ++i) { d.push_back(y[i].re); d.push_back(y[i].im); }
}

// form: bit 0 = operator() instead of process(); forms 2 and 3 = (MAFilter only) the scalar overload for one-sample frames
using Feed = std::function<void(const Stream&, int lo, int hi, int form, Chans&)>;

struct Spec
{
    std::string name;
    int skind{SK_REAL};
    int granule{1};               // input samples per granule (documented frame granularity)
    long memory{0};               // input samples remembered across a call boundary; LONG_MAX = recursive state
    std::vector<std::string> chans;
    std::vector<int> classes;     // admissible signal classes
    std::function<Feed()> make;   // a FRESH instance
    bool has_op{true};            // the class has operator() next to process()
    bool scalar_forms{false};     // the class has scalar overloads (MAFilter)
    int cutmode{0};               // segmented variants: 1 = one switch position, 2 = periodic, 3 = irregular
    std::function<std::vector<int>(int)> cuts;   // segmented variants: the switch positions inside a stream of n samples
};

// ---- segmented variants: stream positions at which the lock state / the sample type switches
const char* const CUTMODE[4] = {"cuts:none", "cuts:single", "cuts:periodic", "cuts:irregular"};
std::vector<int> make_cuts(int mode, int T, uint64_t seed, int n) {
    std::vector<int> v;
    if (mode == 1) { if (T < n) v.push_back(T); }
    else if (mode == 2) { for (long p = T; p < n; p += T) v.push_back(int(p)); }
    else if (mode == 3) {
        Rng r(mix(seed, 0xC075));
        for (long p = r.range(1, 2 * T - 1); p < n; p += r.range(1, 2 * T - 1)) v.push_back(int(p));
    }
    return v;
}
using CutTab = std::shared_ptr<std::vector<int>>;
int seg_of(const CutTab& tab, int lo) { return int(std::upper_bound(tab->begin(), tab->end(), lo) - tab->begin()); }   // segment that starts at or before lo
void set_cuts(Spec& sp, const CutTab& tab, int mode, int T, uint64_t seed) {
    if (mode < 0 || mode > 3 || (mode && (T < 1 || T > 100000))) throw std::runtime_error("case: bad segment parameters");
    sp.cutmode = mode;
    if (mode) sp.cuts = [tab, mode, T, seed](int n) { *tab = make_cuts(mode, T, seed, n); return *tab; };
}
// every frame additionally cut at the given positions (granule 1)
std::vector<int> refine(const std::vector<int>& frames, const std::vector<int>& cuts) {
    std::vector<int> out;
    size_t ic = 0;
    int pos = 0;
    for (int f : frames) {
        const int end = pos + f;
        while (ic < cuts.size() && cuts[ic] <= pos) ++ic;
        while (ic < cuts.size() && cuts[ic] < end) { out.push_back(cuts[ic] - pos); pos = cuts[ic]; ++ic; }
        out.push_back(end - pos);
        pos = end;
    }
    return out;
}

template<class Obj, class Ctor, class Call>
std::function<Feed()> factory(Ctor ctor, Call call) {
    return [ctor, call]() {
        std::shared_ptr<Obj> obj = ctor();
        return Feed([obj, call](const Stream& s, int lo, int hi, int form, Chans& o) { call(*obj, s, lo, hi, form, o); });
    };
}

arr_real coef_real(uint64_t seed, int n) {
    Rng r(mix(seed, 0xC0EF));
    arr_real h(n);
    for (int i = 0; i < n; ++i) h[i] = r.gauss();
    return h;
}
arr_cmplx coef_cmplx(uint64_t seed, int n) {
    Rng r(mix(seed, 0xC0EC));
    arr_cmplx h(n);
    for (int i = 0; i < n; ++i) h[i] = cmplx_t(r.gauss(), r.gauss());
    return h;
}
// multirate prototype: polyphase() normalises by sum(h), so keep the sum well away from zero
arr_real coef_multirate(uint64_t seed, int n) {
    Rng r(mix(seed, 0x3A7E));
    arr_real h(n);
    double s = 0;
    for (int i = 0; i < n; ++i) {
        double v = 0.25 + r.uni();
        if (r.range(0, 4) == 0) v = -v;
        h[i] = v;
        s += v;
    }
    if (std::fabs(s) < 0.25 * n) h[0] += n;
    return h;
}
int ceil_div(int a, int b) { return (a + b - 1) / b; }

// adaptive filters: i2 = lock schedule, i3 = its scale.  set_lock_coeffs(odd segment) before every call: unlocked warm-up
// first (the coefficients are non-zero when the lock engages), then locked / unlocked in turn.
CutTab lock_schedule(Spec& sp, const Params& q) {
    const CutTab tab = std::make_shared<std::vector<int>>();
    set_cuts(sp, tab, q.i2, q.i3, q.ps);
    if (q.i2) sp.name += "+lock";
    return tab;
}

Spec make_spec(const Params& q) {
    Spec sp;
    sp.name = PNAME[q.p];
    sp.classes = {G_GAUSS, G_TONE, G_BURSTY, G_QUANT};
    switch (q.p) {
    case P_FIRR: {   // i1 = taps
        const arr_real h = coef_real(q.ps, q.i1);
        sp.skind = SK_REAL; sp.memory = q.i1 - 1; sp.chans = {"y"};
        sp.make = factory<FirFilterR>([h]() { return std::make_shared<FirFilterR>(h); },
                                      [](FirFilterR& f, const Stream& s, int lo, int hi, int form, Chans& o) {
                                          const arr_real x = s.real(lo, hi);
                                          put(o, 0, (form & 1) ? f(x) : f.process(x));
                                      });
        break;
    }
    case P_FIRC: {
        const arr_cmplx h = coef_cmplx(q.ps, q.i1);
        sp.skind = SK_CMPLX; sp.memory = q.i1 - 1; sp.chans = {"y"};
        sp.make = factory<FirFilterC>([h]() { return std::make_shared<FirFilterC>(h); },
                                      [](FirFilterC& f, const Stream& s, int lo, int hi, int form, Chans& o) {
                                          const arr_cmplx x = s.cmplx(lo, hi);
                                          put(o, 0, (form & 1) ? f(x) : f.process(x));
                                      });
        break;
    }
    case P_FFTR:
    case P_FFTC: {   // i1 = taps, i2 = complex impulse response
        const bool hc = q.i2 != 0, xc = (q.p == P_FFTC);
        const arr_real hr = coef_real(q.ps, q.i1);
        const arr_cmplx hx = coef_cmplx(q.ps, q.i1);
        auto ctor = [=]() { return hc ? std::make_shared<FftFilter>(hx) : std::make_shared<FftFilter>(hr); };
        sp.skind = xc ? SK_CMPLX : SK_REAL;
        sp.memory = ctor()->block_size();
        sp.chans = {"y"};
        if (xc)
            sp.make = factory<FftFilter>(ctor, [](FftFilter& f, const Stream& s, int lo, int hi, int form, Chans& o) {
                const arr_cmplx x = s.cmplx(lo, hi);
                put(o, 0, (form & 1) ? f(x) : f.process(x));
            });
        else
            sp.make = factory<FftFilter>(ctor, [](FftFilter& f, const Stream& s, int lo, int hi, int form, Chans& o) {
                const arr_real x = s.real(lo, hi);
                put(o, 0, (form & 1) ? f(x) : f.process(x));
            });
        break;
    }
    case P_DECIM: {   // i1 = M, i2 = length of a custom prototype (0: default design)
        const int M = q.i1, hl = q.i2;
        const arr_real h = hl ? coef_multirate(q.ps, hl) : design_multirate_fir(1, M);
        sp.skind = SK_REAL; sp.granule = M; sp.memory = long(M) * (ceil_div(h.size(), M) - 1); sp.chans = {"y"}; sp.has_op = false;
        sp.make = factory<FIRDecimator>([=]() { return hl ? std::make_shared<FIRDecimator>(M, h) : std::make_shared<FIRDecimator>(M); },
                                        [](FIRDecimator& f, const Stream& s, int lo, int hi, int, Chans& o) { put(o, 0, f.process(s.real(lo, hi))); });
        break;
    }
    case P_INTERP: {   // i1 = L, i2 = custom prototype length
        const int L = q.i1, hl = q.i2;
        const arr_real h = hl ? coef_multirate(q.ps, hl) : design_multirate_fir(L, 1);
        sp.skind = SK_REAL; sp.memory = ceil_div(h.size(), L) - 1; sp.chans = {"y"}; sp.has_op = false;
        sp.make = factory<FIRInterpolator>([=]() { return hl ? std::make_shared<FIRInterpolator>(L, h) : std::make_shared<FIRInterpolator>(L); },
                                           [](FIRInterpolator& f, const Stream& s, int lo, int hi, int, Chans& o) { put(o, 0, f.process(s.real(lo, hi))); });
        break;
    }
    case P_RATECONV: {   // i1 = L, i2 = M, i3 = custom prototype length
        const int L = q.i1, M = q.i2, hl = q.i3;
        const arr_real h = hl ? coef_multirate(q.ps, hl) : design_multirate_fir(L, M);
        sp.skind = SK_REAL; sp.granule = M; sp.memory = ceil_div(h.size(), L) - 1; sp.chans = {"y"}; sp.has_op = false;
        sp.make = factory<FIRRateConverter>([=]() { return hl ? std::make_shared<FIRRateConverter>(L, M, h) : std::make_shared<FIRRateConverter>(L, M); },
                                            [](FIRRateConverter& f, const Stream& s, int lo, int hi, int, Chans& o) { put(o, 0, f.process(s.real(lo, hi))); });
        break;
    }
    case P_RESAMPLER: {   // i1 = out_fs, i2 = in_fs, i3 = custom prototype length
        const int ofs = q.i1, ifs = q.i2, hl = q.i3;
        const int g = std::gcd(ofs, ifs), L = ofs / g, M = ifs / g;
        const arr_real h = hl ? coef_multirate(q.ps, hl) : design_multirate_fir(ofs, ifs);
        sp.skind = SK_REAL; sp.granule = M; sp.chans = {"y"}; sp.has_op = false;
        if (L == M) sp.memory = 0;                                                   // bypass
        else if (L == 1) sp.memory = long(M) * (ceil_div(h.size(), M) - 1);          // decimator
        else sp.memory = ceil_div(h.size(), L) - 1;                                  // interpolator / rate converter
        sp.make = factory<FIRResampler>([=]() { return hl ? std::make_shared<FIRResampler>(ofs, ifs, h) : std::make_shared<FIRResampler>(ofs, ifs); },
                                        [](FIRResampler& f, const Stream& s, int lo, int hi, int, Chans& o) { put(o, 0, f.process(s.real(lo, hi))); });
        break;
    }
    case P_DELAYR: {   // i1 = delay, i2 = constructed from an initial buffer
        const int D = q.i1;
        const bool init = q.i2 != 0;
        const arr_real b = coef_real(q.ps, D);
        sp.skind = SK_REAL; sp.memory = D; sp.chans = {"y"};
        sp.make = factory<DelayReal>([=]() { return init ? std::make_shared<DelayReal>(b) : std::make_shared<DelayReal>(D); },
                                     [](DelayReal& f, const Stream& s, int lo, int hi, int form, Chans& o) {
                                         const arr_real x = s.real(lo, hi);
                                         put(o, 0, (form & 1) ? f(x) : f.process(x));
                                     });
        break;
    }
    case P_DELAYC: {
        const int D = q.i1;
        const bool init = q.i2 != 0;
        const arr_cmplx b = coef_cmplx(q.ps, D);
        sp.skind = SK_CMPLX; sp.memory = D; sp.chans = {"y"};
        sp.make = factory<DelayCmplx>([=]() { return init ? std::make_shared<DelayCmplx>(b) : std::make_shared<DelayCmplx>(D); },
                                      [](DelayCmplx& f, const Stream& s, int lo, int hi, int form, Chans& o) {
                                          const arr_cmplx x = s.cmplx(lo, hi);
                                          put(o, 0, (form & 1) ? f(x) : f.process(x));
                                      });
        break;
    }
    case P_MEDIAN: {   // i1 = order, d1 = initial value
        const int n = q.i1;
        const double iv = q.d1;
        sp.skind = SK_REAL; sp.memory = n; sp.chans = {"y"};
        sp.make = factory<MedianFilter>([=]() { return std::make_shared<MedianFilter>(n, iv); },
                                        [](MedianFilter& f, const Stream& s, int lo, int hi, int form, Chans& o) {
                                            const arr_real x = s.real(lo, hi);
                                            put(o, 0, (form & 1) ? f(x) : f.process(x));
                                        });
        break;
    }
    case P_MAR: {   // i1 = averaging length
        const int n = q.i1;
        sp.skind = SK_REAL; sp.memory = n; sp.chans = {"y"}; sp.scalar_forms = true;
        sp.make = factory<MAFilterR>([=]() { return std::make_shared<MAFilterR>(n); },
                                     [](MAFilterR& f, const Stream& s, int lo, int hi, int form, Chans& o) {
                                         const arr_real x = s.real(lo, hi);
                                         if (form >= 2 && hi - lo == 1) { arr_real y(1); y[0] = (form & 1) ? f(x[0]) : f.process(x[0]); put(o, 0, y); }
                                         else put(o, 0, (form & 1) ? f(x) : f.process(x));
                                     });
        break;
    }
    case P_MAC: {
        const int n = q.i1;
        sp.skind = SK_CMPLX; sp.memory = n; sp.chans = {"y"}; sp.scalar_forms = true;
        sp.make = factory<MAFilterC>([=]() { return std::make_shared<MAFilterC>(n); },
                                     [](MAFilterC& f, const Stream& s, int lo, int hi, int form, Chans& o) {
                                         const arr_cmplx x = s.cmplx(lo, hi);
                                         if (form >= 2 && hi - lo == 1) { arr_cmplx y(1); y[0] = (form & 1) ? f(x[0]) : f.process(x[0]); put(o, 0, y); }
                                         else put(o, 0, (form & 1) ? f(x) : f.process(x));
                                     });
        break;
    }
    case P_HILBERT: {   // i1 = flen, i2 = custom antisymmetric response, d1 = transition width (designed response)
        const int flen = q.i1, M = (flen % 2) ? flen : flen + 1;
        const bool custom = q.i2 != 0;
        const double tw = q.d1;
        arr_real h(M);
        {
            Rng r(mix(q.ps, 0x41B));
            for (int i = 0; i < M / 2; ++i) { const double g = r.gauss(); h[i] = g; h[M - 1 - i] = -g; }
        }
        sp.skind = SK_REAL; sp.memory = M - 1; sp.chans = {"y"};
        sp.make = factory<HilbertFilter>([=]() { return custom ? std::make_shared<HilbertFilter>(h) : std::make_shared<HilbertFilter>(flen, tw); },
                                         [](HilbertFilter& f, const Stream& s, int lo, int hi, int form, Chans& o) {
                                             const arr_real x = s.real(lo, hi);
                                             put(o, 0, (form & 1) ? f(x) : f.process(x));
                                         });
        break;
    }
    case P_TUNER: {   // i1 = fs, d1 = freq
        const int fs = q.i1;
        const double fr = q.d1;
        sp.skind = SK_CMPLX; sp.memory = LONG_MAX; sp.chans = {"y"};
        sp.make = factory<Tuner>([=]() { return std::make_shared<Tuner>(fs, fr); },
                                 [](Tuner& f, const Stream& s, int lo, int hi, int form, Chans& o) {
                                     const arr_cmplx x = s.cmplx(lo, hi);
                                     put(o, 0, (form & 1) ? f(x) : f.process(x));
                                 });
        break;
    }
    case P_AGCR:
    case P_AGCC: {   // d1 = target level, d2 = max gain (dB), i1 = averaging length, d3 = t_rise, d4 = t_fall
        const double tl = q.d1, mg = q.d2, tr = q.d3, tf = q.d4;
        const int al = q.i1;
        auto ctor = [=]() { return std::make_shared<Agc>(tl, mg, al, tr, tf); };
        sp.memory = LONG_MAX; sp.chans = {"out", "gain"};
        if (q.p == P_AGCR) {
            sp.skind = SK_REAL;
            sp.make = factory<Agc>(ctor, [](Agc& f, const Stream& s, int lo, int hi, int form, Chans& o) {
                const arr_real x = s.real(lo, hi);
                const auto r = (form & 1) ? f(x) : f.process(x);
                put(o, 0, r.out); put(o, 1, r.gain);
            });
        } else {
            sp.skind = SK_CMPLX;
            sp.make = factory<Agc>(ctor, [](Agc& f, const Stream& s, int lo, int hi, int form, Chans& o) {
                const arr_cmplx x = s.cmplx(lo, hi);
                const auto r = (form & 1) ? f(x) : f.process(x);
                put(o, 0, r.out); put(o, 1, r.gain);
            });
        }
        break;
    }
    case P_COMP: {   // i1 = fs, d1 = threshold, i2 = ratio, d2 = knee, d3 = attack, d4 = release
        const int fs = q.i1, ratio = q.i2;
        const double th = q.d1, kn = q.d2, at = q.d3, rl = q.d4;
        sp.skind = SK_REAL; sp.memory = LONG_MAX; sp.chans = {"out", "gain"};
        sp.make = factory<Compressor>([=]() { return std::make_shared<Compressor>(fs, th, ratio, kn, at, rl); },
                                      [](Compressor& f, const Stream& s, int lo, int hi, int form, Chans& o) {
                                          const arr_real x = s.real(lo, hi);
                                          const auto r = (form & 1) ? f(x) : f.process(x);
                                          put(o, 0, r.out); put(o, 1, r.gain);
                                      });
        break;
    }
    case P_LIMITER: {   // i1 = fs, d1 = threshold, d2 = knee, d3 = attack, d4 = release
        const int fs = q.i1;
        const double th = q.d1, kn = q.d2, at = q.d3, rl = q.d4;
        sp.skind = SK_REAL; sp.memory = LONG_MAX; sp.chans = {"out", "gain"};
        sp.make = factory<Limiter>([=]() { return std::make_shared<Limiter>(fs, th, kn, at, rl); },
                                   [](Limiter& f, const Stream& s, int lo, int hi, int form, Chans& o) {
                                       const arr_real x = s.real(lo, hi);
                                       const auto r = (form & 1) ? f(x) : f.process(x);
                                       put(o, 0, r.out); put(o, 1, r.gain);
                                   });
        break;
    }
    case P_GATE: {   // i1 = fs, d1 = threshold, d2 = attack, d3 = release, d4 = hold
        const int fs = q.i1;
        const double th = q.d1, at = q.d2, rl = q.d3, hd = q.d4;
        sp.skind = SK_REAL; sp.memory = LONG_MAX; sp.chans = {"out", "gain"};
        sp.make = factory<NoiseGate>([=]() { return std::make_shared<NoiseGate>(fs, th, at, rl, hd); },
                                     [](NoiseGate& f, const Stream& s, int lo, int hi, int form, Chans& o) {
                                         const arr_real x = s.real(lo, hi);
                                         const auto r = (form & 1) ? f(x) : f.process(x);
                                         put(o, 0, r.out); put(o, 1, r.gain);
                                     });
        break;
    }
    case P_LMSR:
    case P_NLMSR: {   // i1 = length, d1 = step, d2 = leakage, i2 = lock schedule (0: never locked, else a CUTMODE), i3 = its scale T
        const int len = q.i1;
        const double mu = q.d1, lk = q.d2;
        const LmsType ty = (q.p == P_NLMSR) ? LmsType::NLMS : LmsType::LMS;
        sp.skind = SK_REAL_XD; sp.memory = LONG_MAX; sp.chans = {"y", "e"}; sp.classes = {G_GAUSS, G_TONE};
        const CutTab tab = lock_schedule(sp, q);
        const bool sched = q.i2 != 0;
        sp.make = factory<LmsFilterR>([=]() { return std::make_shared<LmsFilterR>(len, mu, ty, lk); },
                                      [tab, sched](LmsFilterR& f, const Stream& s, int lo, int hi, int form, Chans& o) {
                                          if (sched) f.set_lock_coeffs(seg_of(tab, lo) & 1);
                                          const arr_real x = s.real(lo, hi), d = s.dreal(lo, hi);
                                          const auto r = (form & 1) ? f(x, d) : f.process(x, d);
                                          put(o, 0, r.y); put(o, 1, r.e);
                                      });
        break;
    }
    case P_LMSC:
    case P_NLMSC: {
        const int len = q.i1;
        const double mu = q.d1, lk = q.d2;
        const LmsType ty = (q.p == P_NLMSC) ? LmsType::NLMS : LmsType::LMS;
        sp.skind = SK_CMPLX_XD; sp.memory = LONG_MAX; sp.chans = {"y", "e"}; sp.classes = {G_GAUSS, G_TONE};
        const CutTab tab = lock_schedule(sp, q);
        const bool sched = q.i2 != 0;
        sp.make = factory<LmsFilterC>([=]() { return std::make_shared<LmsFilterC>(len, mu, ty, lk); },
                                      [tab, sched](LmsFilterC& f, const Stream& s, int lo, int hi, int form, Chans& o) {
                                          if (sched) f.set_lock_coeffs(seg_of(tab, lo) & 1);
                                          const arr_cmplx x = s.cmplx(lo, hi), d = s.dcmplx(lo, hi);
                                          const auto r = (form & 1) ? f(x, d) : f.process(x, d);
                                          put(o, 0, r.y); put(o, 1, r.e);
                                      });
        break;
    }
    case P_RLSR: {   // i1 = length, d1 = forgetting factor, d2 = diagonal load, i2 / i3 = lock schedule as for LMS
        const int len = q.i1;
        const double ff = q.d1, dl = q.d2;
        sp.skind = SK_REAL_XD; sp.memory = LONG_MAX; sp.chans = {"y", "e"}; sp.classes = {G_GAUSS, G_TONE};
        const CutTab tab = lock_schedule(sp, q);
        const bool sched = q.i2 != 0;
        sp.make = factory<RlsFilterR>([=]() { return std::make_shared<RlsFilterR>(len, ff, dl); },
                                      [tab, sched](RlsFilterR& f, const Stream& s, int lo, int hi, int form, Chans& o) {
                                          if (sched) f.set_lock_coeffs(seg_of(tab, lo) & 1);
                                          const arr_real x = s.real(lo, hi), d = s.dreal(lo, hi);
                                          const auto r = (form & 1) ? f(x, d) : f.process(x, d);
                                          put(o, 0, r.y); put(o, 1, r.e);
                                      });
        break;
    }
    case P_RLSC: {
        const int len = q.i1;
        const double ff = q.d1, dl = q.d2;
        sp.skind = SK_CMPLX_XD; sp.memory = LONG_MAX; sp.chans = {"y", "e"}; sp.classes = {G_GAUSS, G_TONE};
        const CutTab tab = lock_schedule(sp, q);
        const bool sched = q.i2 != 0;
        sp.make = factory<RlsFilterC>([=]() { return std::make_shared<RlsFilterC>(len, ff, dl); },
                                      [tab, sched](RlsFilterC& f, const Stream& s, int lo, int hi, int form, Chans& o) {
                                          if (sched) f.set_lock_coeffs(seg_of(tab, lo) & 1);
                                          const arr_cmplx x = s.cmplx(lo, hi), d = s.dcmplx(lo, hi);
                                          const auto r = (form & 1) ? f(x, d) : f.process(x, d);
                                          put(o, 0, r.y); put(o, 1, r.e);
                                      });
        break;
    }
    case P_FFTMIX: {   // i1 = taps, i2 = flags (bit 0: complex response, bit 1: the first segment is complex, bits 2-3: CUTMODE), i3 = segment scale T
        const bool hc = q.i2 & 1;
        const int startc = (q.i2 >> 1) & 1;
        const arr_real hr = coef_real(q.ps, q.i1);
        const arr_cmplx hx = coef_cmplx(q.ps, q.i1);
        auto ctor = [=]() { return hc ? std::make_shared<FftFilter>(hx) : std::make_shared<FftFilter>(hr); };
        sp.skind = SK_BOTH; sp.memory = ctor()->block_size(); sp.chans = {"y"};
        const CutTab tab = std::make_shared<std::vector<int>>();
        set_cuts(sp, tab, (q.i2 >> 2) & 3, q.i3, q.ps);
        // a real segment yields one value per output sample, a complex one two: the concatenation is compared as it comes
        sp.make = factory<FftFilter>(ctor, [tab, startc](FftFilter& f, const Stream& s, int lo, int hi, int form, Chans& o) {
            if ((seg_of(tab, lo) + startc) & 1) { const arr_cmplx x = s.cmplx(lo, hi); put(o, 0, (form & 1) ? f(x) : f.process(x)); }
            else { const arr_real x = s.real(lo, hi); put(o, 0, (form & 1) ? f(x) : f.process(x)); }
        });
        break;
    }
    case P_AGCMIX: {   // Agc parameters as P_AGCR; i2 = flags (bit 1: the first segment is complex, bits 2-3: CUTMODE), i3 = segment scale T
        const double tl = q.d1, mg = q.d2, tr = q.d3, tf = q.d4;
        const int al = q.i1, startc = (q.i2 >> 1) & 1;
        sp.skind = SK_BOTH; sp.memory = LONG_MAX; sp.chans = {"out", "gain"};
        const CutTab tab = std::make_shared<std::vector<int>>();
        set_cuts(sp, tab, (q.i2 >> 2) & 3, q.i3, q.ps);
        sp.make = factory<Agc>([=]() { return std::make_shared<Agc>(tl, mg, al, tr, tf); },
                               [tab, startc](Agc& f, const Stream& s, int lo, int hi, int form, Chans& o) {
                                   if ((seg_of(tab, lo) + startc) & 1) {
                                       const arr_cmplx x = s.cmplx(lo, hi);
                                       const auto r = (form & 1) ? f(x) : f.process(x);
                                       put(o, 0, r.out); put(o, 1, r.gain);
                                   } else {
                                       const arr_real x = s.real(lo, hi);
                                       const auto r = (form & 1) ? f(x) : f.process(x);
                                       put(o, 0, r.out); put(o, 1, r.gain);
                                   }
                               });
        break;
    }
    default: throw std::runtime_error("make_spec: unknown processor");
    }
    return sp;
}

int granule_of(const Params& q) {
    switch (q.p) {
    case P_DECIM: return q.i1;
    case P_RATECONV: return q.i2;
    case P_RESAMPLER: return q.i2 / std::gcd(q.i1, q.i2);
    default: return 1;
    }
}
// rough multiply-adds per input sample (bounds the stream length of a generated case)
double work_of(const Params& q) {
    switch (q.p) {
    case P_FIRR: return q.i1 + 20;
    case P_FIRC: return 4.0 * q.i1 + 20;
    case P_FFTR: case P_FFTC: case P_FFTMIX: return 400;
    case P_DECIM: return (q.i2 ? q.i2 : 24 * q.i1) / double(q.i1) + 20;
    case P_INTERP: return (q.i2 ? q.i2 : 24 * q.i1) + 20;
    case P_RATECONV: return (q.i3 ? q.i3 : 25.0 * std::max(q.i1, q.i2)) / q.i2 + 20;
    case P_RESAMPLER: { const int g = std::gcd(q.i1, q.i2), L = q.i1 / g, M = q.i2 / g; return (q.i3 ? q.i3 : 25.0 * std::max(L, M)) / M + 20; }
    case P_MEDIAN: return 4 * q.i1 + 20;
    case P_HILBERT: return q.i1 + 40;
    case P_TUNER: case P_AGCR: case P_AGCC: case P_AGCMIX: case P_COMP: case P_LIMITER: return 100;
    case P_LMSR: case P_NLMSR: return 4 * q.i1 + 40;
    case P_LMSC: case P_NLMSC: return 14 * q.i1 + 40;
    case P_RLSR: return 5.0 * q.i1 * q.i1 + 100;
    case P_RLSC: return 20.0 * q.i1 * q.i1 + 100;
    default: return 30;
    }
}
int max_granules(const Params& q, double budget, int cap_samples) {
    const int g = granule_of(q);
    const double ns = std::min(double(cap_samples), budget / work_of(q));
    return std::max(2, int(ns / g));
}

// ------------------------------------------------------------------------------------------- runs and comparison
// Call form of frame idx: (idx + off) % cycle (see Feed).  Saved cases without the fields keep the former cycle 0,1,2 and a
// reference made with process().
struct Forms
{
    int cycle{3}, off{0}, ref{0};
    int at(size_t idx) const { return int((idx + size_t(off)) % size_t(cycle)); }
};
Forms get_forms(const Json& c, const std::string& sfx = "") {
    Forms f;
    f.cycle = c.geti("fc" + sfx, 3); f.off = c.geti("fo" + sfx, 0); f.ref = c.geti("rf" + sfx, 0);
    if (f.cycle < 1 || f.cycle > 4 || f.off < 0 || f.off > 3 || f.ref < 0 || f.ref > 1) throw std::runtime_error("case: bad call-form fields");
    return f;
}
Json& put_forms(Json& c, int off, int ref, const std::string& sfx = "") { return c.set("fc" + sfx, 4).set("fo" + sfx, off).set("rf" + sfx, ref); }

Chans run_frames(const Spec& sp, const Stream& s, const std::vector<int>& frames_gran, const Forms& fm) {
    Feed f = sp.make();
    Chans out(sp.chans.size());
    int pos = 0;
    size_t idx = 0;
    for (int fr : frames_gran) {
        const int len = fr * sp.granule;
        f(s, pos, pos + len, fm.at(idx), out);
        pos += len;
        ++idx;
    }
    return out;
}
// labels: which call forms the framed run of this case really used
void form_labels(const Spec& sp, const std::vector<int>& frames, const Forms& fm, Out& o) {
    if (!sp.has_op) { o.label("callform:process (class without operator())"); return; }
    bool pr = false, op = false, spr = false, sop = false;
    for (size_t i = 0; i < frames.size(); ++i) {
        const int form = fm.at(i);
        if (sp.scalar_forms && form >= 2 && long(frames[i]) * sp.granule == 1) ((form & 1) ? sop : spr) = true;
        else ((form & 1) ? op : pr) = true;
    }
    if (pr) o.label("callform:process");
    if (op) o.label("callform:operator()");
    if (spr) o.label("callform:scalar process:" + sp.name);
    if (sop) o.label("callform:scalar operator():" + sp.name);
}

bool same_value(double a, double b) { return a == b || (std::isnan(a) && std::isnan(b)); }   // -0 == +0

std::string frames_text(const std::vector<int>& fr) {
    std::string s = "[";
    for (size_t i = 0; i < fr.size() && i < 16; ++i) s += (i ? "," : "") + std::to_string(fr[i]);
    if (fr.size() > 16) s += fmt(",... %zu frames", fr.size());
    return s + "]";
}

struct CmpResult
{
    bool identical{true};
    bool nonzero{false};
};
// ref = single call on the whole stream (or the solo run), got = framed (or interleaved) run
CmpResult compare(const std::string& prefix, const Spec& sp, const Chans& ref, const Chans& got, const std::vector<int>& frames, Out& o,
                  const char* refname = "single call") {
    CmpResult res;
    double worst_ratio = 0;
    for (size_t ch = 0; ch < sp.chans.size(); ++ch) {
        const auto& R = ref.v[ch];
        const auto& G = got.v[ch];
        const std::string sig = prefix + sp.name + ":" + sp.chans[ch];
        if (R.size() != G.size()) {
            o.fail(sig + ":size", fmt("%s.%s: framed run produced %zu values, %s %zu; frames(granules of %d)=%s", sp.name.c_str(),
                                      sp.chans[ch].c_str(), G.size(), refname, R.size(), sp.granule, frames_text(frames).c_str()));
            res.identical = false;
            continue;
        }
        double mx = 0;
        bool fin = true;
        for (double v : R) { if (std::isfinite(v)) mx = std::max(mx, std::fabs(v)); else fin = false; }
        if (mx > 0) res.nonzero = true;
        if (!fin) o.label("reference:non-finite:" + sp.name);
        const double tol = 1e-12 * mx;
        for (size_t i = 0; i < R.size(); ++i) {
            if (same_value(R[i], G[i])) continue;
            res.identical = false;
            const bool bothfin = std::isfinite(R[i]) && std::isfinite(G[i]);
            const double d = bothfin ? std::fabs(R[i] - G[i]) : INFINITY;
            const double ratio = tol > 0 ? d / tol : INFINITY;
            worst_ratio = std::max(worst_ratio, ratio);
            if (!(d <= tol)) {
                o.fail(sig + ":value", fmt("%s.%s[%zu of %zu]: framed %.17g, %s %.17g, |delta|=%.3g > tol %.3g (1e-12*max|out|); frames(granules of %d)=%s",
                                           sp.name.c_str(), sp.chans[ch].c_str(), i, R.size(), G[i], refname, R[i], d, tol, sp.granule, frames_text(frames).c_str()));
                break;
            }
        }
    }
    o.metric("delta/tol", worst_ratio);
    return res;
}

struct FrameStats
{
    int count{0};
    long minlen{0}, maxlen{0};
    uint64_t hash{0};
};
FrameStats frame_stats(const std::vector<int>& fr, int granule) {
    FrameStats s;
    s.count = int(fr.size());
    s.minlen = LONG_MAX;
    uint64_t h = 0xF00D;
    for (int f : fr) { s.minlen = std::min<long>(s.minlen, long(f) * granule); s.maxlen = std::max<long>(s.maxlen, long(f) * granule); h = mix(h, uint64_t(f)); }
    s.hash = h;
    return s;
}
const char* count_class(int n) { return n <= 1 ? "frames:1" : n <= 3 ? "frames:2-3" : n <= 15 ? "frames:4-15" : n <= 255 ? "frames:16-255" : "frames:256+"; }

// segmented variants: the frames between the switch positions (the coarsest admissible framing)
std::vector<int> frames_of_cuts(const std::vector<int>& cuts, int n) {
    std::vector<int> f;
    int pos = 0;
    for (int c : cuts) { f.push_back(c - pos); pos = c; }
    f.push_back(n - pos);
    return f;
}

// The property over one (processor, parameter point, stream, framing).
void check_framing(const Params& q, const std::vector<int>& frames_in, uint64_t seed, int cls_pick, const Forms& fm, Out& o) {
    const Spec sp = make_spec(q);
    const int n = std::accumulate(frames_in.begin(), frames_in.end(), 0);
    const int cls = sp.classes[size_t(cls_pick) % sp.classes.size()];
    const Stream st = make_stream(sp.skind, n * sp.granule, seed, cls);
    // segmented variants (granule 1): the framing gets a boundary at every switch position, the reference is one call per segment
    const std::vector<int> cuts = sp.cuts ? sp.cuts(n) : std::vector<int>{};
    const std::vector<int> ref_frames = frames_of_cuts(cuts, n);
    const std::vector<int> frames = cuts.empty() ? frames_in : refine(frames_in, cuts);
    Forms rf;
    rf.cycle = 1; rf.off = fm.ref;
    const Chans ref = run_frames(sp, st, ref_frames, rf);
    const Chans got = run_frames(sp, st, frames, fm);
    const CmpResult cr = compare("", sp, ref, got, frames, o, cuts.empty() ? "single call" : "one call per segment");
    const FrameStats fs = frame_stats(frames, sp.granule);
    const bool short_frame = fs.minlen < sp.memory;
    if (frames.size() > ref_frames.size() && short_frame && cr.nonzero) o.nontrivial(key_of(params_key(q), fs.hash, uint64_t(n)));
    o.label(std::string("proc:") + sp.name);
    o.label(std::string("signal:") + GNAME[cls]);
    o.label(count_class(fs.count));
    o.label(short_frame ? "minframe<memory" : "minframe>=memory");
    if (!cr.nonzero) o.label("output:all-zero:" + sp.name);
    o.label(cr.identical ? "bitwise:identical" : "bitwise:differs");
    form_labels(sp, frames, fm, o);
    o.label(fm.ref ? "reference:operator()" : "reference:process()");
    if (sp.cutmode) {
        o.label(CUTMODE[sp.cutmode]);
        o.label(cuts.empty() ? "segments:1 (stream shorter than the first switch)" : cuts.size() == 1 ? "segments:2" : cuts.size() < 8 ? "segments:3-8" : "segments:9+");
        if (frames.size() > ref_frames.size()) o.label("segmented:frames-inside-a-segment:" + sp.name);
    }
    if (fs.maxlen > 65535) o.label("frame>65535:" + sp.name);
}

// ------------------------------------------------------------------------------------------- parameter points
Params pt(int p, int i1 = 0, int i2 = 0, int i3 = 0, double d1 = 0, double d2 = 0, double d3 = 0, double d4 = 0) {
    Params q;
    q.p = p; q.i1 = i1; q.i2 = i2; q.i3 = i3; q.d1 = d1; q.d2 = d2; q.d3 = d3; q.d4 = d4;
    q.ps = key_of(p, i1, i2, i3) & 0xFFFFFF;
    return q;
}
// small points: the memory is comparable to a stream of <= 12 granules
std::vector<Params> small_points() {
    std::vector<Params> v;
    for (int t : {2, 3, 5, 16}) { v.push_back(pt(P_FIRR, t)); v.push_back(pt(P_FIRC, t)); }
    for (int t : {2, 3, 4, 7}) { v.push_back(pt(P_FFTR, t, t & 1)); v.push_back(pt(P_FFTC, t, (t + 1) & 1)); }
    v.push_back(pt(P_FFTR, 1, 0)); v.push_back(pt(P_FFTC, 1, 1));   // one tap: the smallest response FftFilter accepts (block 2, no overlap)
    v.push_back(pt(P_DECIM, 2, 0)); v.push_back(pt(P_DECIM, 3, 0)); v.push_back(pt(P_DECIM, 2, 7)); v.push_back(pt(P_DECIM, 4, 9)); v.push_back(pt(P_DECIM, 1, 5));
    v.push_back(pt(P_INTERP, 2, 0)); v.push_back(pt(P_INTERP, 3, 10)); v.push_back(pt(P_INTERP, 1, 4)); v.push_back(pt(P_INTERP, 5, 11));
    v.push_back(pt(P_RATECONV, 3, 2, 0)); v.push_back(pt(P_RATECONV, 2, 3, 13)); v.push_back(pt(P_RATECONV, 5, 3, 17)); v.push_back(pt(P_RATECONV, 4, 6, 9));
    v.push_back(pt(P_RESAMPLER, 3, 2, 0)); v.push_back(pt(P_RESAMPLER, 2, 4, 0)); v.push_back(pt(P_RESAMPLER, 6, 2, 8)); v.push_back(pt(P_RESAMPLER, 5, 5, 0)); v.push_back(pt(P_RESAMPLER, 3, 5, 16));
    for (int d : {1, 2, 5, 13}) { v.push_back(pt(P_DELAYR, d, d & 1)); v.push_back(pt(P_DELAYC, d, (d + 1) & 1)); }
    v.push_back(pt(P_MEDIAN, 3)); v.push_back(pt(P_MEDIAN, 4, 0, 0, 0.5)); v.push_back(pt(P_MEDIAN, 5)); v.push_back(pt(P_MEDIAN, 8, 0, 0, -1.0)); v.push_back(pt(P_MEDIAN, 33));
    for (int n : {1, 2, 3, 4, 7, 100}) { v.push_back(pt(P_MAR, n)); v.push_back(pt(P_MAC, n)); }
    v.push_back(pt(P_HILBERT, 3, 0, 0, 0.05)); v.push_back(pt(P_HILBERT, 5, 1)); v.push_back(pt(P_HILBERT, 11, 0, 0, 0.01)); v.push_back(pt(P_HILBERT, 4, 0, 0, 0.1));
    v.push_back(pt(P_HILBERT, 2, 0, 0, 0.1));   // smallest accepted length (flen 1 is rejected)
    v.push_back(pt(P_TUNER, 8, 0, 0, 1.0)); v.push_back(pt(P_TUNER, 7, 0, 0, 2.5)); v.push_back(pt(P_TUNER, 4, 0, 0, -2.0)); v.push_back(pt(P_TUNER, 100, 0, 0, 12.34));
    v.push_back(pt(P_TUNER, 1, 0, 0, 0.5)); v.push_back(pt(P_TUNER, 7, 0, 0, -3.5));   // smallest rate, |freq| = fs/2 for an odd rate
    for (int p : {P_AGCR, P_AGCC}) {
        v.push_back(pt(p, 3, 0, 0, 1.0, 60.0, 0.01, 0.01)); v.push_back(pt(p, 1, 0, 0, 0.5, 20.0, 0.3, 0.1)); v.push_back(pt(p, 100, 0, 0, 2.0, 6.0, 0.05, 0.2));
    }
    v.push_back(pt(P_COMP, 8, 5, 0, -10.0, 0.0, 0.1, 0.5)); v.push_back(pt(P_COMP, 100, 2, 0, -20.0, 10.0, 0.01, 0.05)); v.push_back(pt(P_COMP, 8000, 50, 0, -30.0, 20.0, 0.0, 0.001));
    v.push_back(pt(P_LIMITER, 8, 0, 0, -10.0, 0.0, 0.0, 0.3)); v.push_back(pt(P_LIMITER, 100, 0, 0, -20.0, 6.0, 0.02, 0.05)); v.push_back(pt(P_LIMITER, 44100, 0, 0, -3.0, 1.0, 1e-4, 2e-4));
    v.push_back(pt(P_GATE, 8, 0, 0, -10.0, 0.2, 0.1, 0.3)); v.push_back(pt(P_GATE, 100, 0, 0, -6.0, 0.01, 0.02, 0.0)); v.push_back(pt(P_GATE, 10, 0, 0, -20.0, 0.1, 0.3, 1.0));
    for (int p : {P_LMSR, P_LMSC}) { v.push_back(pt(p, 2, 0, 0, 0.1, 1.0)); v.push_back(pt(p, 3, 0, 0, 0.05, 0.99)); v.push_back(pt(p, 8, 0, 0, 0.02, 1.0)); }
    for (int p : {P_NLMSR, P_NLMSC}) { v.push_back(pt(p, 2, 0, 0, 0.5, 1.0)); v.push_back(pt(p, 4, 0, 0, 1.0, 0.999)); v.push_back(pt(p, 8, 0, 0, 0.2, 1.0)); }
    for (int p : {P_RLSR, P_RLSC}) { v.push_back(pt(p, 1, 0, 0, 0.99, 1.0)); v.push_back(pt(p, 2, 0, 0, 0.95, 10.0)); v.push_back(pt(p, 4, 0, 0, 1.0, 0.1)); v.push_back(pt(p, 6, 0, 0, 0.9, 1.0)); }
    // coefficient lock (i2 = schedule, i3 = scale): locked after a warm-up of T samples / toggled every T samples / at irregular positions
    for (int p : {P_LMSR, P_LMSC}) { v.push_back(pt(p, 3, 1, 2, 0.05, 0.99)); v.push_back(pt(p, 2, 2, 3, 0.1, 1.0)); }
    for (int p : {P_NLMSR, P_NLMSC}) { v.push_back(pt(p, 4, 1, 3, 1.0, 0.999)); v.push_back(pt(p, 2, 3, 2, 0.5, 1.0)); }
    for (int p : {P_RLSR, P_RLSC}) { v.push_back(pt(p, 2, 1, 2, 0.95, 10.0)); v.push_back(pt(p, 4, 2, 3, 1.0, 0.1)); v.push_back(pt(p, 1, 3, 2, 0.99, 1.0)); }
    // one object, real and complex segments in turn (i2 = response kind | first kind << 1 | schedule << 2, i3 = scale)
    v.push_back(pt(P_FFTMIX, 2, 0 | 0 << 1 | 2 << 2, 3)); v.push_back(pt(P_FFTMIX, 3, 1 | 1 << 1 | 2 << 2, 2));
    v.push_back(pt(P_FFTMIX, 4, 0 | 1 << 1 | 3 << 2, 2)); v.push_back(pt(P_FFTMIX, 1, 1 | 0 << 1 | 1 << 2, 4));
    v.push_back(pt(P_AGCMIX, 3, 0 << 1 | 2 << 2, 2, 1.0, 60.0, 0.01, 0.01)); v.push_back(pt(P_AGCMIX, 1, 1 << 1 | 3 << 2, 3, 0.5, 20.0, 0.3, 0.1));
    v.push_back(pt(P_AGCMIX, 100, 1 << 1 | 1 << 2, 4, 2.0, 6.0, 0.05, 0.2));
    return v;
}
// larger points of the grid (ends and typical values)
std::vector<Params> large_points() {
    std::vector<Params> v;
    for (int t : {31, 64, 128, 300}) { v.push_back(pt(P_FIRR, t)); v.push_back(pt(P_FIRC, t)); }
    for (int t : {16, 33, 100, 200, 300}) { v.push_back(pt(P_FFTR, t, t & 1)); v.push_back(pt(P_FFTC, t, (t + 1) & 1)); }
    for (int m : {5, 7, 8, 12}) { v.push_back(pt(P_DECIM, m, 0)); v.push_back(pt(P_DECIM, m, 10 * m + 3)); v.push_back(pt(P_INTERP, m, 0)); v.push_back(pt(P_INTERP, m, 7 * m + 2)); }
    for (auto lm : std::vector<std::pair<int, int>>{{160, 441}, {441, 160}, {147, 160}, {160, 147}, {7, 12}, {12, 7}, {11, 5}, {2, 9}}) {
        v.push_back(pt(P_RATECONV, lm.first, lm.second, 0));
        v.push_back(pt(P_RATECONV, lm.first, lm.second, 6 * std::max(lm.first, lm.second) + 5));
    }
    for (auto oi : std::vector<std::pair<int, int>>{{16000, 44100}, {44100, 16000}, {44100, 48000}, {48000, 44100}, {8000, 48000}, {48000, 8000}, {22050, 44100}, {11, 12}})
        v.push_back(pt(P_RESAMPLER, oi.first, oi.second, 0));
    for (int d : {32, 100, 200}) { v.push_back(pt(P_DELAYR, d, d & 1)); v.push_back(pt(P_DELAYC, d, (d + 1) & 1)); }
    for (int n : {9, 16, 21, 32}) v.push_back(pt(P_MEDIAN, n, 0, 0, n == 16 ? 0.25 : 0.0));
    for (int n : {10, 64, 300}) { v.push_back(pt(P_MAR, n)); v.push_back(pt(P_MAC, n)); }
    v.push_back(pt(P_HILBERT, 51, 0, 0, 0.01)); v.push_back(pt(P_HILBERT, 301, 0, 0, 0.005)); v.push_back(pt(P_HILBERT, 128, 1)); v.push_back(pt(P_HILBERT, 33, 0, 0, 0.2));
    v.push_back(pt(P_TUNER, 44100, 0, 0, 1000.0)); v.push_back(pt(P_TUNER, 8000, 0, 0, -440.5)); v.push_back(pt(P_TUNER, 50, 0, 0, 25.0)); v.push_back(pt(P_TUNER, 2, 0, 0, 1.0));
    for (int p : {P_AGCR, P_AGCC}) { v.push_back(pt(p, 100, 0, 0, 1.0, 60.0, 0.01, 0.01)); v.push_back(pt(p, 17, 0, 0, 0.1, 40.0, 0.2, 0.02)); }
    v.push_back(pt(P_COMP, 44100, 5, 0, -10.0, 0.0, 0.01, 0.2)); v.push_back(pt(P_COMP, 8000, 3, 0, -25.0, 5.0, 0.001, 0.01));
    v.push_back(pt(P_LIMITER, 44100, 0, 0, -10.0, 0.0, 0.0, 0.2)); v.push_back(pt(P_LIMITER, 8000, 0, 0, -15.0, 20.0, 0.001, 0.01));
    v.push_back(pt(P_GATE, 44100, 0, 0, -10.0, 0.05, 0.02, 0.05)); v.push_back(pt(P_GATE, 1000, 0, 0, -30.0, 0.005, 0.01, 0.02)); v.push_back(pt(P_GATE, 100, 0, 0, -3.0, 0.0, 0.0, 0.5));
    for (int p : {P_LMSR, P_LMSC}) { v.push_back(pt(p, 16, 0, 0, 0.01, 1.0)); v.push_back(pt(p, 64, 0, 0, 0.002, 0.999)); }
    for (int p : {P_NLMSR, P_NLMSC}) { v.push_back(pt(p, 16, 0, 0, 0.5, 1.0)); v.push_back(pt(p, 64, 0, 0, 1.2, 0.999)); }
    for (int p : {P_RLSR, P_RLSC}) { v.push_back(pt(p, 8, 0, 0, 0.99, 1.0)); v.push_back(pt(p, 12, 0, 0, 0.95, 100.0)); }
    for (int p : {P_LMSR, P_LMSC}) { v.push_back(pt(p, 16, 1, 20, 0.01, 1.0)); v.push_back(pt(p, 64, 3, 25, 0.002, 0.999)); }
    for (int p : {P_NLMSR, P_NLMSC}) { v.push_back(pt(p, 16, 2, 24, 0.5, 1.0)); v.push_back(pt(p, 64, 1, 40, 1.2, 0.999)); }
    for (int p : {P_RLSR, P_RLSC}) { v.push_back(pt(p, 8, 3, 12, 0.99, 1.0)); v.push_back(pt(p, 12, 2, 24, 0.95, 100.0)); }
    v.push_back(pt(P_FFTMIX, 100, 1 | 0 << 1 | 2 << 2, 70)); v.push_back(pt(P_FFTMIX, 33, 0 | 1 << 1 | 3 << 2, 20)); v.push_back(pt(P_FFTMIX, 300, 1 | 1 << 1 | 1 << 2, 500));
    v.push_back(pt(P_AGCMIX, 100, 0 << 1 | 3 << 2, 30, 1.0, 60.0, 0.01, 0.01)); v.push_back(pt(P_AGCMIX, 17, 1 << 1 | 2 << 2, 24, 0.1, 40.0, 0.2, 0.02));
    return v;
}

// rapidcheck: a random point of processor p's grid
Params gen_params(int p) {
    Params q;
    q.p = p;
    q.ps = uint64_t(pick(0, 1 << 20));
    // documented ranges of the dynamics processors: both ends exactly, and the interior
    auto time_const = [&]() { const int k = pick(0, 9); return k < 4 ? 0.0 : k == 9 ? 4.0 : std::pow(10.0, pickd(-4.0, 0.6)); };   // 0, 1e-4 .. 3.98 s, 4 s
    auto in_range = [&](double lo, double hi) { const int k = pick(0, 11); return k == 0 ? lo : k == 1 ? hi : pickd(lo, hi); };
    auto schedule = [&](Params& qq, int shift) {   // segmented variants: CUTMODE and scale
        const int mode = pick(1, 3);
        qq.i2 |= mode << shift;
        qq.i3 = mode == 1 ? pick_log(1, 300) : pick_log(2, 300);
    };
    static const std::vector<int> rates = {1, 8, 100, 1000, 8000, 44100, 48000};
    switch (p) {
    case P_FIRR: case P_FIRC: q.i1 = pick_log(2, 300); break;
    case P_FFTR: case P_FFTC: q.i1 = pick_log(1, 300); q.i2 = pick(0, 1); break;
    case P_FFTMIX: q.i1 = pick_log(1, 300); q.i2 = pick(0, 3); schedule(q, 2); break;
    case P_DECIM: case P_INTERP: q.i1 = pick(1, 12); q.i2 = flip() ? 0 : pick_log(1, 300); break;
    case P_RATECONV: {
        static const std::vector<std::pair<int, int>> special = {{160, 441}, {441, 160}, {147, 160}, {160, 147}};
        if (pick(0, 4) == 0) { auto lm = one_of(special); q.i1 = lm.first; q.i2 = lm.second; }
        else { q.i1 = pick(1, 12); q.i2 = pick(1, 12); }
        q.i3 = flip() ? 0 : pick_log(1, 300 + 6 * std::max(q.i1, q.i2));
        break;
    }
    case P_RESAMPLER: {
        static const std::vector<int> fs = {8000, 11025, 16000, 22050, 32000, 44100, 48000};
        if (flip()) { q.i1 = one_of(fs); q.i2 = one_of(fs); }
        else { q.i1 = pick(1, 12); q.i2 = pick(1, 12); }
        q.i3 = pick(0, 2) ? 0 : pick_log(1, 400);
        break;
    }
    case P_DELAYR: case P_DELAYC: q.i1 = pick_log(1, 200); q.i2 = pick(0, 1); break;
    case P_MEDIAN: q.i1 = pick(3, 33); q.d1 = flip() ? 0.0 : pickd(-2, 2); break;
    case P_MAR: case P_MAC: q.i1 = pick_log(1, 300); break;
    case P_HILBERT: q.i1 = pick_log(2, 301); q.i2 = pick(0, 1); q.d1 = pickd(0.005, 0.2); break;
    case P_TUNER: {
        static const std::vector<int> fs = {1, 2, 7, 8, 50, 100, 1000, 8000, 44100};
        q.i1 = one_of(fs);
        q.i2 = pick(0, 2);   // fractional / integer frequency / exactly +-fs/2 (the documented limit; fractional for an odd rate)
        const int half = q.i1 / 2;
        const double hf = q.i1 / 2.0;
        q.d1 = q.i2 == 0 ? pickd(-hf, hf) : q.i2 == 1 ? double(pick(-half, half)) : (flip() ? hf : -hf);
        break;
    }
    case P_AGCR: case P_AGCC:
        q.d1 = std::pow(10.0, pickd(-2, 1)); q.d2 = pickd(0, 80); q.i1 = pick_log(1, 300); q.d3 = std::pow(10.0, pickd(-3, -0.31)); q.d4 = std::pow(10.0, pickd(-3, -0.31));
        break;
    case P_AGCMIX:
        q.d1 = std::pow(10.0, pickd(-2, 1)); q.d2 = pickd(0, 80); q.i1 = pick_log(1, 300); q.d3 = std::pow(10.0, pickd(-3, -0.31)); q.d4 = std::pow(10.0, pickd(-3, -0.31));
        q.i2 = pick(0, 1) << 1; schedule(q, 2);
        break;
    case P_COMP:
        q.i1 = one_of(rates); q.d1 = in_range(-50, 0); { const int k = pick(0, 9); q.i2 = k == 0 ? 1 : k == 1 ? 50 : pick(1, 50); } q.d2 = flip() ? 0.0 : in_range(0, 20); q.d3 = time_const(); q.d4 = time_const();
        break;
    case P_LIMITER:
        q.i1 = one_of(rates); q.d1 = in_range(-50, 0); q.d2 = flip() ? 0.0 : in_range(0, 20); q.d3 = time_const(); q.d4 = time_const();
        break;
    case P_GATE: {
        q.i1 = one_of(rates); q.d1 = pick(0, 3) ? in_range(-60, 0) : in_range(-140, 0); q.d2 = time_const(); q.d3 = time_const();
        const int hold = pick_log(0, 300);   // hold time in samples (hold_time <= 4 s)
        q.d4 = pick(0, 15) == 0 ? 4.0 : std::min(4.0, (hold + 0.5) / q.i1);   // 4 s: the documented maximum
        break;
    }
    case P_LMSR: case P_LMSC:
        q.i1 = pick_log(2, 128); q.d1 = pickd(0.01, 0.4) / (q.i1 * (p == P_LMSC ? 2 : 1)); q.d2 = one_of(std::vector<double>{1.0, 0.999, 0.9});
        if (flip()) schedule(q, 0);
        break;
    case P_NLMSR: case P_NLMSC:
        q.i1 = pick_log(2, 128); q.d1 = pickd(0.05, 1.5); q.d2 = one_of(std::vector<double>{1.0, 0.999, 0.9});
        if (flip()) schedule(q, 0);
        break;
    case P_RLSR: case P_RLSC:
        q.i1 = pick(1, 16); q.d1 = flip() ? 1.0 : pickd(0.9, 1.0); q.d2 = std::pow(10.0, pickd(-2, 2));
        if (flip()) schedule(q, 0);
        break;
    default: break;
    }
    return q;
}

// ------------------------------------------------------------------------------------------- framings
// sizes (in granules, each 1..4096) of consecutive frames covering n granules; big > 0: one frame of `big` granules
// (any size, meant for frames of more than 65535 samples) at a generated position, framed as usual before and after it
std::vector<int> expand_framing(int n, int style, int fa, int fm, uint64_t fseed, int big = 0) {
    Rng r(mix(fseed, 0xF7A3));
    std::vector<int> f;
    const double alpha = 0.5 + 0.5 * fa;   // Pareto shape 0.5, 1, 1.5, 2
    auto pareto = [&](double xm) {
        const double u = 1.0 - r.uni();
        return int(std::min(4096.0, std::floor(xm * std::pow(u, -1.0 / alpha))));
    };
    int rem = n, before_big = -1;
    if (big > 0) {
        if (big > n) throw std::runtime_error("case: the long frame exceeds the stream");
        before_big = r.range(0, n - big);
        rem = before_big;
        if (rem == 0) { f.push_back(big); rem = n - big; before_big = -1; }
    }
    while (rem > 0) {
        int s = 1;
        switch (style) {
        case 0: s = pareto(1); break;                                       // heavy-tailed, mostly tiny
        case 1: s = pareto(fm); break;                                      // heavy-tailed above a scale
        case 2: s = r.range(1, fm); break;                                  // uniform 1..fm
        case 3: s = fm; break;                                              // equal frames (and a remainder)
        default: s = r.range(0, 9) == 0 ? pareto(fm) : 1;                   // single samples with occasional long frames
        }
        s = std::max(1, std::min(s, std::min(rem, 4096)));
        f.push_back(s);
        rem -= s;
        if (rem == 0 && before_big >= 0) { f.push_back(big); rem = n - before_big - big; before_big = -1; }
    }
    return f;
}
const char* const STYLE[] = {"style:pareto", "style:pareto-scaled", "style:uniform", "style:equal", "style:singles+long"};

}   // namespace

// =============================================================================================== compositions (exhaustive)
// every composition of k granules (mask bit i set = cut after granule i+1), optionally preceded by one frame of `pre`
// granules, the granule being gm documented granules
VK_SUB(comp, "compositions");
static void comp_check(const Json& c, Out& o) {
    const Params q = get_params(c);
    const int k = c.geti("k"), gm = c.geti("gm"), pre = c.geti("pre");
    const uint64_t mask = c.getu("mask");
    if (k < 1 || k > 24 || gm < 1 || pre < 0 || (mask >> (k - 1)) != 0) throw std::runtime_error("case: bad composition");
    std::vector<int> frames;
    if (pre > 0) frames.push_back(pre);
    int cur = 0;
    for (int i = 0; i < k; ++i) {
        cur += gm;
        if (i == k - 1 || ((mask >> i) & 1)) { frames.push_back(cur); cur = 0; }
    }
    check_framing(q, frames, c.getu("seed"), c.geti("cls"), get_forms(c), o);
    o.label(fmt("k:%02d", k));
}
static void comp_gen(Ctx& ctx) {
    const auto pts = small_points();
    const int K = ctx.by_tier(10, 12);
    const std::vector<std::pair<int, int>> variants = {{1, 0}, {1, 5}, {3, 2}, {2, 1}};   // (gm, pre)
    for (size_t ip = 0; ip < pts.size(); ++ip)
        for (size_t iv = 0; iv < variants.size(); ++iv)
            for (int k = 1; k <= K; ++k)
                for (uint64_t mask = 0; mask < (1ull << (k - 1)); ++mask) {
                    if (!ctx.mine()) continue;
                    const uint64_t h = mix(ctx.seed, key_of(ip, iv, k, mask));
                    Json c = Json::object();
                    put_params(c, pts[ip]);
                    c.set("k", k).set("gm", variants[iv].first).set("pre", variants[iv].second).set("mask", (long long)mask);
                    c.set("cls", int(h & 3)).set("seed", (long long)(h >> 16));
                    put_forms(c, int((h >> 2) & 3), int((h >> 4) & 1));
                    ctx.eval(c);
                }
}

// =============================================================================================== regular framings
// equal frames of f granules, and 1,f,1,f,... for f around the processor's memory, on the small and the large points
VK_SUB(reg, "regular_frames");
static void reg_check(const Json& c, Out& o) {
    const Params q = get_params(c);
    const int n = c.geti("n"), f = c.geti("f"), alt = c.geti("alt");
    if (n < 1 || f < 1) throw std::runtime_error("case: bad regular framing");
    std::vector<int> frames;
    int rem = n, i = 0;
    while (rem > 0) {
        int s = (alt && (i & 1) == 0) ? 1 : f;
        s = std::min(s, rem);
        frames.push_back(s);
        rem -= s;
        ++i;
    }
    check_framing(q, frames, c.getu("seed"), c.geti("cls"), get_forms(c), o);
    o.label(alt ? "pattern:1,f,1,f" : "pattern:f,f,f");
}
static void reg_gen(Ctx& ctx) {
    auto pts = small_points();
    const auto big = large_points();
    pts.insert(pts.end(), big.begin(), big.end());
    for (size_t ip = 0; ip < pts.size(); ++ip) {
        const Params& q = pts[ip];
        const Spec sp = make_spec(q);
        const int g = sp.granule;
        const long memg = sp.memory == LONG_MAX ? 24 : std::max<long>(1, (sp.memory + g - 1) / g);
        const int cap = max_granules(q, ctx.by_tier(1.5e6, 6e6), 20000);
        const int n = int(std::min<long>(cap, 3 * memg + 17));
        std::vector<int> fsz = {1, 2, 3, 7, int(memg) - 1, int(memg), int(memg) + 1, 2 * int(memg) + 1, int(memg) / 2, n - 1};
        std::sort(fsz.begin(), fsz.end());
        fsz.erase(std::unique(fsz.begin(), fsz.end()), fsz.end());
        for (int f : fsz) {
            if (f < 1 || f >= n) continue;
            for (int alt = 0; alt < 2; ++alt)
              for (int rep = 0; rep < 3; ++rep) {
                if (alt && f == 1) continue;
                if (!ctx.mine()) continue;
                const uint64_t h = mix(ctx.seed, key_of(ip, f, alt, rep, 0x4E6));
                Json c = Json::object();
                put_params(c, q);
                c.set("n", n).set("f", f).set("alt", alt).set("cls", int(h & 3)).set("seed", (long long)(h >> 16));
                put_forms(c, int((h >> 2) & 3), int((h >> 4) & 1));
                ctx.eval(c);
            }
        }
    }
}

// =============================================================================================== random framings
VK_SUB(rnd, "random_framing");
static void rnd_check(const Json& c, Out& o) {
    const Params q = get_params(c);
    const int n = c.geti("n"), style = c.geti("fs"), fa = c.geti("fa"), fm = c.geti("fm");
    const int big = c.geti("big", 0);   // granules of one extra long frame (0: none)
    if (n < 1 || n > 200000 || style < 0 || style > 4 || fa < 0 || fa > 3 || fm < 1 || fm > 4096 || big < 0 || big > n) throw std::runtime_error("case: bad framing parameters");
    const std::vector<int> frames = expand_framing(n, style, fa, fm, c.getu("fseed"), big);
    check_framing(q, frames, c.getu("seed"), c.geti("cls"), get_forms(c), o);
    o.label(STYLE[style]);
    if (big) o.label("framing:with one frame of more than 65535 samples");
    const long ns = long(n) * granule_of(q);
    o.label(ns < 100 ? "stream:<100" : ns < 1000 ? "stream:100-999" : ns < 10000 ? "stream:1e3-1e4" : "stream:1e4-1e5");
}
static void rnd_gen(Ctx& ctx) {
    // per-processor budgets (total over all shards), roughly inverse to the cost of a case
    for (int p = 0; p < P_COUNT; ++p) {
        double w = 1.0;
        switch (p) {
        case P_FIRC: case P_LMSC: case P_NLMSC: w = 0.5; break;
        case P_RLSR: case P_RLSC: w = 0.6; break;
        case P_FFTR: case P_FFTC: w = 0.6; break;
        case P_FFTMIX: case P_AGCMIX: w = 0.5; break;
        default: break;
        }
        const int budget = int(w * ctx.by_tier(12000, 80000));
        const bool rls = (p == P_RLSR || p == P_RLSC);
        ctx.rc(PNAME[p], budget, [&]() {
            const Params q = gen_params(p);
            const int maxg = max_granules(q, rls ? 2e6 : 1.2e7, rls ? 4000 : 100000);
            Json c = Json::object();
            put_params(c, q);
            const int n = pick_log(2, maxg);
            c.set("n", n).set("fs", pick(0, 4)).set("fa", pick(0, 3)).set("fm", pick_log(1, std::min(4096, std::max(1, n - 1))));
            c.set("cls", pick(0, 3)).set("fseed", (long long)seed64()).set("seed", (long long)seed64());
            put_forms(c, pick(0, 3), pick(0, 1));
            return c;
        });
    }
    // one frame of more than 65535 samples inside a stream of 7e4..1e5 samples, for every processor; the costly size
    // parameters are kept small here (the whole grid is covered above)
    for (int p = 0; p < P_COUNT; ++p) {
        ctx.rc(std::string("long-frame:") + PNAME[p], ctx.by_tier(16, 192), [&]() {
            Params q = gen_params(p);
            switch (p) {
            case P_FIRC: q.i1 = std::min(q.i1, 64); break;
            case P_LMSR: case P_NLMSR: q.i1 = std::min(q.i1, 32); break;
            case P_LMSC: case P_NLMSC: q.i1 = std::min(q.i1, 12); break;
            case P_RLSR: q.i1 = std::min(q.i1, 4); break;
            case P_RLSC: q.i1 = std::min(q.i1, 3); break;
            default: break;
            }
            // segmented variants: one switch position early in the stream, so that the long frame fits into the second segment
            if (p >= P_LMSR && p <= P_RLSC && q.i2) q.i2 = 1;
            if (p == P_FFTMIX || p == P_AGCMIX) q.i2 = (q.i2 & 3) | 1 << 2;
            const int g = granule_of(q);
            const int n = pick(70000, 100000) / g, bigmin = 65535 / g + 1;
            Json c = Json::object();
            put_params(c, q);
            c.set("n", n).set("fs", pick(0, 4)).set("fa", pick(0, 3)).set("fm", pick_log(1, 4096)).set("big", pick(bigmin, std::min(n, bigmin + 8000 / g)));
            c.set("cls", pick(0, 3)).set("fseed", (long long)seed64()).set("seed", (long long)seed64());
            put_forms(c, pick(0, 3), pick(0, 1));
            return c;
        });
    }
}

// =============================================================================================== independence
// 2..3 separately constructed instances, each with its own parameters, stream and framing; their process() calls are
// interleaved in a generated order; every instance must reproduce its solo run (same framing, nothing else alive).
VK_SUB(ind, "independence");
static void ind_check(const Json& c, Out& o) {
    const int m = c.geti("m");
    if (m < 2 || m > 3) throw std::runtime_error("case: bad instance count");
    const bool lazy = c.geti("lazy") != 0, drop = c.geti("drop") != 0;
    const int stick = c.geti("stick");
    struct One
    {
        Params q;
        Spec sp;
        Stream st;
        std::vector<int> frames;
        Chans solo, got;
        Forms forms;
        Feed feed;
        size_t next{0};
        int pos{0};
    };
    std::vector<One> v(static_cast<size_t>(m));
    for (int j = 0; j < m; ++j) {
        const std::string sfx = "_" + std::to_string(j);
        One& w = v[size_t(j)];
        w.q = get_params(c, sfx);
        w.sp = make_spec(w.q);
        const int n = c.geti("n" + sfx);
        if (n < 1 || n > 200000) throw std::runtime_error("case: bad stream length");
        w.frames = expand_framing(n, c.geti("fs" + sfx), c.geti("fa" + sfx), c.geti("fm" + sfx), c.getu("fseed" + sfx));
        const int cls = w.sp.classes[size_t(c.geti("cls" + sfx)) % w.sp.classes.size()];
        w.st = make_stream(w.sp.skind, n * w.sp.granule, c.getu("seed" + sfx), cls);
        w.forms = get_forms(c, sfx);
        if (w.sp.cuts) {   // segmented variants: a frame boundary at every switch position
            const std::vector<int> cuts = w.sp.cuts(n);
            if (!cuts.empty()) w.frames = refine(w.frames, cuts);
            o.label(CUTMODE[w.sp.cutmode]);
        }
    }
    // solo runs first (each instance is destroyed before the next one exists)
    for (auto& w : v) w.solo = run_frames(w.sp, w.st, w.frames, w.forms);
    // interleaved run
    for (auto& w : v) { w.got = Chans(w.sp.chans.size()); if (!lazy) w.feed = w.sp.make(); }
    Rng r(mix(c.getu("oseed"), 0x1D7));
    int last = -1, switches = 0;
    for (;;) {
        std::vector<int> live;
        for (int j = 0; j < m; ++j) if (v[size_t(j)].next < v[size_t(j)].frames.size()) live.push_back(j);
        if (live.empty()) break;
        int j = live[size_t(r.range(0, int(live.size()) - 1))];
        if (last >= 0 && v[size_t(last)].next < v[size_t(last)].frames.size() && r.range(0, 99) < stick) j = last;
        One& w = v[size_t(j)];
        if (!w.feed) w.feed = w.sp.make();
        const int len = w.frames[w.next] * w.sp.granule;
        w.feed(w.st, w.pos, w.pos + len, w.forms.at(w.next), w.got);
        w.pos += len;
        ++w.next;
        if (drop && w.next == w.frames.size()) w.feed = nullptr;   // destroy a finished instance while the others go on
        if (last >= 0 && j != last) ++switches;
        last = j;
    }
    bool all_multi = true, all_nonzero = true, identical = true;
    for (auto& w : v) {
        const CmpResult cr = compare("indep:", w.sp, w.solo, w.got, w.frames, o, "solo run");
        form_labels(w.sp, w.frames, w.forms, o);
        all_multi &= w.frames.size() >= 2;
        all_nonzero &= cr.nonzero;
        identical &= cr.identical;
        o.label(std::string("proc:") + w.sp.name);
    }
    uint64_t key = 0x1DD;
    for (auto& w : v) key = mix(key, mix(params_key(w.q), frame_stats(w.frames, 1).hash));
    if (all_multi && all_nonzero && switches >= 2) o.nontrivial(mix(key, c.getu("oseed")));
    bool same_kind = true;
    for (auto& w : v) same_kind &= (w.q.p == v[0].q.p);
    o.label(same_kind ? "kinds:all-same" : "kinds:mixed");
    o.label(fmt("instances:%d", m));
    o.label(switches >= 2 ? "interleaved:yes" : "interleaved:no");
    o.label(lazy ? "construct:at-first-use" : "construct:up-front");
    o.label(identical ? "bitwise:identical" : "bitwise:differs");
    o.evals = m;
}
static void ind_gen(Ctx& ctx) {
    ctx.rc("mixed", ctx.by_tier(200000, 1200000), [&]() {
        const int m = pick(2, 3);
        Json c = Json::object();
        c.set("m", m).set("lazy", pick(0, 1)).set("drop", pick(0, 1)).set("stick", one_of(std::vector<int>{0, 50, 90})).set("oseed", (long long)seed64());
        int p0 = 0;
        for (int j = 0; j < m; ++j) {
            const std::string sfx = "_" + std::to_string(j);
            int p = pick(0, P_COUNT - 1);
            if (j == 0) p0 = p;
            else if (flip()) p = p0;   // the same class twice: shared statics would show here
            const Params q = gen_params(p);
            put_params(c, q, sfx);
            const bool rls = (p == P_RLSR || p == P_RLSC);
            const int maxg = max_granules(q, rls ? 2e5 : 6e5, 3000);
            const int n = pick_log(2, maxg);
            c.set("n" + sfx, n).set("fs" + sfx, pick(0, 4)).set("fa" + sfx, pick(0, 3)).set("fm" + sfx, pick_log(1, std::min(256, std::max(1, n / 2))));
            c.set("cls" + sfx, pick(0, 3)).set("fseed" + sfx, (long long)seed64()).set("seed" + sfx, (long long)seed64());
            put_forms(c, pick(0, 3), 0, sfx);
        }
        return c;
    });
}

VK_FRESH_THREADS;
VK_MAIN("C06")
