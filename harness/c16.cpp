// C16  Sorting, order statistics and rank correlation match their definitions.
// Oracles (no code shared with dsplib):
//   sort            : output ordered in the requested direction, idx a permutation of 0..n-1, sorted[i] == x[idx[i]] (exact)
//   median          : insertion-sorted copy, middle element / (lo + hi) / 2 of the two middle elements (exact)
//   MedianFilter    : brute-force median of the last n samples of (n x initial value | stream), arbitrary framing (exact)
//   medfilt(x, n)   : brute-force median of x[i-floor(n/2) .. i-floor(n/2)+n-1], zero outside the signal (exact)
//   corr            : long-double definitions; Pearson two-pass centred, Spearman = Pearson on O(n^2) counting ranks,
//                     Kendall = (concordant - discordant) / (n(n-1)/2) over all pairs; tie-free data by construction and
//                     verified on the reference side.
// Exact comparisons use ==, so -0 == +0.
#include "kit/num.h"
#include "kit/prelude.h"
#include <dsplib.h>

using namespace vk;
using namespace dsplib;

namespace {

// ------------------------------------------------------------------------------------------- content classes
enum Content {
    K_CONST = 0, K_SORTED_ASC, K_SORTED_DESC, K_SORTED_ASC_REP, K_SORTED_DESC_REP, K_BINARY, K_ONE_OUTLIER, K_SIGNED_ZERO,
    K_SMALL_ALPHA, K_SAW, K_STEPS, K_NEAR_SORTED, K_DISTINCT, K_DYNRANGE, K_NCONTENT
};
const char* content_name(int c) {
    static const char* n[] = {"const", "sorted_asc", "sorted_desc", "sorted_asc_repeats", "sorted_desc_repeats", "binary", "one_outlier",
                              "signed_zero", "small_alphabet", "sawtooth", "steps", "near_sorted", "distinct", "dynrange"};
    return (c >= 0 && c < K_NCONTENT) ? n[c] : "?";
}
// All values finite and |v| <= ~1e152, so that (a + b) / 2 of two samples cannot overflow.
std::vector<double> content(Rng& r, int n, int cls) {
    std::vector<double> x(static_cast<size_t>(n), 0.0);
    auto ramp = [&](bool asc, bool rep) {
        double v = 10 * r.gauss();
        for (int i = 0; i < n; ++i) {
            x[size_t(i)] = asc ? v : -v;
            if (!rep || r.coin()) v += r.uni(0.01, 1.0);
        }
    };
    switch (cls) {
    case K_CONST: { double a = r.gauss(); for (auto& v : x) v = a; break; }
    case K_SORTED_ASC: ramp(true, false); break;
    case K_SORTED_DESC: ramp(false, false); break;
    case K_SORTED_ASC_REP: ramp(true, true); break;
    case K_SORTED_DESC_REP: ramp(false, true); break;
    case K_BINARY: { double a = r.gauss(), b = r.gauss(); for (auto& v : x) v = r.coin() ? a : b; break; }
    case K_ONE_OUTLIER: {
        double a = r.gauss();
        for (auto& v : x) v = a;
        x[size_t(r.range(0, n - 1))] = a + (r.coin() ? 1.0 : -1.0) * r.uni(0.5, 2.0);
        break;
    }
    case K_SIGNED_ZERO: {
        static const double tab[] = {0.0, -0.0, 0.0, -0.0, 1.0, -1.0};
        for (auto& v : x) v = tab[r.range(0, 5)];
        break;
    }
    case K_SMALL_ALPHA: { int k = r.range(2, 12); for (auto& v : x) v = double(r.range(0, k - 1) - k / 2); break; }
    case K_SAW: {
        int p = r.range(2, 70);
        bool up = r.coin();
        for (int i = 0; i < n; ++i) x[size_t(i)] = 0.5 * double(up ? i % p : p - 1 - i % p);
        break;
    }
    case K_STEPS: {
        int h = r.range(2, 40);
        double v = r.gauss();
        for (int i = 0; i < n; ++i) { if (r.range(1, h) == 1) v = r.gauss(); x[size_t(i)] = v; }
        break;
    }
    case K_NEAR_SORTED: {
        ramp(r.coin(), false);
        int sw = r.range(1, 3);
        for (int k = 0; k < sw && n >= 2; ++k) std::swap(x[size_t(r.range(0, n - 1))], x[size_t(r.range(0, n - 1))]);
        break;
    }
    case K_DYNRANGE: for (auto& v : x) v = r.gauss() * r.logmag(-150, 150); break;
    default: for (auto& v : x) v = r.gauss();
    }
    return x;
}
// word over an alphabet of `base` symbols (enumerations): digits of code, least significant first
std::vector<double> word(int n, int base, long code) {
    std::vector<double> x(static_cast<size_t>(n));
    for (int i = 0; i < n; ++i) { x[size_t(i)] = double(code % base); code /= base; }
    return x;
}
long ipow(long b, int e) { long r = 1; while (e-- > 0) r *= b; return r; }
long factorial(int n) { long f = 1; for (int i = 2; i <= n; ++i) f *= i; return f; }
std::vector<int> perm_unrank(int n, long code) {   // lexicographic
    std::vector<int> pool(static_cast<size_t>(n)), res;
    for (int i = 0; i < n; ++i) pool[size_t(i)] = i;
    for (int i = 0; i < n; ++i) {
        long f = factorial(n - 1 - i);
        long k = code / f;
        code %= f;
        res.push_back(pool[size_t(k)]);
        pool.erase(pool.begin() + k);
    }
    return res;
}
// decodes the input vector of a case: {"base","code"} word, {"perm"} permutation, otherwise class content from the seed
std::vector<double> case_values(const Json& c, int n, std::string& cname) {
    if (c.has("base")) { cname = "word-base" + std::to_string(c.geti("base")); return word(n, c.geti("base"), long(c.getu("code"))); }
    if (c.has("perm")) {
        cname = "permutation";
        auto p = perm_unrank(n, long(c.getu("perm")));
        std::vector<double> x(p.begin(), p.end());
        return x;
    }
    Rng r(c.getu("seed"));
    cname = content_name(c.geti("cls"));
    return content(r, n, c.geti("cls"));
}
uint64_t case_key(const Json& c) {
    if (c.has("base")) return key_of(1, c.geti("n"), c.geti("base"), c.getu("code"));
    if (c.has("perm")) return key_of(2, c.geti("n"), c.getu("perm"));
    return key_of(3, c.geti("n"), c.geti("cls"));
}

// ------------------------------------------------------------------------------------------- reference helpers
void insertion_sort(double* v, int n) {
    for (int i = 1; i < n; ++i) {
        double t = v[i];
        int j = i - 1;
        while (j >= 0 && v[j] > t) { v[j + 1] = v[j]; --j; }
        v[j + 1] = t;
    }
}
// true median of w[0..n): the middle order statistic, or (lo + hi) / 2 of the two middle ones
double brute_median(const double* w, int n, std::vector<double>& scratch) {
    scratch.assign(w, w + n);
    insertion_sort(scratch.data(), n);
    return (n % 2 == 1) ? scratch[size_t(n / 2)] : (scratch[size_t(n / 2 - 1)] + scratch[size_t(n / 2)]) / 2;
}
bool is_ordered(const std::vector<double>& x, bool asc) {
    for (size_t i = 0; i + 1 < x.size(); ++i) if (asc ? !(x[i] <= x[i + 1]) : !(x[i] >= x[i + 1])) return false;
    return true;
}
bool has_repeat(std::vector<double> x) {
    std::sort(x.begin(), x.end());
    for (size_t i = 0; i + 1 < x.size(); ++i) if (x[i] == x[i + 1]) return true;
    return false;
}
bool is_constant(const std::vector<double>& x) {
    for (auto v : x) if (!(v == x[0])) return false;
    return true;
}

// ------------------------------------------------------------------------------------------- sort
void check_sort(const std::vector<double>& xv, bool asc, bool default_form, const std::string& cname, uint64_t key, Out& o) {
    const int n = int(xv.size());
    const arr_real x = to_arr(xv);
    const auto res = (asc && default_form) ? sort(x) : sort(x, asc ? Direction::Ascend : Direction::Descend);
    const arr_real& s = res.first;
    const arr_int& idx = res.second;
    const std::string d = asc ? "asc" : "desc";
    const bool pre = is_ordered(xv, asc), rep = has_repeat(xv);
    o.label("class:" + cname);
    o.label("dir:" + d);
    o.label(pre ? "path:already-ordered (early-out)" : "path:index-sort");
    o.label(rep ? "repeats:yes" : "repeats:no");
    if (n > 16 && !pre && rep) o.label("n>16, unordered, repeated values");
    if (s.size() != n || idx.size() != n) { o.fail("sort:size", fmt("sort of %d values (%s) returned %d values and %d indices", n, d.c_str(), s.size(), idx.size())); return; }
    for (int i = 0; i < n; ++i)
        if (!(x[i] == xv[size_t(i)])) { o.fail("sort:input-modified", fmt("x[%d] changed from %.17g to %.17g", i, xv[size_t(i)], x[i])); return; }
    for (int i = 0; i + 1 < n; ++i)
        if (asc ? !(s[i] <= s[i + 1]) : !(s[i] >= s[i + 1])) {
            o.fail("sort:order:" + d, fmt("n=%d class=%s: sorted[%d]=%.17g, sorted[%d]=%.17g not %s", n, cname.c_str(), i, s[i], i + 1, s[i + 1], asc ? "non-decreasing" : "non-increasing"));
            return;
        }
    std::vector<char> seen(static_cast<size_t>(n), 0);
    for (int i = 0; i < n; ++i) {
        const int k = idx[i];
        if (k < 0 || k >= n || seen[size_t(k)]) { o.fail("sort:index-not-permutation:" + d, fmt("n=%d class=%s: idx[%d]=%d is %s", n, cname.c_str(), i, k, (k < 0 || k >= n) ? "out of range" : "repeated")); return; }
        seen[size_t(k)] = 1;
    }
    for (int i = 0; i < n; ++i)
        if (!(s[i] == xv[size_t(idx[i])])) { o.fail("sort:gather:" + d, fmt("n=%d class=%s: sorted[%d]=%.17g but x[idx[%d]=%d]=%.17g", n, cname.c_str(), i, s[i], i, idx[i], xv[size_t(idx[i])])); return; }
    if (n >= 3 && (rep || !pre)) o.nontrivial(mix(key, asc ? 1 : 2));
    o.evals = 1;
}

}   // namespace

VK_SUB(sx, "sort_exhaustive");
static void sx_check(const Json& c, Out& o) {
    std::string cname;
    auto x = case_values(c, c.geti("n"), cname);
    check_sort(x, c.geti("asc") != 0, c.geti("dflt", 0) != 0, cname, case_key(c), o);
}
static void sx_gen(Ctx& ctx) {
    // every word over {0,1} of length <= 12, over {0,1,2} of length <= 7 (8 thorough), over {0..3} of length <= 5 (6),
    // every permutation of length <= 7 (8 thorough); both directions
    struct W { int base, maxn; };
    const W ws[] = {{2, ctx.by_tier(12, 14)}, {3, ctx.by_tier(7, 8)}, {4, ctx.by_tier(5, 6)}};
    for (auto w : ws)
        for (int n = 1; n <= w.maxn; ++n)
            for (long code = 0; code < ipow(w.base, n); ++code)
                for (int asc = 0; asc < 2; ++asc) {
                    if (!ctx.mine()) continue;
                    ctx.eval(Json::object().set("n", n).set("base", w.base).set("code", (long long)code).set("asc", asc).set("dflt", int(code & 1)));
                }
    for (int n = 1; n <= ctx.by_tier(7, 8); ++n)
        for (long code = 0; code < factorial(n); ++code)
            for (int asc = 0; asc < 2; ++asc) {
                if (!ctx.mine()) continue;
                ctx.eval(Json::object().set("n", n).set("perm", (long long)code).set("asc", asc).set("dflt", int(code & 1)));
            }
}

VK_SUB(sc, "sort_classes");
static void sc_check(const Json& c, Out& o) {
    std::string cname;
    auto x = case_values(c, c.geti("n"), cname);
    check_sort(x, c.geti("asc") != 0, c.geti("dflt", 0) != 0, cname, case_key(c), o);
}
static void sc_gen(Ctx& ctx) {
    // every length 1..2000 x every content class x both directions
    const int reps = ctx.by_tier(6, 36);
    for (int rep = 0; rep < reps; ++rep)
        for (int n = 1; n <= 2000; ++n)
            for (int cls = 0; cls < K_NCONTENT; ++cls)
                for (int asc = 0; asc < 2; ++asc) {
                    if (!ctx.mine()) continue;
                    ctx.eval(Json::object().set("n", n).set("cls", cls).set("asc", asc).set("dflt", (n + rep) & 1)
                               .set("seed", (long long)(mix(ctx.seed, key_of(n, cls, asc, rep)) >> 16)));
                }
    ctx.rc("random", ctx.by_tier(600000, 6000000), [&]() {
        int n = pick_log(1, 2000);
        return Json::object().set("n", n).set("cls", pick(0, K_NCONTENT - 1)).set("asc", pick(0, 1)).set("dflt", pick(0, 1)).set("seed", (long long)seed64());
    });
}

// ------------------------------------------------------------------------------------------- median
VK_SUB(md, "median");
static void md_check(const Json& c, Out& o) {
    const int n = c.geti("n");
    std::string cname;
    auto xv = case_values(c, n, cname);
    const arr_real x = to_arr(xv);
    const double got = median(x);
    std::vector<double> scratch;
    const double ref = brute_median(xv.data(), n, scratch);
    o.label("class:" + cname);
    o.label(n % 2 ? "length:odd" : "length:even");
    const bool rep = has_repeat(xv);
    o.label(rep ? "repeats:yes" : "repeats:no");
    if (n % 2 == 0 && !(scratch[size_t(n / 2 - 1)] == scratch[size_t(n / 2)])) o.label("even with two different middle values");
    if (!(got == ref))
        o.fail(n % 2 ? "median:odd" : "median:even", fmt("median of %d values (class %s) = %.17g, true median %.17g (middle order statistics %.17g, %.17g)", n, cname.c_str(), got, ref,
                                                       scratch[size_t((n - 1) / 2)], scratch[size_t(n / 2)]));
    for (int i = 0; i < n; ++i)
        if (!(x[i] == xv[size_t(i)])) { o.fail("median:input-modified", fmt("x[%d] changed", i)); break; }
    if (n >= 3 && !is_constant(xv)) o.nontrivial(case_key(c));
}
static void md_gen(Ctx& ctx) {
    struct W { int base, maxn; };
    const W ws[] = {{2, ctx.by_tier(12, 14)}, {3, ctx.by_tier(8, 9)}, {5, ctx.by_tier(5, 6)}};
    for (auto w : ws)
        for (int n = 1; n <= w.maxn; ++n)   // the quantifier's arrays start at length 1
            for (long code = 0; code < ipow(w.base, n); ++code) {
                if (!ctx.mine()) continue;
                ctx.eval(Json::object().set("n", n).set("base", w.base).set("code", (long long)code));
            }
    for (int n = 1; n <= ctx.by_tier(7, 8); ++n)
        for (long code = 0; code < factorial(n); ++code) {
            if (!ctx.mine()) continue;
            ctx.eval(Json::object().set("n", n).set("perm", (long long)code));
        }
    const int reps = ctx.by_tier(4, 40);
    for (int rep = 0; rep < reps; ++rep)
        for (int n = 1; n <= 2000; ++n)
            for (int cls = 0; cls < K_NCONTENT; ++cls) {
                if (!ctx.mine()) continue;
                ctx.eval(Json::object().set("n", n).set("cls", cls).set("seed", (long long)(mix(ctx.seed, key_of(n, cls, rep, 77)) >> 16)));
            }
    ctx.rc("random", ctx.by_tier(300000, 3000000), [&]() {
        int n = pick_log(1, 2000);
        return Json::object().set("n", n).set("cls", pick(0, K_NCONTENT - 1)).set("seed", (long long)seed64());
    });
}

// ------------------------------------------------------------------------------------------- MedianFilter (streaming)
namespace {
const char* frame_name(int m) {
    static const char* n[] = {"whole", "single-samples", "1..8", "1..3n", "0..n (with empty frames)", "mixed {1,n-1,n,n+1,2n,1000}"};
    return (m >= 0 && m < 6) ? n[m] : "?";
}
int next_frame(Rng& fr, int mode, int n, int remaining) {
    int len;
    switch (mode) {
    case 0: len = remaining; break;
    case 1: len = 1; break;
    case 2: len = fr.range(1, 8); break;
    case 3: len = fr.range(1, 3 * n); break;
    case 4: len = fr.range(0, n); break;
    default: { const int t[] = {1, n - 1, n, n + 1, 2 * n, 1000}; len = t[fr.range(0, 5)]; }
    }
    return std::min(len, remaining);
}
}   // namespace

VK_SUB(mf, "medianfilter_stream");
static void mf_check(const Json& c, Out& o) {
    const int n = c.geti("n"), L = c.geti("len"), initm = c.geti("init"), fmode = c.geti("frame");
    std::string cname;
    auto xv = case_values(c, L, cname);
    Rng ri(mix(c.getu("seed"), 0x1A17));
    // initial history: 0 = default constructor argument, 1 = explicit 0, 2 = a value that also occurs in the stream, 3 = a foreign value
    double init = 0;
    if (initm == 2) init = xv[size_t(ri.range(0, L - 1))];
    if (initm == 3) init = 3 * ri.gauss();
    std::vector<double> got;
    got.reserve(size_t(L));
    {
        MedianFilter flt0(n), flt1(n, init);
        MedianFilter& flt = initm == 0 ? flt0 : flt1;
        if (flt.order() != n) o.fail("MedianFilter:order", fmt("order()=%d for n=%d", flt.order(), n));
        Rng fr(mix(c.getu("seed"), 0xF4A3E));
        int pos = 0, guard = 0;
        // "fork" > 0: from that stream position on a COPY of the filter object carries the stream on, while the original is fed other
        // data in between: the copy's window is its own history (what the original had seen up to the copy, then the copy's inputs)
        const int fork = c.geti("fork", 0);
        std::unique_ptr<MedianFilter> cp;
        while (pos < L) {
            int len = next_frame(fr, fmode, n, L - pos);
            if (len == 0 && ++guard > 4 * L) len = 1;
            arr_real frame(len);
            for (int i = 0; i < len; ++i) frame[i] = xv[size_t(pos + i)];
            if (fork > 0 && pos >= fork && !cp) cp = std::make_unique<MedianFilter>(flt);
            if (cp) { arr_real decoy(len + 1); for (int i = 0; i <= len; ++i) decoy[i] = 5.0 * fr.gauss() - 2.0; (void)flt.process(decoy); }
            arr_real y = cp ? ((pos & 1) ? (*cp)(frame) : cp->process(frame)) : ((pos & 1) ? flt(frame) : flt.process(frame));
            if (y.size() != len) { o.fail("MedianFilter:size", fmt("process of %d samples returned %d", len, y.size())); return; }
            for (int i = 0; i < len; ++i) got.push_back(y[i]);
            pos += len;
        }
    }
    std::vector<double> ext(size_t(n), init), scratch;
    ext.insert(ext.end(), xv.begin(), xv.end());
    const std::string par = n % 2 ? "odd" : "even";
    long mid_differs = 0;
    for (int j = 0; j < L; ++j) {
        const double ref = brute_median(&ext[size_t(j + 1)], n, scratch);   // the last n samples of history | stream
        if (n % 2 == 0 && !(scratch[size_t(n / 2 - 1)] == scratch[size_t(n / 2)])) ++mid_differs;
        if (!(got[size_t(j)] == ref)) {
            o.fail("MedianFilter:" + par + (j < n - 1 ? ":startup" : ":steady"),
                   fmt("order %d, init %.17g (mode %d), class %s, framing %s: y[%d]=%.17g, true window median %.17g (middle order statistics %.17g, %.17g)", n, init, initm,
                       cname.c_str(), frame_name(fmode), j, got[size_t(j)], ref, scratch[size_t((n - 1) / 2)], scratch[size_t(n / 2)]));
            break;
        }
    }
    o.evals = L;
    o.label("class:" + cname);
    o.label("order:" + par);
    o.label(std::string("framing:") + frame_name(fmode));
    o.label("init-mode:" + std::to_string(initm));
    if (n % 2 == 0 && mid_differs > 0) o.label("even order with two different middle values");
    if (c.geti("fork", 0) > 0) o.label("stream carried on by a copy of the filter object");
    bool trivial = true;
    for (auto v : xv) if (!(v == init)) trivial = false;
    if (!trivial && L >= 2) o.nontrivial(c.has("base") ? key_of(4, n, L, c.geti("base"), c.getu("code"), initm) : key_of(5, n, L, c.geti("cls"), initm, fmode));
}
static void mf_gen(Ctx& ctx) {
    // (a) every ternary stream of length <= 7 (8) through orders 3..6, zero and non-zero (=1, a stream symbol) history
    for (int n = 3; n <= 6; ++n)
        for (int L = 1; L <= ctx.by_tier(7, 8); ++L)
            for (long code = 0; code < ipow(3, L); ++code)
                for (int initm = 0; initm < 2; ++initm) {
                    if (!ctx.mine()) continue;
                    ctx.eval(Json::object().set("n", n).set("len", L).set("base", 3).set("code", (long long)code).set("init", initm == 0 ? 0 : 2).set("frame", int((code + L) % 3))
                               .set("seed", (long long)(code * 7 + L)));
                }
    // (b) streams of 10^4 samples: every order 3..64 x every content class x zero / chosen history, framing rotating through all modes
    const int reps = ctx.by_tier(6, 36);
    for (int rep = 0; rep < reps; ++rep)
        for (int n = 3; n <= 64; ++n)
            for (int cls = 0; cls < K_NCONTENT; ++cls)
                for (int initm = 0; initm < 4; ++initm) {
                    if (!ctx.mine()) continue;
                    const int fmode = (n + cls + initm + rep) % 6;
                    ctx.eval(Json::object().set("n", n).set("len", 10000).set("cls", cls).set("init", initm).set("frame", fmode)
                               .set("seed", (long long)(mix(ctx.seed, key_of(n, cls, initm, rep, 0x3F)) >> 16)));
                }
    // (c) random shorter streams (start-up dominated), all orders
    ctx.rc("random", ctx.by_tier(600000, 6000000), [&]() {
        int n = pick(3, 64);
        int L = pick_log(1, 600);
        Json cj = Json::object().set("n", n).set("len", L).set("cls", pick(0, K_NCONTENT - 1)).set("init", pick(0, 3)).set("frame", pick(0, 5)).set("seed", (long long)seed64());
        if (L >= 3 && pick(0, 4) == 0) cj.set("fork", pick(1, L - 1));
        return cj;
    });
}

// ------------------------------------------------------------------------------------------- medfilt(x, n)
VK_SUB(mt, "medfilt");
static void mt_check(const Json& c, Out& o) {
    const int n = c.geti("n"), L = c.geti("len");
    std::string cname;
    auto xv = case_values(c, L, cname);
    arr_real x = to_arr(xv);
    arr_real y = medfilt(x, n);
    if (y.size() != L) { o.fail("medfilt:size", fmt("medfilt of %d samples, n=%d returned %d", L, n, y.size())); return; }
    // centred window x[i - floor(n/2) .. i - floor(n/2) + n - 1], zero outside 0..L-1 (MATLAB medfilt1 'zeropad' convention)
    const int h = n / 2;
    std::vector<double> ext(size_t(L + n), 0.0), scratch;
    for (int i = 0; i < L; ++i) ext[size_t(i + h)] = xv[size_t(i)];
    const std::string par = n % 2 ? "odd" : "even";
    for (int i = 0; i < L; ++i) {
        const double ref = brute_median(&ext[size_t(i)], n, scratch);
        if (!(y[i] == ref)) {
            const bool edge = (i - h < 0) || (i - h + n - 1 > L - 1);
            o.fail("medfilt:" + par + (edge ? ":edge" : ":interior"), fmt("medfilt(x[%d], %d), class %s: y[%d]=%.17g, true median of x[%d..%d] (zero-padded) %.17g", L, n, cname.c_str(), i, y[i], i - h,
                                                                         i - h + n - 1, ref));
            break;
        }
    }
    for (int i = 0; i < L; ++i)
        if (!(x[i] == xv[size_t(i)])) { o.fail("medfilt:input-modified", fmt("x[%d] changed", i)); break; }
    o.evals = L;
    o.label("class:" + cname);
    o.label("order:" + par);
    o.label(L < n ? "signal shorter than window" : "signal >= window");
    bool allzero = true;
    for (auto v : xv) if (v != 0) allzero = false;
    if (!allzero && L >= 2) o.nontrivial(c.has("base") ? key_of(6, n, L, c.geti("base"), c.getu("code")) : key_of(7, n, L, c.geti("cls")));
}
static void mt_gen(Ctx& ctx) {
    for (int n = 3; n <= 7; ++n)
        for (int L = 1; L <= ctx.by_tier(7, 8); ++L)
            for (long code = 0; code < ipow(3, L); ++code) {
                if (!ctx.mine()) continue;
                ctx.eval(Json::object().set("n", n).set("len", L).set("base", 3).set("code", (long long)code));
            }
    const int reps = ctx.by_tier(8, 80);
    for (int rep = 0; rep < reps; ++rep)
        for (int n = 3; n <= 64; ++n)
            for (int cls = 0; cls < K_NCONTENT; ++cls) {
                if (!ctx.mine()) continue;
                ctx.eval(Json::object().set("n", n).set("len", 2000).set("cls", cls).set("seed", (long long)(mix(ctx.seed, key_of(n, cls, rep, 0x4D)) >> 16)));
            }
    ctx.rc("random", ctx.by_tier(400000, 4000000), [&]() {
        int n = pick(3, 64);
        int L = pick_log(1, 2000);
        return Json::object().set("n", n).set("len", L).set("cls", pick(0, K_NCONTENT - 1)).set("seed", (long long)seed64());
    });
}

// ------------------------------------------------------------------------------------------- corr
namespace {

constexpr ld TOL_RANK = 4 * ld(EPS);   // Spearman / Kendall: a ratio of exactly representable integers, correctly rounded up to a few ulp

struct CorrRef
{
    bool tie_free{false}, conditioned{false};
    ld pearson{0}, pearson_tol{0}, spearman{0}, kendall{0};
    long conc{0}, disc{0}, pairs{0};
};
// centred two-pass Pearson in long double
ld ld_pearson(const std::vector<ld>& x, const std::vector<ld>& y) {
    const size_t n = x.size();
    ld mx = 0, my = 0;
    for (size_t i = 0; i < n; ++i) { mx += x[i]; my += y[i]; }
    mx /= ld(n);
    my /= ld(n);
    ld sxx = 0, syy = 0, sxy = 0;
    for (size_t i = 0; i < n; ++i) { ld dx = x[i] - mx, dy = y[i] - my; sxx += dx * dx; syy += dy * dy; sxy += dx * dy; }
    return sxy / sqrtl(sxx * syy);
}
std::vector<ld> counting_ranks(const std::vector<double>& x) {
    const size_t n = x.size();
    std::vector<ld> r(n);
    for (size_t i = 0; i < n; ++i) { long k = 0; for (size_t j = 0; j < n; ++j) k += (x[j] < x[i]); r[i] = ld(k); }
    return r;
}
CorrRef corr_reference(const std::vector<double>& x, const std::vector<double>& y) {
    CorrRef R;
    const size_t n = x.size();
    R.tie_free = !has_repeat(x) && !has_repeat(y);
    if (!R.tie_free) return R;
    std::vector<ld> lx(x.begin(), x.end()), ly(y.begin(), y.end());
    R.pearson = ld_pearson(lx, ly);
    // a-priori forward-error bound of a double-precision evaluation of r from sums of n products (any summation order):
    // each of the sums carries at most (n+4) eps * sum|terms|;  r = N / sqrt(A B)  =>  dr <= dN/sqrt(AB) + |r| (dA/A + dB/B)/2
    ld a1 = 0, a2 = 0, axy = 0, sxx = 0, syy = 0, mx = 0, my = 0;
    for (size_t i = 0; i < n; ++i) { a1 += fabsl(lx[i]); a2 += fabsl(ly[i]); axy += fabsl(lx[i] * ly[i]); sxx += lx[i] * lx[i]; syy += ly[i] * ly[i]; mx += lx[i]; my += ly[i]; }
    mx /= ld(n);
    my /= ld(n);
    ld cxx = 0, cyy = 0;
    for (size_t i = 0; i < n; ++i) { cxx += (lx[i] - mx) * (lx[i] - mx); cyy += (ly[i] - my) * (ly[i] - my); }
    const ld A = ld(n) * cxx, B = ld(n) * cyy, g = ld(n + 4) * ld(EPS);
    const ld dN = g * (ld(n) * axy + a1 * a2), dA = g * (ld(n) * sxx + a1 * a1), dB = g * (ld(n) * syy + a2 * a2);
    R.conditioned = (dA / A < 1e-3L) && (dB / B < 1e-3L);
    R.pearson_tol = 2 * (dN / sqrtl(A * B) + fabsl(R.pearson) * (dA / A + dB / B) / 2) + 4 * ld(EPS);
    R.spearman = ld_pearson(counting_ranks(x), counting_ranks(y));
    for (size_t i = 0; i < n; ++i)
        for (size_t j = i + 1; j < n; ++j) {
            const bool ux = x[i] < x[j], uy = y[i] < y[j];
            if (ux == uy) ++R.conc; else ++R.disc;
        }
    R.pairs = long(n) * long(n - 1) / 2;
    R.kendall = ld(R.conc - R.disc) / ld(R.pairs);
    return R;
}

// linear: y is an affine function of x (up to rounding), so that Pearson's r itself must be +-1
void check_corr(const std::vector<double>& xv, const std::vector<double>& yv, bool linear, const std::string& tag, uint64_t key, Out& o) {
    const int n = int(xv.size());
    const CorrRef R = corr_reference(xv, yv);
    if (!R.tie_free || !R.conditioned) { o.discard = true; return; }
    const arr_real x = to_arr(xv), y = to_arr(yv);
    const int mono = R.conc == R.pairs ? +1 : R.disc == R.pairs ? -1 : 0;
    struct T { const char* name; Correlation type; ld ref, tol; bool pm1; };
    const T types[] = {{"pearson", Correlation::Pearson, R.pearson, R.pearson_tol, mono != 0 && linear},
                       {"spearman", Correlation::Spearman, R.spearman, TOL_RANK, mono != 0},
                       {"kendall", Correlation::Kendall, R.kendall, TOL_RANK, mono != 0}};
    for (const T& t : types) {
        const double a = (t.type == Correlation::Pearson && (n & 1)) ? corr(x, y) : corr(x, y, t.type);
        const double b = corr(y, x, t.type);
        const std::string nm = t.name;
        const ld ea = fabsl(ld(a) - t.ref), eb = fabsl(ld(b) - t.ref), es = fabsl(ld(a) - ld(b));
        o.metric(nm + " err/tol", double(std::max(ea, eb) / t.tol));
        o.metric(nm + " asym/tol", double(es / (2 * t.tol)));
        if (!(ea <= t.tol)) { o.fail("corr:" + nm + ":value", fmt("%s n=%d %s: corr(x,y)=%.17g, definition %.17Lg (|diff| %.3Lg > tol %.3Lg)", t.name, n, tag.c_str(), a, t.ref, ea, t.tol)); continue; }
        if (!(eb <= t.tol)) { o.fail("corr:" + nm + ":value", fmt("%s n=%d %s: corr(y,x)=%.17g, definition %.17Lg (|diff| %.3Lg > tol %.3Lg)", t.name, n, tag.c_str(), b, t.ref, eb, t.tol)); continue; }
        if (!(es <= 2 * t.tol)) o.fail("corr:" + nm + ":symmetry", fmt("%s n=%d %s: corr(x,y)=%.17g, corr(y,x)=%.17g", t.name, n, tag.c_str(), a, b));
        if (!(fabsl(ld(a)) <= 1 + t.tol) || !(fabsl(ld(b)) <= 1 + t.tol)) o.fail("corr:" + nm + ":range", fmt("%s n=%d %s: corr=%.17g / %.17g outside [-1,1]", t.name, n, tag.c_str(), a, b));
        if (t.pm1) {
            const ld e1 = std::max(fabsl(ld(a) - ld(mono)), fabsl(ld(b) - ld(mono)));
            if (!(e1 <= t.tol)) o.fail("corr:" + nm + ":monotone", fmt("%s n=%d %s: strictly %s relation, corr=%.17g / %.17g, expected %+d", t.name, n, tag.c_str(), mono > 0 ? "increasing" : "decreasing", a, b, mono));
        }
    }
    o.evals = 6;
    o.label(mono > 0 ? "relation:strictly increasing" : mono < 0 ? "relation:strictly decreasing" : "relation:non-monotone");
    const bool xs = is_ordered(xv, true), ys = is_ordered(yv, true);
    o.label(xs ? (ys ? "order:x and y sorted" : "order:x sorted") : (ys ? "order:y sorted" : "order:neither sorted"));
    if (mono == 0 && !xs && n >= 3) o.nontrivial(key);
}

}   // namespace

VK_SUB(cp, "corr_permutations");
static void cp_check(const Json& c, Out& o) {
    const int n = c.geti("n"), var = c.geti("var");
    auto p = perm_unrank(n, long(c.getu("p"))), q = perm_unrank(n, long(c.getu("q")));
    std::vector<double> x(static_cast<size_t>(n)), y(static_cast<size_t>(n));
    for (int i = 0; i < n; ++i) {
        const double a = p[size_t(i)], b = q[size_t(i)];
        if (var == 0) { x[size_t(i)] = a; y[size_t(i)] = b; }                                                   // the permutations themselves
        else { x[size_t(i)] = std::exp(0.9 * a) - 3.0; const double t = b - 0.5 * (n - 1); y[size_t(i)] = 0.25 * t * t * t + b; }   // strictly increasing non-linear maps
    }
    o.label(var == 0 ? "values:permutation" : "values:non-linear increasing maps of the permutations");
    check_corr(x, y, var == 0, fmt("p=%ld q=%ld var=%d", long(c.getu("p")), long(c.getu("q")), var), key_of(8, n, c.getu("p"), c.getu("q"), var), o);
}
static void cp_gen(Ctx& ctx) {
    // all pairs of permutations of length 2..5 (6 thorough); all permutations of length 6..7 (7..8 thorough) against the identity
    const int pair_max = ctx.by_tier(5, 6), id_max = ctx.by_tier(7, 8);
    for (int n = 2; n <= pair_max; ++n)
        for (long p = 0; p < factorial(n); ++p)
            for (long q = 0; q < factorial(n); ++q)
                for (int var = 0; var < 2; ++var) {
                    if (!ctx.mine()) continue;
                    ctx.eval(Json::object().set("n", n).set("p", (long long)p).set("q", (long long)q).set("var", var));
                }
    for (int n = pair_max + 1; n <= id_max; ++n)
        for (long p = 0; p < factorial(n); ++p)
            for (int var = 0; var < 2; ++var) {
                if (!ctx.mine()) continue;
                ctx.eval(Json::object().set("n", n).set("p", (long long)p).set("q", 0).set("var", var));   // check_corr evaluates both argument orders
            }
}

namespace {
enum XClass { X_PERM_JITTER = 0, X_SORTED_ASC, X_SORTED_DESC, X_PERM_INT, X_GAUSS, X_NX };
enum Rel { R_INDEP = 0, R_LIN_INC, R_LIN_DEC, R_MONO_INC, R_MONO_DEC, R_FEW_SWAPS, R_NOISY, R_Y_SORTED, R_NREL };
const char* xclass_name(int c) { static const char* n[] = {"perm+jitter", "sorted_asc", "sorted_desc", "perm_int_affine", "gauss"}; return c >= 0 && c < X_NX ? n[c] : "?"; }
const char* rel_name(int c) {
    static const char* n[] = {"independent", "linear_inc", "linear_dec", "monotone_inc_nonlinear", "monotone_dec_nonlinear", "monotone_few_swaps", "noisy_monotone", "y_sorted"};
    return c >= 0 && c < R_NREL ? n[c] : "?";
}
std::vector<double> perm_jitter(Rng& r, int n) {   // distinct by construction: integer permutation + jitter in (-0.4, 0.4)
    std::vector<double> x(static_cast<size_t>(n));
    for (int i = 0; i < n; ++i) x[size_t(i)] = i;
    for (int i = n - 1; i > 0; --i) std::swap(x[size_t(i)], x[size_t(r.range(0, i))]);
    for (auto& v : x) v += r.uni(-0.4, 0.4);
    return x;
}
}   // namespace

VK_SUB(cr, "corr_random");
static void cr_check(const Json& c, Out& o) {
    const int n = c.geti("n"), xc = c.geti("xcls"), rel = c.geti("rel");
    Rng r(c.getu("seed"));
    std::vector<double> x = perm_jitter(r, n), y;
    switch (xc) {
    case X_SORTED_ASC: std::sort(x.begin(), x.end()); break;
    case X_SORTED_DESC: std::sort(x.begin(), x.end()); std::reverse(x.begin(), x.end()); break;
    case X_PERM_INT: { double s = r.logmag(-3, 3), m = r.uni(-20, 20); for (auto& v : x) v = s * (std::floor(v + 0.5) + m * 0.29 * n); break; }   // |mean|/sigma <= ~20
    case X_GAUSS: { double m = r.uni(-5, 5); for (auto& v : x) v = r.gauss() + m; break; }
    default: break;
    }
    double xmin = x[0], xmax = x[0];
    for (auto v : x) { xmin = std::min(xmin, v); xmax = std::max(xmax, v); }
    const double span = xmax > xmin ? xmax - xmin : 1.0;
    bool linear = false;
    switch (rel) {
    case R_LIN_INC: case R_LIN_DEC: {
        const double a = (rel == R_LIN_INC ? 1 : -1) * r.logmag(-2, 2), b = r.uni(-3, 3) * a * span;
        y.resize(x.size());
        for (size_t i = 0; i < x.size(); ++i) y[i] = a * x[i] + b;
        linear = true;
        break;
    }
    case R_MONO_INC: case R_MONO_DEC: {
        const int f = r.range(0, 2);
        y.resize(x.size());
        for (size_t i = 0; i < x.size(); ++i) {
            const double z = (x[i] - xmin) / span;   // [0,1]
            double v = f == 0 ? std::exp(4 * z) : f == 1 ? (2 * z - 1) * (2 * z - 1) * (2 * z - 1) + 0.05 * z : std::sqrt(z + 0.01);
            y[i] = rel == R_MONO_INC ? v : -v;
        }
        break;
    }
    case R_FEW_SWAPS: {   // y ordered like x except for a few transpositions
        std::vector<double> ys = perm_jitter(r, n);
        std::sort(ys.begin(), ys.end());
        std::vector<int> ord(static_cast<size_t>(n));
        for (int i = 0; i < n; ++i) ord[size_t(i)] = i;
        std::sort(ord.begin(), ord.end(), [&](int i, int j) { return x[size_t(i)] < x[size_t(j)]; });
        y.resize(x.size());
        for (int k = 0; k < n; ++k) y[size_t(ord[size_t(k)])] = ys[size_t(k)];
        const int sw = r.range(1, 3);
        for (int k = 0; k < sw; ++k) std::swap(y[size_t(r.range(0, n - 1))], y[size_t(r.range(0, n - 1))]);
        break;
    }
    case R_NOISY: {
        const double w = r.uni(0.05, 2.0) * (r.coin() ? 1 : -1);
        y = perm_jitter(r, n);
        for (size_t i = 0; i < x.size(); ++i) y[i] = y[i] / n + w * (x[i] - xmin) / span;
        break;
    }
    case R_Y_SORTED: y = perm_jitter(r, n); std::sort(y.begin(), y.end()); break;
    default: y = perm_jitter(r, n);
    }
    // correlation is scale-free: overall amplitudes 10^ex, 10^ey (default 0) expose absolute thresholds / guards
    const int ex = c.geti("ex", 0), ey = c.geti("ey", 0);
    if (ex != 0) { const double sx = std::pow(10.0, double(ex)); for (auto& v : x) v *= sx; }
    if (ey != 0) { const double sy = std::pow(10.0, double(ey)); for (auto& v : y) v *= sy; }
    o.label(ex == 0 && ey == 0 ? "amplitude:unit" : (ex + ey < 0 ? "amplitude:small(10^-60..)" : "amplitude:large(..10^60)"));
    o.label(std::string("x:") + xclass_name(xc));
    o.label(std::string("rel:") + rel_name(rel));
    check_corr(x, y, linear, fmt("x=%s rel=%s", xclass_name(xc), rel_name(rel)), key_of(9, n, xc, rel), o);
}
static void cr_gen(Ctx& ctx) {
    // every n in 2..300 x x-class x relation once, then rapidcheck up to n = 2000
    for (int n = 2; n <= ctx.by_tier(300, 600); ++n)
        for (int xc = 0; xc < X_NX; ++xc)
            for (int rel = 0; rel < R_NREL; ++rel) {
                if (!ctx.mine()) continue;
                ctx.eval(Json::object().set("n", n).set("xcls", xc).set("rel", rel).set("seed", (long long)(mix(ctx.seed, key_of(n, xc, rel, 0xC0)) >> 16)));
            }
    ctx.rc("random", ctx.by_tier(60000, 600000), [&]() {
        int n = pick_log(2, 2000);
        const bool scaled = pick(0, 2) != 0;
        return Json::object().set("n", n).set("xcls", pick(0, X_NX - 1)).set("rel", pick(0, R_NREL - 1)).set("ex", scaled ? pick(-60, 60) : 0).set("ey", scaled ? pick(-60, 60) : 0).set("seed", (long long)seed64());
    });
}

VK_FRESH_THREADS;
VK_MAIN("C16")
