// C11  FIR and window designs meet their closed-form specifications.
// fir1: length n+1 (n+2 for odd-order High/Bandstop), symmetry, |H(0)| = 1 (Low) / |H(1)| = 1 (High), Hamming-design masks
//       (only when every band is wider than 16/(n+1); default window and the Hamming window passed explicitly), wrong
//       custom-window length => std::exception; a custom window is APPLIED (library Hamming => bit-identical to the
//       default design, any other window => the default design re-windowed with one common factor S_ham/S_w);
//       defaulted arguments (fir1 type, window sym / alpha / beta / r) forward the values written in the headers.
// windows: closed forms evaluated in long double (Kaiser through an I0 series summed to convergence), range [0,1],
//          exact mirror symmetry of the symmetric variant, periodic(n) == first n points of symmetric(n+1).
// Nothing here shares code with dsplib: the response is the plain sum  H(f) = sum_k h[k] exp(-i pi f k)  in long double.
#include "kit/num.h"
#include "kit/prelude.h"
#include <dsplib.h>

using namespace vk;
using namespace dsplib;

namespace {

// ------------------------------------------------------------------------------------------- window closed forms
enum Fam { F_HANN = 0, F_HAMMING, F_BLACKMAN, F_BLACKMANHARRIS, F_COSINE, F_GAUSS, F_TUKEY, F_KAISER, F_NFAM };
const char* fam_name(int f) {
    static const char* n[] = {"hann", "hamming", "blackman", "blackmanharris", "cosine", "gauss", "tukey", "kaiser"};
    return (f >= 0 && f < F_NFAM) ? n[f] : "?";
}
bool has_periodic(int f) { return f != F_TUKEY && f != F_KAISER; }
bool has_param(int f) { return f == F_GAUSS || f == F_TUKEY || f == F_KAISER; }

// I0(x) = sum_k ((x/2)^k / k!)^2, all terms positive, summed until the terms vanish against the sum (long double)
ld ld_i0(ld x) {
    const ld q = x * x / 4;
    ld term = 1, s = 1;
    for (int k = 1; k < 100000; ++k) {
        term *= q / (ld(k) * ld(k));
        s += term;
        if (term <= s * 1e-23L) break;
    }
    return s;
}

// value i of the textbook SYMMETRIC window of design length N (N >= 2); p = alpha / r / beta
ld win_ref(int fam, int N, int i, ld p, ld i0beta = 0) {
    const ld a = 2 * PI_L * ld(i) / ld(N - 1);
    switch (fam) {
    case F_HANN: return 0.5L - 0.5L * cosl(a);
    case F_HAMMING: return 0.54L - 0.46L * cosl(a);
    case F_BLACKMAN: return 0.42L - 0.5L * cosl(a) + 0.08L * cosl(2 * a);
    case F_BLACKMANHARRIS: return 0.35875L - 0.48829L * cosl(a) + 0.14128L * cosl(2 * a) - 0.01168L * cosl(3 * a);
    case F_COSINE: return sinl(PI_L / ld(N) * (ld(i) + 0.5L));
    case F_GAUSS: {
        const ld h = ld(N - 1) / 2, e = p * (ld(i) - h) / h;
        return expl(-0.5L * e * e);
    }
    case F_TUKEY: {
        if (p <= 0) return 1;
        if (p >= 1) return 0.5L - 0.5L * cosl(a);
        const ld x = ld(i) / ld(N - 1);
        if (x < p / 2) return 0.5L * (1 + cosl(2 * PI_L / p * (x - p / 2)));
        if (x <= 1 - p / 2) return 1;
        return 0.5L * (1 + cosl(2 * PI_L / p * (x - 1 + p / 2)));
    }
    case F_KAISER: {
        const ld x = ld(2 * int64_t(i) - (N - 1)) / ld(N - 1);
        const ld y = (1 - x) * (1 + x);
        return ld_i0(p * sqrtl(y > 0 ? y : 0)) / (i0beta > 0 ? i0beta : ld_i0(p));
    }
    }
    return 0;
}

arr_real lib_window(int fam, int n, bool sym, double p) {
    switch (fam) {
    case F_HANN: return window::hann(n, sym);
    case F_HAMMING: return window::hamming(n, sym);
    case F_BLACKMAN: return window::blackman(n, sym);
    case F_BLACKMANHARRIS: return window::blackmanharris(n, sym);
    case F_COSINE: return window::cosine(n, sym);
    case F_GAUSS: return window::gauss(n, p, sym);
    case F_TUKEY: return window::tukey(n, p);
    default: return window::kaiser(n, p);
    }
}

// Tolerance of "equals its closed form": 16 eps absolute (values are O(1), a handful of roundings each).
// Kaiser is a quotient of two I0 evaluations.  I0(z) has relative condition number z I1(z)/I0(z) <= z <= beta with respect
// to its argument, so merely forming z = beta*sqrt(1-x^2) in double (about 1.5 ulp) already moves w by 0.75 beta eps w, and
// any series for I0 adds about (20 + 1.4 z) rounded positive terms in numerator and denominator.  The allowance is therefore
// 32 eps (1 + beta*w/4): 32 eps at the skirt and for small beta, 8 beta eps w at the centre of a large-beta window
// (measured worst on the repaired tree: 4.2 eps at beta = 0.5, 44 eps at beta = 38; a 15-term series is off by >= 1e6 eps
// for beta >= 8).
ld win_tol(int fam, ld p, ld ref) {
    if (fam == F_KAISER) return 32 * ld(EPS) * (1 + p * ref / 4);
    return 16 * ld(EPS);
}

std::string param_label(int fam, double p) {
    if (fam == F_GAUSS) return fmt("gauss:alpha[%d,%d)", int(std::floor(p)), int(std::floor(p)) + 1);
    if (fam == F_TUKEY) return p == 0 ? "tukey:r==0" : p == 1 ? "tukey:r==1" : p < 0 ? "tukey:r<0 (rectangular)" : p > 1 ? "tukey:r>1 (hann)" : p < 0.01 ? "tukey:0<r<0.01" : "tukey:0.01<=r<1";
    if (fam == F_KAISER) return p == 0 ? "kaiser:beta==0" : p < 5 ? "kaiser:beta(0,5)" : p < 12 ? "kaiser:beta[5,12)" : p < 25 ? "kaiser:beta[12,25)" : "kaiser:beta[25,40]";
    return "";
}
const char* nclass(int n) { return n <= 512 ? (n % 2 ? "n<=512 odd" : "n<=512 even") : (n % 2 ? "n>512 odd" : "n>512 even"); }

// ------------------------------------------------------------------------------------------- fir1
enum { T_LOW = 0, T_HIGH, T_BP, T_BS };
const char* tname(int t) {
    static const char* n[] = {"low", "high", "bandpass", "bandstop"};
    return (t >= 0 && t < 4) ? n[t] : "?";
}
FilterType ftype(int t) { return t == T_LOW ? FilterType::Low : t == T_HIGH ? FilterType::High : t == T_BP ? FilterType::Bandpass : FilterType::Bandstop; }
int expect_len(int n, int t) { return ((n % 2 == 1) && (t == T_HIGH || t == T_BS)) ? n + 2 : n + 1; }

// W_DEFAULT .. W_HAMMING are the kinds of the original generators (W_NKINDS); W_BLACKMAN, W_LIBHAM (the library's own
// window::hamming of the documented length) and W_RANDOM (seeded positive symmetric values) were added for
// fir1_window_applied / the explicit-Hamming masks.
enum { W_DEFAULT = 0, W_RECT, W_HANN, W_KAISER, W_HAMMING, W_NKINDS, W_BLACKMAN = W_NKINDS, W_LIBHAM, W_RANDOM, W_NALL };
const char* wname(int k) {
    static const char* n[] = {"default", "rect", "hann", "kaiser", "hamming", "blackman", "lib-hamming", "random"};
    return (k >= 0 && k < W_NALL) ? n[k] : "?";
}
// custom window of any length, values from the closed forms above rounded to double (independent of dsplib's windows);
// W_LIBHAM: dsplib's own window::hamming(len); W_RANDOM: w[i] = w[len-1-i] uniform in [0.05, 2) from wseed, the centre
// value of an odd-length window is `centre`
arr_real custom_window(int kind, int len, double beta, uint64_t wseed = 0, double centre = 1.0) {
    if (kind == W_LIBHAM && len >= 3) return window::hamming(len);
    std::vector<double> w(size_t(std::max(len, 0)), 1.0);
    if (kind == W_RANDOM) {
        Rng r(mix(wseed, 0xC11F));
        for (int i = 0; i < len / 2; ++i) w[size_t(i)] = w[size_t(len - 1 - i)] = r.uni(0.05, 2.0);
        if (len % 2) w[size_t(len / 2)] = centre;
    } else if (len >= 3 && kind != W_RECT) {
        const int fam = kind == W_HANN ? F_HANN : kind == W_KAISER ? F_KAISER : kind == W_BLACKMAN ? F_BLACKMAN : F_HAMMING;
        const ld i0b = fam == F_KAISER ? ld_i0(beta) : 0;
        for (int i = 0; i < len; ++i) w[size_t(i)] = double(win_ref(fam, len, i, beta, i0b));
    }
    return arr_real(w);
}

arr_real design_win(int n, int t, double w1, double w2, const arr_real& win) {
    return (t == T_LOW || t == T_HIGH) ? fir1(n, w1, ftype(t), win) : fir1(n, w1, w2, ftype(t), win);
}
arr_real design(int n, int t, double w1, double w2, int wk, double beta, int wlen = -1) {
    if (wk == W_DEFAULT) return (t == T_LOW || t == T_HIGH) ? fir1(n, w1, ftype(t)) : fir1(n, w1, w2, ftype(t));
    return design_win(n, t, w1, w2, custom_window(wk, wlen < 0 ? expect_len(n, t) : wlen, beta));
}
// class of a sampled order above 256: type x order parity x {default, custom window}
std::string big_class(int n, int t, int wk) {
    return fmt("n>256:%s:%s-order:%s window", tname(t), n % 2 ? "odd" : "even", wk ? "custom" : "default");
}
// k-th seed-chosen order in 257..2000 with the parity of k (so that both parities occur for every type / window class)
int sampled_order(Rng& r, int k) {
    int n = r.range(257, 2000);
    if ((n & 1) != (k & 1)) n += (n < 2000 ? 1 : -1);
    return n;
}

std::string dstr(int n, int t, double w1, double w2, int wk) {
    if (t == T_LOW || t == T_HIGH) return fmt("fir1(%d, %.17g, %s%s%s)", n, w1, tname(t), wk ? ", win=" : "", wk ? wname(wk) : "");
    return fmt("fir1(%d, %.17g, %.17g, %s%s%s)", n, w1, w2, tname(t), wk ? ", win=" : "", wk ? wname(wk) : "");
}

// exp(-i pi q/(G-1)), q = 0 .. 2(G-1)-1 : the G-point grid f_j = j/(G-1), j = 0..G-1, covers [0,1] including both ends
struct Grid
{
    int G{0}, P{0};
    std::vector<cld> tw;
};
const Grid& grid(int G) {
    static thread_local Grid g;
    if (g.G != G) {
        g.G = G;
        g.P = 2 * (G - 1);
        g.tw.resize(size_t(g.P));
        for (int q = 0; q < g.P; ++q) {
            const ld a = PI_L * ld(q) / ld(G - 1);
            g.tw[size_t(q)] = cld(cosl(a), -sinl(a));
        }
    }
    return g;
}
// |H(f_j)|, H(f) = sum_k h[k] exp(-i pi f k); the phase index j*k is reduced exactly mod 2(G-1)
ld resp_mag(const std::vector<ld>& h, int j, const Grid& g) {
    ld re = 0, im = 0;
    int idx = 0;
    for (size_t k = 0; k < h.size(); ++k) {
        re += h[k] * g.tw[size_t(idx)].real();
        im += h[k] * g.tw[size_t(idx)].imag();
        idx += j;
        if (idx >= g.P) idx -= g.P;
    }
    return hypotl(re, im);
}

int cut_bucket(double w) { return int(std::floor(w * 100 + 0.5)); }

}   // namespace

// =========================================================================================== fir1: length, symmetry, unit gain
VK_SUB(shape, "fir1_shape");
static void shape_check(const Json& c, Out& o) {
    const int n = c.geti("n"), t = c.geti("type"), wk = c.geti("wk", 0);
    const double w1 = c.getd("w1"), w2 = c.getd("w2", 0), beta = c.getd("beta", 0);
    const std::string d = dstr(n, t, w1, w2, wk);
    arr_real h;
    try {
        h = design(n, t, w1, w2, wk, beta);
    } catch (const std::exception& e) {
        o.fail(std::string("fir1:threw:") + tname(t), d + " with a window of the documented length threw: " + e.what());
        return;
    }
    const int L = expect_len(n, t);
    const char* par = n % 2 ? "odd" : "even";
    if (h.size() != L) { o.fail(fmt("fir1:length:%s:%s", tname(t), par), fmt("%s returned %d taps, expected %d", d.c_str(), h.size(), L)); return; }
    if (!all_finite(h)) { o.fail(fmt("fir1:nonfinite:%s", tname(t)), d + " returned a non-finite tap"); return; }
    const std::vector<ld> hl = to_ld(h);
    ld hmax = 0, sabs = 0;
    for (ld v : hl) { hmax = std::max(hmax, std::fabs(v)); sabs += std::fabs(v); }
    // symmetry
    ld asym = 0;
    int at = 0;
    for (int i = 0; i < L / 2; ++i) {
        ld e = std::fabs(hl[size_t(i)] - hl[size_t(L - 1 - i)]);
        if (e > asym) { asym = e; at = i; }
    }
    const ld stol = 16 * ld(EPS) * hmax;
    o.metric("symmetry err/tol", stol > 0 ? double(asym / stol) : (asym > 0 ? 1e300 : 0));
    if (!(asym <= stol))
        o.fail(fmt("fir1:symmetry:%s:%s", tname(t), par), fmt("%s: h[%d]=%.17g but h[%d]=%.17g (max|h|=%.3Lg)", d.c_str(), at, h[at], L - 1 - at, h[L - 1 - at], hmax));
    // unit gain at DC (Low) / Nyquist (High); magnitude of the plain sums in long double
    if (t == T_LOW || t == T_HIGH) {
        ld s = 0;
        for (int k = 0; k < L; ++k) s += (t == T_HIGH && (k & 1)) ? -hl[size_t(k)] : hl[size_t(k)];
        const ld e = std::fabs(std::fabs(s) - 1);
        const ld gtol = 64 * ld(n + 1) * ld(EPS);
        o.metric(t == T_LOW ? "DC gain err/tol" : "Nyquist gain err/tol", double(e / gtol));
        o.metric("sum|h|", double(sabs));
        if (!(e <= gtol))
            o.fail(fmt("fir1:gain:%s:%s", tname(t), par), fmt("%s: |H(%d)| = %.17Lg, |err| = %.3Lg > 64 (n+1) eps = %.3Lg", d.c_str(), t == T_LOW ? 0 : 1, std::fabs(s), e, gtol));
    }
    o.nontrivial(key_of(n, t, cut_bucket(w1), cut_bucket(w2), wk));
    o.label(fmt("type:%s:%s-order", tname(t), par));
    o.label(std::string("window:") + wname(wk));
    o.label(n <= 256 ? "n:2..256" : "n:257..2000");
    if (n > 256) o.label(big_class(n, t, wk));
}
static void shape_gen(Ctx& ctx) {
    // every order 2..256 x every grid cut-off 0.03..0.97 (Low/High) / grid pairs (band types), default window
    std::vector<int> orders;
    for (int n = 2; n <= 256; ++n) orders.push_back(n);
    {
        Rng r(mix(ctx.seed, 0xC11A));
        for (int k = 0; k < ctx.by_tier(12, 48); ++k) orders.push_back(sampled_order(r, k));   // alternating parity
    }
    // sampled orders above 256: every cut-off additionally with one custom window of the documented length (kinds cycled),
    // so that every class parity x type x {default, custom} occurs among them by construction
    auto custom_too = [&](Json c, int n, int k) {
        if (!ctx.mine()) return;
        const int wk = W_RECT + (k + n) % (W_NKINDS - 1);
        c.set("wk", wk);
        if (wk == W_KAISER) c.set("beta", double((k * 7 + n) % 41));
        ctx.eval(c);
    };
    for (int n : orders) {
        const bool full = n <= 256;
        for (int t = 0; t < 4; ++t) {
            if (t == T_LOW || t == T_HIGH) {
                for (int k = 3; k <= 97; ++k) {
                    if (!full) custom_too(Json::object().set("n", n).set("type", t).set("w1", k / 100.0), n, k);
                    if (!ctx.mine()) continue;
                    ctx.eval(Json::object().set("n", n).set("type", t).set("w1", k / 100.0));
                }
            } else {
                for (int k1 = 3; k1 <= 96; ++k1)
                    for (int k2 = k1 + 1; k2 <= 97; ++k2) {
                        if (!full && ((k1 * 7 + k2 * 3 + n) % 16) != 0) continue;
                        if (!full) custom_too(Json::object().set("n", n).set("type", t).set("w1", k1 / 100.0).set("w2", k2 / 100.0), n, k1 + k2);
                        if (!ctx.mine()) continue;
                        ctx.eval(Json::object().set("n", n).set("type", t).set("w1", k1 / 100.0).set("w2", k2 / 100.0));
                    }
            }
        }
    }
    // random orders to 2000, random cut-offs in (0.02, 0.98), default and custom windows (rect, Hann, Kaiser, Hamming)
    ctx.rc("random", ctx.by_tier(800000, 4000000), [&]() {
        int wk = pick(0, W_NKINDS - 1);
        int t = pick(0, 3);
        int n = pick(0, 3) == 0 ? pick(2, 64) : pick_log(2, 2000);
        double a = 0.02 + 0.96 * (double(pick(1, (1 << 20) - 1)) / double(1 << 20));
        double b = 0.02 + 0.96 * (double(pick(1, (1 << 20) - 1)) / double(1 << 20));
        if (a > b) std::swap(a, b);
        if (a == b) b = std::min(0.9799, b + 1e-3), a = std::min(a, b - 1e-4);
        Json c = Json::object().set("n", n).set("type", t).set("w1", a);
        if (t >= T_BP) c.set("w2", b);
        c.set("wk", wk);
        if (wk == W_KAISER) c.set("beta", pick(0, 7) == 0 ? 0.0 : pickd(0, 40));
        return c;
    });
}

// =========================================================================================== fir1: Hamming-design masks
VK_SUB(mask, "fir1_mask");
static void mask_check(const Json& c, Out& o) {
    // wk: 0 = default window (old cases), W_HAMMING = closed-form Hamming values passed explicitly, W_LIBHAM = the
    // library's own window::hamming passed explicitly -- the masks are the Hamming-design masks in all three
    const int n = c.geti("n"), t = c.geti("type"), G = c.geti("grid"), wk = c.geti("wk", 0);
    const double w1 = c.getd("w1"), w2 = c.getd("w2", 0);
    const std::string d = dstr(n, t, w1, w2, wk);
    // bands (Nyquist = 1): edges 0 < e1 (< e2) < 1
    std::vector<ld> edges = {0, ld(w1)};
    if (t >= T_BP) edges.push_back(ld(w2));
    edges.push_back(1);
    const bool first_pass = (t == T_LOW || t == T_BS);
    const ld minw = 16 / ld(n + 1), half = 4 / ld(n + 1);
    bool pre = true;
    for (size_t b = 0; b + 1 < edges.size(); ++b) pre &= (edges[b + 1] - edges[b] > minw);
    if (!pre) { o.label("precondition not met (claim vacuous)"); return; }
    arr_real h;
    try {
        h = design(n, t, w1, w2, wk, 0);
    } catch (const std::exception& e) {
        if (wk == 0) throw;
        o.fail(std::string("fir1:threw:") + tname(t), d + " with a window of the documented length threw: " + e.what());
        return;
    }
    if (h.size() != expect_len(n, t)) { o.fail(fmt("fir1:length:%s:%s", tname(t), n % 2 ? "odd" : "even"), fmt("%s returned %d taps", d.c_str(), h.size())); return; }
    if (!all_finite(h)) { o.fail(fmt("fir1:nonfinite:%s", tname(t)), d + " returned a non-finite tap"); return; }
    const std::vector<ld> hl = to_ld(h);
    const Grid& g = grid(G);
    ld worst_pass = 0, worst_stop = 0;
    int jp = -1, js = -1, npass = 0, nstop = 0;
    size_t b = 0;
    for (int j = 0; j < G; ++j) {
        const ld f = ld(j) / ld(G - 1);
        while (b + 2 < edges.size() && f > edges[b + 1]) ++b;
        // outside every transition region (only the interior edges are band edges)
        bool clear = true;
        for (size_t e = 1; e + 1 < edges.size(); ++e) clear &= (std::fabs(f - edges[e]) > half);
        if (!clear) continue;
        const bool pass = ((b % 2 == 0) == first_pass);
        const ld m = resp_mag(hl, j, g);
        if (pass) { ++npass; ld dv = std::fabs(m - 1); if (dv > worst_pass || jp < 0) { worst_pass = dv; jp = j; } }
        else { ++nstop; if (m > worst_stop || js < 0) { worst_stop = m; js = j; } }
    }
    o.metric("pass-band deviation/0.02", double(worst_pass / 0.02L));
    o.metric("stop-band level/0.02", double(worst_stop / 0.02L));
    const char* par = n % 2 ? "odd" : "even";
    const char* xs = wk ? ":explicit-hamming" : "";
    if (!(worst_pass <= 0.02L))
        o.fail(fmt("fir1:mask:pass:%s:%s%s", tname(t), par, xs), fmt("%s: ||H(%.6Lg)|-1| = %.4Lg > 0.02 (grid %d, bands wider than 16/(n+1)=%.4Lg)", d.c_str(), ld(jp) / ld(G - 1), worst_pass, G, minw));
    if (!(worst_stop < 0.02L))
        o.fail(fmt("fir1:mask:stop:%s:%s%s", tname(t), par, xs), fmt("%s: |H(%.6Lg)| = %.4Lg >= 0.02 (grid %d, bands wider than 16/(n+1)=%.4Lg)", d.c_str(), ld(js) / ld(G - 1), worst_stop, G, minw));
    if (npass > 0 && nstop > 0) o.nontrivial(wk ? key_of(n, t, cut_bucket(w1), cut_bucket(w2), wk) : key_of(n, t, cut_bucket(w1), cut_bucket(w2)));
    o.label(fmt("type:%s:%s-order", tname(t), par));
    o.label(n <= 256 ? "n:32..256" : "n:257..2000");
    o.label(c.gets("cls", "grid cut-offs"));
    o.label(std::string("window:") + (wk ? wname(wk) : "default") + (wk ? " passed explicitly" : ""));
    if (n > 256) o.label(big_class(n, t, wk));
}
static void mask_gen(Ctx& ctx) {
    const int G = ctx.by_tier(512, 4096);
    // every order with a non-empty precondition x grid cut-offs (0.01 grid; every second band pair in quick)
    for (int n = 32; n <= 256; ++n) {
        const double m = 16.0 / (n + 1);
        for (int t = 0; t < 4; ++t) {
            if (t == T_LOW || t == T_HIGH) {
                for (int k = 3; k <= 97; ++k) {
                    const double w = k / 100.0;
                    if (!(w > m && 1 - w > m)) continue;
                    if (!ctx.mine()) continue;
                    ctx.eval(Json::object().set("n", n).set("type", t).set("w1", w).set("grid", G));
                }
            } else {
                for (int k1 = 3; k1 <= 96; ++k1)
                    for (int k2 = k1 + 1; k2 <= 97; ++k2) {
                        const double a = k1 / 100.0, b = k2 / 100.0;
                        if (!(a > m && b - a > m && 1 - b > m)) continue;
                        if (ctx.quick() && ((k1 + k2 + n) % 2) != 0) continue;
                        if (!ctx.mine()) continue;
                        ctx.eval(Json::object().set("n", n).set("type", t).set("w1", a).set("w2", b).set("grid", G));
                    }
            }
        }
    }
    // random orders to 2000, random cut-offs placed so that the precondition holds by construction; classes put one
    // band at its minimum admissible width (where the mask is tightest)
    auto draw = [&](bool explicit_window) {
        int t = pick(0, 3);
        int cls = pick(0, 3);
        int n = pick_log(t >= T_BP ? 49 : 33, 2000);
        const double m = 16.0 / (n + 1) * (1 + 1e-9) + 1e-12;
        Json c = Json::object().set("n", n).set("type", t);
        static const char* cn[] = {"random cut-offs", "first band at minimum width", "middle/last band at minimum width", "last band at minimum width"};
        if (t == T_LOW || t == T_HIGH) {
            const double s = 1 - 2 * m;
            double x = cls == 0 ? pickd(0, 1) : cls == 1 ? 0.0 : cls == 2 ? 1.0 : pickd(0.9, 1);
            c.set("w1", m + s * x);
        } else {
            const double s = 1 - 3 * m;
            double x1 = pickd(0, 1), x2 = pickd(0, 1) * (1 - x1);
            if (cls == 1) x1 = 0;
            if (cls == 2) x2 = 0;
            if (cls == 3) x2 = 1 - x1;
            const double a = m + s * x1;
            c.set("w1", a).set("w2", a + m + s * x2);
        }
        c.set("grid", G).set("cls", cn[cls]);
        if (explicit_window) c.set("wk", flip() ? int(W_HAMMING) : int(W_LIBHAM));
        return c;
    };
    ctx.rc("random", ctx.by_tier(120000, 200000), [&]() { return draw(false); });
    // the same masks with the Hamming window passed explicitly (closed-form values / the library's own window::hamming)
    ctx.rc("explicit-hamming", ctx.by_tier(30000, 60000), [&]() { return draw(true); });
}

// =========================================================================================== fir1: custom window length
VK_SUB(wlen, "fir1_window_length");
static void wlen_check(const Json& c, Out& o) {
    const int n = c.geti("n"), t = c.geti("type"), wk = c.geti("wk"), len = c.geti("len");
    const double w1 = c.getd("w1"), w2 = c.getd("w2", 0), beta = c.getd("beta", 0);
    const int R = expect_len(n, t);
    const std::string d = dstr(n, t, w1, w2, wk) + fmt(" with a window of %d values (documented length %d)", len, R);
    bool threw = false, nonstd = false;
    int got = -1;
    std::string what;
    try {
        arr_real h = design(n, t, w1, w2, wk, beta, len);
        got = h.size();
    } catch (const std::exception& e) {
        threw = true;
        what = e.what();
    } catch (...) {
        threw = true;
        nonstd = true;
    }
    const char* par = n % 2 ? "odd" : "even";
    if (nonstd) o.fail(fmt("fir1:window-length:nonstd-exception:%s", tname(t)), d + " threw something that is not a std::exception");
    else if (len != R && !threw) o.fail(fmt("fir1:window-length:accepted:%s:%s", tname(t), len > R ? "longer" : "shorter"), d + fmt(" was accepted (returned %d taps)", got));
    else if (len == R && threw) o.fail(fmt("fir1:window-length:rejected:%s:%s", tname(t), par), d + " was rejected: " + what);
    else if (len == R && got != R) o.fail(fmt("fir1:length:%s:%s", tname(t), par), d + fmt(" returned %d taps", got));
    o.nontrivial(key_of(n, t, len - R, wk));
    o.label(fmt("type:%s:%s-order", tname(t), par));
    o.label(len == R ? "right length" : fmt("wrong length R%+d", len - R > 3 ? 99 : len - R < -3 ? -99 : len - R));
    o.label(std::string("window:") + wname(wk));
    if (n > 256) o.label(big_class(n, t, wk));
}
static void wlen_gen(Ctx& ctx) {
    std::vector<int> orders;
    for (int n = 2; n <= ctx.by_tier(128, 256); ++n) orders.push_back(n);
    {
        Rng r(mix(ctx.seed, 0xC11B));
        for (int k = 0; k < ctx.by_tier(32, 128); ++k) orders.push_back(sampled_order(r, k));   // alternating parity
    }
    for (int n : orders)
        for (int t = 0; t < 4; ++t) {
            const int lens[] = {0, 1, n - 1, n, n + 1, n + 2, n + 3, n + 4, 2 * n + 2, 2 * n + 3};
            for (int len : lens)
                for (int wk = W_RECT; wk <= W_KAISER; ++wk) {
                    if (!ctx.mine()) continue;
                    Rng r(mix(ctx.seed, key_of(n, t, len, wk)));
                    double a = r.uni(0.021, 0.979), b = r.uni(0.021, 0.979);
                    if (a > b) std::swap(a, b);
                    if (b - a < 1e-3) { a = 0.3; b = 0.6; }
                    Json c = Json::object().set("n", n).set("type", t).set("w1", a);
                    if (t >= T_BP) c.set("w2", b);
                    c.set("wk", wk).set("len", len);
                    if (wk == W_KAISER) c.set("beta", r.uni(0, 40));
                    ctx.eval(c);
                }
        }
    ctx.rc("random", ctx.by_tier(40000, 400000), [&]() {
        int t = pick(0, 3);
        int n = pick_log(2, 2000);
        int R = expect_len(n, t);
        int len = pick(0, 2) == 0 ? pick(0, 2 * R + 4) : R + pick(-3, 3);
        if (len < 0) len = 0;
        int wk = pick(W_RECT, W_HAMMING);
        double a = 0.02 + 0.96 * (double(pick(1, (1 << 20) - 1)) / double(1 << 20));
        double b = 0.02 + 0.96 * (double(pick(1, (1 << 20) - 1)) / double(1 << 20));
        if (a > b) std::swap(a, b);
        if (a == b) b = std::min(0.9799, b + 1e-3), a = std::min(a, b - 1e-4);
        Json c = Json::object().set("n", n).set("type", t).set("w1", a);
        if (t >= T_BP) c.set("w2", b);
        c.set("wk", wk).set("len", len);
        if (wk == W_KAISER) c.set("beta", pickd(0, 40));
        return c;
    });
}

// =========================================================================================== windows: closed form, range, symmetry
VK_SUB(wcf, "window_closed_form");
static void wcf_check(const Json& c, Out& o) {
    const int fam = c.geti("fam"), n = c.geti("n");
    const bool sym = c.geti("sym") != 0;
    const double p = c.getd("p", 0);
    const std::string d = has_param(fam) ? fmt("window::%s(%d, %.17g%s)", fam_name(fam), n, p, has_periodic(fam) ? (sym ? ", sym" : ", periodic") : "")
                                         : fmt("window::%s(%d, %s)", fam_name(fam), n, sym ? "sym" : "periodic");
    arr_real w = lib_window(fam, n, sym, p);
    const std::string tag = std::string(fam_name(fam)) + (sym ? "" : ":periodic");
    if (w.size() != n) { o.fail("window:size:" + tag, fmt("%s returned %d values", d.c_str(), w.size())); return; }
    const int N = sym ? n : n + 1;
    const ld i0b = fam == F_KAISER ? ld_i0(p) : 0;
    ld worst = 0;
    int wi = -1;
    const ld rtol = 16 * ld(EPS);
    for (int i = 0; i < n; ++i) {
        const ld ref = win_ref(fam, N, i, p, i0b);
        const ld tol = win_tol(fam, p, ref);
        const ld e = std::fabs(ld(w[i]) - ref);
        const ld q = std::isfinite(w[i]) ? e / tol : 1e300L;
        if (q > worst || wi < 0) { worst = q; wi = i; }
        if (!(w[i] >= -double(rtol) && w[i] <= 1 + double(rtol))) {
            o.fail("window:range:" + tag, fmt("%s[%d] = %.17g is outside [0,1] (allowance 16 eps)", d.c_str(), i, w[i]));
            break;
        }
    }
    o.metric(std::string("closed-form err/tol ") + fam_name(fam), double(worst));
    if (!(worst <= 1)) {
        const ld ref = win_ref(fam, N, wi, p, i0b);
        o.fail("window:closed-form:" + tag, fmt("%s[%d] = %.17g, closed form %.20Lg, |diff| = %.3Lg > tol %.3Lg", d.c_str(), wi, w[wi], ref, std::fabs(ld(w[wi]) - ref), win_tol(fam, p, ref)));
    }
    if (sym) {
        for (int i = 0; i < n / 2; ++i)
            if (!(w[i] == w[n - 1 - i])) {
                o.fail("window:symmetry:" + tag, fmt("%s: w[%d] = %.17g but w[%d] = %.17g", d.c_str(), i, w[i], n - 1 - i, w[n - 1 - i]));
                break;
            }
    }
    o.nontrivial(key_of(fam, n, int(sym), has_param(fam) ? int64_t(std::floor(p * 8)) : 0));
    o.label(fmt("%s:%s", fam_name(fam), has_periodic(fam) ? (sym ? "symmetric" : "periodic") : "symmetric-only"));
    o.label(nclass(n));
    if (has_param(fam)) o.label(param_label(fam, p));
}
static double enum_param(int fam, int j, Rng& r) {
    // j-th parameter value of the enumeration: fixed special values first, then seeded draws over the stated range
    if (fam == F_GAUSS) { const double v[] = {2.5, 0.5, 6.0}; return j < 3 ? v[j] : r.uni(0.5, 6.0); }
    if (fam == F_TUKEY) { const double v[] = {0.5, 0.0, 1.0, -0.5, 1.5}; return j < 5 ? v[j] : j == 5 ? r.uni(0, 0.01) : j == 6 ? r.uni(0.99, 1.0) : r.uni(0.0, 1.0); }
    const double v[] = {0.5, 0.0, 40.0, 38.0};
    return j < 4 ? v[j] : (j % 4 == 0) ? std::pow(10.0, r.uni(-14, 1.6)) : r.uni(0, 40);
}
static void wcf_gen(Ctx& ctx) {
    std::vector<int> lens;
    for (int n = 3; n <= 512; ++n) lens.push_back(n);
    {
        Rng r(mix(ctx.seed, 0xC11C));
        for (int k = 0; k < ctx.by_tier(24, 96); ++k) lens.push_back(int(std::floor(std::pow(10.0, r.uni(std::log10(513.0), 5.0)))));
        lens.push_back(100000);
        lens.push_back(99999);
    }
    const int npar = ctx.by_tier(16, 24);
    for (int n : lens)
        for (int fam = 0; fam < F_NFAM; ++fam)
            for (int sym = 1; sym >= (has_periodic(fam) ? 0 : 1); --sym)
                for (int j = 0; j < (has_param(fam) ? npar : 1); ++j) {
                    if (!ctx.mine()) continue;
                    Rng r(mix(ctx.seed, key_of(n, fam, sym, j)));
                    Json c = Json::object().set("fam", fam).set("n", n).set("sym", sym);
                    if (has_param(fam)) c.set("p", enum_param(fam, j, r));
                    ctx.eval(c);
                }
    ctx.rc("random", ctx.by_tier(200000, 800000), [&]() {
        int fam = pick(0, F_NFAM - 1);
        int n = pick(0, 2) == 0 ? pick(3, 512) : pick_log(3, 100000);
        int sym = has_periodic(fam) ? pick(0, 1) : 1;
        Json c = Json::object().set("fam", fam).set("n", n).set("sym", sym);
        if (fam == F_GAUSS) c.set("p", pickd(0.5, 6));
        if (fam == F_TUKEY) { int k = pick(0, 7); c.set("p", k == 0 ? 0.0 : k == 1 ? 1.0 : k == 2 ? pickd(-0.5, 0) : k == 3 ? pickd(1, 1.5) : k == 4 ? pickd(0, 0.01) : pickd(0, 1)); }
        // continuous parameters also log-uniformly towards the end of their range that is 0 (a shortcut for "vanishing" values needs it)
        if (fam == F_KAISER) { const int k = pick(0, 9); c.set("p", k == 0 ? 0.0 : k <= 2 ? std::pow(10.0, pickd(-14, 1.6)) : pickd(0, 40)); }
        if (fam == F_TUKEY && pick(0, 7) == 0) c.set("p", flip() ? std::pow(10.0, pickd(-14, 0)) : 1.0 - std::pow(10.0, pickd(-14, 0)));
        return c;
    });
}

// =========================================================================================== windows: periodic(n) vs symmetric(n+1)
VK_SUB(wper, "window_periodic");
static void wper_check(const Json& c, Out& o) {
    const int fam = c.geti("fam"), n = c.geti("n");
    const double p = c.getd("p", 0);
    const std::string d = fmt("window::%s(%d%s, periodic)", fam_name(fam), n, has_param(fam) ? fmt(", %.17g", p).c_str() : "");
    arr_real wp = lib_window(fam, n, false, p);
    arr_real ws = lib_window(fam, n + 1, true, p);
    if (wp.size() != n) { o.fail(std::string("window:size:") + fam_name(fam) + ":periodic", fmt("%s returned %d values", d.c_str(), wp.size())); return; }
    if (ws.size() != n + 1) { o.fail(std::string("window:size:") + fam_name(fam), fmt("symmetric window of length %d returned %d values", n + 1, ws.size())); return; }
    const ld tol = 4 * ld(EPS);
    ld worst = 0;
    int wi = 0;
    for (int i = 0; i < n; ++i) {
        ld e = std::isfinite(wp[i]) && std::isfinite(ws[i]) ? std::fabs(ld(wp[i]) - ld(ws[i])) : 1e300L;
        if (e > worst) { worst = e; wi = i; }
    }
    o.metric("periodic-vs-symmetric(n+1) err/tol", double(worst / tol));
    if (!(worst <= tol))
        o.fail(std::string("window:periodic:") + fam_name(fam) + (n % 2 ? ":odd" : ":even"), fmt("%s[%d] = %.17g but symmetric(%d)[%d] = %.17g", d.c_str(), wi, wp[wi], n + 1, wi, ws[wi]));
    o.nontrivial(key_of(fam, n, has_param(fam) ? int64_t(std::floor(p * 8)) : 0));
    o.label(std::string(fam_name(fam)) + (n % 2 ? ":n odd" : ":n even"));
    o.label(nclass(n));
}
static void wper_gen(Ctx& ctx) {
    std::vector<int> lens;
    for (int n = 3; n <= 512; ++n) lens.push_back(n);
    {
        Rng r(mix(ctx.seed, 0xC11D));
        for (int k = 0; k < ctx.by_tier(24, 96); ++k) lens.push_back(int(std::floor(std::pow(10.0, r.uni(std::log10(513.0), 5.0)))));
        lens.push_back(100000);
        lens.push_back(99999);
    }
    for (int n : lens)
        for (int fam = 0; fam < F_NFAM; ++fam) {
            if (!has_periodic(fam)) continue;
            for (int j = 0; j < (has_param(fam) ? ctx.by_tier(6, 16) : 1); ++j) {
                if (!ctx.mine()) continue;
                Rng r(mix(ctx.seed, key_of(n, fam, j, 7)));
                Json c = Json::object().set("fam", fam).set("n", n);
                if (has_param(fam)) c.set("p", enum_param(fam, j, r));
                ctx.eval(c);
            }
        }
    ctx.rc("random", ctx.by_tier(100000, 400000), [&]() {
        const std::vector<int> fams = {F_HANN, F_HAMMING, F_BLACKMAN, F_BLACKMANHARRIS, F_COSINE, F_GAUSS};
        int fam = one_of(fams);
        int n = pick(0, 2) == 0 ? pick(3, 512) : pick_log(3, 100000);
        Json c = Json::object().set("fam", fam).set("n", n);
        if (fam == F_GAUSS) c.set("p", pickd(0.5, 6));
        return c;
    });
}

// =========================================================================================== fir1: a custom window is applied
// lib/fir.cpp builds every design on _lowpass_fir(n', fc, win):  g[i] = fl(sin(2 pi fc t_i)/t_i) * win[i] for the first half
// (t_i = i - n'/2), mirrored into the second half; for even n' the centre tap is 2 pi fc (win[n'/2] is not used);
// h = g / sum(g) (std::accumulate in double).  Low: n' = n, fc = wn/2.  High: n' = n + (n odd), fc = (1-wn)/2, every second
// tap negated.  Bandpass: fc = (wn2/2 - wn1/2)/2, h = 2 h_lp cos(2 pi wc t).  Bandstop: n' = n + (n odd), h = -h_bp, centre + 1.
// The default overloads call exactly this code with window::hamming(n'+1).  With s_i = fl(sin/t) bit-identical in both calls,
//     h_custom[i] * ham[i] = k * h_default[i] * w[i],   k = S_ham / S_w,   S_x = sum_i s_i x[i] (+ 2 pi fc x[n'/2], n' even)
// for every tap i (Bandstop centre: 1 - h in place of h): ONE factor, fixed by the unit-DC-gain normalisation of the
// low-pass prototype.  S_x is computed here in long double from the window values; the library's double sum differs from it
// by at most errS = eps (2 pi fc sum|x| + (M/2 + 2) sum|s_i x_i|) (argument rounding of the sine, M-term recursive summation).
// Tolerance per tap: (8 eps + errS_w/|S_w| + errS_ham/|S_ham|) max(|lhs|,|rhs|)  (+ eps (|h| terms) for the Bandstop centre).
namespace {
struct NormSum { ld S{0}, err{0}; };
NormSum norm_sum(int np, double fc, const arr_real& x) {
    const int M = np + 1, L = M / 2;
    const ld c = 2 * PI_L * ld(fc);
    ld S = 0, A = 0, W = 0;
    for (int i = 0; i < L; ++i) {
        const ld t = ld(i) - ld(np) / 2;
        const ld sx = sinl(c * t) / t * ld(x[i]);
        S += 2 * sx;
        A += 2 * std::fabs(sx);
        W += 2 * std::fabs(ld(x[i]));
    }
    if (np % 2 == 0) { S += c * ld(x[L]); A += std::fabs(c * ld(x[L])); }
    NormSum r;
    r.S = S;
    r.err = ld(EPS) * (c * W + (ld(M) / 2 + 2) * A);
    return r;
}
bool same_bits(const arr_real& a, const arr_real& b, int& at) {
    at = -1;
    if (a.size() != b.size()) return false;
    for (int i = 0; i < a.size(); ++i)
        if (std::memcmp(&a[i], &b[i], sizeof(double)) != 0) { at = i; return false; }
    return true;
}
}   // namespace

VK_SUB(wapp, "fir1_window_applied");
static void wapp_check(const Json& c, Out& o) {
    const int n = c.geti("n"), t = c.geti("type"), wk = c.geti("wk");
    const double w1 = c.getd("w1"), w2 = c.getd("w2", 0), beta = c.getd("beta", 0), centre = c.getd("centre", 1.0);
    const uint64_t wseed = c.has("wseed") ? c.getu("wseed") : 0;
    const std::string d = dstr(n, t, w1, w2, wk);
    const int M = expect_len(n, t), np = M - 1, L = M / 2;
    const char* par = n % 2 ? "odd" : "even";
    const arr_real w = custom_window(wk, M, beta, wseed, centre);
    const arr_real ham = window::hamming(M);
    arr_real hc, hd;
    try {
        hd = design(n, t, w1, w2, W_DEFAULT, 0);
        hc = design_win(n, t, w1, w2, w);
    } catch (const std::exception& e) {
        o.fail(std::string("fir1:threw:") + tname(t), d + " with a window of the documented length threw: " + e.what());
        return;
    }
    if (hc.size() != M || hd.size() != M) { o.fail(fmt("fir1:length:%s:%s", tname(t), par), fmt("%s returned %d taps, default design %d, expected %d", d.c_str(), hc.size(), hd.size(), M)); return; }
    if (!all_finite(hc) || !all_finite(hd)) { o.fail(fmt("fir1:nonfinite:%s", tname(t)), d + " returned a non-finite tap"); return; }
    o.label(fmt("type:%s:%s-order", tname(t), par));
    o.label(std::string("window:") + wname(wk));
    o.label(n <= 256 ? "n:2..256" : "n:257..2000");
    if (n > 256) o.label(big_class(n, t, wk));
    if (wk == W_LIBHAM) {
        // (a) the default overload forwards window::hamming(n'+1) to the custom-window overload: same code, same bits
        int at;
        if (!same_bits(hc, hd, at))
            o.fail(fmt("fir1:window-applied:lib-hamming-differs:%s", tname(t)), fmt("%s with window::hamming(%d): tap %d = %.17g, default design %.17g (must be bit-identical)", d.c_str(), M, at, hc[std::max(at, 0)], hd[std::max(at, 0)]));
        o.nontrivial(key_of(n, t, cut_bucket(w1), cut_bucket(w2), wk));
        o.label("library Hamming passed explicitly == default design (bit-exact)");
        return;
    }
    // (b) re-windowing relation
    double fc;
    if (t == T_LOW) fc = w1 / 2;
    else if (t == T_HIGH) fc = (1 - w1) / 2;
    else { const double a = w1 / 2, b = w2 / 2; fc = (b - a) / 2; }
    const NormSum sw = norm_sum(np, fc, w), sh = norm_sum(np, fc, ham);
    const bool centre_off = (np % 2 == 0) && std::fabs(w[L] - 1) > 4 * EPS;
    if (!(std::fabs(sw.S) > 0) || !(std::fabs(sh.S) > 0)) { o.discard = true; return; }
    const ld rel = 8 * ld(EPS) + sw.err / std::fabs(sw.S) + sh.err / std::fabs(sh.S);
    if (!(rel < 1e-6L)) { o.discard = true; return; }   // normalising sum cancels: the design itself is ill-conditioned in w
    const ld k = sh.S / sw.S;
    ld worst = 0, lhs_w = 0, rhs_w = 0, tol_w = 0, bmax = 0;
    int wi = -1;
    for (int i = 0; i < M; ++i) {
        ld xc = ld(hc[i]), xd = ld(hd[i]), extra = 0;
        if (t == T_BS && i == np / 2) {   // np is even for every Bandstop design; undo "centre + 1" (one rounding of |h| each)
            extra = ld(EPS) * (std::fabs(xc) * ld(ham[i]) + std::fabs(k) * std::fabs(xd) * ld(w[i]));
            xc = 1 - xc;
            xd = 1 - xd;
        }
        const ld lhs = xc * ld(ham[i]), rhs = k * xd * ld(w[i]);
        const ld tol = rel * std::max(std::fabs(lhs), std::fabs(rhs)) + extra;
        const ld e = std::fabs(lhs - rhs);
        bmax = std::max(bmax, std::fabs(rhs));
        const ld q = tol > 0 ? e / tol : (e > 0 ? 1e300L : 0);
        if (q > worst || wi < 0) { worst = q; wi = i; lhs_w = lhs; rhs_w = rhs; tol_w = tol; }
    }
    o.metric("re-window err/tol", double(worst));
    o.metric("re-window rel tol / eps", double(rel / ld(EPS)));
    if (!(worst <= 1)) {
        const std::string sig = centre_off ? fmt("fir1:window-applied:centre-weight-ignored:%s", tname(t)) : fmt("fir1:window-applied:%s:%s", tname(t), par);
        o.fail(sig, fmt("%s, window %s%s: tap %d: h_custom*hamming = %.17Lg but (S_ham/S_w) h_default*w = %.17Lg (factor %.17Lg, w[%d] = %.17g, |diff| = %.3Lg > tol %.3Lg)%s", d.c_str(), wname(wk),
                        wk == W_RANDOM ? fmt(" seed %llu", (unsigned long long)wseed).c_str() : "", wi, lhs_w, rhs_w, k, wi, w[wi], std::fabs(lhs_w - rhs_w), tol_w,
                        centre_off ? fmt(" [window centre value %.17g != 1 at even effective order %d]", w[L], np).c_str() : ""));
    }
    if (bmax > 0) o.nontrivial(key_of(n, t, cut_bucket(w1), cut_bucket(w2), wk));
    if (wk == W_RANDOM && np % 2 == 0 && !centre_off)
        o.label("excluded:random window with centre weight != 1 at even effective order (library ignores win[n'/2]) - centre forced to 1");
    if (centre_off) o.label("window centre weight != 1 at even effective order (replay only)");
}
static void wapp_gen(Ctx& ctx) {
    static const int kinds[] = {W_LIBHAM, W_HAMMING, W_HANN, W_BLACKMAN, W_KAISER, W_RECT, W_RANDOM};
    std::vector<int> orders;
    for (int n = 2; n <= 256; ++n) orders.push_back(n);
    {
        Rng r(mix(ctx.seed, 0xC11E));
        for (int k = 0; k < ctx.by_tier(16, 64); ++k) orders.push_back(sampled_order(r, k));
    }
    // every order 2..256 (+ sampled to 2000, alternating parity) x 4 types x 7 window kinds x 3 seeded cut-offs (pairs)
    for (int n : orders)
        for (int t = 0; t < 4; ++t)
            for (int wk : kinds)
                for (int j = 0; j < 3; ++j) {
                    if (!ctx.mine()) continue;
                    Rng r(mix(ctx.seed, key_of(n, t, wk, j, 0xA9)));
                    double a = r.uni(0.021, 0.979), b = r.uni(0.021, 0.979);
                    if (a > b) std::swap(a, b);
                    if (b - a < 1e-3) { a = 0.3; b = 0.6; }
                    Json c = Json::object().set("n", n).set("type", t).set("w1", a);
                    if (t >= T_BP) c.set("w2", b);
                    c.set("wk", wk);
                    if (wk == W_KAISER) c.set("beta", j == 0 ? 0.0 : r.uni(0, 40));
                    if (wk == W_RANDOM) c.set("wseed", r.next() >> 12);
                    ctx.eval(c);
                }
    ctx.rc("random", ctx.by_tier(40000, 400000), [&]() {
        int wk = kinds[pick(0, 6)];
        int t = pick(0, 3);
        int n = pick(0, 3) == 0 ? pick(2, 64) : pick_log(2, 2000);
        double a = 0.02 + 0.96 * (double(pick(1, (1 << 20) - 1)) / double(1 << 20));
        double b = 0.02 + 0.96 * (double(pick(1, (1 << 20) - 1)) / double(1 << 20));
        if (a > b) std::swap(a, b);
        if (a == b) b = std::min(0.9799, b + 1e-3), a = std::min(a, b - 1e-4);
        Json c = Json::object().set("n", n).set("type", t).set("w1", a);
        if (t >= T_BP) c.set("w2", b);
        c.set("wk", wk);
        if (wk == W_KAISER) c.set("beta", pick(0, 7) == 0 ? 0.0 : pickd(0, 40));
        if (wk == W_RANDOM) c.set("wseed", seed64() >> 12);
        return c;
    });
}

// =========================================================================================== defaulted arguments forward the header defaults
// include/dsplib/fir.h:  fir1(int n, real_t wn, FilterType ftype = FilterType::Low),
//                        fir1(int n, real_t wn1, real_t wn2, FilterType ftype = FilterType::Bandpass)
// include/dsplib/window.h: cosine/hann/hamming/blackman/blackmanharris(int n, bool sym = true),
//                        gauss(int n, real_t alpha = 2.5, bool sym = true), kaiser(int n, real_t beta = 0.5), tukey(int n, real_t r = 0.5)
// The short call must return the same bits as the call with these values written out (correctness of the explicit calls is
// decided by the other sub-checks; this one only pins that the short forms forward the documented defaults).
enum { D_FIR_LOW = 0, D_FIR_BP, D_WIN, D_GAUSS_SYM, D_NAPI };
VK_SUB(dflt, "default_arguments");
static void dflt_check(const Json& c, Out& o) {
    const int api = c.geti("api"), n = c.geti("n"), fam = c.geti("fam", 0);
    const double w1 = c.getd("w1", 0), w2 = c.getd("w2", 0), p = c.getd("p", 0);
    arr_real s, e;
    std::string what, sig;
    switch (api) {
    case D_FIR_LOW:
        s = fir1(n, w1);
        e = fir1(n, w1, FilterType::Low);
        what = fmt("fir1(%d, %.17g) vs fir1(%d, %.17g, FilterType::Low)", n, w1, n, w1);
        sig = "default-arg:fir1:type-low";
        break;
    case D_FIR_BP:
        s = fir1(n, w1, w2);
        e = fir1(n, w1, w2, FilterType::Bandpass);
        what = fmt("fir1(%d, %.17g, %.17g) vs fir1(%d, %.17g, %.17g, FilterType::Bandpass)", n, w1, w2, n, w1, w2);
        sig = "default-arg:fir1:type-bandpass";
        break;
    case D_GAUSS_SYM:
        s = window::gauss(n, p);
        e = window::gauss(n, p, true);
        what = fmt("window::gauss(%d, %.17g) vs window::gauss(%d, %.17g, true)", n, p, n, p);
        sig = "default-arg:window:gauss:sym";
        break;
    default:
        switch (fam) {
        case F_HANN: s = window::hann(n); e = window::hann(n, true); break;
        case F_HAMMING: s = window::hamming(n); e = window::hamming(n, true); break;
        case F_BLACKMAN: s = window::blackman(n); e = window::blackman(n, true); break;
        case F_BLACKMANHARRIS: s = window::blackmanharris(n); e = window::blackmanharris(n, true); break;
        case F_COSINE: s = window::cosine(n); e = window::cosine(n, true); break;
        case F_GAUSS: s = window::gauss(n); e = window::gauss(n, 2.5, true); break;
        case F_TUKEY: s = window::tukey(n); e = window::tukey(n, 0.5); break;
        default: s = window::kaiser(n); e = window::kaiser(n, 0.5); break;
        }
        what = fam == F_GAUSS ? fmt("window::gauss(%d) vs window::gauss(%d, 2.5, true)", n, n)
               : fam == F_TUKEY ? fmt("window::tukey(%d) vs window::tukey(%d, 0.5)", n, n)
               : fam == F_KAISER ? fmt("window::kaiser(%d) vs window::kaiser(%d, 0.5)", n, n)
                                 : fmt("window::%s(%d) vs window::%s(%d, true)", fam_name(fam), n, fam_name(fam), n);
        sig = std::string("default-arg:window:") + fam_name(fam);
        break;
    }
    int at;
    if (!same_bits(s, e, at)) {
        if (at < 0) o.fail(sig, fmt("%s: %d values vs %d values", what.c_str(), s.size(), e.size()));
        else o.fail(sig, fmt("%s: value %d is %.17g vs %.17g (must be bit-identical)", what.c_str(), at, s[at], e[at]));
    }
    if (s.size() > 0) o.nontrivial(key_of(api, fam, n, cut_bucket(w1), cut_bucket(w2)));
    o.label(api == D_FIR_LOW ? "fir1(n, wn): type defaults to Low" : api == D_FIR_BP ? "fir1(n, wn1, wn2): type defaults to Bandpass"
            : api == D_GAUSS_SYM ? "window::gauss(n, alpha): sym defaults to true"
            : fam == F_GAUSS ? "window::gauss(n): alpha = 2.5, sym = true" : fam == F_TUKEY ? "window::tukey(n): r = 0.5" : fam == F_KAISER ? "window::kaiser(n): beta = 0.5"
                             : fmt("window::%s(n): sym defaults to true", fam_name(fam)));
    o.label(api <= D_FIR_BP ? (n <= 256 ? (n % 2 ? "fir1 n:2..256 odd" : "fir1 n:2..256 even") : (n % 2 ? "fir1 n:257..2000 odd" : "fir1 n:257..2000 even")) : nclass(n));
}
static void dflt_gen(Ctx& ctx) {
    // fir1 short forms: every order 2..256 + sampled to 2000 x 2 seeded cut-offs (pairs)
    std::vector<int> orders;
    for (int n = 2; n <= 256; ++n) orders.push_back(n);
    {
        Rng r(mix(ctx.seed, 0xC120));
        for (int k = 0; k < ctx.by_tier(16, 64); ++k) orders.push_back(sampled_order(r, k));
    }
    for (int n : orders)
        for (int api = D_FIR_LOW; api <= D_FIR_BP; ++api)
            for (int j = 0; j < 2; ++j) {
                if (!ctx.mine()) continue;
                Rng r(mix(ctx.seed, key_of(n, api, j, 0xD1)));
                double a = r.uni(0.021, 0.979), b = r.uni(0.021, 0.979);
                if (a > b) std::swap(a, b);
                if (b - a < 1e-3) { a = 0.3; b = 0.6; }
                Json c = Json::object().set("api", api).set("n", n).set("w1", a);
                if (api == D_FIR_BP) c.set("w2", b);
                ctx.eval(c);
            }
    // window short forms: every length 3..512 + sampled to 1e5 x 8 families (+ gauss(n, alpha) with sym defaulted)
    std::vector<int> lens;
    for (int n = 3; n <= 512; ++n) lens.push_back(n);
    {
        Rng r(mix(ctx.seed, 0xC121));
        for (int k = 0; k < ctx.by_tier(8, 32); ++k) lens.push_back(int(std::floor(std::pow(10.0, r.uni(std::log10(513.0), 5.0)))));
    }
    for (int n : lens)
        for (int fam = 0; fam <= F_NFAM; ++fam) {
            if (!ctx.mine()) continue;
            if (fam < F_NFAM) ctx.eval(Json::object().set("api", int(D_WIN)).set("n", n).set("fam", fam));
            else {
                Rng r(mix(ctx.seed, key_of(n, 0xD2)));
                ctx.eval(Json::object().set("api", int(D_GAUSS_SYM)).set("n", n).set("fam", int(F_GAUSS)).set("p", r.uni(0.5, 6.0)));
            }
        }
    ctx.rc("random", ctx.by_tier(8000, 80000), [&]() {
        int api = pick(0, D_NAPI - 1);
        Json c = Json::object().set("api", api);
        if (api <= D_FIR_BP) {
            int n = pick_log(2, 2000);
            double a = 0.02 + 0.96 * (double(pick(1, (1 << 20) - 1)) / double(1 << 20));
            double b = 0.02 + 0.96 * (double(pick(1, (1 << 20) - 1)) / double(1 << 20));
            if (a > b) std::swap(a, b);
            if (a == b) b = std::min(0.9799, b + 1e-3), a = std::min(a, b - 1e-4);
            c.set("n", n).set("w1", a);
            if (api == D_FIR_BP) c.set("w2", b);
        } else {
            c.set("n", pick_log(3, 100000));
            if (api == D_GAUSS_SYM) c.set("fam", int(F_GAUSS)).set("p", pickd(0.5, 6));
            else c.set("fam", pick(0, F_NFAM - 1));
        }
        return c;
    });
}

VK_FRESH_THREADS;
VK_MAIN("C11")
