// C14  Analytic-signal and frequency-translation tools follow their definitions.
//
//   hilbert_analytic   hilbert(x): Re y = x (128 n eps max|x|), DFT(y) vanishes on the negative-frequency bins
//                      (64 n eps ||Y||_2, per bin), positive bins = 2 X (consequence of the two), DC/Nyquist bins = X
//                      (standard discrete analytic signal: the imaginary part carries no DC/Nyquist term).
//   hilbert_resize     hilbert(x, n2) is bit-identical to hilbert of x zero-padded / truncated to n2.
//   hfilter_delay      HilbertFilter (designed and custom type-III taps): real part == input delayed by D=(M-1)/2, bit-exact,
//                      zero initial state, arbitrary input, arbitrary framing.
//   hfilter_tone       HilbertFilter(flen, tw): stream of tone segments A cos(2 pi f m + phi); from the M-th sample of a segment
//                      the imaginary part equals A sin(2 pi f (m-D) + phi) within 1e-3 A for f in [fmin, 0.5-fmin],
//                      fmin = max(2 tw, 6/M); real part bit-exact; arbitrary framing.
//   tuner_stream       Tuner(fs, f): output k == x[k] exp(2 pi i f k / fs) (long double, double-valued f) within
//                      4 eps (1 + 2 pi |f| k / fs) |x[k]| for every k of a 2..6 fs long stream, arbitrary framing.
#include "kit/num.h"
#include "kit/prelude.h"
#include <dsplib.h>
#include <memory>

using namespace vk;
using namespace dsplib;

namespace {

bool same_bits(double a, double b) { return a == b; }   // -0 == +0; NaN never equal (and never expected)

// ------------------------------------------------------------------------------------------- framing
enum { FR_ONE = 0, FR_FIXED, FR_RANDOM, FR_PIVOT, FR_ONES, FR_NMODES };
const char* frame_name(int m) {
    static const char* n[] = {"one-block", "fixed", "random", "around-pivot", "single-samples"};
    return (m >= 0 && m < FR_NMODES) ? n[m] : "?";
}
// frame sizes (all >= 1) that sum to total
std::vector<int> make_frames(Rng& r, int total, int mode, int pivot) {
    std::vector<int> f;
    int left = total;
    auto push = [&](int k) { k = std::max(1, std::min(k, left)); f.push_back(k); left -= k; };
    switch (mode) {
    case FR_ONE: push(total); break;
    case FR_FIXED: { int b = r.range(2, 97); while (left > 0) push(b); break; }
    case FR_RANDOM: {
        int maxb = 1 << r.range(1, 12);
        while (left > 0) push(r.range(1, maxb));
        break;
    }
    case FR_PIVOT: {
        while (left > 0) {
            int k = pivot + r.range(-2, 2);
            if (r.range(0, 7) == 0) k = r.range(1, 3);
            push(k);
        }
        break;
    }
    default: {   // single samples (bounded: after 4096 one-sample frames continue with random frames)
        int ones = std::min(total, 4096);
        for (int i = 0; i < ones; ++i) push(1);
        while (left > 0) push(r.range(1, 1 << 10));
    }
    }
    return f;
}

// ------------------------------------------------------------------------------------------- hilbert inputs
enum HClass { H_CONST = 0, H_ALT, H_IMPULSE, H_TONE_ZM, H_TONE_DC, H_TONE_NYQ, H_TONE_OFF, H_RAMP, H_GAUSS, H_GAUSS_ZM, H_DYN, H_NCLASSES };
const char* hclass_name(int c) {
    static const char* n[] = {"const", "alternating", "impulse", "tone-onbin-zero-mean", "tone-onbin+dc", "tone-onbin+nyquist+dc", "tone-offbin",
                              "ramp", "gauss", "gauss-no-dc-no-nyquist", "dynrange"};
    return (c >= 0 && c < H_NCLASSES) ? n[c] : "?";
}
std::vector<double> hilbert_input(Rng& r, int n, int cls) {
    std::vector<double> x(static_cast<size_t>(n), 0.0);
    auto tone = [&](double k, double a, double p0) {
        for (int i = 0; i < n; ++i) x[size_t(i)] += a * std::cos(2 * M_PI * std::fmod(double(i) * k, double(n)) / double(n) + p0);
    };
    const int kmax = std::max(1, (n - 1) / 2);   // interior positive bins 1..kmax
    switch (cls) {
    case H_CONST: { double a = r.gauss() + 3; for (auto& v : x) v = a; break; }
    case H_ALT: { double a = r.gauss() + 3; for (int i = 0; i < n; ++i) x[size_t(i)] = (i & 1) ? -a : a; break; }
    case H_IMPULSE: x[size_t(r.range(0, n - 1))] = r.gauss() + 2; break;
    case H_TONE_ZM: tone(r.range(1, kmax), r.uni(0.5, 2), r.uni(0, 2 * M_PI)); break;
    case H_TONE_DC: { tone(r.range(1, kmax), r.uni(0.5, 2), r.uni(0, 2 * M_PI)); double d = r.uni(0.5, 4) * (r.coin() ? 1 : -1); for (auto& v : x) v += d; break; }
    case H_TONE_NYQ: {
        tone(r.range(1, kmax), r.uni(0.5, 2), r.uni(0, 2 * M_PI));
        double d = r.uni(0.5, 4) * (r.coin() ? 1 : -1), q = r.uni(0.5, 4) * (r.coin() ? 1 : -1);
        for (int i = 0; i < n; ++i) x[size_t(i)] += d + ((i & 1) ? -q : q);
        break;
    }
    case H_TONE_OFF: tone(r.uni(0.25, n / 2.0 - 0.25), r.uni(0.5, 2), r.uni(0, 2 * M_PI)); break;
    case H_RAMP: { double a = r.uni(0.5, 2); for (int i = 0; i < n; ++i) x[size_t(i)] = a * i; break; }
    case H_GAUSS: for (auto& v : x) v = r.gauss(); break;
    case H_GAUSS_ZM: {
        for (auto& v : x) v = r.gauss();
        long double m = 0, q = 0;
        for (int i = 0; i < n; ++i) { m += x[size_t(i)]; q += (i & 1) ? -x[size_t(i)] : x[size_t(i)]; }
        m /= n; q /= n;
        if (n % 2 == 0) for (int i = 0; i < n; ++i) x[size_t(i)] -= double(m + ((i & 1) ? -q : q));
        else for (auto& v : x) v -= double(m);
        break;
    }
    default: for (auto& v : x) v = r.gauss() * r.logmag(-100, 100);
    }
    return x;
}

// DFT bins k0..k1-1 of x in long double (kit twiddles, exactly reduced indices)
std::vector<cld> dft_bins(const std::vector<cld>& x, int k0, int k1) {
    const int n = int(x.size());
    const auto& tw = twiddles(n);
    std::vector<cld> X(static_cast<size_t>(std::max(0, k1 - k0)));
    for (int k = k0; k < k1; ++k) {
        cld acc = 0;
        uint64_t idx = 0;
        for (int m = 0; m < n; ++m) {
            acc += x[size_t(m)] * tw[size_t(idx)];
            idx += uint64_t(k);
            if (idx >= uint64_t(n)) idx -= uint64_t(n);
        }
        X[size_t(k - k0)] = acc;
    }
    return X;
}

constexpr long double kReC = 128;
// the definition of hilbert(x) over one vector
void check_analytic(const std::vector<double>& xv, int cls, Out& o) {
    const int n = int(xv.size());
    const arr_real x = to_arr(xv);
    const arr_cmplx y = hilbert(x);
    if (y.size() != n) { o.fail("hilbert:size", fmt("hilbert(x[%d]) returned %d values", n, y.size())); return; }
    if (!all_finite(y)) { o.fail("hilbert:nonfinite", fmt("hilbert(x[%d]) class=%s has a non-finite value", n, hclass_name(cls))); return; }

    // (1) real part equals x
    ld xmax = 0;
    for (double v : xv) xmax = std::max<ld>(xmax, std::fabs(v));
    // DESIGN calibrated 64 n eps max|x|; alternating inputs of large prime length (Bluestein, n = 3089) reach 0.29 of that, less than
    // the required 4x margin, hence 128 n eps max|x| (worst 0.15).  A doubled DC/Nyquist bin is an error of |mean| -- 10 orders above.
    const ld tol_re = kReC * ld(n) * EPS * xmax;
    ld worst_re = 0;
    int at_re = 0;
    for (int i = 0; i < n; ++i) {
        ld e = std::fabs(ld(y[i].re) - ld(xv[size_t(i)]));
        if (e > worst_re) { worst_re = e; at_re = i; }
    }
    o.metric("hilbert Re(y)-x err/tol", tol_re > 0 ? double(worst_re / tol_re) : (worst_re == 0 ? 0.0 : 1e300));
    if (!(worst_re <= tol_re)) {
        o.fail(std::string("hilbert:real-part:") + (n % 2 ? "odd" : "even"),
               fmt("n=%d class=%s: Re y[%d]=%.17g but x[%d]=%.17g (|diff|=%.3Lg > 128 n eps max|x| = %.3Lg)", n, hclass_name(cls), at_re, y[at_re].re, at_re,
                   xv[size_t(at_re)], worst_re, tol_re));
    }

    // (2) spectrum: ||Y||_2 = sqrt(n) ||y||_2 (Parseval, exact identity)
    const std::vector<cld> yc = to_cld(y);
    const std::vector<cld> Y = ld_dft(yc);
    const std::vector<cld> X = dft_bins(to_cld(x), 0, n / 2 + 1);   // bins 0..floor(n/2) determine the rest (real input)
    const ld normY = std::sqrt(ld(n)) * l2(yc);
    const ld tol_sp = 64 * ld(n) * EPS * normY;
    const int first_neg = n / 2 + 1;   // even n: n/2+1 ; odd n: ceil(n/2) = n/2+1 with integer division
    ld worst_neg = 0, worst_pos = 0, worst_edge = 0;
    int at_neg = -1, at_pos = -1, at_edge = -1;
    for (int k = 0; k < n; ++k) {
        if (k >= first_neg) {
            ld e = std::abs(Y[size_t(k)]);
            if (e > worst_neg) { worst_neg = e; at_neg = k; }
        } else if (k == 0 || (n % 2 == 0 && k == n / 2)) {
            ld e = std::abs(Y[size_t(k)] - X[size_t(k)]);
            if (e > worst_edge) { worst_edge = e; at_edge = k; }
        } else {
            ld e = std::abs(Y[size_t(k)] - ld(2) * X[size_t(k)]);
            if (e > worst_pos) { worst_pos = e; at_pos = k; }
        }
    }
    auto ratio = [&](ld e) { return tol_sp > 0 ? double(e / tol_sp) : (e == 0 ? 0.0 : 1e300); };
    o.metric("hilbert negative-bin err/tol", ratio(worst_neg));
    o.metric("hilbert positive-bin err/tol", ratio(worst_pos));
    o.metric("hilbert dc/nyquist-bin err/tol", ratio(worst_edge));
    if (!(worst_neg <= tol_sp))
        o.fail(std::string("hilbert:negative-bins:") + (n % 2 ? "odd" : "even"),
               fmt("n=%d class=%s: |Y[%d]|=%.6Lg on a negative-frequency bin (first negative bin %d), allowed 64 n eps ||Y|| = %.3Lg", n, hclass_name(cls), at_neg,
                   worst_neg, first_neg, tol_sp));
    if (!(worst_pos <= tol_sp))
        o.fail(std::string("hilbert:positive-bins:") + (n % 2 ? "odd" : "even"),
               fmt("n=%d class=%s: |Y[%d]-2X[%d]|=%.6Lg, allowed %.3Lg", n, hclass_name(cls), at_pos, at_pos, worst_pos, tol_sp));
    if (!(worst_edge <= tol_sp))
        o.fail(std::string("hilbert:") + (at_edge == 0 ? "dc-bin" : "nyquist-bin"),
               fmt("n=%d class=%s: |Y[%d]-X[%d]|=%.6Lg (Y=%.6Lg%+.6Lgi, X=%.6Lg%+.6Lgi), allowed %.3Lg", n, hclass_name(cls), at_edge, at_edge, worst_edge,
                   Y[size_t(std::max(at_edge, 0))].real(), Y[size_t(std::max(at_edge, 0))].imag(), X[size_t(std::max(at_edge, 0))].real(),
                   X[size_t(std::max(at_edge, 0))].imag(), tol_sp));

    // classification on the reference side: DC / Nyquist content = that bin holds >= 1e-12 of the energy
    ld en = 0;
    for (int k = 0; k <= n / 2; ++k) en += std::norm(X[size_t(k)]) * ((k == 0 || (n % 2 == 0 && k == n / 2)) ? 1 : 2);
    const bool has_dc = en > 0 && std::norm(X[0]) >= 1e-12L * en;
    const bool has_nyq = (n % 2 == 0) && en > 0 && std::norm(X[size_t(n / 2)]) >= 1e-12L * en;
    o.label(std::string("input:") + hclass_name(cls));
    o.label(std::string("dc:") + (has_dc ? "yes" : "no") + (n % 2 ? " nyquist:n/a(odd)" : has_nyq ? " nyquist:yes" : " nyquist:no"));
    if (en > 0 && (has_dc || has_nyq || n % 2 == 1)) o.nontrivial(key_of(1, n, cls));
    o.evals = 1;
}

}   // namespace

// ------------------------------------------------------------------------------------------- hilbert(x)
VK_SUB(han, "hilbert_analytic");
static void han_check(const Json& c, Out& o) {
    const int n = c.geti("n"), cls = c.geti("cls");
    Rng r(c.getu("seed"));
    check_analytic(hilbert_input(r, n, cls), cls, o);
}
static void han_gen(Ctx& ctx) {
    std::vector<int> lens;
    const int full = ctx.by_tier(512, 4096);
    for (int n = 3; n <= full; ++n) lens.push_back(n);
    for (int n : {1023, 1024, 1025, 1549, 2047, 2048, 2049, 2963, 3089, 4093, 4094, 4095, 4096}) if (n > full) lens.push_back(n);
    for (int n : lens)
        for (int cls = 0; cls < H_NCLASSES; ++cls) {
            // long lengths: the classes that matter most (Nyquist/DC content, leakage, noise, the Bluestein worst case)
            if (n > 2048 && cls != H_ALT && cls != H_TONE_NYQ && cls != H_GAUSS && cls != H_TONE_OFF && cls != H_CONST) continue;
            if (!ctx.mine()) continue;
            ctx.eval(Json::object().set("n", n).set("cls", cls).set("seed", (long long)(mix(ctx.seed, key_of(14, n, cls)) >> 16)));
        }
    const int lo = ctx.quick() ? full + 1 : 3;   // thorough: fresh contents for lengths already enumerated
    ctx.rc("random", ctx.by_tier(6000, 24000), [&]() {
        int n = pick(0, 3) == 0 ? pick(lo, 4096) : pick_log(lo, 4096);
        return Json::object().set("n", n).set("cls", pick(0, H_NCLASSES - 1)).set("seed", (long long)seed64());
    });
}

// ------------------------------------------------------------------------------------------- hilbert(x, n2)
VK_SUB(hrs, "hilbert_resize");
static void hrs_check(const Json& c, Out& o) {
    const int n = c.geti("n"), n2 = c.geti("n2"), cls = c.geti("cls");
    Rng r(c.getu("seed"));
    const std::vector<double> xv = hilbert_input(r, n, cls);
    std::vector<double> pv(static_cast<size_t>(n2), 0.0);
    for (int i = 0; i < std::min(n, n2); ++i) pv[size_t(i)] = xv[size_t(i)];
    const arr_cmplx got = hilbert(to_arr(xv), n2);
    const arr_cmplx ref = hilbert(to_arr(pv));
    const char* kind = n2 > n ? "pad" : n2 < n ? "truncate" : "same";
    if (got.size() != n2 || ref.size() != n2) { o.fail(std::string("hilbert-n:size:") + kind, fmt("hilbert(x[%d], %d) returned %d values", n, n2, got.size())); return; }
    for (int i = 0; i < n2; ++i) {
        if (!same_bits(got[i].re, ref[i].re) || !same_bits(got[i].im, ref[i].im)) {
            o.fail(std::string("hilbert-n:value:") + kind, fmt("hilbert(x[%d], %d)[%d] = %.17g%+.17gi but hilbert(%s x)[%d] = %.17g%+.17gi (class %s)", n, n2, i, got[i].re,
                                                               got[i].im, n2 > n ? "zero-padded" : "truncated", i, ref[i].re, ref[i].im, hclass_name(cls)));
            break;
        }
    }
    // the resized form is itself the analytic signal of the resized input (small sizes only: O(n2^2) reference)
    if (n2 <= 600) { Out o2; check_analytic(pv, cls, o2); if (o2.failed) o.fail(o2.sig, "via hilbert(x,n): " + o2.msg); }
    bool nz = false;
    for (double v : pv) nz |= (v != 0);
    if (n2 != n && nz) o.nontrivial(key_of(2, n, n2, cls));
    o.label(kind);
    o.label(std::string("n2:") + (n2 % 2 ? "odd" : "even"));
}
static void hrs_gen(Ctx& ctx) {
    const int top = ctx.by_tier(40, 96);
    for (int n = 3; n <= top; ++n)
        for (int n2 = 3; n2 <= 2 * n + 1; ++n2) {
            if (!ctx.mine()) continue;
            int cls = int(mix(ctx.seed, key_of(n, n2)) % H_NCLASSES);
            ctx.eval(Json::object().set("n", n).set("n2", n2).set("cls", cls).set("seed", (long long)(mix(ctx.seed, key_of(15, n, n2)) >> 16)));
        }
    ctx.rc("random", ctx.by_tier(40000, 400000), [&]() {
        int n = pick_log(3, 4096);
        int mode = pick(0, 3);
        int n2 = mode == 0 ? pick(3, std::max(3, n - 1)) : mode == 1 ? pick(n + 1, std::min(4096, 2 * n + 1)) : mode == 2 ? pick_log(3, 4096) : n + pick(-1, 1);
        n2 = std::max(3, std::min(4096, n2));
        return Json::object().set("n", n).set("n2", n2).set("cls", pick(0, H_NCLASSES - 1)).set("seed", (long long)seed64());
    });
}

// ------------------------------------------------------------------------------------------- HilbertFilter real part
namespace {
// real part of out must be x delayed by D with zero initial state, bit-exact
bool check_delay(const std::vector<double>& x, const std::vector<cmplx_t>& out, int D, const std::string& what, Out& o) {
    for (size_t k = 0; k < x.size(); ++k) {
        const double want = (int(k) < D) ? 0.0 : x[k - size_t(D)];
        if (!same_bits(out[k].re, want)) {
            // which delay would explain it?
            int expl = -1;
            for (int d = std::max(0, D - 3); d <= D + 3 && expl < 0; ++d) {
                bool ok = true;
                for (size_t j = 0; j < x.size() && ok; ++j) ok = same_bits(out[j].re, (int(j) < d) ? 0.0 : x[j - size_t(d)]);
                if (ok) expl = d;
            }
            o.fail("hfilter:real-part", fmt("%s: Re out[%zu]=%.17g, input delayed by D=%d gives %.17g%s", what.c_str(), k, out[k].re, D, want,
                                            expl >= 0 ? fmt(" (output is the input delayed by %d)", expl).c_str() : ""));
            return false;
        }
    }
    return true;
}
std::vector<cmplx_t> run_filter(HilbertFilter& flt, const std::vector<double>& x, const std::vector<int>& frames, Rng& r, Out& o) {
    std::vector<cmplx_t> out;
    out.reserve(x.size());
    size_t pos = 0;
    for (int fs : frames) {
        arr_real blk(fs);
        for (int i = 0; i < fs; ++i) blk[i] = x[pos + size_t(i)];
        const arr_cmplx y = r.coin() ? flt.process(blk) : flt(blk);
        if (y.size() != fs) { o.fail("hfilter:size", fmt("process(frame of %d) returned %d values", fs, y.size())); return out; }
        for (int i = 0; i < fs; ++i) out.push_back(y[i]);
        pos += size_t(fs);
    }
    return out;
}
}   // namespace

VK_SUB(hfd, "hfilter_delay");
static void hfd_check(const Json& c, Out& o) {
    const int custom = c.geti("custom");
    const int total = c.geti("len"), frm = c.geti("frm"), cls = c.geti("cls");
    Rng r(c.getu("seed"));
    std::unique_ptr<HilbertFilter> flt;
    std::string what;
    if (custom) {
        const int M = c.geti("flen") | 1;   // custom type-III taps: odd length, antisymmetric, zero centre
        arr_real h(M);
        for (int i = 0; i < M / 2; ++i) { double v = r.gauss(); h[i] = v; h[M - 1 - i] = -v; }
        h[M / 2] = 0;
        flt = std::make_unique<HilbertFilter>(h);
        what = fmt("HilbertFilter(h[%d])", M);
    } else {
        flt = std::make_unique<HilbertFilter>(c.geti("flen"), c.getd("tw"));
        what = fmt("HilbertFilter(%d, %.6g)", c.geti("flen"), c.getd("tw"));
    }
    const int M = flt->impz().size();
    if (M % 2 == 0 || M < 1) { o.fail("hfilter:length", fmt("%s has %d taps (a type-III transformer has an odd number)", what.c_str(), M)); return; }
    const int D = (M - 1) / 2;   // group delay of an antisymmetric odd-length FIR
    std::vector<double> x = gen_real(r, total, cls, 100);
    if (cls == S_CONST || cls == S_ALT) for (auto& v : x) v += 1.5;   // never identically zero
    const auto frames = make_frames(r, total, frm, c.geti("pivot") == 0 ? D : M);
    const auto out = run_filter(*flt, x, frames, r, o);
    if (o.failed) return;
    check_delay(x, out, D, what + fmt(" M=%d frames=%s", M, frame_name(frm)), o);
    o.label(custom ? "taps:custom" : (c.geti("flen") % 2 ? "request:odd" : "request:even(bumped)"));
    o.label(std::string("frames:") + frame_name(frm));
    o.label(std::string("input:") + sig_name(cls));
    if (total > D + 1) o.nontrivial(key_of(3, custom, c.geti("flen"), custom ? 0 : int(c.getd("tw") * 1e4), total, frm, cls));
}
static void hfd_gen(Ctx& ctx) {
    ctx.rc("designed", ctx.by_tier(60000, 600000), [&]() {
        int flen = pick(31, 401);
        double tw = 0.005 + 0.095 * (pick(0, 950) / 950.0);
        int M = flen | 1;
        return Json::object().set("custom", 0).set("flen", flen).set("tw", tw).set("len", pick(1, 3 * M)).set("frm", pick(0, FR_NMODES - 1))
          .set("pivot", pick(0, 1)).set("cls", pick(0, S_NCLASSES - 1)).set("seed", (long long)seed64());
    });
    ctx.rc("custom", ctx.by_tier(30000, 300000), [&]() {
        int flen = pick_log(3, 201);
        return Json::object().set("custom", 1).set("flen", flen).set("tw", 0.0).set("len", pick(1, 4 * flen)).set("frm", pick(0, FR_NMODES - 1))
          .set("pivot", pick(0, 1)).set("cls", pick(0, S_NCLASSES - 1)).set("seed", (long long)seed64());
    });
}

// ------------------------------------------------------------------------------------------- HilbertFilter tones
namespace {
enum { T_EDGE_LO = 0, T_EDGE_HI, T_NEAR_LO, T_NEAR_HI, T_MID, T_NPLACES };
const char* place_name(int p) {
    static const char* n[] = {"edge-low(f=fmin)", "edge-high(f=0.5-fmin)", "near-low", "near-high", "interior"};
    return (p >= 0 && p < T_NPLACES) ? n[p] : "?";
}
}   // namespace

VK_SUB(hft, "hfilter_tone");
static void hft_check(const Json& c, Out& o) {
    const int flen = c.geti("flen"), frm = c.geti("frm"), nseg = c.geti("nseg");
    const double tw = c.getd("tw");
    Rng r(c.getu("seed"));
    HilbertFilter flt(flen, tw);
    const int M = flt.impz().size();
    if (M % 2 == 0 || M < 3) { o.fail("hfilter:length", fmt("HilbertFilter(%d, %g) has %d taps", flen, tw, M)); return; }
    const int D = (M - 1) / 2;
    const ld fmin = std::max<ld>(2 * ld(tw), ld(6) / ld(M));
    const ld flo = fmin, fhi = ld(0.5) - fmin;
    if (!(flo < fhi)) { o.discard = true; return; }   // empty band (cannot happen for flen >= 31, tw <= 0.1)
    const double flo_d = double(flo) < flo ? std::nextafter(double(flo), 1.0) : double(flo);   // smallest double inside the band
    const double fhi_d = double(fhi) > fhi ? std::nextafter(double(fhi), 0.0) : double(fhi);

    struct Seg { double A, f, phi; int start, len, place; };
    std::vector<Seg> segs;
    std::vector<double> x;
    for (int s = 0; s < nseg; ++s) {
        Seg g;
        g.place = (s == 0) ? c.geti("place") : r.range(0, T_NPLACES - 1);
        const double w = double(fhi - flo), edge_w = std::min(w, 2 * double(fmin));
        switch (g.place) {
        case T_EDGE_LO: g.f = flo_d; break;
        case T_EDGE_HI: g.f = fhi_d; break;
        case T_NEAR_LO: g.f = flo_d + edge_w * r.uni() * r.uni(); break;
        case T_NEAR_HI: g.f = fhi_d - edge_w * r.uni() * r.uni(); break;
        default: g.f = r.uni(flo_d, fhi_d);
        }
        g.f = std::min(std::max(g.f, flo_d), fhi_d);
        g.A = r.logmag(-3, 3);
        g.phi = r.uni(-M_PI, M_PI);
        g.start = int(x.size());
        g.len = M + r.range(8, 160);
        for (int m = 0; m < g.len; ++m) x.push_back(g.A * std::cos(2 * M_PI * g.f * m + g.phi));
        segs.push_back(g);
    }
    const auto frames = make_frames(r, int(x.size()), frm, c.geti("pivot") == 0 ? D : M);
    const auto out = run_filter(flt, x, frames, r, o);
    if (o.failed) return;
    const std::string what = fmt("HilbertFilter(%d, %.6g) M=%d D=%d frames=%s", flen, tw, M, D, frame_name(frm));
    if (!check_delay(x, out, D, what, o)) return;

    double worst = 0;
    for (const Seg& g : segs) {
        for (int m = M; m < g.len; ++m) {
            // exact-ish phase: f*(m-D) reduced mod 1 in long double
            const ld cyc = fmodl(ld(g.f) * ld(m - D), 1);
            const ld want = ld(g.A) * sinl(2 * PI_L * cyc + ld(g.phi));
            const ld e = std::fabs(ld(out[size_t(g.start + m)].im) - want);
            const ld tol = ld(1e-3) * ld(g.A);
            worst = std::max(worst, double(e / tol));
            if (!(e <= tol)) {
                o.fail(std::string("hfilter:imag:") + (g.place == T_EDGE_LO || g.place == T_NEAR_LO ? "low-edge" : g.place == T_EDGE_HI || g.place == T_NEAR_HI ? "high-edge" : "interior"),
                       fmt("%s: tone A=%.6g f=%.9g phi=%.6g (band [%.6Lg, %.6Lg], %s), segment sample %d: Im out=%.12g, A sin(2 pi f (m-D)+phi)=%.12Lg, |diff|/A=%.3Lg > 1e-3",
                           what.c_str(), g.A, g.f, g.phi, flo, fhi, place_name(g.place), m, out[size_t(g.start + m)].im, want, e / ld(g.A)));
                break;
            }
        }
        if (o.failed) break;
        o.label(std::string("tone:") + place_name(g.place));
        const double dist = std::min(g.f - double(flo), double(fhi) - g.f);
        if (dist <= 2 * double(fmin)) o.nontrivial(key_of(4, flen, int(std::lround(tw * 1e4)), int(std::lround(g.f * 1e5))));
    }
    o.metric("hfilter |Im-ref|/(1e-3 A)", worst);
    o.label(flen % 2 ? "request:odd" : "request:even(bumped)");
    o.label(std::string("frames:") + frame_name(frm));
    o.label(2 * tw >= 6.0 / M ? "fmin:2tw" : "fmin:6/M");
    o.evals = nseg;
}
static void hft_gen(Ctx& ctx) {
    // every requested length with transition widths on a grid, first tone placed on each band edge in turn
    const std::vector<double> tws = ctx.quick() ? std::vector<double>{0.005, 0.01, 0.02, 0.03, 0.06, 0.1} : std::vector<double>{0.005, 0.0075, 0.01, 0.015, 0.02, 0.03, 0.05, 0.075, 0.1};
    for (int flen = 31; flen <= 401; ++flen)
        for (double tw : tws)
            for (int place = 0; place < T_NPLACES; ++place) {
                if (!ctx.mine()) continue;
                uint64_t s = mix(ctx.seed, key_of(16, flen, int(tw * 1e4), place));
                ctx.eval(Json::object().set("flen", flen).set("tw", tw).set("place", place).set("nseg", 3).set("frm", int(s % FR_NMODES)).set("pivot", int((s >> 8) & 1))
                           .set("seed", (long long)(s >> 16)));
            }
    ctx.rc("random", ctx.by_tier(240000, 2000000), [&]() {
        int flen = pick(0, 2) == 0 ? pick(31, 60) : pick(31, 401);
        double tw = pick(0, 4) == 0 ? one_of(std::vector<double>{0.005, 0.1, 0.01}) : 0.005 + 0.095 * (pick(0, 9500) / 9500.0);
        return Json::object().set("flen", flen).set("tw", tw).set("place", pick(0, T_NPLACES - 1)).set("nseg", pick(1, 4)).set("frm", pick(0, FR_NMODES - 1))
          .set("pivot", pick(0, 1)).set("seed", (long long)seed64());
    });
}

// ------------------------------------------------------------------------------------------- Tuner
namespace {
// Tolerance constant of the tuner oracle.  A double-precision evaluation of x*exp(i*2*pi*f*k/fs) has the a-priori forward error
// (1.9 + 1.7 theta) eps |x| (theta = 2 pi |f| k / fs: pi is 0.18 eps off, three roundings in the phase, <= 1 ulp in cos/sin, 2 sqrt2 u in
// the complex product).  DESIGN states 4 eps (1 + theta)|x|; the library measures 0.38 of that, i.e. less than the required 4x margin,
// so the constant is 8 (measured 0.19): still ten orders of magnitude below any phase discontinuity.
constexpr long double kTunerC = 8;
enum { F_ZERO = 0, F_INT, F_INT_EDGE, F_HALF, F_DYADIC, F_DECIMAL, F_THIRD, F_TINY, F_RANDOM, F_NEAR_INT, F_NCLASSES };
const char* fclass_name(int c) {
    static const char* n[] = {"zero", "integer", "integer-edge(+-fs/2)", "half-integer", "dyadic-fraction", "decimal-fraction", "thirds", "tiny", "random-double",
                              "integer+-ulp-ish"};
    return (c >= 0 && c < F_NCLASSES) ? n[c] : "?";
}
}   // namespace

VK_SUB(tun, "tuner_stream");
static void tun_check(const Json& c, Out& o) {
    const int fs = c.geti("fs"), total = c.geti("len"), frm = c.geti("frm"), xcls = c.geti("xcls");
    const double f = c.getd("f");
    Rng r(c.getu("seed"));
    const bool integral = (f == std::floor(f));
    std::unique_ptr<Tuner> t;
    try {
        t = std::make_unique<Tuner>(fs, f);
    } catch (const std::exception& e) {
        // the generator stays inside what the constructor admits (|f| <= fs/2 with integer division); anything else is a harness error
        o.fail("tuner:ctor-rejects-admissible", fmt("Tuner(%d, %.17g) threw: %s", fs, f, e.what()));
        return;
    }
    if (t->freq() != f || t->sample_rate() != fs) o.fail("tuner:accessors", fmt("Tuner(%d, %.17g) reports fs=%d f=%.17g", fs, f, t->sample_rate(), t->freq()));

    const auto frames = make_frames(r, total, frm, fs);
    Rng rx = r.fork(7);
    double worst = 0;
    long k = 0;
    for (int fsz : frames) {
        arr_cmplx blk(fsz);
        for (int i = 0; i < fsz; ++i) {
            switch (xcls) {
            case 0: blk[i] = cmplx_t{1.0, 0.0}; break;
            case 1: blk[i] = cmplx_t{rx.gauss(), rx.gauss()}; break;
            default: { double m = rx.logmag(-30, 30); blk[i] = cmplx_t{rx.gauss() * m, rx.gauss() * m}; }
            }
        }
        const arr_cmplx y = (k & 1) ? (*t)(blk) : t->process(blk);
        if (y.size() != fsz) { o.fail("tuner:size", fmt("process(frame of %d) returned %d values", fsz, y.size())); return; }
        for (int i = 0; i < fsz; ++i, ++k) {
            // f*k/fs cycles, reduced exactly after one long-double product (relative error 2^-64, 2^-14 of the tolerance)
            const ld prod = ld(f) * ld(k);
            const ld cyc = fmodl(prod, ld(fs)) / ld(fs);
            const ld ang = 2 * PI_L * cyc;
            const cld ref = to_cld(blk[i]) * cld(cosl(ang), sinl(ang));
            const ld mag = std::abs(to_cld(blk[i]));
            const ld tol = kTunerC * EPS * (1 + 2 * PI_L * std::fabs(ld(f)) * ld(k) / ld(fs)) * mag;
            const ld e = std::abs(to_cld(y[i]) - ref);
            if (tol > 0) worst = std::max(worst, double(e / tol));
            if (!(e <= tol)) {
                const long period = k / fs;
                o.fail(std::string("tuner:value:") + (integral ? "integer-f" : "fractional-f") + (period == 0 ? ":k<fs" : ":k>=fs"),
                       fmt("Tuner(%d, %.17g) frames=%s: sample k=%ld (x=%.17g%+.17gi) -> %.17g%+.17gi, x*exp(2 pi i f k/fs) = %.17Lg%+.17Lgi, |diff|=%.3Lg > tol %.3Lg", fs, f,
                           frame_name(frm), k, blk[i].re, blk[i].im, y[i].re, y[i].im, ref.real(), ref.imag(), e, tol));
                return;
            }
        }
    }
    o.metric(integral ? "tuner err/tol (integer f)" : "tuner err/tol (fractional f)", worst);
    o.label(std::string("f:") + fclass_name(c.geti("fcls")));
    o.label(std::string("frames:") + frame_name(frm));
    o.label(fs % 2 ? "fs:odd" : "fs:even");
    o.label(f < 0 ? "sign:negative" : f > 0 ? "sign:positive" : "sign:zero");
    if (c.geti("clamped")) o.label("excluded:odd-fs f in (floor(fs/2), fs/2] (constructor rejects; clamped to floor(fs/2))");
    if ((fs & 1) && std::fabs(f) > fs / 2) o.label("odd-fs: |f| in (floor(fs/2), fs/2]");
    if (!integral && total > fs) o.nontrivial(key_of(5, fs, uint64_t(std::llround(f * 4096.0)), total));
    o.evals = total;
}
static void tun_gen(Ctx& ctx) {
    auto make = [&](int fs_lo, int fs_hi) {
        int fs = pick(0, 3) == 0 ? pick(fs_lo, std::min(fs_hi, 64)) : pick_log(fs_lo, fs_hi);
        fs = std::max(fs_lo, std::min(fs_hi, fs));
        const int lim = fs / 2;   // what the constructor admits (integer division)
        const int fcls = pick(0, F_NCLASSES - 1);
        const int sgn = flip() ? -1 : 1;
        double f = 0;
        switch (fcls) {
        case F_ZERO: f = 0; break;
        case F_INT: f = pick(1, std::max(1, lim)); break;
        case F_INT_EDGE: f = lim; break;
        case F_HALF: f = pick(0, lim - 1) + 0.5; break;
        case F_DYADIC: { int j = pick(2, 10); f = pick(0, lim - 1) + double(pick(1, (1 << j) - 1)) / double(1 << j); break; }
        case F_DECIMAL: f = pick(0, lim - 1) + pick(1, 99) / 100.0; break;
        case F_THIRD: f = pick(0, lim - 1) + pick(1, 2) / 3.0; break;
        case F_TINY: f = std::pow(10.0, -pickd(1, 9)); break;
        case F_NEAR_INT: { double b = pick(1, std::max(1, lim)); f = flip() ? std::nextafter(b, 0.0) : b - std::ldexp(1.0, -pick(20, 40)); break; }
        default: f = pickd(0, 1) * fs / 2.0;   // documented range [0, fs/2]
        }
        int clamped = 0;
        // odd fs: f in (floor(fs/2), fs/2] is admissible (|f| <= fs/2); one case in eight of the fractional classes is moved there
        if ((fs & 1) && fcls != F_ZERO && fcls != F_INT && fcls != F_INT_EDGE && pick(0, 7) == 0) f = pick(0, 2) == 0 ? fs / 2.0 : lim + pickd(0.0, 0.5);
        if (f > fs / 2.0) f = fs / 2.0;
        f *= sgn;
        // 2..6 fs samples, capped at 5e5 (always more than fs when fs < 2.5e5)
        int64_t len = int64_t(std::llround(pickd(2.0, 6.0) * fs)) + pick(-1, 1);
        len = std::max<int64_t>(fs + 2, std::min<int64_t>(len, 500000));
        return Json::object().set("fs", fs).set("f", f).set("fcls", fcls).set("clamped", clamped).set("len", (long long)len).set("frm", pick(0, FR_NMODES - 1))
          .set("xcls", pick(0, 2)).set("seed", (long long)seed64());
    };
    ctx.rc("small-fs", ctx.by_tier(160000, 1600000), [&]() { return make(8, 2000); });
    ctx.rc("any-fs", ctx.by_tier(16000, 160000), [&]() { return make(8, 100000); });
}

VK_FRESH_THREADS;
VK_MAIN("C14")
