"""Per-property registration lives in /verif/props/<ID>.json:
  runs:        [[harness source name, build cfg, [tiers it runs in]], ...]
  rule:        how cases are generated and what makes one non-trivial / distinct (goes into the evidence)
  assumptions: what the check trusts
  extra_flags / extra_link (optional): extra compiler / linker arguments for the harness
  exhaustive_subspaces (optional): {"quick": [...], "thorough": [...]} sub-spaces enumerated completely
"""
import glob
import json
import os

_DIR = os.path.join(os.path.dirname(os.path.dirname(os.path.abspath(__file__))), "props")
PROPS = {}
for _p in sorted(glob.glob(os.path.join(_DIR, "C*.json"))):
    _j = json.load(open(_p))
    _j["runs"] = [(r[0], r[1], tuple(r[2])) for r in _j["runs"]]
    PROPS[os.path.basename(_p)[:-5]] = _j
