// C09  Concurrent use from several threads is race-free and result-preserving.
// A generated *thread program* (2..16 threads, each a list of operations; some operate on plan objects shared by all threads)
// runs in a forked child built with ThreadSanitizer (halt_on_error=1).  Oracles: (1) no TSan report (happens-before
// detection: a race is reported whenever both unsynchronised accesses occur in the run, whatever the timing);
// (2) every per-thread result is bit-identical to the same call sequence executed single-threaded beforehand;
// (3) RNG isolation with explicit hand-over between two threads.
#include "kit/num.h"
#include <dsplib.h>
#include <atomic>
#include <thread>

using namespace vk;
using namespace dsplib;

namespace {

const int LEN_POW2[] = {16, 64, 1024};
const int LEN_COMP[] = {12, 60, 360, 1000, 45, 105};
const int LEN_2P[] = {94, 1002, 334};
const int LEN_PSMALL[] = {7, 31, 41, 3};
const int LEN_PBIG[] = {47, 167, 257};
int pick_len(int cls, int i) {
    switch (cls) {
    case 0: return LEN_POW2[i % 3];
    case 1: return LEN_COMP[i % 6];
    case 2: return LEN_2P[i % 3];
    case 3: return LEN_PSMALL[i % 4];
    default: return LEN_PBIG[i % 3];
    }
}
const char* len_cls_name(int c) { static const char* n[] = {"pow2", "composite", "2p", "prime<=41", "prime>41"}; return n[c % 5]; }

enum Op { O_FFT, O_IFFT, O_RFFT, O_IRFFT, O_XCORR, O_FFTFILT, O_WELCH, O_RESAMPLE, O_KAISER, O_RANDN, O_RAND, O_RANDI, O_SHARED, O_AWGN, O_NOPS };
const char* op_name(int o) {
    static const char* n[] = {"fft", "ifft", "rfft", "irfft", "xcorr", "FftFilter", "welch", "resample", "kaiser", "randn", "rand", "randi", "shared-plan-solve", "awgn"};
    return n[o];
}

uint64_t hbits(const arr_cmplx& a) { uint64_t h = 0xC09; for (int i = 0; i < a.size(); ++i) { uint64_t u; double v = a[i].re; memcpy(&u, &v, 8); h = mix(h, u); v = a[i].im; memcpy(&u, &v, 8); h = mix(h, u); } return mix(h, uint64_t(a.size())); }
uint64_t hbits(const arr_real& a) { uint64_t h = 0xC09A; for (int i = 0; i < a.size(); ++i) { uint64_t u; double v = a[i]; memcpy(&u, &v, 8); h = mix(h, u); } return mix(h, uint64_t(a.size())); }
uint64_t hbits(const arr_int& a) { uint64_t h = 0xC09B; for (int i = 0; i < a.size(); ++i) h = mix(h, uint64_t(uint32_t(a[i]))); return mix(h, uint64_t(a.size())); }

arr_cmplx cin(int n, uint64_t tag) { Rng r(mix(tag, uint64_t(n))); arr_cmplx x(n); for (int i = 0; i < n; ++i) x[i] = cmplx_t(r.gauss(), r.gauss()); return x; }
arr_real rin(int n, uint64_t tag) { Rng r(mix(tag, uint64_t(n) + 7)); arr_real x(n); for (int i = 0; i < n; ++i) x[i] = r.gauss(); return x; }

struct SharedPlans
{
    std::vector<int> spec;   // pairs (type, n)
    std::vector<std::shared_ptr<FftPlan>> c;
    std::vector<std::shared_ptr<FftPlanR>> r;
    std::vector<std::shared_ptr<IfftPlan>> ic;
    std::vector<std::shared_ptr<IfftPlanR>> ir;
    std::vector<std::shared_ptr<CztPlan>> z;
    struct Ref { int type, idx, n; };
    std::vector<Ref> all;
    void build(const std::vector<int>& s) {
        spec = s;
        for (size_t i = 0; i + 1 < s.size(); i += 2) {
            int type = s[i], n = s[i + 1];
            switch (type) {
            case 0: c.push_back(std::make_shared<FftPlan>(n)); all.push_back({0, int(c.size()) - 1, n}); break;
            case 1: r.push_back(std::make_shared<FftPlanR>(n)); all.push_back({1, int(r.size()) - 1, n}); break;
            case 2: ic.push_back(std::make_shared<IfftPlan>(n)); all.push_back({2, int(ic.size()) - 1, n}); break;
            case 3: { int m = n + (n & 1); ir.push_back(std::make_shared<IfftPlanR>(m)); all.push_back({3, int(ir.size()) - 1, m}); break; }
            default: z.push_back(std::make_shared<CztPlan>(n, n, expj(-2 * pi * 0.9 / n), cmplx_t(1.0))); all.push_back({4, int(z.size()) - 1, n});
            }
        }
    }
};

// executes one operation; all inputs derive from (a, b, tag) so that the sequential and the threaded run see the same data
uint64_t exec_op(int op, int a, int b, uint64_t tag, const SharedPlans& sp) {
    switch (op) {
    case O_FFT: return hbits(fft(cin(pick_len(a, b), tag)));
    case O_IFFT: return hbits(ifft(cin(pick_len(a, b), tag)));
    case O_RFFT: return hbits(rfft(rin(pick_len(a, b), tag)));
    case O_IRFFT: { int n = pick_len(a, b); n += (n & 1); return hbits(irfft(cin(n / 2 + 1, tag), n)); }
    case O_XCORR: { int n1 = 8 + (a * 37) % 200, n2 = 8 + (b * 53) % 200; return hbits(xcorr(rin(n1, tag), rin(n2, tag + 1))); }
    case O_FFTFILT: { int nh = 4 + (a * 29) % 120; FftFilter f(rin(nh, tag)); auto y = f.process(rin(3 * f.block_size() + b, tag + 2)); return hbits(y); }
    case O_WELCH: { int nfft = 64 << (a % 3); auto w = welch(rin(nfft * 5 + b, tag), nfft, nfft / 2, nfft); return mix(hbits(w.pxx), hbits(w.f)); }
    case O_RESAMPLE: { int p = 1 + a % 7, q = 1 + b % 7; return hbits(resample(rin(300 + b, tag), p, q)); }
    case O_KAISER: return hbits(window::kaiser(16 + a * 13, 0.5 + b));
    case O_RANDN: return hbits(randn(1 + a * 17));
    case O_RAND: return hbits(rand(1 + a * 17));
    case O_RANDI: return hbits(randi({-5 - a, 5 + b}, 1 + a * 11));
    case O_AWGN: return hbits(awgn(rin(200 + a, tag), 10.0 + b));
    case O_SHARED: {
        if (sp.all.empty()) return 0;
        const auto& ref = sp.all[size_t(a) % sp.all.size()];
        switch (ref.type) {
        // both call forms of a plan object: solve() and operator()
        case 0: return (b & 1) ? hbits((*sp.c[size_t(ref.idx)])(cin(ref.n, tag + uint64_t(b)))) : hbits(sp.c[size_t(ref.idx)]->solve(cin(ref.n, tag + uint64_t(b))));
        case 1: return (b & 1) ? hbits((*sp.r[size_t(ref.idx)])(rin(ref.n, tag + uint64_t(b)))) : hbits(sp.r[size_t(ref.idx)]->solve(rin(ref.n, tag + uint64_t(b))));
        case 2: return (b & 1) ? hbits((*sp.ic[size_t(ref.idx)])(cin(ref.n, tag + uint64_t(b)))) : hbits(sp.ic[size_t(ref.idx)]->solve(cin(ref.n, tag + uint64_t(b))));
        case 3: return (b & 1) ? hbits((*sp.ir[size_t(ref.idx)])(cin(ref.n / 2 + 1, tag + uint64_t(b)))) : hbits(sp.ir[size_t(ref.idx)]->solve(cin((b & 2) ? ref.n : ref.n / 2 + 1, tag + uint64_t(b))));
        default: return (b & 1) ? hbits((*sp.z[size_t(ref.idx)])(cin(ref.n, tag + uint64_t(b)))) : hbits(sp.z[size_t(ref.idx)]->solve(cin(ref.n, tag + uint64_t(b))));
        }
    }
    }
    return 0;
}

struct Prog
{
    std::vector<int> shared;
    std::vector<std::vector<int>> threads;   // flattened triples op,a,b
    uint64_t seed{0};
};
Prog decode(const Json& c) {
    Prog p;
    p.shared = c.ints("shared");
    for (auto& t : c.at("threads").a) { std::vector<int> v; for (auto& e : t.a) v.push_back(int(e.integer())); p.threads.push_back(v); }
    p.seed = c.getu("seed");
    return p;
}

std::string first_dsplib_frame(const std::string& report) {
    size_t p = report.find("dsplib::");
    if (p == std::string::npos) return "unknown";
    size_t e = p;
    while (e < report.size() && report[e] != '(' && report[e] != ' ' && report[e] != '\n' && report[e] != '<') ++e;
    return report.substr(p, e - p);
}

void run_program(const Prog& p, Out& o) {
    const int T = int(p.threads.size());
    for (int round = 0, rounds = replay_rounds(8); round < rounds && !o.failed; ++round)
    run_forked(o, 300.0, [&](Out& co) {
        SharedPlans sp;
        sp.build(p.shared);
        // The shared plan objects are used by the threads FIRST (a plan that initialises something lazily on its first solve
        // must be safe when that first solve happens concurrently); the single-threaded reference runs afterwards, on a second
        // set of plan objects built from the same specification.
        std::vector<std::vector<uint64_t>> ref(static_cast<size_t>(T)), got(static_cast<size_t>(T));
        std::atomic<int> ready{0};
        std::atomic<bool> go{false};
        std::vector<std::thread> th;
        std::vector<std::string> errs(static_cast<size_t>(T));
        for (int t = 0; t < T; ++t) {
            th.emplace_back([&, t]() {
                ready.fetch_add(1);
                while (!go.load()) std::this_thread::yield();
                try {
                    rng(int(mix(p.seed, uint64_t(t)) & 0x7FFFFFFF));
                    const auto& ops = p.threads[size_t(t)];
                    for (size_t i = 0; i + 2 < ops.size(); i += 3) got[size_t(t)].push_back(exec_op(ops[i], ops[i + 1], ops[i + 2], mix(p.seed, uint64_t(t) * 1000 + i), sp));
                } catch (const std::exception& e) { errs[size_t(t)] = e.what(); }
            });
        }
        while (ready.load() < T) std::this_thread::yield();
        go.store(true);
        for (auto& x : th) x.join();
        {
            SharedPlans sp_ref;
            sp_ref.build(p.shared);
            for (int t = 0; t < T; ++t) {
                rng(int(mix(p.seed, uint64_t(t)) & 0x7FFFFFFF));
                const auto& ops = p.threads[size_t(t)];
                for (size_t i = 0; i + 2 < ops.size(); i += 3) ref[size_t(t)].push_back(exec_op(ops[i], ops[i + 1], ops[i + 2], mix(p.seed, uint64_t(t) * 1000 + i), sp_ref));
            }
        }
        for (int t = 0; t < T && !co.failed; ++t) {
            if (!errs[size_t(t)].empty()) { co.fail("mt:exception", fmt("thread %d threw: %s", t, errs[size_t(t)].c_str())); break; }
            for (size_t i = 0; i < ref[size_t(t)].size(); ++i)
                if (i >= got[size_t(t)].size() || got[size_t(t)][i] != ref[size_t(t)][i]) {
                    int op = p.threads[size_t(t)][3 * i];
                    co.fail(std::string("mt:result-differs:") + op_name(op), fmt("thread %d op %zu (%s %d %d): result differs from the single-threaded run", t, i, op_name(op), p.threads[size_t(t)][3 * i + 1], p.threads[size_t(t)][3 * i + 2]));
                    break;
                }
        }
    });
    if (o.failed && o.sig == "tsan") o.sig = "tsan:race:" + first_dsplib_frame(o.msg);
}

void prog_stats(const Prog& p, Out& o) {
    // non-trivial: >= 2 threads touch the same shared plan, or >= 2 threads run transforms of the same length class, or RNG calls in >= 2 threads
    std::map<int, int> shared_users, cls_users;
    int rng_threads = 0, nops = 0;
    for (auto& t : p.threads) {
        std::set<int> s, cl;
        bool r = false;
        for (size_t i = 0; i + 2 < t.size(); i += 3) {
            ++nops;
            if (t[i] == O_SHARED && !p.shared.empty()) s.insert(t[i + 1] % int(p.shared.size() / 2));
            if (t[i] <= O_IRFFT) cl.insert(t[i + 1] % 5);
            if (t[i] == O_RANDN || t[i] == O_RAND || t[i] == O_RANDI || t[i] == O_AWGN) r = true;
        }
        for (int x : s) shared_users[x]++;
        for (int x : cl) cls_users[x]++;
        rng_threads += r;
    }
    bool sh = false, cl = false;
    for (auto& kv : shared_users) if (kv.second >= 2) { sh = true; o.label(std::string("shared-by>=2:") + (p.shared[size_t(kv.first) * 2] == 0 ? "FftPlan" : p.shared[size_t(kv.first) * 2] == 1 ? "FftPlanR" : p.shared[size_t(kv.first) * 2] == 2 ? "IfftPlan" : p.shared[size_t(kv.first) * 2] == 3 ? "IfftPlanR" : "CztPlan")); }
    for (auto& kv : cls_users) if (kv.second >= 2) { cl = true; o.label(std::string("cache-class-by>=2:") + len_cls_name(kv.first)); }
    if (rng_threads >= 2) o.label("rng-in>=2-threads");
    o.label(fmt("threads:%s", p.threads.size() <= 2 ? "2" : p.threads.size() <= 4 ? "3-4" : p.threads.size() <= 8 ? "5-8" : "9-16"));
    if (sh || cl || rng_threads >= 2) {
        uint64_t k = mix(p.seed, uint64_t(p.threads.size()));
        for (auto& t : p.threads) for (int v : t) k = mix(k, uint64_t(v));
        for (int v : p.shared) k = mix(k, uint64_t(v));
        o.nontrivial(k);
    }
    o.evals = nops;
}

}   // namespace

// ------------------------------------------------------------------------------------------- generated thread programs
VK_SUB(prog, "thread_programs");
static void prog_check(const Json& c, Out& o) {
    Prog p = decode(c);
    prog_stats(p, o);
    run_program(p, o);
}
static void prog_gen(Ctx& ctx) {
    ctx.rc("programs", ctx.by_tier(12000, 64000), [&]() {
        int T = pick(2, pick(0, 3) == 0 ? 16 : 5);
        int nshared = pick(0, 6);
        std::vector<int> shared;
        for (int i = 0; i < nshared; ++i) { int type = pick(0, 4); int cls = pick(0, 4); shared.push_back(type); shared.push_back(pick_len(cls, pick(0, 5))); }
        Json threads = Json::array();
        for (int t = 0; t < T; ++t) {
            int n = pick(1, 12);
            std::vector<int> ops;
            for (int i = 0; i < n; ++i) {
                int op = pick(0, 9) < 4 && nshared > 0 ? int(O_SHARED) : pick(0, int(O_NOPS) - 1);
                ops.push_back(op); ops.push_back(pick(0, 5)); ops.push_back(pick(0, 5));
            }
            threads.push(Json(ops));
        }
        return Json::object().set("shared", shared).set("threads", threads).set("seed", (long long)seed64());
    });
}

// ------------------------------------------------------------------------------------------- every plan kind shared by all threads
VK_SUB(shp, "shared_plan_matrix");
static void shp_check(const Json& c, Out& o) {
    Prog p = decode(c);
    prog_stats(p, o);
    run_program(p, o);
}
static void shp_gen(Ctx& ctx) {
    // one program per (plan type, length class, length): T threads all hammer the same plan object
    for (int type = 0; type < 5; ++type)
        for (int cls = 0; cls < 5; ++cls)
            for (int li = 0; li < (ctx.quick() ? 2 : 6); ++li)
                for (int T : {2, 4, 8}) {
                    if (ctx.quick() && T == 8) continue;
                    if (!ctx.mine()) continue;
                    Json threads = Json::array();
                    for (int t = 0; t < T; ++t) { std::vector<int> ops; for (int i = 0; i < 6; ++i) { ops.push_back(int(O_SHARED)); ops.push_back(0); ops.push_back(i + t); } threads.push(Json(ops)); }
                    ctx.eval(Json::object().set("shared", std::vector<int>{type, pick_len(cls, li)}).set("threads", threads).set("seed", (long long)(mix(ctx.seed, key_of(type, cls, li, T)) >> 20)));
                }
}

// ------------------------------------------------------------------------------------------- RNG isolation with hand-over
VK_SUB(rngiso, "rng_isolation");
static void rngiso_check(const Json& c, Out& o) {
    const int sa = c.geti("sa"), sb = c.geti("sb"), k1 = c.geti("k1"), k2 = c.geti("k2"), kb = c.geti("kb"), gen = c.geti("gen");
    const int mode = c.geti("mode", 0);
    if (mode == 1) {
        // Threads that never seed: a thread that starts drawing observes some default sequence.  If that default is deterministic
        // (two fresh threads U0, U1 agree while nobody seeds in between - the premise, measured here, not assumed), then a third
        // fresh thread must still observe it after ANOTHER thread called rng(sb) and drew: seeding in one thread must not change
        // what another thread observes.  `pre` = the main thread seeds before anything else (or not).
        run_forked(o, 120.0, [&](Out& co) {
            auto draw = [&](int g, int k) -> uint64_t { return g == 0 ? hbits(randn(k)) : g == 1 ? hbits(rand(k)) : hbits(randi({-3, 1000}, k)); };
            if (c.geti("pre", 0)) { rng(sa); (void)draw(gen, 2); }
            uint64_t u0 = 0, u1 = 0, u2 = 0, u3 = 0;
            { std::thread t([&]() { u0 = draw(gen, k1); }); t.join(); }
            { std::thread t([&]() { u1 = draw(gen, k1); }); t.join(); }
            if (u0 != u1) { co.label("premise-failed:default sequence of a fresh thread is not deterministic"); co.discard = true; return; }
            { std::thread t([&]() { rng(sb); (void)draw(gen, kb); }); t.join(); }
            { std::thread t([&]() { u2 = draw(gen, k1); }); t.join(); }
            // ... and while a seeding thread is still alive
            std::atomic<int> phase{0};
            std::thread B([&]() { rng(sb + 1); (void)draw(gen, kb); phase.store(1); while (phase.load() != 2) std::this_thread::yield(); });
            while (phase.load() != 1) std::this_thread::yield();
            { std::thread t([&]() { u3 = draw(gen, k1); }); t.join(); }
            phase.store(2);
            B.join();
            if (u2 != u0 || u3 != u0) co.fail("rng:fresh-thread-sees-foreign-seed", fmt("a thread that never seeds drew a different sequence after another thread called rng(%d) (%s) / while another thread that called rng(%d) was alive (%s)", sb, u2 == u0 ? "same" : "differs", sb + 1, u3 == u0 ? "same" : "differs"));
        });
        if (o.failed && o.sig == "tsan") o.sig = "tsan:race:" + first_dsplib_frame(o.msg);
        o.nontrivial(key_of(sa, sb, k1, kb, gen, 77 + c.geti("pre", 0)));
        o.label(std::string("unseeded-threads:") + (gen == 0 ? "randn" : gen == 1 ? "rand" : "randi"));
        return;
    }
    run_forked(o, 120.0, [&](Out& co) {
        auto draw = [&](int g, int k) -> uint64_t { return g == 0 ? hbits(randn(k)) : g == 1 ? hbits(rand(k)) : hbits(randi({-3, 1000}, k)); };
        rng(sa);
        uint64_t r1 = draw(gen, k1), r2 = draw(gen, k2);
        std::atomic<int> phase{0};
        uint64_t g1 = 0, g2 = 0;
        std::thread A([&]() { rng(sa); g1 = draw(gen, k1); phase.store(1); while (phase.load() != 2) std::this_thread::yield(); g2 = draw(gen, k2); });
        std::thread B([&]() { while (phase.load() != 1) std::this_thread::yield(); rng(sb); (void)draw((gen + 1) % 3, kb); (void)draw(gen, kb); rng(sa); (void)draw(gen, 3); phase.store(2); });
        A.join();
        B.join();
        if (g1 != r1 || g2 != r2) co.fail("rng:not-per-thread", fmt("thread A's sequence after rng(%d) changed when thread B seeded and drew in between (first part %s, second part %s)", sa, g1 == r1 ? "same" : "differs", g2 == r2 ? "same" : "differs"));
    });
    if (o.failed && o.sig == "tsan") o.sig = "tsan:race:" + first_dsplib_frame(o.msg);
    o.nontrivial(key_of(sa, sb, k1, k2, kb, gen));
    o.label(gen == 0 ? "randn" : gen == 1 ? "rand" : "randi");
}
static void rngiso_gen(Ctx& ctx) {
    ctx.rc("handover", ctx.by_tier(1600, 16000), [&]() {
        return Json::object().set("sa", pick(0, 1000)).set("sb", pick(0, 1000)).set("k1", pick(1, 50)).set("k2", pick(1, 50)).set("kb", pick(1, 50)).set("gen", pick(0, 2));
    });
    ctx.rc("unseeded", ctx.by_tier(800, 8000), [&]() {
        return Json::object().set("mode", 1).set("pre", pick(0, 1)).set("sa", pick(1, 1000)).set("sb", pick(1, 1000)).set("k1", pick(1, 50)).set("k2", 0).set("kb", pick(1, 50)).set("gen", pick(0, 2));
    });
}

VK_MAIN("C09")
