// C20  Dynamics processors never amplify, follow their static curves, and settle.
//
// Oracles (all in long double, sharing no code with dsplib):
//   * static characteristic  f(x) = x                                   x <= T - W/2
//                                   x + (1/R - 1)(x - T + W/2)^2/(2W)   inside the knee
//                                   T + (x - T)/R                       x >= T + W/2        (limiter: 1/R = 0)
//     levels are measured on the samples actually fed / returned:  Lin = 20 log10|x|,  Lout = 20 log10|out|.
//   * one-pole smoothing  g[k] = c + (g0 - c) w^k,  w = exp(-ln 9/(fs t))  (w = 0 for t = 0), closed form per level step.
//   * NoiseGate: per-sample model-free verifier (direction, time constants, hold counter) + closed form per run.
//   * Agc: horizon from the loop's contraction factor, steady-state |Pout/target - 1| <= 1 %, gain <= 10^(max_gain/20).
// Tolerances: 1e-8 dB for the static curve (DESIGN C20), 1e-9 dB for ceiling / monotonicity / continuity, 1e-12 on the
// linear gain range (rounding of T + (x - T)/R can exceed x by one ulp for R = 1), a-priori k*eps bounds for the recurrences.
#include "kit/num.h"
#include "kit/prelude.h"
#include <dsplib.h>

using namespace vk;
using namespace dsplib;

namespace {

constexpr ld TOL_CURVE_DB = 1e-8L;    // stated in DESIGN C20
constexpr ld TOL_EDGE_DB = 1e-9L;     // ceiling / monotone / continuity: rounding is ~1e-13 dB
constexpr double TOL_GAIN_LIN = 1e-12;   // gain <= 1 + this (c*eps*(|xdb|+|T|)*ln10/20 with |xdb| <= 400 dB is 2e-14)

inline ld dbl(ld mag) { return 20 * log10l(mag); }
inline ld undb(ld v) { return powl(10.0L, v / 20); }

// static characteristic; invR = 1/R (0 for the limiter)
ld curve(ld x, ld T, ld invR, ld W) {
    const ld lo = T - W / 2, hi = T + W / 2;
    if (x <= lo) return x;
    if (x >= hi) return T + (x - T) * invR;
    return x + (invR - 1) * (x - lo) * (x - lo) / (2 * W);   // lo < x < hi implies W > 0
}
const char* region(ld x, ld T, ld W) { return x <= T - W / 2 ? "below" : x >= T + W / 2 ? "above" : "knee"; }

ld coef(int fs, double t) { return t == 0 ? 0.0L : expl(-logl(9.0L) / (ld(fs) * ld(t))); }

const char* PROC[] = {"comp", "lim", "gate"};

struct Params
{
    int proc{0}, fs{44100}, R{5};
    double T{-10}, W{0}, tA{0}, tR{0}, hold{0};
    uint64_t fr{0};   // 0: the signal is processed by ONE process() call; otherwise seed of a split into consecutive frames
    ld invR() const { return proc == 1 ? 0.0L : 1.0L / R; }
};
Params params_of(const Json& c) {
    Params p;
    p.proc = c.geti("proc"); p.fs = c.geti("fs"); p.R = c.geti("R", 1);
    p.T = c.getd("T"); p.W = c.getd("W", 0); p.tA = c.getd("tA", 0); p.tR = c.getd("tR", 0); p.hold = c.getd("hold", 0);
    p.fr = c.has("fr") ? c.getu("fr") : 0;
    return p;
}
void put_params(Json& j, const Params& p) {
    // three quarters of the cases feed the signal frame by frame (the static-curve, ceiling, range and smoothing claims
    // hold "across any number of calls"); the split is derived from the parameters so that generators need not know
    uint64_t h = key_of(p.proc, p.fs, int64_t(p.T * 1e6), p.R, int64_t(p.W * 1e6), int64_t(p.tA * 1e9), int64_t(p.tR * 1e9), int64_t(p.hold * 1e9));
    j.set("fr", (long long)((h % 4 == 0) ? 0 : ((h >> 16) | 1)));
    j.set("proc", p.proc).set("fs", p.fs).set("T", p.T).set("R", p.R).set("W", p.W).set("tA", p.tA).set("tR", p.tR).set("hold", p.hold);
}

// a fresh object; the signal is fed in one process() call (fr == 0) or as consecutive frames of generated sizes
void run_proc(const Params& p, const std::vector<double>& x, std::vector<double>& out, std::vector<double>& gain, bool defaults = false) {
    std::vector<size_t> cuts;   // frame boundaries
    if (p.fr != 0 && x.size() > 1) {
        Rng fr(p.fr);
        size_t pos = 0;
        const int mode = fr.range(0, 3);
        while (pos < x.size()) {
            size_t f = mode == 0 ? size_t(fr.range(1, 7)) : mode == 1 ? size_t(64) << fr.range(0, 3) : mode == 2 ? size_t(fr.range(1, int(std::max<size_t>(2, x.size() / 2)))) : (fr.coin() ? 1 : size_t(fr.range(100, 1000)));
            pos = std::min(x.size(), pos + f);
            cuts.push_back(pos);
        }
    } else cuts.push_back(x.size());
    out.clear();
    gain.clear();
    auto feed = [&](auto& proc) {
        size_t a = 0;
        for (size_t b : cuts) {
            arr_real in(int(b - a));
            for (size_t i = a; i < b; ++i) in[int(i - a)] = x[i];
            auto r = ((a + b) & 1) ? proc(in) : proc.process(in);   // both call forms: operator() and process()
            out.insert(out.end(), r.out.begin(), r.out.end());
            gain.insert(gain.end(), r.gain.begin(), r.gain.end());
            a = b;
        }
    };
    if (p.proc == 0) { Compressor c(p.fs, p.T, p.R, p.W, p.tA, p.tR); feed(c); }
    else if (p.proc == 1) {
        if (defaults) { Limiter l(p.fs, p.T, p.W); feed(l); }   // attack defaults to 0, release to 0.2
        else { Limiter l(p.fs, p.T, p.W, p.tA, p.tR); feed(l); }
    } else { NoiseGate n(p.fs, p.T, p.tA, p.tR, p.hold); feed(n); }
}

// gain in [0, 1] and out = x*gain, for every sample; returns false after recording a failure
bool check_range(const Params& p, const std::vector<double>& x, const std::vector<double>& out, const std::vector<double>& gain, Out& o) {
    const std::string P = PROC[p.proc];
    if (out.size() != x.size() || gain.size() != x.size()) { o.fail(P + ":size", fmt("process(%zu samples) returned %zu/%zu", x.size(), out.size(), gain.size())); return false; }
    double worst = 0;
    for (size_t i = 0; i < x.size(); ++i) {
        const double g = gain[i];
        if (!(g >= 0) || !std::isfinite(g)) { o.fail(P + ":gain<0-or-nan", fmt("gain[%zu]=%.17g for x=%.17g", i, g, x[i])); return false; }
        if (g - 1 > worst) worst = g - 1;
        if (g > 1 + TOL_GAIN_LIN) { o.fail(P + ":gain>1", fmt("gain[%zu]=%.17g > 1 for x=%.17g (T=%g R=%d W=%g tA=%g tR=%g fs=%d)", i, g, x[i], p.T, p.R, p.W, p.tA, p.tR, p.fs)); return false; }
        if (!(out[i] == x[i] * g)) { o.fail(P + ":out!=x*gain", fmt("out[%zu]=%.17g, x*gain=%.17g*%.17g", i, out[i], x[i], g)); return false; }
    }
    o.metric(P + " (gain-1)/1e-12", worst / TOL_GAIN_LIN);
    return true;
}

// ------------------------------------------------------------------------------------------- arbitrary signals
enum SigCls { G_SILENCE = 0, G_STEPS, G_NOISE, G_BURSTS, G_TONE, G_IMPULSES, G_DYN, G_NEAR_T, G_BURST_SILENCE, G_MIXED, G_NCLS };
const char* gname(int c) {
    static const char* n[] = {"silence", "steps", "noise", "bursts", "tone", "impulses", "dynrange", "near-threshold", "burst-then-silence", "mixed"};
    return c >= 0 && c < G_NCLS ? n[c] : "?";
}
double draw_level(Rng& r, double T, double W) {
    const int k = r.range(0, 9);
    if (k < 4) return r.uni(-100, 20);
    if (k < 7) return T + r.uni(-W / 2 - 15, W / 2 + 15);
    if (k == 7) return r.uni(20, 60);
    if (k == 8) return r.uni(-200, -100);
    return r.coin() ? T : (r.coin() ? T + W / 2 : T - W / 2);
}
inline double amp_of(double level) { return std::pow(10.0, level / 20); }
int seg_len(Rng& r, int maxlen) { return std::max(1, int(std::pow(double(std::max(1, maxlen)), r.uni()))); }

void fill(Rng& r, std::vector<double>& x, int a, int b, int cls, double T, double W) {
    switch (cls) {
    case G_SILENCE: for (int i = a; i < b; ++i) x[size_t(i)] = r.range(0, 7) ? 0.0 : -0.0; break;
    case G_STEPS: {
        int i = a;
        while (i < b) {
            const int len = seg_len(r, (b - a) / 2 + 1), mode = r.range(0, 2);
            const double A = amp_of(draw_level(r, T, W));
            for (int j = 0; j < len && i < b; ++j, ++i) x[size_t(i)] = mode == 0 ? A : mode == 1 ? ((j & 1) ? -A : A) : (r.coin() ? A : -A);
        }
        break;
    }
    case G_NOISE: { const double A = amp_of(draw_level(r, T, W)); for (int i = a; i < b; ++i) x[size_t(i)] = A * r.gauss(); break; }
    case G_BURSTS: {
        const double floorA = r.range(0, 3) ? amp_of(r.uni(-140, -40)) : 0.0;
        int i = a;
        while (i < b) {
            const int gap = seg_len(r, 3000);
            for (int j = 0; j < gap && i < b; ++j, ++i) x[size_t(i)] = floorA * r.gauss();
            const int len = seg_len(r, 2000), kind = r.range(0, 2);
            const double A = amp_of(draw_level(r, T, W)), f = r.uni(0.001, 0.5), ph = r.uni(0, 6.283185307179586);
            for (int j = 0; j < len && i < b; ++j, ++i) x[size_t(i)] = kind == 0 ? A * r.gauss() : kind == 1 ? A * std::sin(6.283185307179586 * f * j + ph) : (r.coin() ? A : -A);
        }
        break;
    }
    case G_TONE: {
        const double A = amp_of(draw_level(r, T, W)), f = std::pow(10.0, r.uni(-4, -0.302)), ph = r.uni(0, 6.283185307179586);
        for (int i = a; i < b; ++i) x[size_t(i)] = A * std::sin(6.283185307179586 * f * (i - a) + ph);
        break;
    }
    case G_IMPULSES: {
        const double floorA = r.coin() ? amp_of(r.uni(-140, -60)) : 0.0, pr = std::pow(10.0, r.uni(-3.5, -0.5));
        for (int i = a; i < b; ++i) x[size_t(i)] = r.uni() < pr ? (r.coin() ? 1 : -1) * amp_of(draw_level(r, T, W)) : floorA * r.gauss();
        break;
    }
    case G_DYN: for (int i = a; i < b; ++i) x[size_t(i)] = r.gauss() * r.logmag(-6, 1.5); break;
    case G_NEAR_T: for (int i = a; i < b; ++i) x[size_t(i)] = (r.coin() ? 1 : -1) * amp_of(T + r.uni(-W / 2 - 1, W / 2 + 1)); break;
    case G_BURST_SILENCE: {
        // strong bursts separated by EXACT silence (what a gated / packetised input looks like)
        int i = a;
        while (i < b) {
            const int len = seg_len(r, 3000), kind = r.range(0, 2);
            const double A = amp_of(r.coin() ? r.uni(-20, 40) : draw_level(r, T, W)), f = r.uni(0.001, 0.5), ph = r.uni(0, 6.283185307179586);
            for (int j = 0; j < len && i < b; ++j, ++i) x[size_t(i)] = kind == 0 ? A * r.gauss() : kind == 1 ? A * std::sin(6.283185307179586 * f * j + ph) : (r.coin() ? A : -A);
            const int gap = seg_len(r, 3000);
            for (int j = 0; j < gap && i < b; ++j, ++i) x[size_t(i)] = 0.0;
        }
        break;
    }
    default: for (int i = a; i < b; ++i) x[size_t(i)] = 0;
    }
}
std::vector<double> gen_signal(uint64_t seed, int n, int cls, double T, double W) {
    Rng r(seed);
    std::vector<double> x(static_cast<size_t>(n), 0.0);
    if (cls != G_MIXED) { fill(r, x, 0, n, cls, T, W); return x; }
    int i = 0;
    while (i < n) {
        const int len = std::min(n - i, seg_len(r, n / 3 + 1));
        fill(r, x, i, i + len, r.range(0, G_MIXED - 1), T, W);
        i += len;
    }
    return x;
}

int bucket_t(double t) { return t == 0 ? 0 : t < 1e-4 ? 1 : t < 1e-2 ? 2 : t < 0.5 ? 3 : 4; }
const char* tname(double t) { static const char* n[] = {"0", "<1e-4", "<1e-2", "<0.5", "<=4"}; return n[bucket_t(t)]; }
int bucket_fs(int fs) { return fs < 12000 ? 0 : fs < 30000 ? 1 : fs < 60000 ? 2 : fs < 120000 ? 3 : 4; }

// ------------------------------------------------------------------------------------------- parameter generators
const std::vector<int> FS_STD = {8000, 11025, 16000, 22050, 32000, 44100, 48000, 88200, 96000, 176400, 192000};
int pick_fs() { return pick(0, 2) ? one_of(FS_STD) : pick(8000, 192000); }
double pick_T() { const int k = pick(0, 5); return k == 0 ? -50.0 : k == 1 ? 0.0 : k == 2 ? double(-pick(0, 50)) : pickd(-50, 0); }
double pick_W() { const int k = pick(0, 7); return k == 0 ? 0.0 : k == 1 ? 20.0 : k == 2 ? std::pow(10.0, pickd(-6, -1)) : k == 3 ? double(pick(1, 20)) : pickd(0, 20); }
double pick_time() {
    const int k = pick(0, 6);
    return k == 0 ? 0.0 : k == 1 ? 4.0 : k == 2 ? std::pow(10.0, pickd(-7, -4)) : k == 3 ? std::pow(10.0, pickd(-4, -2)) : k == 4 ? std::pow(10.0, pickd(-2, -0.3)) : pickd(0.5, 4);
}
int pick_R() { const int k = pick(0, 5); return k == 0 ? 1 : k == 1 ? 50 : k == 2 ? 2 : pick(1, 50); }

}   // namespace

// =========================================================================================== static characteristic
VK_SUB(stat, "static_curve");
static void stat_check(const Json& c, Out& o) {
    Params p = params_of(c);
    p.tA = p.tR = 0;
    const std::string P = PROC[p.proc];
    const ld T = p.T, W = p.W, invR = p.invR();
    const double off = c.getd("off", 0);
    Rng r(c.getu("seed"));
    // amplitudes: coarse sweep -100..+20, 0.01 dB grid from 1 dB below the lower to 1 dB above the upper knee edge,
    // the edges themselves with their floating-point neighbours and +-1e-9/1e-6/1e-3 dB
    std::vector<double> amp;
    for (int k = 0; k <= 480; ++k) amp.push_back(amp_of(std::min(20.0, -100 + 0.25 * k + off)));
    const int k0 = std::max(0, int(std::floor((p.T - p.W / 2 - 1 + 100) / 0.01))), k1 = std::min(12000, int(std::ceil((p.T + p.W / 2 + 1 + 100) / 0.01)));
    for (int k = k0; k <= k1; ++k) amp.push_back(amp_of(std::min(20.0, -100 + 0.01 * k + off)));
    for (double e : {p.T - p.W / 2, p.T + p.W / 2, p.T}) {
        double a = amp_of(e), up = a, dn = a;
        amp.push_back(a);
        for (int j = 0; j < 96; ++j) { up = std::nextafter(up, 1e300); dn = std::nextafter(dn, 0.0); amp.push_back(up); amp.push_back(dn); }   // every double within 96 ulp: some of them have a computed level EXACTLY on the edge
        for (double d : {1e-9, 1e-6, 1e-3}) { amp.push_back(amp_of(e + d)); amp.push_back(amp_of(e - d)); }
    }
    std::sort(amp.begin(), amp.end());
    amp.erase(std::unique(amp.begin(), amp.end()), amp.end());
    const int n = int(amp.size());
    // presentation order: ascending or shuffled (with zero time constants the gain may not depend on history)
    std::vector<int> order(static_cast<size_t>(n));
    for (int i = 0; i < n; ++i) order[size_t(i)] = i;
    if (c.geti("shuffle", 0)) for (int i = n - 1; i > 0; --i) std::swap(order[size_t(i)], order[size_t(r.range(0, i))]);
    std::vector<double> x(static_cast<size_t>(n)), out, gain;
    for (int i = 0; i < n; ++i) x[size_t(i)] = (r.coin() ? 1 : -1) * amp[size_t(order[size_t(i)])];
    run_proc(p, x, out, gain);
    if (!check_range(p, x, out, gain, o)) return;

    std::vector<ld> Lin(static_cast<size_t>(n)), Lout(static_cast<size_t>(n));   // indexed by amplitude rank
    double worst = 0;
    bool in_knee = false, near_lo = false, near_hi = false;
    for (int i = 0; i < n; ++i) {
        const int k = order[size_t(i)];
        if (out[size_t(i)] == 0) { o.fail(P + ":static:zero-out", fmt("out=0 for x=%.17g", x[size_t(i)])); return; }
        const ld li = dbl(std::fabs(x[size_t(i)])), lo = dbl(std::fabs(out[size_t(i)]));
        Lin[size_t(k)] = li; Lout[size_t(k)] = lo;
        const ld ref = curve(li, T, invR, W), err = std::fabs(lo - ref);
        worst = std::max(worst, double(err / TOL_CURVE_DB));
        if (!(err <= TOL_CURVE_DB)) {
            o.fail(P + ":static:" + region(li, T, W), fmt("T=%g R=%d W=%g: input level %.12Lg dB -> output level %.12Lg dB, static curve %.12Lg dB (diff %.3Lg dB)", p.T, p.R, p.W, li, lo, ref, lo - ref));
            return;
        }
        if (W > 0 && li > T - W / 2 && li < T + W / 2) in_knee = true;
        if (std::fabs(li - (T - W / 2)) <= 0.05L) near_lo = true;
        if (std::fabs(li - (T + W / 2)) <= 0.05L) near_hi = true;
    }
    o.metric(P + " static err/1e-8dB", worst);
    // monotone, and continuous across the knee edges: 0 <= dLout <= dLin between neighbouring levels
    double wm = 0, wc = 0;
    for (int k = 0; k + 1 < n; ++k) {
        const ld dli = Lin[size_t(k + 1)] - Lin[size_t(k)], dlo = Lout[size_t(k + 1)] - Lout[size_t(k)];
        wm = std::max(wm, double(-dlo / TOL_EDGE_DB));
        if (!(dlo >= -TOL_EDGE_DB)) { o.fail(P + ":static:not-monotone", fmt("T=%g R=%d W=%g: output level falls by %.3Lg dB between input levels %.12Lg and %.12Lg dB", p.T, p.R, p.W, -dlo, Lin[size_t(k)], Lin[size_t(k + 1)])); return; }
        const bool at_edge = std::min(std::fabs(Lin[size_t(k)] - (T - W / 2)), std::fabs(Lin[size_t(k)] - (T + W / 2))) <= 0.011L;
        if (at_edge) {
            wc = std::max(wc, double((dlo - dli) / TOL_EDGE_DB));
            if (!(dlo <= dli + TOL_EDGE_DB)) { o.fail(P + ":static:jump-at-knee-edge", fmt("T=%g R=%d W=%g: output level jumps by %.6Lg dB while the input level moves %.3Lg dB at %.12Lg dB", p.T, p.R, p.W, dlo, dli, Lin[size_t(k)])); return; }
        }
    }
    o.metric(P + " monotone excess/1e-9dB", wm);
    o.metric(P + " edge jump excess/1e-9dB", wc);
    o.evals = n;
    const bool ratio_acts = p.proc == 1 || p.R > 1;
    const int tb = int(std::floor(-p.T / 5)), wb = int(std::ceil(p.W / 2));
    if (ratio_acts && p.W > 0) {
        if (in_knee) o.nontrivial(key_of(p.proc, tb, p.R, wb, 1));
        if (near_lo) o.nontrivial(key_of(p.proc, tb, p.R, wb, 2));
        if (near_hi) o.nontrivial(key_of(p.proc, tb, p.R, wb, 3));
    }
    o.label("proc:" + P);
    o.label(p.W == 0 ? "knee:hard" : p.W < 0.1 ? "knee:<0.1dB" : p.W < 20 ? "knee:soft" : "knee:20dB");
    if (p.proc == 0) o.label(p.R == 1 ? "ratio:1" : p.R == 50 ? "ratio:50" : "ratio:2..49");
    o.label(c.geti("shuffle", 0) ? "order:shuffled" : "order:ascending");
}
static void stat_gen(Ctx& ctx) {
    // enumeration: every ratio x threshold grid x knee grid (compressor), threshold x knee grid (limiter)
    const std::vector<double> Ws = {0, 0.5, 1, 2, 5, 10, 20};
    for (int proc = 0; proc < 2; ++proc)
        for (int R = 1; R <= (proc == 0 ? 50 : 1); ++R)
            for (int t = 0; t <= 10; ++t)
                for (double W : Ws) {
                    if (!ctx.mine()) continue;
                    Params p; p.proc = proc; p.fs = 48000; p.T = -5.0 * t; p.R = R; p.W = W;
                    Json j = Json::object(); put_params(j, p);
                    ctx.eval(j.set("off", 0.0).set("shuffle", (R + t) & 1).set("seed", (long long)(mix(ctx.seed, key_of(proc, R, t, int(W * 2))) >> 16)));
                }
    ctx.rc("random", ctx.by_tier(60000, 600000), [&]() {
        Params p; p.proc = pick(0, 1); p.fs = pick_fs(); p.T = pick_T(); p.R = p.proc == 0 ? pick_R() : 1; p.W = pick_W();
        Json j = Json::object(); put_params(j, p);
        return j.set("off", pick(0, 1) ? 0.0 : pickd(0, 0.01)).set("shuffle", pick(0, 1)).set("seed", (long long)seed64());
    });
}

// =========================================================================================== gain range on arbitrary signals
VK_SUB(rng, "gain_range");
static void rng_check(const Json& c, Out& o) {
    const Params p = params_of(c);
    const int n = c.geti("n"), cls = c.geti("cls");
    const std::vector<double> x = gen_signal(c.getu("seed"), n, cls, p.T, p.W);
    std::vector<double> out, gain;
    run_proc(p, x, out, gain);
    if (!check_range(p, x, out, gain, o)) return;
    o.evals = n;
    const double thr = amp_of(p.T - p.W / 2);
    long above = 0, acted = 0;
    for (int i = 0; i < n; ++i) { above += std::fabs(x[size_t(i)]) > thr; acted += gain[size_t(i)] < 1; }
    if (above > 0 && acted > 0) o.nontrivial(key_of(p.proc, cls, int(std::floor(-p.T / 10)), bucket_t(p.tA), bucket_t(p.tR), p.W > 0, n >= 100000));
    o.label(std::string("proc:") + PROC[p.proc]);
    o.label(std::string("signal:") + gname(cls));
    o.label(n >= 100000 ? "n:1e5" : "n:<1e5");
    o.label(above == 0 ? "acts:never-above-threshold" : acted == n ? "acts:all-samples" : "acts:some-samples");
}
static void rng_gen(Ctx& ctx) {
    ctx.rc("random", ctx.by_tier(20000, 200000), [&]() {
        Params p; p.proc = pick(0, 2); p.fs = pick_fs(); p.T = pick_T(); p.R = pick_R(); p.W = p.proc == 2 ? 0.0 : pick_W();
        p.tA = pick_time(); p.tR = pick_time(); p.hold = p.proc == 2 ? pick_time() : 0.0;
        Json j = Json::object(); put_params(j, p);
        const int nk = pick(0, 5);
        return j.set("n", nk == 0 ? pick_log(1, 2000) : nk == 1 ? 10000 : 100000).set("cls", pick(0, G_NCLS - 1)).set("seed", (long long)seed64());
    });
}

// =========================================================================================== limiter ceiling (zero attack)
VK_SUB(ceil, "limiter_ceiling");
static void ceil_check(const Json& c, Out& o) {
    Params p = params_of(c);
    p.proc = 1; p.tA = 0;
    const bool dflt = c.geti("dflt", 0) != 0;
    if (dflt) p.tR = 0.2;
    const int n = c.geti("n"), cls = c.geti("cls");
    const std::vector<double> x = gen_signal(c.getu("seed"), n, cls, p.T, p.W);
    std::vector<double> out, gain;
    run_proc(p, x, out, gain, dflt);
    if (!check_range(p, x, out, gain, o)) return;
    // |out| <= 10^((T + 1e-9)/20)
    const double lim = double(undb(ld(p.T) + TOL_EDGE_DB));   // double(lim) vs exact: relative 1e-16, i.e. 1e-15 dB
    const double thr = amp_of(p.T), lo_edge = amp_of(p.T - p.W / 2);
    double peak = 0; int at = -1; long onsets = 0, over = 0;
    for (int i = 0; i < n; ++i) {
        const double a = std::fabs(out[size_t(i)]);
        if (a > peak) { peak = a; at = i; }
        const bool ov = std::fabs(x[size_t(i)]) > thr;
        over += ov;
        if (ov && i > 0 && std::fabs(x[size_t(i - 1)]) < lo_edge) ++onsets;   // abrupt rise from the unity region to above the threshold
    }
    if (peak > 0) {
        const ld ex = dbl(peak) - ld(p.T);
        o.metric("ceiling excess/1e-9dB", double(ex / TOL_EDGE_DB));
        if (!(peak <= lim)) { o.fail("lim:ceiling", fmt("T=%g W=%g tR=%g fs=%d: |out[%d]|=%.17g is %.6Lg dB above the threshold (x=%.17g, gain=%.17g)", p.T, p.W, p.tR, p.fs, at, peak, ex, x[size_t(at)], gain[size_t(at)])); return; }
    }
    o.evals = n;
    if (onsets > 0) o.nontrivial(key_of(cls, int(std::floor(-p.T / 5)), int(std::ceil(p.W / 4)), bucket_t(p.tR), bucket_fs(p.fs)));
    o.label(std::string("signal:") + gname(cls));
    o.label(onsets > 0 ? "burst-onsets:yes" : over > 0 ? "burst-onsets:no (above threshold without abrupt onset)" : "burst-onsets:no (never above threshold)");
    o.label(std::string("release:") + tname(p.tR));
    o.label(dflt ? "ctor:default-attack" : "ctor:explicit-zero-attack");
    o.label(n >= 100000 ? "n:1e5" : "n:<1e5");
}
static void ceil_gen(Ctx& ctx) {
    ctx.rc("random", ctx.by_tier(20000, 200000), [&]() {
        Params p; p.proc = 1; p.fs = pick_fs(); p.T = pick_T(); p.W = pick_W(); p.tR = pick_time();
        Json j = Json::object(); put_params(j, p);
        const int nk = pick(0, 5);
        // every class except pure silence at full weight; bursts/impulses/steps/mixed are the abrupt ones
        const int cls = one_of(std::vector<int>{G_SILENCE, G_STEPS, G_STEPS, G_NOISE, G_BURSTS, G_BURSTS, G_TONE, G_IMPULSES, G_IMPULSES, G_DYN, G_NEAR_T, G_BURST_SILENCE, G_BURST_SILENCE, G_MIXED, G_MIXED});
        return j.set("dflt", pick(0, 3) == 0 ? 1 : 0).set("n", nk == 0 ? pick_log(1, 2000) : nk == 1 ? 10000 : 100000).set("cls", cls).set("seed", (long long)seed64());
    });
}

// =========================================================================================== smoothing on level steps
VK_SUB(smo, "smoothing_step");
static void smo_check(const Json& c, Out& o) {
    const Params p = params_of(c);
    const std::string P = PROC[p.proc];
    const ld T = p.T, W = p.W, invR = p.invR();
    const ld wA = coef(p.fs, p.tA), wR = coef(p.fs, p.tR);
    const int np = c.geti("np");
    Rng r(c.getu("seed"));
    std::vector<double> x;
    std::vector<int> plen;
    std::vector<ld> ptarget;
    ld gabs = 1;
    for (int q = 0; q < np; ++q) {
        // "z<q>": exact digital silence (0.0) for this phase: level below every threshold, target gain 0 dB
        const bool silent = c.geti(fmt("z%d", q), 0) != 0;
        const double A = silent ? 0.0 : amp_of(c.getd(fmt("L%d", q)));
        const int len = c.geti(fmt("n%d", q)), mode = r.range(0, 2);
        for (int j = 0; j < len; ++j) x.push_back(mode == 0 ? A : mode == 1 ? ((j & 1) ? -A : A) : (r.coin() ? A : -A));
        const ld li = silent ? ld(-400) : dbl(A);
        plen.push_back(len);
        ptarget.push_back(silent ? ld(0) : curve(li, T, invR, W) - li);   // computed gain in dB for this level
        gabs = std::max(gabs, std::fabs(ptarget.back()) + 1);
    }
    std::vector<double> out, gain;
    run_proc(p, x, out, gain);
    if (!check_range(p, x, out, gain, o)) return;
    // dB; the library evaluates the level of |x| + eps (log guard): at the lowest possible knee edge (-60 dB) that moves the
    // target by 20/ln10 * eps/|x| = 1.9e-12 dB; one rounding of w*g + (1-w)*c is ~eps*70 = 1.5e-14 dB
    const ld tiny = 1e-10L;
    ld gs = 0, prev = 0;      // fresh object: smoothed gain 0 dB
    size_t idx = 0;
    double worst = 0, wmono = 0;
    bool saw_att = false, saw_rel = false;
    for (int q = 0; q < np; ++q) {
        const ld cg = ptarget[size_t(q)];
        const bool att = cg <= gs;
        const ld w = att ? wA : wR;
        const bool moving = std::fabs(gs - cg) > 0.1L;
        ld wk = 1;
        for (int k = 1; k <= plen[size_t(q)]; ++k, ++idx) {
            wk *= w;
            const ld ref = cg + (gs - cg) * wk;
            if (gain[idx] <= 0) { o.fail(P + ":smooth:zero-gain", fmt("gain[%zu]=%.17g", idx, gain[idx])); return; }
            const ld g = dbl(gain[idx]);
            const ld tol = 1e-11L + 8 * ld(EPS) * gabs * ld(idx + 1);
            const ld err = std::fabs(g - ref);
            worst = std::max(worst, double(err / tol));
            if (!(err <= tol)) {
                o.fail(P + (att ? ":smooth:attack-coef" : ":smooth:release-coef"),
                       fmt("T=%g R=%d W=%g tA=%g tR=%g fs=%d: phase %d step %d: gain %.12Lg dB, closed form %.12Lg dB (target %.6Lg, start %.6Lg, w=%.12Lg), diff %.3Lg > %.3Lg", p.T, p.R, p.W, p.tA, p.tR, p.fs, q, k, g, ref, cg, gs, w, g - ref, tol));
                return;
            }
            // monotone towards the target, never past it: every new value lies between the previous value and the target
            // (stated on the returned gains only, tolerance 1e-10 dB, see above)
            const ld excess = std::max(std::min(prev, cg) - g, g - std::max(prev, cg));
            wmono = std::max(wmono, double(excess / tiny));
            if (!(excess <= tiny)) {
                o.fail(P + ":smooth:not-monotone", fmt("T=%g R=%d W=%g tA=%g tR=%g fs=%d: phase %d step %d (%s): gain moved from %.15Lg to %.15Lg dB, not towards/within target %.15Lg dB", p.T, p.R, p.W, p.tA, p.tR, p.fs, q, k, att ? "attack" : "release", prev, g, cg));
                return;
            }
            prev = g;
        }
        if (moving && w > 0 && plen[size_t(q)] >= 2) {
            (att ? saw_att : saw_rel) = true;
            o.nontrivial(key_of(p.proc, int(att), bucket_t(att ? p.tA : p.tR), bucket_fs(p.fs), int(std::floor(-p.T / 10)), p.W > 0));
            o.label(att ? "phase:attack (w>0, moving)" : "phase:release (w>0, moving)");
        } else if (moving) o.label(att ? "phase:attack instantaneous" : "phase:release instantaneous");
        gs = cg + (gs - cg) * wk;
    }
    o.metric(P + " smoothing err/tol", worst);
    o.metric(P + " not-between(prev,target)/1e-10dB", wmono);
    o.evals = long(x.size());
    o.label("proc:" + P);
    o.label(std::string("tA:") + tname(p.tA));
    o.label(std::string("tR:") + tname(p.tR));
    (void)saw_att; (void)saw_rel;
}
static void smo_gen(Ctx& ctx) {
    ctx.rc("random", ctx.by_tier(200000, 2000000), [&]() {
        Params p; p.proc = pick(0, 1); p.fs = pick_fs(); p.T = pick_T(); p.R = p.proc == 0 ? pick_R() : 1; p.W = pick_W();
        p.tA = pick_time(); p.tR = pick_time();
        Json j = Json::object(); put_params(j, p);
        const int np = pick(1, 4);
        j.set("np", np);
        for (int q = 0; q < np; ++q) {
            const int k = pick(0, 3);
            const double L = k == 0 ? pickd(-100, p.T - p.W / 2) : k == 1 ? pickd(p.T - p.W / 2, p.T + p.W / 2) : k == 2 ? pickd(p.T + p.W / 2, 20) : pickd(-100, 20);
            j.set(fmt("L%d", q), L).set(fmt("n%d", q), pick_log(1, 3000)).set(fmt("z%d", q), pick(0, 5) == 5 ? 1 : 0);
        }
        return j.set("seed", (long long)seed64());
    });
}

// =========================================================================================== noise gate
// Verifier for an arbitrary input: every step must be one of the documented moves
//   open  (|x| >= 10^(T/20)):  g = wR g' + (1 - wR)         (g' = 1 stays 1)
//   close (|x| <  10^(T/20)):  g = g'  while the hold counter < floor(hold fs), then g = wA g'   (g' = 0 stays 0)
// The hold counter is restarted by every opening step that moves the gain.  An opening sample that finds the gate fully
// open (g' == 1.0) may or may not restart it (the text does not say; the library does not) - both are accepted.
VK_SUB(gate, "noise_gate");
static void gate_check(const Json& c, Out& o) {
    Params p = params_of(c);
    p.proc = 2;
    const int n0 = c.geti("n"), cls = c.geti("cls");
    const ld hf = ld(p.hold) * ld(p.fs);
    const ld tHl = floorl(hf);
    // floor(hold*fs) must not hinge on rounding: hold*fs is either exact (0 or 4 s) or at least 1e-6 away from an integer
    if (p.hold != 0 && p.hold != 4 && std::min(hf - tHl, tHl + 1 - hf) < 1e-6L) { o.discard = true; return; }
    const long tH = long(tHl);
    const ld tl = undb(p.T), wA = coef(p.fs, p.tA), wR = coef(p.fs, p.tR);
    std::vector<double> x;
    if (cls >= 0) x = gen_signal(c.getu("seed"), n0, cls, p.T, 0);
    else {
        // scenario: alternating runs above / below the threshold, run lengths given in the case
        Rng r(c.getu("seed"));
        const int np = c.geti("np");
        for (int q = 0; q < np; ++q) {
            const int len = c.geti(fmt("n%d", q));
            const bool open = (q & 1) == 0;
            for (int j = 0; j < len; ++j) {
                const double lv = open ? p.T + r.uni(0.001, 40) : (r.range(0, 3) ? p.T - r.uni(0.001, 80) : -400.0);
                x.push_back(lv <= -400 ? 0.0 : (r.coin() ? 1 : -1) * amp_of(lv));
            }
        }
    }
    const int n = int(x.size());
    for (auto& v : x) if (v != 0 && std::fabs(ld(std::fabs(v)) / tl - 1) < 1e-12L) v *= (1 + 1e-9);   // no ties at the threshold
    std::vector<double> out, gain;
    run_proc(p, x, out, gain);
    if (!check_range(p, x, out, gain, o)) return;

    ld prev = 0;
    long clo = 0, chi = 0;              // possible values of the hold counter
    int mode = -1;                      // 0 opening, 1 holding, 2 closing  (for the closed form per run)
    ld run_start = 0, wk = 1; long run_k = 0;
    long holds = 0, closes = 0, opens = 0, ambiguous = 0, hold_ends = 0, underflow = 0;
    double werr = 0;
    for (int i = 0; i < n; ++i) {
        const ld g = gain[size_t(i)];
        const bool above = ld(std::fabs(x[size_t(i)])) >= tl;
        int m;
        if (above) {
            if (prev == 1) {
                if (!(std::fabs(g - 1) <= 4 * ld(EPS))) { o.fail("gate:leaves-1-while-open", fmt("sample %d: gate fully open, |x| above threshold, gain %.17Lg", i, g)); return; }
                if (clo > 0) ++ambiguous;
                clo = 0;
                m = -1;
            } else {
                const ld ref = wR * prev + (1 - wR), err = std::fabs(g - ref);
                werr = std::max(werr, double(err / (8 * ld(EPS))));
                if (!(err <= 8 * ld(EPS))) { o.fail("gate:release-coef", fmt("sample %d: opening from %.17Lg gave %.17Lg, expected %.17Lg (tR=%g fs=%d)", i, prev, g, ref, p.tR, p.fs)); return; }
                if (!(g >= prev - 4 * ld(EPS))) { o.fail("gate:not-monotone", fmt("sample %d: opening but gain fell %.17Lg -> %.17Lg", i, prev, g)); return; }
                clo = chi = 0;
                m = 0; ++opens;
            }
        } else {
            if (prev == 0) {
                if (g != 0) { o.fail("gate:leaves-0-while-closed", fmt("sample %d: gate closed, |x| below threshold, gain %.17Lg", i, g)); return; }
                m = -1;
            } else if (prev < 1e-290L) {
                // the closing gain has decayed into the subnormal range: wA*g' may round back to g'; nothing to decide here
                if (!(g >= 0 && g <= prev)) { o.fail("gate:not-monotone", fmt("sample %d: closing but gain moved %.17Lg -> %.17Lg", i, prev, g)); return; }
                m = -1; ++underflow;
            } else if (g == prev) {
                // held
                if (clo >= tH) { o.fail("gate:hold-too-long", fmt("sample %d: gain still held at %.17Lg after %ld samples below threshold, hold = floor(%g*%d) = %ld", i, g, clo, p.hold, p.fs, tH)); return; }
                clo = clo + 1; chi = std::min(chi, tH - 1) + 1;
                m = 1; ++holds;
            } else {
                const ld ref = wA * prev, err = std::fabs(g - ref);
                werr = std::max(werr, double(err / (8 * ld(EPS))));
                if (!(err <= 8 * ld(EPS))) { o.fail("gate:attack-coef", fmt("sample %d: closing from %.17Lg gave %.17Lg, expected %.17Lg (tA=%g fs=%d)", i, prev, g, ref, p.tA, p.fs)); return; }
                if (chi < tH) { o.fail("gate:hold-too-short", fmt("sample %d: gain started to fall (%.17Lg -> %.17Lg) after only %ld samples below threshold, hold = floor(%g*%d) = %ld", i, prev, g, chi, p.hold, p.fs, tH)); return; }
                if (mode != 2) ++hold_ends;
                clo = std::max(clo, tH);
                m = 2; ++closes;
            }
        }
        // closed form over a run of identical moves
        if (m != mode || m < 0) { mode = m; run_start = prev; wk = 1; run_k = 0; }
        if (m == 0 || m == 2) {
            const ld w = m == 0 ? wR : wA, target = m == 0 ? 1 : 0;
            wk *= w; ++run_k;
            const ld ref = target + (run_start - target) * wk, tol = 8 * ld(EPS) * ld(run_k);
            werr = std::max(werr, double(std::fabs(g - ref) / tol));
            if (!(std::fabs(g - ref) <= tol)) { o.fail(m == 0 ? "gate:release-closed-form" : "gate:attack-closed-form", fmt("sample %d: step %ld of the run: gain %.17Lg, closed form %.17Lg", i, run_k, g, ref)); return; }
        }
        prev = g;
    }
    o.metric("gate err/tol", werr);
    o.evals = n;
    if (hold_ends > 0 && tH > 0) o.nontrivial(key_of(cls, tH < 10 ? tH : tH < 100 ? 10 : tH < 10000 ? 11 : 12, bucket_t(p.tA), bucket_t(p.tR), bucket_fs(p.fs)));
    o.label(cls < 0 ? "signal:runs" : std::string("signal:") + gname(cls));
    o.label(tH == 0 ? "hold:0" : tH < 100 ? "hold:1..99 samples" : "hold:>=100 samples");
    o.label(hold_ends > 0 ? (tH > 0 ? "hold expired and closing observed" : "closing observed (no hold)") : holds > 0 ? "held only" : opens > 0 ? "opening only" : "gate never moved");
    if (ambiguous) o.label("excluded:hold-counter-after-fully-open (either accepted)");
    if (underflow) o.label("closing gain reached the subnormal range");
}
static void gate_gen(Ctx& ctx) {
    ctx.rc("runs", ctx.by_tier(150000, 1500000), [&]() {
        Params p; p.proc = 2; p.fs = pick_fs(); p.T = pick_T(); p.tA = pick_time(); p.tR = pick_time();
        const int hk = pick(0, 4);
        const int m = hk == 0 ? 0 : hk == 1 ? pick(1, 8) : hk == 2 ? pick_log(1, 2000) : hk == 3 ? pick_log(1, 768000) : -1;
        p.hold = m == 0 ? 0.0 : m > 0 ? std::min(4.0, (m + pickd(0.1, 0.9)) / p.fs) : 4.0;
        Json j = Json::object(); put_params(j, p);
        const int np = pick(1, 7);
        j.set("cls", -1).set("n", 0).set("np", np);
        const int th = int(std::floor(p.hold * p.fs));
        for (int q = 0; q < np; ++q) {
            // runs below the threshold are placed around the hold length half of the time
            int len = pick_log(1, 3000);
            if ((q & 1) && pick(0, 1) && th < 6000) len = std::max(1, th + pick(-3, 40));
            j.set(fmt("n%d", q), len);
        }
        return j.set("seed", (long long)seed64());
    });
    ctx.rc("signals", ctx.by_tier(10000, 100000), [&]() {
        Params p; p.proc = 2; p.fs = pick_fs(); p.T = pick_T(); p.tA = pick_time(); p.tR = pick_time();
        const int hk = pick(0, 3);
        const int m = hk == 0 ? 0 : hk == 1 ? pick(1, 8) : hk == 2 ? pick_log(1, 2000) : pick_log(1, 200000);
        p.hold = m == 0 ? 0.0 : std::min(4.0, (m + pickd(0.1, 0.9)) / p.fs);
        Json j = Json::object(); put_params(j, p);
        const int nk = pick(0, 3);
        return j.set("cls", pick(1, G_NCLS - 1)).set("n", nk == 0 ? pick_log(1, 2000) : nk == 1 ? 10000 : 100000).set("seed", (long long)seed64());
    });
}

// =========================================================================================== AGC
namespace {
struct AgcCase
{
    double target, maxgain_db, tr, tf;
    int L;
};
AgcCase agc_of(const Json& c) { return AgcCase{c.getd("target"), c.getd("mg"), c.getd("tr"), c.getd("tf"), c.geti("L")}; }
// gain <= 10^(max_gain/20), finite, > 0, out = x*gain
inline ld pw(real_t v) { return ld(v) * v; }
inline ld pw(const cmplx_t& v) { return ld(v.re) * v.re + ld(v.im) * v.im; }
template<class T>
bool agc_common(const AgcCase& a, const base_array<T>& x, const Agc::Result<T>& r, Out& o) {
    const int n = x.size();
    if (r.out.size() != n || r.gain.size() != n) { o.fail("agc:size", fmt("process(%d) returned %d/%d", n, r.out.size(), r.gain.size())); return false; }
    const ld gmax = undb(a.maxgain_db);
    double worst = 0;
    for (int i = 0; i < n; ++i) {
        const double g = r.gain[i];
        if (!std::isfinite(g) || !(g >= 0)) {
            // known class: the running sum of the moving average is left with a negative rounding residue when a burst is
            // followed by (near) silence -> log(negative) -> NaN for ever.  Recognised on the reference side: the true mean
            // power of the current window is below 1e-9 of the largest power seen in the last 2L samples.
            ld mean = 0, top = 0;
            for (int j = std::max(0, i - a.L + 1); j <= i; ++j) mean += pw(x[j]);
            for (int j = std::max(0, i - 2 * a.L); j <= i; ++j) top = std::max(top, pw(x[j]));
            mean /= a.L;
            const bool burst_then_silence = top > 0 && mean < 1e-9L * top;
            o.fail(burst_then_silence ? "agc:nan-after-burst-then-silence" : "agc:gain-not-finite",
                   fmt("gain[%d]=%.17g (target=%g max_gain=%g L=%d t=%g/%g); window mean power %.3Lg, peak power in the last 2L samples %.3Lg", i, g, a.target, a.maxgain_db, a.L, a.tr, a.tf, mean, top));
            return false;
        }
        const ld ex = ld(g) / gmax - 1;
        worst = std::max(worst, double(ex / 1e-12L));
        if (!(ex <= 1e-12L)) { o.fail("agc:gain>max_gain", fmt("gain[%d]=%.17g exceeds 10^(%g/20)=%.17Lg (target=%g L=%d)", i, g, a.maxgain_db, gmax, a.target, a.L)); return false; }
        if (!(r.out[i] == x[i] * g)) { o.fail("agc:out!=x*gain", fmt("sample %d", i)); return false; }
    }
    o.metric("agc (gain/gmax-1)/1e-12", worst);
    return true;
}
}   // namespace

VK_SUB(agcs, "agc_settle");
static void agcs_check(const Json& c, Out& o) {
    const AgcCase a = agc_of(c);
    const double A = amp_of(c.getd("level"));
    const int kind = c.geti("kind");   // 0 complex exponential, 1 complex constant, 2 real +-A random, 3 real DC, 4 real alternating
    Rng r(c.getu("seed"));
    // horizon: after the L-sample warm-up of the average the loop error e = ln(target) - ln(P) - 2g contracts by
    // rho = max(1 - 2t) per sample (0 < t <= 0.5: no overshoot).  The log-gain starts at 1 (AgcImpl::gain{1.0}) and during the
    // warm-up it stays between min(1, g*) and max(1, g* + ln(L)/2), hence |e| <= 2|g*| + ln L + 2 when the warm-up ends.
    const ld P = ld(A) * ld(A);
    const ld gstar = (logl(ld(a.target)) - logl(P)) / 2;
    const ld gmax = logl(10.0L) * ld(a.maxgain_db) / 20;
    const bool reachable = gstar < gmax;
    const ld rho = std::max(1 - 2 * ld(a.tr), 1 - 2 * ld(a.tf));
    const ld E0 = 2 * std::fabs(gstar) + logl(ld(a.L)) + 3, delta = 0.0005L;
    const int K = rho <= 0 ? 1 : int(std::ceil(double(logl(E0 / delta) / -logl(rho))));
    const int tail = std::min(a.L, 100);
    const int n = a.L + K + tail + 8;
    bool ok = true;
    ld pout_last = 0, pout_mean = 0, glast = 0;
    if (kind <= 1) {
        arr_cmplx x(n);
        const double f = kind == 0 ? r.uni(-0.5, 0.5) : 0.0, ph = r.uni(0, 6.283185307179586);
        for (int i = 0; i < n; ++i) x[i] = cmplx_t(A * std::cos(6.283185307179586 * f * i + ph), A * std::sin(6.283185307179586 * f * i + ph));
        Agc agc(a.target, a.maxgain_db, a.L, a.tr, a.tf);
        auto res = c.geti("call", 0) ? agc(x) : agc.process(x);
        ok = agc_common(a, x, res, o);
        if (ok) {
            for (int i = n - tail; i < n; ++i) pout_mean += ld(res.out[i].re) * res.out[i].re + ld(res.out[i].im) * res.out[i].im;
            pout_last = ld(res.out[n - 1].re) * res.out[n - 1].re + ld(res.out[n - 1].im) * res.out[n - 1].im;
            glast = res.gain[n - 1];
        }
    } else {
        arr_real x(n);
        for (int i = 0; i < n; ++i) x[i] = kind == 3 ? A : kind == 4 ? ((i & 1) ? -A : A) : (r.coin() ? A : -A);
        Agc agc(a.target, a.maxgain_db, a.L, a.tr, a.tf);
        auto res = c.geti("call", 0) ? agc(x) : agc.process(x);
        ok = agc_common(a, x, res, o);
        if (ok) {
            for (int i = n - tail; i < n; ++i) pout_mean += ld(res.out[i]) * res.out[i];
            pout_last = ld(res.out[n - 1]) * res.out[n - 1];
            glast = res.gain[n - 1];
        }
    }
    if (!ok) return;
    pout_mean /= tail;
    o.evals = n;
    if (reachable) {
        const ld e1 = std::fabs(pout_last / ld(a.target) - 1), e2 = std::fabs(pout_mean / ld(a.target) - 1);
        o.metric("agc steady-state power err/1%", double(std::max(e1, e2) / 0.01L));
        if (!(e1 <= 0.01L) || !(e2 <= 0.01L)) {
            o.fail(kind <= 1 ? "agc:steady-state:complex" : "agc:steady-state:real",
                   fmt("target=%g input power=%.6Lg max_gain=%g dB (needed %.4Lg dB) L=%d t_rise=%g t_fall=%g: after %d samples output power %.9Lg (last), %.9Lg (mean of last %d), gain %.9Lg", a.target, P, a.maxgain_db, gstar * 20 / logl(10.0L), a.L, a.tr, a.tf, n, pout_last, pout_mean, tail, glast));
            return;
        }
        o.nontrivial(key_of(kind, int(std::floor(double(gstar))), a.L < 10 ? a.L : a.L < 100 ? 10 : 11, int(std::floor(std::log10(a.target) * 2))));
    }
    o.label(reachable ? "needed gain < max_gain" : "needed gain >= max_gain (cap only)");
    o.label(kind <= 1 ? "input:complex" : "input:real");
    o.label(a.L == 1 ? "L:1" : a.L < 100 ? "L:2..99" : "L:100..1000");
    o.label(gstar < 0 ? "needed:attenuation" : "needed:amplification");
    o.label(c.getd("level") < -60 ? "input:below -60 dB" : c.getd("level") < -30 ? "input:-60..-30 dB" : c.getd("level") < 0 ? "input:-30..0 dB" : "input:above 0 dB");
}
static void agcs_gen(Ctx& ctx) {
    ctx.rc("random", ctx.by_tier(300000, 3000000), [&]() {
        const double target = pick(0, 3) == 0 ? one_of(std::vector<double>{0.01, 1.0, 100.0}) : std::pow(10.0, pickd(-2, 2));
        // input amplitude in dB: 80 dB spans anywhere between -100 and +40 dB (weak inputs that still need less than max_gain included)
        const int lw = pick(0, 2);
        const double level = lw == 0 ? pickd(-40, 40) : lw == 1 ? pickd(-100, -20) : pickd(-80, 0);
        const double needed_db = 10 * std::log10(target) - level;
        double mg;
        const int k = pick(0, 3);
        if (k == 0) mg = one_of(std::vector<double>{60.0, 30.0, 24.0, 20.0});
        else if (k == 1) mg = std::max(0.0, needed_db - pickd(0, 30));
        else mg = std::max(0.0, needed_db) + pickd(0.1, 40);
        const int lk = pick(0, 3);
        const int L = lk == 0 ? 1 : lk == 1 ? pick(2, 99) : lk == 2 ? pick(100, 1000) : one_of(std::vector<int>{100, 1000});
        auto step = [&]() { const int s = pick(0, 3); return s == 0 ? 0.01 : s == 1 ? 0.02 : std::pow(10.0, pickd(-2.7, -0.302)); };
        const double tr = step(), tf = pick(0, 1) ? tr : step();
        return Json::object().set("target", target).set("level", level).set("mg", mg).set("L", L).set("tr", tr).set("tf", tf)
          .set("kind", pick(0, 4)).set("call", pick(0, 1)).set("seed", (long long)seed64());
    });
}

VK_SUB(agcm, "agc_max_gain");
static void agcm_check(const Json& c, Out& o) {
    const AgcCase a = agc_of(c);
    const int n = c.geti("n"), cls = c.geti("cls");
    const double scale = amp_of(c.getd("level"));
    // cls = -1: the burst-then-silence scenario  x[i] = A sin(f i + ph) for i < m, exactly 0 afterwards  (A from "level")
    std::vector<double> s;
    if (cls >= 0) s = gen_signal(c.getu("seed"), c.geti("cx") ? 2 * n : n, cls, -20, 10);
    else {
        const int m = c.geti("m"), step = c.geti("cx") ? 2 : 1;
        const double f = c.getd("f"), ph = c.getd("ph");
        s.assign(size_t(step * n), 0.0);
        for (int i = 0; i < std::min(m, n); ++i) {
            s[size_t(step * i)] = std::sin(f * i + ph);
            if (step == 2) s[size_t(2 * i + 1)] = std::cos(1.3 * f * i + ph);
        }
    }
    const ld gmax = undb(a.maxgain_db);
    ld top = 0;
    if (c.geti("cx")) {
        arr_cmplx x(n);
        for (int i = 0; i < n; ++i) x[i] = cmplx_t(scale * s[size_t(2 * i)], scale * s[size_t(2 * i + 1)]);
        Agc agc(a.target, a.maxgain_db, a.L, a.tr, a.tf);
        auto res = agc.process(x);
        if (!agc_common(a, x, res, o)) return;
        for (int i = 0; i < n; ++i) top = std::max(top, ld(res.gain[i]));
    } else {
        arr_real x(n);
        for (int i = 0; i < n; ++i) x[i] = scale * s[size_t(i)];
        Agc agc(a.target, a.maxgain_db, a.L, a.tr, a.tf);
        auto res = agc.process(x);
        if (!agc_common(a, x, res, o)) return;
        for (int i = 0; i < n; ++i) top = std::max(top, ld(res.gain[i]));
    }
    o.evals = n;
    const bool capped = top >= gmax * (1 - 1e-9L);
    if (capped) o.nontrivial(key_of(cls + 1, c.geti("cx"), int(a.maxgain_db / 10), a.L < 10 ? a.L : a.L < 100 ? 10 : 11));
    o.label(capped ? "cap:reached" : "cap:not reached");
    o.label(cls < 0 ? "signal:burst-then-silence scenario" : std::string("signal:") + gname(cls));
    o.label(c.geti("cx") ? "input:complex" : "input:real");
}
static void agcm_gen(Ctx& ctx) {
    auto common = [&]() {
        const double target = std::pow(10.0, pickd(-2, 2));
        const int lk = pick(0, 2);
        const int L = lk == 0 ? 1 : lk == 1 ? pick(2, 99) : pick(100, 1000);
        auto step = [&]() { const int s = pick(0, 2); return s == 0 ? 0.01 : std::pow(10.0, pickd(-3, 0)); };
        const double tr = step(), tf = pick(0, 1) ? tr : step();
        return Json::object().set("target", target).set("level", pickd(-40, 40)).set("mg", pick(0, 2) == 0 ? double(pick(0, 60)) : pickd(0, 80)).set("L", L).set("tr", tr).set("tf", tf);
    };
    ctx.rc("random", ctx.by_tier(40000, 400000), [&]() {
        Json j = common();
        const int nk = pick(0, 3);
        return j.set("cx", pick(0, 1)).set("n", nk == 0 ? pick_log(1, 2000) : nk == 1 ? 5000 : 20000).set("cls", pick(0, G_NCLS - 1)).set("seed", (long long)seed64());
    });
    // a burst of m samples, then exact silence for more than two averaging windows
    ctx.rc("burst_then_silence", ctx.by_tier(40000, 400000), [&]() {
        Json j = common();
        const int L = j.geti("L"), m = pick(0, 2) == 0 ? pick(1, 3 * L) : pick_log(1, 3000);
        return j.set("cx", pick(0, 1)).set("n", m + 3 * L + pick(0, 50)).set("cls", -1).set("m", m).set("f", pickd(0.001, 3.1)).set("ph", pickd(0, 6.28)).set("seed", 0);
    });
}

VK_FRESH_THREADS;
VK_MAIN("C20")
