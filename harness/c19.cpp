// C19  Noise injection and SNR/THD measurement are calibrated; random streams reproduce.
//
// Sub-checks
//   awgn_stats     noise = awgn(x, snr) - x is zero-mean, white, Gaussian, uncorrelated with x, and carries
//                  P_x / 10^(snr/10) (complex: summed over both components, half in each), all within 6 standard errors.
//   measure_tones  thd / sinad / snr on noise-free fundamental + 1..5 harmonics (-10..-40 dBc, every component >= 100 bins
//                  from the others / DC / Nyquist): thd value within 0.1 dB, harmfreq within 0.1 bin, sinad within 1.5 dB,
//                  all three invariant under scaling by a positive constant.
//   rng_replay     after rng(seed) an interleaved sequence of rand / randn / randi / awgn calls (scalar and array forms)
//                  replays bit-identically whatever happened before rng(); the stream advances; another seed differs.
//   seed_streams   the streams of all seeds 0..1000 are pairwise different (one exhaustive case).
//   randi_bounds   randi stays inside its inclusive bounds (single-value, negative, wide, full-int ranges; scalar and
//                  array forms; randi(imax) = [1, imax]) and reaches both ends on small ranges.
//
// The library RNG is the subject here, so it is seeded explicitly inside each case with dsplib::rng(int).
#include "kit/num.h"
#include "kit/prelude.h"
#include <dsplib.h>

#include <climits>
#include <cstring>

using namespace vk;
namespace dl = dsplib;

namespace {

uint64_t bits_of(double v) {
    uint64_t b;
    std::memcpy(&b, &v, 8);
    return b;
}

// ------------------------------------------------------------------------------------------- moments of a noise record
struct Mom
{
    ld mean{0}, m2{0}, m4{0}, raw2{0};   // central moments (divided by n) and the raw mean square
    ld acf[6]{};                         // normalised autocorrelation at lag 1..5 (index = lag)
};
Mom moments(const std::vector<double>& z) {
    const size_t n = z.size();
    Mom m;
    ld s = 0, q = 0;
    for (double v : z) { s += v; q += ld(v) * v; }
    m.mean = s / ld(n);
    m.raw2 = q / ld(n);
    ld c2 = 0, c4 = 0;
    for (double v : z) { ld d = v - m.mean; ld d2 = d * d; c2 += d2; c4 += d2 * d2; }
    m.m2 = c2 / ld(n);
    m.m4 = c4 / ld(n);
    for (int k = 1; k <= 5; ++k) {
        ld a = 0;
        for (size_t i = 0; i + size_t(k) < n; ++i) a += (z[i] - m.mean) * (z[i + size_t(k)] - m.mean);
        m.acf[k] = c2 > 0 ? a / c2 : 0;
    }
    return m;
}
// normalised cross-correlation sum_i a[i] b[i+lag] / sqrt(sum a^2 sum b^2)
ld xcorr_at(const std::vector<double>& a, const std::vector<double>& b, int lag, ld ma, ld mb) {
    const long n = long(a.size());
    ld s = 0, sa = 0, sb = 0;
    for (long i = 0; i < n; ++i) {
        sa += (a[size_t(i)] - ma) * (a[size_t(i)] - ma);
        sb += (b[size_t(i)] - mb) * (b[size_t(i)] - mb);
        long j = i + lag;
        if (j >= 0 && j < n) s += (a[size_t(i)] - ma) * (b[size_t(j)] - mb);
    }
    return (sa > 0 && sb > 0) ? s / std::sqrt(sa * sb) : 0;
}

const char* rsig_name(int c) {
    static const char* n[] = {"tone", "multitone", "gauss", "bpsk", "dc", "burst"};
    return n[c];
}
const char* csig_name(int c) {
    static const char* n[] = {"cexp", "qpsk", "cgauss", "real-only", "unbalanced", "burst"};
    return n[c];
}
constexpr int kNSigClasses = 6;

std::vector<double> make_real(Rng& r, int n, int cls, double A) {
    std::vector<double> x(static_cast<size_t>(n));
    switch (cls) {
    case 0: {
        const double f = r.uni(0.0005, 0.4995), p = r.uni(0, 2 * M_PI);
        for (int i = 0; i < n; ++i) x[size_t(i)] = A * std::cos(2 * M_PI * std::fmod(f * i, 1.0) + p);
        break;
    }
    case 1: {
        const int nt = r.range(2, 5);
        std::vector<double> f(static_cast<size_t>(nt)), p(static_cast<size_t>(nt)), a(static_cast<size_t>(nt));
        for (int t = 0; t < nt; ++t) { f[size_t(t)] = r.uni(0.0005, 0.4995); p[size_t(t)] = r.uni(0, 2 * M_PI); a[size_t(t)] = r.uni(0.1, 1.0); }
        for (int i = 0; i < n; ++i) {
            double v = 0;
            for (int t = 0; t < nt; ++t) v += a[size_t(t)] * std::cos(2 * M_PI * std::fmod(f[size_t(t)] * i, 1.0) + p[size_t(t)]);
            x[size_t(i)] = A * v;
        }
        break;
    }
    case 2: for (auto& v : x) v = A * r.gauss(); break;
    case 3: for (auto& v : x) v = r.coin() ? A : -A; break;
    case 4: { const double a = r.coin() ? A : -A; for (auto& v : x) v = a; break; }
    default: {   // bursts: about 2 % of the samples carry all the power
        for (auto& v : x) v = (r.next() % 50 == 0) ? A * r.gauss() : 0.0;
        x[size_t(r.range(0, n - 1))] = A;   // never identically zero
    }
    }
    return x;
}
std::vector<std::complex<double>> make_cmplx(Rng& r, int n, int cls, double A) {
    std::vector<std::complex<double>> x(static_cast<size_t>(n));
    switch (cls) {
    case 0: {
        const double f = r.uni(-0.5, 0.5), p = r.uni(0, 2 * M_PI);
        for (int i = 0; i < n; ++i) { double ph = 2 * M_PI * std::fmod(f * i, 1.0) + p; x[size_t(i)] = {A * std::cos(ph), A * std::sin(ph)}; }
        break;
    }
    case 1: for (auto& v : x) v = {r.coin() ? A : -A, r.coin() ? A : -A}; break;
    case 2: for (auto& v : x) v = {A * r.gauss(), A * r.gauss()}; break;
    case 3: {   // all the signal power in the real part: the noise must still be split equally
        const double f = r.uni(0.0005, 0.4995), p = r.uni(0, 2 * M_PI);
        for (int i = 0; i < n; ++i) x[size_t(i)] = {A * std::cos(2 * M_PI * std::fmod(f * i, 1.0) + p), 0.0};
        break;
    }
    case 4: for (auto& v : x) v = {0.03 * A * r.gauss(), A * r.gauss()}; break;
    default: {
        for (auto& v : x) v = (r.next() % 50 == 0) ? std::complex<double>(A * r.gauss(), A * r.gauss()) : std::complex<double>(0, 0);
        x[size_t(r.range(0, n - 1))] = {A, -A};
    }
    }
    return x;
}

// Band statistics of one draw.  A 6-standard-error band is exceeded by sound code about twice per 1e9 tests (more often for
// the kurtosis of short records), so an exceedance is not reported from one draw: see awgn_check.
struct Bands
{
    struct Hit { std::string key, sig, msg; };     // key = statistic incl. component / lag, sig = failure class
    std::vector<Hit> hits;                         // statistics outside their band in this draw (first per key)
    std::vector<std::pair<std::string, double>> metrics;
    std::string hard_sig, hard_msg;                // size / non-finite: not statistical, reported at once
    void band(const std::string& key, const std::string& sig, const std::string& metric, ld ratio, const std::string& msg) {
        metrics.emplace_back(metric, double(ratio));
        if (!(ratio <= 1)) {
            for (auto& h : hits) if (h.key == key) return;
            hits.push_back({key, sig, msg});
        }
    }
    bool has(const std::string& key) const {
        for (auto& h : hits) if (h.key == key) return true;
        return false;
    }
};

// one real noise component against its expected per-component sigma; tag = "", "re", "im"
void check_component(const std::vector<double>& z, ld sigma, const std::string& what, const std::string& tag, Bands& b) {
    const ld n = ld(z.size());
    const Mom m = moments(z);
    const std::string at = what + (tag.empty() ? "" : " " + tag);
    // zero mean: the mean of n independent N(0, sigma^2) samples has standard deviation sigma/sqrt(n)
    const ld tol_mean = 6 * sigma / std::sqrt(n);
    b.band("mean:" + tag, "awgn:mean", "awgn mean err/tol", std::fabs(m.mean) / tol_mean,
           fmt("%s: noise mean %.6Lg, |mean| allowed 6 sigma/sqrt(n) = %.6Lg (sigma=%.6Lg)", at.c_str(), m.mean, tol_mean, sigma));
    // power of this component: relative standard error of the mean square of n Gaussian samples is sqrt(2/n)
    const ld relp = m.raw2 / (sigma * sigma) - 1, tol_p = 6 * std::sqrt(2 / n);
    b.band("power:" + tag, tag.empty() ? "awgn:real:power" : "awgn:cmplx:power-split", tag.empty() ? "awgn real power err/tol" : "awgn component power err/tol", std::fabs(relp) / tol_p,
           fmt("%s: measured noise power %.9Lg, expected %.9Lg (%.4Lf dB off; relative error %.4Lg, allowed 6 sqrt(2/n) = %.4Lg)", at.c_str(), m.raw2, sigma * sigma,
               10 * std::log10(m.raw2 / (sigma * sigma)), relp, tol_p));
    // whiteness
    const ld tol_a = 6 / std::sqrt(n);
    for (int k = 1; k <= 5; ++k)
        b.band(fmt("acf:%s:%d", tag.c_str(), k), "awgn:acf", "awgn acf err/tol", std::fabs(m.acf[k]) / tol_a,
               fmt("%s: autocorrelation at lag %d = %.6Lg, allowed 6/sqrt(n) = %.6Lg", at.c_str(), k, m.acf[k], tol_a));
    // Gaussian shape
    const ld g2 = m.m2 > 0 ? m.m4 / (m.m2 * m.m2) - 3 : -3, tol_k = 6 * std::sqrt(24 / n);
    b.band("kurtosis:" + tag, "awgn:kurtosis", "awgn kurtosis err/tol", std::fabs(g2) / tol_k, fmt("%s: excess kurtosis %.6Lg, allowed 6 sqrt(24/n) = %.6Lg", at.c_str(), g2, tol_k));
}

// one draw of real awgn after rng(libseed): all band statistics of noise = y - x
Bands draw_real(const std::vector<double>& xv, double snr, int libseed, const std::string& what) {
    Bands b;
    const int n = int(xv.size());
    dl::rng(libseed);
    const dl::arr_real y = dl::awgn(to_arr(xv), snr);
    if (y.size() != n) { b.hard_sig = "awgn:size"; b.hard_msg = fmt("%s returned %d samples", what.c_str(), y.size()); return b; }
    if (!all_finite(y)) { b.hard_sig = "awgn:nonfinite"; b.hard_msg = what + " returned a non-finite sample"; return b; }
    ld sx2 = 0;
    for (double v : xv) sx2 += ld(v) * v;
    const ld sigma = std::sqrt(sx2 / ld(n) * powl(10.0L, -ld(snr) / 10));
    std::vector<double> z(static_cast<size_t>(n));
    ld dot = 0;
    for (int i = 0; i < n; ++i) { z[size_t(i)] = y[i] - xv[size_t(i)]; dot += ld(z[size_t(i)]) * xv[size_t(i)]; }
    check_component(z, sigma, what, "", b);
    // independent of the signal: sum z_i x_i / (sigma ||x||) is N(0,1) for fixed x
    const ld rho = dot / (sigma * std::sqrt(sx2));
    b.band("signal-corr", "awgn:signal-corr", "awgn signal-corr err/tol", std::fabs(rho) / 6, fmt("%s: <noise, x>/(sigma ||x||) = %.4Lg, a standard normal variable, allowed 6", what.c_str(), rho));
    return b;
}

Bands draw_cmplx(const std::vector<std::complex<double>>& xv, double snr, int libseed, const std::string& what) {
    Bands b;
    const int n = int(xv.size());
    dl::rng(libseed);
    const dl::arr_cmplx y = dl::awgn(to_arr(xv), snr);
    if (y.size() != n) { b.hard_sig = "awgn:size"; b.hard_msg = fmt("%s returned %d samples", what.c_str(), y.size()); return b; }
    if (!all_finite(y)) { b.hard_sig = "awgn:nonfinite"; b.hard_msg = what + " returned a non-finite sample"; return b; }
    ld sx2 = 0;
    for (auto& v : xv) sx2 += ld(v.real()) * v.real() + ld(v.imag()) * v.imag();
    const ld sigma = std::sqrt(sx2 / ld(n) * powl(10.0L, -ld(snr) / 10));   // total (both components)
    const ld sigc = sigma / std::sqrt(ld(2));                                // per component
    std::vector<double> zr(static_cast<size_t>(n)), zi(static_cast<size_t>(n));
    ld tot = 0, dre = 0, dim = 0;
    for (int i = 0; i < n; ++i) {
        const double a = y[i].re - xv[size_t(i)].real(), c = y[i].im - xv[size_t(i)].imag();
        zr[size_t(i)] = a;
        zi[size_t(i)] = c;
        tot += ld(a) * a + ld(c) * c;
        dre += ld(a) * xv[size_t(i)].real() + ld(c) * xv[size_t(i)].imag();   // Re z conj(x)
        dim += ld(c) * xv[size_t(i)].real() - ld(a) * xv[size_t(i)].imag();   // Im z conj(x)
    }
    tot /= ld(n);
    // total power: 2n real Gaussian samples  =>  relative standard error sqrt(2/(2n))
    const ld relp = tot / (sigma * sigma) - 1, tol_p = 6 * std::sqrt(1 / ld(n));
    b.band("power-total", "awgn:cmplx:power-total", "awgn complex total power err/tol", std::fabs(relp) / tol_p,
           fmt("%s: measured noise power (re+im) %.9Lg, expected %.9Lg (%.4Lf dB off; relative error %.4Lg, allowed 6 sqrt(1/n) = %.4Lg)", what.c_str(), tot, sigma * sigma,
               10 * std::log10(tot / (sigma * sigma)), relp, tol_p));
    check_component(zr, sigc, what, "re", b);
    check_component(zi, sigc, what, "im", b);
    // real and imaginary noise are uncorrelated at lags -5..5
    ld mr = 0, mi = 0;
    for (int i = 0; i < n; ++i) { mr += zr[size_t(i)]; mi += zi[size_t(i)]; }
    mr /= ld(n);
    mi /= ld(n);
    const ld tol_a = 6 / std::sqrt(ld(n));
    for (int lag = -5; lag <= 5; ++lag) {
        const ld cc = xcorr_at(zr, zi, lag, mr, mi);
        b.band(fmt("reim-corr:%d", lag), "awgn:reim-corr", "awgn re-im corr err/tol", std::fabs(cc) / tol_a,
               fmt("%s: correlation of real and imaginary noise at lag %d = %.6Lg, allowed 6/sqrt(n) = %.6Lg", what.c_str(), lag, cc, tol_a));
    }
    const ld rho1 = dre / (sigc * std::sqrt(sx2)), rho2 = dim / (sigc * std::sqrt(sx2));
    b.band("signal-corr:re", "awgn:signal-corr", "awgn signal-corr err/tol", std::fabs(rho1) / 6, fmt("%s: Re <noise, x>/(sigma_c ||x||) = %.4Lg, a standard normal variable, allowed 6", what.c_str(), rho1));
    b.band("signal-corr:im", "awgn:signal-corr", "awgn signal-corr err/tol", std::fabs(rho2) / 6, fmt("%s: Im <noise, x>/(sigma_c ||x||) = %.4Lg, a standard normal variable, allowed 6", what.c_str(), rho2));
    return b;
}

}   // namespace

// ------------------------------------------------------------------------------------------- awgn
VK_SUB(awgn, "awgn_stats");
static void awgn_check(const Json& c, Out& o) {
    const int n = c.geti("n"), cls = c.geti("cls");
    const bool cx = c.geti("cx") != 0;
    const double snr = c.getd("snr"), A = std::pow(10.0, c.getd("loga"));
    const uint64_t seed = c.getu("seed");
    Rng r(seed);
    const std::string what = fmt("awgn(%s %s[%d], A=%.3g, snr=%.4f dB)", cx ? "complex" : "real", cx ? csig_name(cls) : rsig_name(cls), n, A, snr);
    std::vector<double> xr;
    std::vector<std::complex<double>> xc;
    if (cx) xc = make_cmplx(r, n, cls, A);
    else xr = make_real(r, n, cls, A);
    // library seeds of the first draw and of the two confirmation draws: all derived from the case
    const int libseed[3] = {int(seed % 1000003u), int(mix(seed, 1) % 1000003u), int(mix(seed, 2) % 1000003u)};
    auto draw = [&](int k) { return cx ? draw_cmplx(xc, snr, libseed[k], what) : draw_real(xr, snr, libseed[k], what); };
    const Bands b0 = draw(0);
    if (!b0.hard_sig.empty()) { o.fail(b0.hard_sig, b0.hard_msg); return; }
    for (auto& m : b0.metrics) o.metric(m.first, m.second);
    o.evals = long(b0.metrics.size());
    if (!b0.hits.empty()) {
        // A statistic left its 6-standard-error band.  A calibration / whiteness / shape defect repeats on every draw, a
        // 6-sigma fluke does not: the SAME case (signal, snr, length) is drawn twice more with other library seeds and the
        // failure is reported only for a statistic that is outside its band in all three draws.
        const Bands b1 = draw(1), b2 = draw(2);
        o.evals += long(b1.metrics.size() + b2.metrics.size());
        if (!b1.hard_sig.empty()) { o.fail(b1.hard_sig, b1.hard_msg); return; }
        if (!b2.hard_sig.empty()) { o.fail(b2.hard_sig, b2.hard_msg); return; }
        bool confirmed = false;
        for (auto& h : b0.hits)
            if (b1.has(h.key) && b2.has(h.key)) {
                confirmed = true;
                o.fail(h.sig, h.msg + fmt(" [outside the band in all three draws, rng(%d), rng(%d), rng(%d)]", libseed[0], libseed[1], libseed[2]));
            }
        o.label(confirmed ? "awgn:band-exceeded-confirmed-3-of-3" : "awgn:band-exceeded-once-not-confirmed");
    }
    // non-trivial: complex input, or an SNR that the unit tests do not use (10, 50, 90, 100 dB)
    const bool test_snr = (snr == 10 || snr == 50 || snr == 90 || snr == 100);
    if (cx || !test_snr) {
        int lb = 0;
        while ((10000L << (lb + 1)) <= n) ++lb;
        o.nontrivial(key_of(int(cx), cls, int(std::floor((snr + 10) / 5)), int(std::floor((c.getd("loga") + 3) * 2)), lb));
    }
    // how often a sound 6-standard-error band is approached (diagnostic: expected about once per 1e5 band tests)
    for (auto& m : b0.metrics) if (m.second > 0.8) o.label("band-test above 0.8 of 6 SE: " + m.first.substr(5, m.first.size() - 13) + (cx ? " / complex " : " / real ") + (cx ? csig_name(cls) : rsig_name(cls)));
    o.label(std::string("signal:") + (cx ? "complex:" : "real:") + (cx ? csig_name(cls) : rsig_name(cls)));
    o.label(n >= 500000 ? "len:>=5e5" : n >= 100000 ? "len:1e5..5e5" : n >= 30000 ? "len:3e4..1e5" : "len:1e4..3e4");
    o.label(snr < 0 ? "snr:<0" : snr < 30 ? "snr:0..30" : snr < 60 ? "snr:30..60" : "snr:60..80");
}
static void awgn_gen(Ctx& ctx) {
    // the corners of the stated domain, real and complex, every signal class
    for (double snr : {-10.0, 80.0})
        for (double loga : {-3.0, 3.0})
            for (int cx = 0; cx < 2; ++cx)
                for (int cls = 0; cls < kNSigClasses; ++cls) {
                    if (!ctx.mine()) continue;
                    ctx.eval(Json::object().set("n", 20000).set("cx", cx).set("cls", cls).set("snr", snr).set("loga", loga)
                               .set("seed", (long long)(mix(ctx.seed, key_of(int(snr), int(loga), cx, cls)) >> 16)));
                }
    // a few of the longest records
    const int nbig = ctx.by_tier(16, 64);
    for (int k = 0; k < nbig; ++k) {
        if (!ctx.mine()) continue;
        Rng r(mix(ctx.seed, key_of(0xB16, k)));
        ctx.eval(Json::object().set("n", k % 4 == 0 ? 1000000 : r.range(500000, 1000000)).set("cx", k & 1).set("cls", r.range(0, kNSigClasses - 1))
                   .set("snr", r.uni(-10, 80)).set("loga", r.uni(-3, 3)).set("seed", (long long)(r.next() >> 16)));
    }
    // log-uniform lengths 1e4..4e5 (shrinks towards 1e4)
    ctx.rc("random", ctx.by_tier(30000, 240000), [&]() {
        int n = int(std::floor(std::pow(10.0, 4.0 + 1.6 * pickd(0, 1)) + 0.5));
        return Json::object().set("n", n).set("cx", pick(0, 1)).set("cls", pick(0, kNSigClasses - 1)).set("snr", pickd(-10, 80)).set("loga", pickd(-3, 3)).set("seed", (long long)seed64());
    });
}

// ------------------------------------------------------------------------------------------- thd / sinad / snr
namespace {

double fold(double f) {   // alias a frequency in cycles/sample into [0, 0.5]
    double t = std::fmod(f, 1.0);
    return t > 0.5 ? 1.0 - t : t;
}
const char* amode_name(int m) {
    static const char* n[] = {"in-band,aliased=false", "in-band,aliased=true", "folded,aliased=true"};
    return n[m];
}
const char* bin_name(int m) {
    static const char* n[] = {"off-bin", "on-bin(len)", "on-bin(nfft)"};
    return n[m];
}

}   // namespace

VK_SUB(meas, "measure_tones");
static void meas_check(const Json& c, Out& o) {
    const int len = c.geti("len"), h = c.geti("h"), binmode = c.geti("bin"), amode = c.geti("amode"), scls = c.geti("scale");
    Rng r(c.getu("seed"));
    int nfft = 1;
    while (nfft < len) nfft *= 2;
    const double bin = 1.0 / len;          // resolution of the record; the computed spectrum has spacing 1/nfft <= 1/len
    const double guard = 100.0 * bin;      // "at least 100 spectral bins": taken in the coarser unit, so it holds in both
    const int ncomp = h + 1;
    // ---- choose f0 so that the premise holds (established here, on the reference side)
    double f0 = 0;
    std::vector<double> fk(static_cast<size_t>(ncomp));
    bool ok = false;
    int tries = 0;
    for (; tries < 400 && !ok; ++tries) {
        double f = amode == 2 ? r.uni(guard, 0.5 - guard) : r.uni(guard, (0.5 - guard) / ncomp);
        if (binmode == 1) f = std::round(f * len) / len;
        if (binmode == 2) f = std::round(f * nfft) / nfft;
        bool good = true, folded = false;
        for (int k = 0; k < ncomp && good; ++k) {
            const double raw = f * (k + 1);
            if (raw > 0.5) folded = true;
            fk[size_t(k)] = fold(raw);
            if (fk[size_t(k)] < guard || fk[size_t(k)] > 0.5 - guard) good = false;
            for (int j = 0; j < k && good; ++j) if (std::fabs(fk[size_t(k)] - fk[size_t(j)]) < guard) good = false;
        }
        if (good && amode != 2 && folded) good = false;
        if (good && amode == 2 && !folded) good = false;
        if (good) { ok = true; f0 = f; }
    }
    if (!ok) { o.discard = true; return; }
    const double A = std::pow(10.0, r.uni(-2, 2));   // overall amplitude over 80 dB
    std::vector<double> amp(static_cast<size_t>(ncomp)), ph(static_cast<size_t>(ncomp)), dbc(static_cast<size_t>(ncomp));
    amp[0] = 1;
    dbc[0] = 0;
    // the property's range ends (-10 and -40 dBc) are generated exactly now and then
    for (int k = 1; k < ncomp; ++k) { int e = r.range(0, 9); dbc[size_t(k)] = e == 0 ? -10 : e == 1 ? -40 : -r.uni(10, 40); amp[size_t(k)] = std::pow(10.0, dbc[size_t(k)] / 20); }
    for (auto& p : ph) p = r.uni(0, 2 * M_PI);
    dl::arr_real x(len);
    for (int i = 0; i < len; ++i) {
        ld v = 0;
        for (int k = 0; k < ncomp; ++k) {
            ld cyc = ld(f0) * ld(k + 1) * ld(i);
            cyc -= floorl(cyc);
            v += ld(amp[size_t(k)]) * std::cos(double(2 * PI_L * cyc) + ph[size_t(k)]);
        }
        x[i] = double(ld(A) * v);
    }
    ld hsum = 0;
    for (int k = 1; k < ncomp; ++k) hsum += ld(amp[size_t(k)]) * amp[size_t(k)];
    const double thd_ref = double(10 * log10l(hsum));   // harmonic-to-fundamental power ratio, dB
    const double sinad_ref = -thd_ref;                  // fundamental-to-distortion ratio, dB (there is no noise)
    const bool aliased = amode != 0;
    const std::string what = fmt("len=%d f0=%.9g (%.3f bins) %d harmonics, %s, %s, A=%.3g", len, f0, f0 * len, h, bin_name(binmode), amode_name(amode), A);

    // unrelated calls of related size first (windows of the record's length with other parameters, transforms ...): see kit/prelude.h
    const uint64_t pre = c.has("pre") ? c.getu("pre") : 0;
    vk::prelude(pre, len);
    if (pre) o.label("prelude:unrelated calls of related size before the measurement");
    const dl::ThdRes t = dl::thd(x, ncomp, aliased);
    const double sn = dl::sinad(x);
    const double sr = dl::snr(x, ncomp, aliased);
    if (t.harmfreq.size() != ncomp || t.harmpow.size() != ncomp) { o.fail("thd:size", fmt("%s: harmfreq/harmpow have %d/%d entries for nharm=%d", what.c_str(), t.harmfreq.size(), t.harmpow.size(), ncomp)); return; }
    // thd value
    {
        const double e = std::fabs(t.value - thd_ref);
        o.metric("thd err/tol", e / 0.1);
        if (!(e <= 0.1)) o.fail("thd:value", fmt("%s: thd = %.6f dB, constructed ratio %.6f dB (|diff| %.4g > 0.1 dB)", what.c_str(), t.value, thd_ref, e));
    }
    // component frequencies, cycles/sample in [0, 0.5]
    for (int k = 0; k < ncomp; ++k) {
        const double e = std::fabs(t.harmfreq[k] - fk[size_t(k)]) / bin;
        o.metric("harmfreq err/tol", e / 0.1);
        o.metric("harmfreq err in 1/nfft bins /tol (info)", std::fabs(t.harmfreq[k] - fk[size_t(k)]) * nfft / 0.1);
        if (!(e <= 0.1)) { o.fail(k == 0 ? "thd:harmfreq:fundamental" : "thd:harmfreq:harmonic", fmt("%s: harmfreq[%d] = %.9g, component is at %.9g (%.4g bins off > 0.1)", what.c_str(), k, t.harmfreq[k], fk[size_t(k)], e)); break; }
        o.metric("harmpow dBc err dB (info)", std::fabs((t.harmpow[k] - t.harmpow[0]) - dbc[size_t(k)]));
    }
    // sinad
    {
        const double e = std::fabs(sn - sinad_ref);
        o.metric("sinad err/tol", e / 1.5);
        if (!(e <= 1.5)) o.fail("sinad:value", fmt("%s: sinad = %.6f dB, fundamental-to-distortion ratio %.6f dB (|diff| %.4g > 1.5 dB)", what.c_str(), sn, sinad_ref, e));
    }
    if (!std::isfinite(sr)) o.fail("snr:nonfinite", fmt("%s: snr = %g", what.c_str(), sr));
    // ---- scaling by a positive constant
    // scls 0: power of two (the scaled computation is the same computation: exact), 1: generic constant.
    const double cs = scls == 0 ? std::ldexp(1.0, r.range(-13, 13)) : std::pow(10.0, r.uni(-2, 2));
    dl::arr_real xs(len);
    for (int i = 0; i < len; ++i) xs[i] = x[i] * cs;
    vk::prelude(pre ? pre + 1 : 0, len);
    const dl::ThdRes t2 = dl::thd(xs, ncomp, aliased);
    const double sn2 = dl::sinad(xs);
    const double sr2 = dl::snr(xs, ncomp, aliased);
    auto inv = [&](const char* name, double a, double b, double tol) {
        const double e = std::fabs(a - b);
        o.metric(std::string(name) + " scale-invariance err/tol", e / tol);
        if (!(e <= tol)) o.fail(std::string(name) + ":scale", fmt("%s: %s = %.12g dB, after scaling by %.17g: %.12g dB (|diff| %.3g > %.3g dB)", what.c_str(), name, a, cs, b, e, tol));
    };
    inv("thd", t.value, t2.value, 1e-6);
    inv("sinad", sn, sn2, 1e-6);
    // snr of a noise-free record divides by whatever is left after removing the components.  When that remainder is the
    // rounding noise of the record itself (snr ~ 290 dB) a generic constant re-rounds every sample (relative eps), which moves the
    // remainder by about 2 eps 10^(snr/20) relative: the a-priori conditioning term below (x8) is added to the 1e-6 dB.
    // For snr <= 150 dB the term is below 1e-7 dB; for a power-of-two constant the computation is identical.
    const double cond = scls == 0 ? 0.0 : 8.0 * 8.69 * EPS * std::pow(10.0, std::max(sr, sr2) / 20);
    inv(cond > 1e-7 ? "snr(rounding-limited)" : "snr", sr, sr2, 1e-6 + cond);
    o.label(cond > 1e-7 ? "snr-conditioning:rounding-limited" : "snr-conditioning:well-conditioned");
    if (h >= 2) {
        // with fewer harmonics requested than present, the rest is "noise": well conditioned for every constant
        const double a = dl::snr(x, 2, aliased), b = dl::snr(xs, 2, aliased);
        inv("snr", a, b, 1e-6);
        double rest = 0;
        for (int k = 2; k < ncomp; ++k) rest += amp[size_t(k)] * amp[size_t(k)];
        o.metric("snr(nharm=2) vs fundamental/rest dB (info)", std::fabs(a + 10 * std::log10(rest)));
    }
    o.evals = 8;
    const bool pow2 = (len & (len - 1)) == 0;
    if ((binmode == 0 && h >= 2) || !pow2) {
        int lb = 0;
        while ((2048 << (lb + 1)) <= len) ++lb;
        o.nontrivial(key_of(lb, int(pow2), h, binmode, amode, scls, int(f0 * 64)));
    }
    o.label(std::string("bin:") + bin_name(binmode));
    o.label(std::string("alias:") + amode_name(amode));
    o.label(fmt("harmonics:%d", h));
    o.label(pow2 ? "len:pow2" : (len & 1) ? "len:odd" : "len:even-non-pow2");
    o.label(scls == 0 ? "scale:pow2" : "scale:generic");
    o.label(fmt("placement-tries:%s", tries <= 1 ? "1" : tries <= 10 ? "2..10" : tries <= 100 ? "11..100" : ">100"));
}
static void meas_gen(Ctx& ctx) {
    // every (harmonic count, bin mode, alias mode) at both ends of the length range
    for (int len : {2048, 131072, 2049, 131071, 100000})
        for (int h = 1; h <= 5; ++h)
            for (int bm = 0; bm < 3; ++bm)
                for (int am = 0; am < 3; ++am) {
                    if (ctx.quick() && len > 4096 && ((h + bm + am) % 3) != 0) continue;
                    if (!ctx.mine()) continue;
                    ctx.eval(Json::object().set("len", len).set("h", h).set("bin", bm).set("amode", am).set("scale", (h + bm + am) & 1)
                               .set("seed", (long long)(mix(ctx.seed, key_of(len, h, bm, am)) >> 16)));
                }
    ctx.rc("random", ctx.by_tier(9000, 120000), [&]() {
        int lc = pick(0, 3), len;
        if (lc == 0) len = 1 << pick(11, 17);
        else if (lc == 1) { len = (1 << pick(11, 17)) + (flip() ? 1 : -1); if (len < 2048) len = 2049; if (len > 131072) len = 131071; }
        else len = pick_log(2048, 131072);
        return Json::object().set("len", len).set("h", pick(1, 5)).set("bin", pick(0, 2)).set("amode", pick(0, 2)).set("scale", pick(0, 1)).set("pre", pick(0, 2) == 0 ? (long long)(1 + pick64(0, 1ll << 40)) : 0LL).set("seed", (long long)seed64());
    });
}

// ------------------------------------------------------------------------------------------- measurements on a given spectrum
// thd / snr / sinad also take a precalculated one-sided spectrum (SinadType::Psd / Power; bin k of n <-> frequency k/(2n) cycles per
// sample).  A synthetic spectrum - a symmetric lobe of known total power at the fundamental bin b1 and at each harmonic bin (k+1) b1,
// folded into the Nyquist range when `aliased` is asked for, nothing else - has an exact answer: the harmonic-to-fundamental power
// ratio, the lobe centres as frequencies, -inf dB for harmonics beyond Nyquist when aliasing is off.  Scaling the spectrum changes
// nothing.  (The spectrum is the caller's, so no window or periodogram convention of the library enters the oracle.)
VK_SUB(mspec, "measure_spectrum");
static void mspec_check(const Json& c, Out& o) {
    const int n = c.geti("n"), b1 = c.geti("b1"), nh = c.geti("h"), w = c.geti("w"), aliased = c.geti("aliased"), type = c.geti("type");
    Rng r(c.getu("seed"));
    const int ncomp = nh + 1;
    std::vector<int> bins;
    std::vector<ld> pw;
    std::vector<char> present;
    for (int k = 0; k < ncomp; ++k) {
        long b = long(k + 1) * b1;
        bool pres = true;
        // a harmonic exactly ON the Nyquist edge (b == n) is neither inside the range nor beyond it: the library's own test is
        // (k+1) f0 > 1 on a centroid that is b1/n only to rounding, so either branch may be taken - outside what this oracle decides
        if (b % n == 0) { o.discard = true; return; }
        if (b >= n) {
            if (!aliased) pres = false;
            else { long f = b % (2L * n); b = f > n ? 2L * n - f : f; }
        }
        bins.push_back(int(b));
        present.push_back(pres);
        pw.push_back(k == 0 ? 1.0L : powl(10.0L, -(10.0L + 30.0L * ld(r.uni())) / 10));
    }
    // premise: every present lobe inside (w+2 .. n-w-3) and at least 2w+4 bins from every other one; the harmonic search (round(f n))
    // must land inside its lobe, which it does because the lobe centres are the exact multiples / folds
    for (int k = 0; k < ncomp; ++k) {
        if (!present[size_t(k)]) continue;
        if (bins[size_t(k)] < w + 3 || bins[size_t(k)] > n - w - 4) { o.discard = true; return; }
        for (int j = 0; j < k; ++j) if (present[size_t(j)] && std::abs(bins[size_t(k)] - bins[size_t(j)]) < 2 * w + 4) { o.discard = true; return; }
    }
    const double scale = std::pow(10.0, c.getd("scale_db", 0) / 10);
    const double floorv = c.geti("floor", 0) ? 1e-30 : 0.0;
    dl::arr_real spec(n);
    for (int i = 0; i < n; ++i) spec[i] = floorv * scale;
    for (int k = 0; k < ncomp; ++k) {
        if (!present[size_t(k)]) continue;
        // symmetric, strictly unimodal lobe of total power pw[k]: weights (w+1-|d|)^2
        ld tot = 0;
        for (int d = -w; d <= w; ++d) tot += ld((w + 1 - std::abs(d)) * (w + 1 - std::abs(d)));
        for (int d = -w; d <= w; ++d) spec[bins[size_t(k)] + d] = double(pw[size_t(k)] * ld((w + 1 - std::abs(d)) * (w + 1 - std::abs(d))) / tot) * scale;
    }
    const dl::SinadType ty = type ? dl::SinadType::Power : dl::SinadType::Psd;
    const dl::ThdRes t = dl::thd(spec, ncomp, aliased != 0, ty);
    ld hs = 0;
    for (int k = 1; k < ncomp; ++k) if (present[size_t(k)]) hs += pw[size_t(k)];
    const std::string tag = std::string(aliased ? "aliased" : "not-aliased") + (type ? ":power" : ":psd");
    if (hs > 0) {
        const ld want = 10 * log10l(hs / pw[0]);
        o.metric("thd(spectrum) |err| / 1e-6 dB", double(fabsl(ld(t.value) - want) / 1e-6L));
        if (!(fabsl(ld(t.value) - want) <= 1e-6L)) { o.fail("thd(spectrum):value:" + tag, fmt("n=%d b1=%d %d harmonics w=%d: thd = %.9f dB, the lobes' power ratio is %.9Lf dB", n, b1, nh, w, t.value, want)); return; }
    }
    if (t.harmpow.size() != ncomp || t.harmfreq.size() != ncomp) { o.fail("thd(spectrum):size", fmt("harmpow %d, harmfreq %d values for nharm=%d", t.harmpow.size(), t.harmfreq.size(), ncomp)); return; }
    for (int k = 0; k < ncomp; ++k) {
        if (!present[size_t(k)]) {
            if (std::isfinite(t.harmpow[k]) && t.harmpow[k] > -250) { o.fail("thd(spectrum):harmonic-beyond-nyquist:" + tag, fmt("harmonic %d lies above Nyquist and aliasing is off, yet harmpow = %.3f dB", k + 1, t.harmpow[k])); return; }
            continue;
        }
        const ld wantp = 10 * log10l(pw[size_t(k)] * ld(scale)), wantf = ld(bins[size_t(k)]) / (2.0L * n);
        if (!(fabsl(ld(t.harmpow[k]) - wantp) <= 1e-6L)) { o.fail("thd(spectrum):harmpow:" + tag, fmt("n=%d b1=%d harmonic %d at bin %d: harmpow = %.9f dB, lobe power %.9Lf dB", n, b1, k + 1, bins[size_t(k)], t.harmpow[k], wantp)); return; }
        if (!(fabsl(ld(t.harmfreq[k]) - wantf) <= 1e-9L)) { o.fail("thd(spectrum):harmfreq:" + tag, fmt("n=%d b1=%d harmonic %d: harmfreq = %.12f, lobe centre %.12Lf", n, b1, k + 1, t.harmfreq[k], wantf)); return; }
    }
    // scale invariance of all three on the same spectrum
    dl::arr_real spec2 = spec * 1e-7;
    const double s1 = dl::snr(spec, ncomp, aliased != 0, ty), s2 = dl::snr(spec2, ncomp, aliased != 0, ty);
    const double q1 = dl::sinad(spec, ty), q2 = dl::sinad(spec2, ty);
    const dl::ThdRes t2 = dl::thd(spec2, ncomp, aliased != 0, ty);
    auto same_db = [](double a, double b) { return (std::isinf(a) && std::isinf(b) && (a > 0) == (b > 0)) || std::fabs(a - b) <= 1e-6; };
    if (!same_db(t.value, t2.value)) { o.fail("thd(spectrum):scale", fmt("thd %.9f vs %.9f dB after scaling the spectrum by 1e-7", t.value, t2.value)); return; }
    if (!same_db(s1, s2)) { o.fail("snr(spectrum):scale", fmt("snr %.9f vs %.9f dB after scaling the spectrum by 1e-7", s1, s2)); return; }
    if (!same_db(q1, q2)) { o.fail("sinad(spectrum):scale", fmt("sinad %.9f vs %.9f dB after scaling the spectrum by 1e-7", q1, q2)); return; }
    o.evals = 6;
    int beyond = 0;
    for (int k = 0; k < ncomp; ++k) beyond += (long(k + 1) * b1 >= n);
    o.label(beyond == 0 ? "harmonics:all below Nyquist" : aliased ? "harmonics:some folded (aliased=true)" : "harmonics:some beyond Nyquist (aliased=false)");
    o.label(type ? "type:Power" : "type:Psd");
    o.nontrivial(key_of(n, b1, nh, w, aliased, type));
}
static void mspec_gen(Ctx& ctx) {
    ctx.rc("random", ctx.by_tier(60000, 600000), [&]() {
        const int n = pick(0, 2) == 0 ? (256 << pick(0, 6)) : pick_log(200, 20000);
        const int hcount = pick(1, 5);
        // half of the cases put the fundamental high enough for some harmonics to cross Nyquist
        const int b1 = flip() ? pick(12, std::max(13, n / (hcount + 2))) : pick(n / (hcount + 1), std::max(n / (hcount + 1) + 1, n - 12));
        return Json::object().set("n", n).set("b1", b1).set("h", hcount).set("w", pick(0, 4)).set("aliased", pick(0, 1)).set("type", pick(0, 1)).set("floor", pick(0, 1))
          .set("scale_db", pick(0, 2) == 0 ? 0.0 : pickd(-120.0, 120.0)).set("seed", (long long)seed64());
    });
}

// ------------------------------------------------------------------------------------------- rng replay
namespace {

enum OpKind { O_RAND, O_RAND_N, O_RAND_RANGE_N, O_RANDN, O_RANDN_N, O_RANDI_MAX, O_RANDI_MAX_N, O_RANDI_RANGE, O_RANDI_RANGE_N, O_AWGN_R, O_AWGN_C, O_NKINDS };
const char* op_name(int k) {
    static const char* n[] = {"rand()", "rand(n)", "rand(range,n)", "randn()", "randn(n)", "randi(imax)", "randi(imax,n)", "randi(range)", "randi(range,n)", "awgn(real)", "awgn(complex)"};
    return n[k];
}
int op_family(int k) { return k <= O_RAND_RANGE_N ? 0 : k <= O_RANDN_N ? 1 : k <= O_RANDI_RANGE_N ? 2 : 3; }
struct OpSpec
{
    int kind{0}, n{1}, lo{1}, hi{1};
    double a{0}, b{1}, snr{0};
    uint64_t xseed{0};
};
std::vector<OpSpec> expand_ops(uint64_t seed, int nops, int only_family = -1) {
    Rng r(seed);
    std::vector<OpSpec> ops;
    while (int(ops.size()) < nops) {
        OpSpec s;
        s.kind = r.range(0, O_NKINDS - 1);
        s.n = r.range(0, 9) == 0 ? r.range(0, 1) : r.range(1, 40);   // now and then an empty / single-element array
        switch (r.range(0, 3)) {
        case 0: s.lo = r.range(-50, 50); s.hi = s.lo; break;
        case 1: s.lo = r.range(-1000, 0); s.hi = s.lo + r.range(0, 7); break;
        case 2: s.lo = r.range(-1000000, 1000000); s.hi = s.lo + r.range(0, 2000000); break;
        default: s.lo = 1; s.hi = r.range(1, 100);
        }
        if (s.kind == O_RANDI_MAX || s.kind == O_RANDI_MAX_N) { s.lo = 1; s.hi = std::max(1, std::abs(s.hi)); }
        s.a = r.uni(-100, 100);
        s.b = s.a + r.uni(1e-3, 100);
        s.snr = r.uni(-10, 80);
        s.xseed = r.next();
        if (s.kind >= O_AWGN_R) s.n = std::max(1, s.n);   // rms of an empty array is not a number
        if (only_family >= 0 && op_family(s.kind) != only_family) continue;
        ops.push_back(s);
    }
    return ops;
}
// executes one call and appends the bit patterns of everything it returned
void exec_op(const OpSpec& s, std::vector<uint64_t>& tr, Out* o) {
    auto put_real = [&](const dl::arr_real& v, int want) {
        tr.push_back(0xA000000000000000ull | uint64_t(v.size()));
        for (int i = 0; i < v.size(); ++i) tr.push_back(bits_of(v[i]));
        if (o && v.size() != want) o->fail("rng:size", fmt("%s returned %d values, %d requested", op_name(s.kind), v.size(), want));
    };
    auto chk_int = [&](int v) {
        if (o && (v < s.lo || v > s.hi)) o->fail("randi:bounds", fmt("%s with range [%d, %d] returned %d", op_name(s.kind), s.lo, s.hi, v));
    };
    switch (s.kind) {
    case O_RAND: tr.push_back(bits_of(dl::rand())); break;
    case O_RAND_N: put_real(dl::rand(s.n), s.n); break;
    case O_RAND_RANGE_N: put_real(dl::rand({s.a, s.b}, s.n), s.n); break;
    case O_RANDN: tr.push_back(bits_of(dl::randn())); break;
    case O_RANDN_N: put_real(dl::randn(s.n), s.n); break;
    case O_RANDI_MAX: { int v = dl::randi(s.hi); chk_int(v); tr.push_back(uint64_t(int64_t(v))); break; }
    case O_RANDI_RANGE: { int v = dl::randi({s.lo, s.hi}); chk_int(v); tr.push_back(uint64_t(int64_t(v))); break; }
    case O_RANDI_MAX_N:
    case O_RANDI_RANGE_N: {
        const dl::arr_int v = s.kind == O_RANDI_MAX_N ? dl::randi(s.hi, s.n) : dl::randi({s.lo, s.hi}, s.n);
        tr.push_back(0xB000000000000000ull | uint64_t(v.size()));
        if (o && v.size() != s.n) o->fail("rng:size", fmt("%s returned %d values, %d requested", op_name(s.kind), v.size(), s.n));
        for (int i = 0; i < v.size(); ++i) { chk_int(v[i]); tr.push_back(uint64_t(int64_t(v[i]))); }
        break;
    }
    case O_AWGN_R: {
        Rng r(s.xseed);
        put_real(dl::awgn(to_arr(gen_real(r, s.n, S_GAUSS)), s.snr), s.n);
        break;
    }
    default: {
        Rng r(s.xseed);
        const dl::arr_cmplx y = dl::awgn(to_arr(gen_cmplx(r, s.n, S_GAUSS)), s.snr);
        tr.push_back(0xC000000000000000ull | uint64_t(y.size()));
        for (int i = 0; i < y.size(); ++i) { tr.push_back(bits_of(y[i].re)); tr.push_back(bits_of(y[i].im)); }
        if (o && y.size() != s.n) o->fail("rng:size", fmt("awgn(complex) returned %d values for %d", y.size(), s.n));
    }
    }
}
// probe: 4 scalar draws of each scalar generator and two array draws of each array generator
struct Probe
{
    uint64_t u[4], g[4], ua[2][4], ga[2][4];
    int ia[2][4];
    std::vector<uint64_t> flat() const {
        std::vector<uint64_t> f;
        for (int i = 0; i < 4; ++i) { f.push_back(u[i]); f.push_back(g[i]); }
        for (int k = 0; k < 2; ++k) for (int i = 0; i < 4; ++i) { f.push_back(ua[k][i]); f.push_back(ga[k][i]); f.push_back(uint64_t(int64_t(ia[k][i]))); }
        return f;
    }
};
Probe run_probe() {
    Probe p;
    for (int i = 0; i < 4; ++i) p.u[i] = bits_of(dl::rand());
    for (int i = 0; i < 4; ++i) p.g[i] = bits_of(dl::randn());
    for (int k = 0; k < 2; ++k) { auto v = dl::rand(4); for (int i = 0; i < 4; ++i) p.ua[k][i] = bits_of(v[i]); }
    for (int k = 0; k < 2; ++k) { auto v = dl::randn(4); for (int i = 0; i < 4; ++i) p.ga[k][i] = bits_of(v[i]); }
    for (int k = 0; k < 2; ++k) { auto v = dl::randi({0, 1 << 30}, 4); for (int i = 0; i < 4; ++i) p.ia[k][i] = v[i]; }
    return p;
}
struct Run
{
    std::vector<uint64_t> tr;
    std::vector<size_t> op_start;
    Probe probe;
};
Run run_sequence(const std::vector<OpSpec>& pre, int seed, const std::vector<OpSpec>& ops, Out* o) {
    std::vector<uint64_t> sink;
    for (auto& s : pre) exec_op(s, sink, nullptr);
    dl::rng(seed);
    Run R;
    for (auto& s : ops) { R.op_start.push_back(R.tr.size()); exec_op(s, R.tr, o); }
    R.probe = run_probe();
    return R;
}

}   // namespace

VK_SUB(rngr, "rng_replay");
static void rngr_check(const Json& c, Out& o) {
    const int seed = c.geti("seed"), nops = c.geti("nops");
    const uint64_t opseed = c.getu("opseed");
    const int fam = c.geti("family", -1);
    const auto ops = expand_ops(opseed, nops, fam);
    Rng r(mix(opseed, 0x9E));
    // the two runs are preceded by different histories: what rng(seed) establishes must not depend on them
    const auto preA = expand_ops(mix(opseed, 1), r.range(0, 4));
    auto preB = expand_ops(mix(opseed, 2), r.range(1, 6));
    { OpSpec odd; odd.kind = O_RANDN; preB.push_back(odd); }   // an odd number of scalar normal draws just before rng()
    const Run A = run_sequence(preA, seed, ops, &o);
    const Run B = run_sequence(preB, seed, ops, nullptr);
    std::string seq;
    for (size_t i = 0; i < ops.size() && i < 12; ++i) seq += std::string(i ? "," : "") + op_name(ops[i].kind);
    if (ops.size() > 12) seq += ",...";
    if (A.tr.size() != B.tr.size()) o.fail("rng:replay", fmt("seed %d [%s]: the replay returned %zu values, the first run %zu", seed, seq.c_str(), B.tr.size(), A.tr.size()));
    else
        for (size_t i = 0; i < A.tr.size(); ++i)
            if (A.tr[i] != B.tr[i]) {
                size_t k = 0;
                while (k + 1 < A.op_start.size() && A.op_start[k + 1] <= i) ++k;
                o.fail(std::string("rng:replay:") + op_name(ops[k].kind), fmt("seed %d [%s]: call #%zu %s returned bits %016llx, after rng(%d) again %016llx", seed, seq.c_str(), k, op_name(ops[k].kind),
                                                                               (unsigned long long)A.tr[i], seed, (unsigned long long)B.tr[i]));
                break;
            }
    if (A.probe.flat() != B.probe.flat()) o.fail("rng:replay:probe", fmt("seed %d [%s]: the draws following the sequence differ between the two runs", seed, seq.c_str()));
    // the stream advances: consecutive draws of one generator are different numbers
    {
        const Probe& p = A.probe;
        bool stuck = false;
        std::string which;
        for (int i = 0; i < 4; ++i)
            for (int j = 0; j < i; ++j) {
                if (p.u[i] == p.u[j]) { stuck = true; which = "rand()"; }
                if (p.g[i] == p.g[j]) { stuck = true; which = "randn()"; }
            }
        if (!std::memcmp(p.ua[0], p.ua[1], sizeof p.ua[0])) { stuck = true; which = "rand(4)"; }
        if (!std::memcmp(p.ga[0], p.ga[1], sizeof p.ga[0])) { stuck = true; which = "randn(4)"; }
        if (!std::memcmp(p.ia[0], p.ia[1], sizeof p.ia[0])) { stuck = true; which = "randi({0,2^30},4)"; }
        if (stuck) o.fail("rng:stream-not-advancing", fmt("seed %d: consecutive calls of %s returned the same numbers", seed, which.c_str()));
        for (int k = 0; k < 2; ++k) for (int i = 0; i < 4; ++i) if (p.ia[k][i] < 0 || p.ia[k][i] > (1 << 30)) o.fail("randi:bounds", fmt("randi({0,2^30},4) returned %d", p.ia[k][i]));
    }
    // another seed gives another stream
    {
        const int seed2 = (seed + 1 + r.range(0, 999)) % 1001;
        const Run C = run_sequence({}, seed2, ops, nullptr);
        if (C.probe.flat() == A.probe.flat() && C.tr == A.tr) o.fail("rng:seed-ignored", fmt("rng(%d) and rng(%d) produce the same values for [%s] and the draws after it", seed, seed2, seq.c_str()));
    }
    int fams = 0, kinds = 0;
    for (auto& s : ops) { fams |= 1 << op_family(s.kind); kinds |= 1 << s.kind; }
    const int nf = __builtin_popcount(unsigned(fams));
    if (nf >= 3) o.nontrivial(key_of(seed, kinds, std::min(nops, 64) / 8));
    o.label(fmt("families:%d", nf));
    for (int k = 0; k < O_NKINDS; ++k) if (kinds & (1 << k)) o.label(std::string("op:") + op_name(k));
    o.evals = long(ops.size()) * 2 + 20;
}
static void rngr_gen(Ctx& ctx) {
    // every seed 0..1000: one mixed sequence each (thorough: four), plus one single-family sequence per family on a subset
    const int reps = ctx.by_tier(1, 4);
    for (int seed = 0; seed <= 1000; ++seed)
        for (int rep = 0; rep < reps; ++rep) {
            if (!ctx.mine()) continue;
            Rng r(mix(ctx.seed, key_of(0x5EED, seed, rep)));
            ctx.eval(Json::object().set("seed", seed).set("nops", r.range(3, 40)).set("opseed", (long long)(r.next() >> 16)));
        }
    for (int seed = 0; seed <= 1000; seed += ctx.by_tier(10, 1))
        for (int fam = 0; fam < 4; ++fam) {
            if (!ctx.mine()) continue;
            Rng r(mix(ctx.seed, key_of(0xFA, seed, fam)));
            ctx.eval(Json::object().set("seed", seed).set("nops", r.range(1, 12)).set("opseed", (long long)(r.next() >> 16)).set("family", fam));
        }
    ctx.rc("random", ctx.by_tier(1200000, 8000000), [&]() {
        int seed = pick(0, 1000);
        int nops = pick_log(1, 80);
        return Json::object().set("seed", seed).set("nops", nops).set("opseed", (long long)seed64());
    });
}

// ------------------------------------------------------------------------------------------- all seeds differ
VK_SUB(seeds, "seed_streams");
static void seeds_check(const Json& c, Out& o) {
    const int lo = c.geti("lo"), hi = c.geti("hi");
    // first draws of each generator after rng(s), s = lo..hi: pairwise different between seeds
    std::vector<std::pair<std::vector<uint64_t>, int>> all;
    for (int s = lo; s <= hi; ++s) {
        dl::rng(s);
        std::vector<uint64_t> v;
        switch (c.geti("gen")) {
        case 0: for (int i = 0; i < 3; ++i) v.push_back(bits_of(dl::rand())); break;
        case 1: for (int i = 0; i < 3; ++i) v.push_back(bits_of(dl::randn())); break;
        case 2: { auto a = dl::randi({INT_MIN / 2, INT_MAX / 2}, 3); for (int i = 0; i < 3; ++i) v.push_back(uint64_t(int64_t(a[i]))); break; }
        default: { auto a = dl::awgn(dl::arr_real({1.0, -1.0, 1.0}), 0.0); for (int i = 0; i < 3; ++i) v.push_back(bits_of(a[i])); }
        }
        all.emplace_back(v, s);
    }
    std::sort(all.begin(), all.end());
    for (size_t i = 1; i < all.size(); ++i)
        if (all[i].first == all[i - 1].first) { o.fail("rng:seed-ignored", fmt("generator %d: rng(%d) and rng(%d) start the same stream", c.geti("gen"), all[i - 1].second, all[i].second)); break; }
    o.evals = hi - lo + 1;
    o.nontrivial(key_of(lo, hi, c.geti("gen")));
    o.label(fmt("generator:%d", c.geti("gen")));
}
static void seeds_gen(Ctx& ctx) {
    for (int g = 0; g < 4; ++g) {
        if (!ctx.mine()) continue;
        ctx.eval(Json::object().set("lo", 0).set("hi", 1000).set("gen", g));
    }
}

// ------------------------------------------------------------------------------------------- randi bounds
VK_SUB(rbnd, "randi_bounds");
static void rbnd_check(const Json& c, Out& o) {
    const int lo = c.geti("lo"), hi = c.geti("hi"), form = c.geti("form"), seed = c.geti("seed");
    const int64_t width = int64_t(hi) - lo + 1;
    const int n = width <= 8 ? int(64 * width) : c.geti("n", 256);
    dl::rng(seed);
    std::vector<int> v;
    const char* fn = "";
    switch (form) {
    case 0: { fn = "randi({lo,hi},n)"; auto a = dl::randi({lo, hi}, n); if (a.size() != n) { o.fail("randi:size", fmt("randi({%d,%d},%d) returned %d values", lo, hi, n, a.size())); return; } for (int i = 0; i < n; ++i) v.push_back(a[i]); break; }
    case 1: { fn = "randi({lo,hi})"; for (int i = 0; i < n; ++i) v.push_back(dl::randi({lo, hi})); break; }
    case 2: { fn = "randi(imax,n)"; auto a = dl::randi(hi, n); if (a.size() != n) { o.fail("randi:size", fmt("randi(%d,%d) returned %d values", hi, n, a.size())); return; } for (int i = 0; i < n; ++i) v.push_back(a[i]); break; }
    default: { fn = "randi(imax)"; for (int i = 0; i < n; ++i) v.push_back(dl::randi(hi)); }
    }
    int mn = INT_MAX, mx = INT_MIN;
    for (int x : v) { mn = std::min(mn, x); mx = std::max(mx, x); }
    if (mn < lo || mx > hi) o.fail(mx > hi ? "randi:bounds:upper" : "randi:bounds:lower", fmt("%s after rng(%d) with [%d, %d]: %d draws span [%d, %d]", fn, seed, lo, hi, n, mn, mx));
    // small ranges: 64 draws per value; missing an end has probability (1-1/w)^(64w) < 2e-28
    if (width <= 8 && (mn != lo || mx != hi))
        o.fail(mx != hi ? "randi:upper-end-unreached" : "randi:lower-end-unreached", fmt("%s after rng(%d) with [%d, %d]: %d draws span [%d, %d], an end value never occurs", fn, seed, lo, hi, n, mn, mx));
    o.evals = n;
    const char* cls = width == 1 ? "single-value" : width <= 8 ? "small" : width > (int64_t(1) << 31) ? "wider-than-2^31" : "wide";
    o.nontrivial(key_of(lo, hi, form));
    o.label(std::string("range:") + cls);
    o.label(hi < 0 ? "sign:negative" : lo < 0 ? "sign:straddles-zero" : "sign:non-negative");
    o.label(std::string("form:") + fn);
}
static void rbnd_gen(Ctx& ctx) {
    // all small ranges around zero, both range forms
    for (int lo = -12; lo <= 12; ++lo)
        for (int w = 1; w <= 8; ++w)
            for (int form = 0; form < 2; ++form) {
                if (!ctx.mine()) continue;
                ctx.eval(Json::object().set("lo", lo).set("hi", lo + w - 1).set("form", form).set("seed", int(mix(ctx.seed, key_of(lo, w, form)) % 1001)));
            }
    for (int imax = 1; imax <= 8; ++imax)
        for (int form = 2; form < 4; ++form) {
            if (!ctx.mine()) continue;
            ctx.eval(Json::object().set("lo", 1).set("hi", imax).set("form", form).set("seed", int(mix(ctx.seed, key_of(imax, form)) % 1001)));
        }
    // the ends of int
    const int ends[][2] = {{INT_MIN, INT_MIN}, {INT_MAX, INT_MAX}, {INT_MIN, INT_MIN + 3}, {INT_MAX - 3, INT_MAX}, {INT_MIN, INT_MAX}, {INT_MIN, 0}, {0, INT_MAX}, {-1, INT_MAX}, {INT_MIN, -1}};
    for (auto& e : ends)
        for (int form = 0; form < 2; ++form) {
            if (!ctx.mine()) continue;
            ctx.eval(Json::object().set("lo", e[0]).set("hi", e[1]).set("form", form).set("n", 512).set("seed", int(mix(ctx.seed, key_of(e[0], e[1], form)) % 1001)));
        }
    ctx.rc("random", ctx.by_tier(2000000, 12000000), [&]() {
        int form = pick(0, 3), lo, hi;
        int rc = pick(0, 3);
        if (form >= 2) { lo = 1; hi = rc == 0 ? 1 : rc == 1 ? pick(1, 8) : rc == 2 ? pick_log(1, 1 << 20) : pick_log(1, INT_MAX); }
        else if (rc == 0) { lo = pick(-1000000, 1000000); hi = lo; }
        else if (rc == 1) { lo = pick(-1000000, 1000000); hi = lo + pick(0, 7); }
        else if (rc == 2) { lo = -pick_log(0, 1 << 30); hi = lo + pick_log(0, 1 << 30); }
        else { lo = int(pick64(INT_MIN, 0)); hi = int(pick64(0, INT_MAX)); }
        return Json::object().set("lo", lo).set("hi", hi).set("form", form).set("n", pick_log(1, 2000)).set("seed", pick(0, 1000));
    });
}

VK_FRESH_THREADS;
VK_MAIN("C19")
