"""Line-ending preserving exact replacement: old/new are written with \n; the file's own EOL (CRLF or LF) is kept."""
import sys
def sub(path, old, new, count=1):
    b = open(path, 'rb').read()
    crlf = b'\r\n' in b
    t = b.decode()
    if crlf:
        t = t.replace('\r\n', '\n')
    assert t.count(old) == count, "%s: expected %d occurrence(s), found %d" % (path, count, t.count(old))
    t = t.replace(old, new)
    if crlf:
        t = t.replace('\n', '\r\n')
    open(path, 'wb').write(t.encode())
