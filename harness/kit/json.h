// Minimal JSON value: parse + dump. Numbers keep int64 exactness where possible; doubles are dumped
// with %.17g; non-finite doubles are dumped as strings "nan"/"inf"/"-inf" and read back by num().
#pragma once
#include <cstdint>
#include <cstdio>
#include <cstdlib>
#include <cstring>
#include <cmath>
#include <map>
#include <memory>
#include <stdexcept>
#include <string>
#include <vector>

namespace vk {

class Json
{
public:
    enum Kind { Null, Bool, Int, Dbl, Str, Arr, Obj };
    Kind kind{Null};
    bool b{false};
    int64_t i{0};
    double d{0};
    std::string s;
    std::vector<Json> a;
    std::vector<std::pair<std::string, Json>> o;   // insertion ordered

    Json() = default;
    Json(bool v) : kind(Bool), b(v) {}
    Json(int v) : kind(Int), i(v) {}
    Json(unsigned v) : kind(Int), i(v) {}
    Json(long v) : kind(Int), i(v) {}
    Json(long long v) : kind(Int), i(v) {}
    Json(unsigned long v) : kind(Int), i(int64_t(v)) {}
    Json(unsigned long long v) : kind(Int), i(int64_t(v)) {}
    Json(double v) : kind(Dbl), d(v) {}
    Json(long double v) : kind(Dbl), d(double(v)) {}
    Json(const char* v) : kind(Str), s(v) {}
    Json(const std::string& v) : kind(Str), s(v) {}
    template<class T>
    Json(const std::vector<T>& v) : kind(Arr) {
        for (const auto& e : v) a.emplace_back(e);
    }

    static Json object() { Json j; j.kind = Obj; return j; }
    static Json array() { Json j; j.kind = Arr; return j; }

    Json& set(const std::string& k, Json v) {
        if (kind != Obj) { *this = object(); }
        for (auto& kv : o) if (kv.first == k) { kv.second = std::move(v); return *this; }
        o.emplace_back(k, std::move(v));
        return *this;
    }
    Json& push(Json v) {
        if (kind != Arr) { *this = array(); }
        a.push_back(std::move(v));
        return *this;
    }
    bool has(const std::string& k) const {
        for (auto& kv : o) if (kv.first == k) return true;
        return false;
    }
    const Json& at(const std::string& k) const {
        for (auto& kv : o) if (kv.first == k) return kv.second;
        throw std::runtime_error("json: missing key " + k);
    }
    const Json& at(size_t idx) const { return a.at(idx); }
    size_t size() const { return kind == Arr ? a.size() : o.size(); }

    int64_t integer() const {
        if (kind == Int) return i;
        if (kind == Dbl) return int64_t(d);
        if (kind == Bool) return b;
        throw std::runtime_error("json: not a number");
    }
    uint64_t u64() const {
        if (kind == Str) return strtoull(s.c_str(), nullptr, 0);
        return uint64_t(integer());
    }
    double num() const {
        if (kind == Dbl) return d;
        if (kind == Int) return double(i);
        if (kind == Str) {
            if (s == "nan") return NAN;
            if (s == "inf") return INFINITY;
            if (s == "-inf") return -INFINITY;
            return strtod(s.c_str(), nullptr);
        }
        throw std::runtime_error("json: not a number");
    }
    const std::string& str() const {
        if (kind != Str) throw std::runtime_error("json: not a string");
        return s;
    }
    int geti(const std::string& k) const { return int(at(k).integer()); }
    int geti(const std::string& k, int def) const { return has(k) ? int(at(k).integer()) : def; }
    double getd(const std::string& k) const { return at(k).num(); }
    double getd(const std::string& k, double def) const { return has(k) ? at(k).num() : def; }
    uint64_t getu(const std::string& k) const { return at(k).u64(); }
    std::string gets(const std::string& k) const { return at(k).str(); }
    std::string gets(const std::string& k, const std::string& def) const { return has(k) ? at(k).str() : def; }
    std::vector<int> ints(const std::string& k) const {
        std::vector<int> r;
        for (auto& e : at(k).a) r.push_back(int(e.integer()));
        return r;
    }
    std::vector<double> dbls(const std::string& k) const {
        std::vector<double> r;
        for (auto& e : at(k).a) r.push_back(e.num());
        return r;
    }

    static void esc(const std::string& in, std::string& out) {
        out.push_back('"');
        for (unsigned char c : in) {
            switch (c) {
            case '"': out += "\\\""; break;
            case '\\': out += "\\\\"; break;
            case '\n': out += "\\n"; break;
            case '\t': out += "\\t"; break;
            case '\r': out += "\\r"; break;
            default:
                if (c < 0x20) { char buf[8]; snprintf(buf, sizeof buf, "\\u%04x", c); out += buf; }
                else out.push_back(char(c));
            }
        }
        out.push_back('"');
    }
    void dump(std::string& out) const {
        char buf[64];
        switch (kind) {
        case Null: out += "null"; break;
        case Bool: out += b ? "true" : "false"; break;
        case Int: snprintf(buf, sizeof buf, "%lld", (long long)i); out += buf; break;
        case Dbl:
            if (std::isnan(d)) out += "\"nan\"";
            else if (std::isinf(d)) out += d > 0 ? "\"inf\"" : "\"-inf\"";
            else {
                snprintf(buf, sizeof buf, "%.17g", d);
                out += buf;
                if (!strpbrk(buf, ".eE")) out += ".0";
            }
            break;
        case Str: esc(s, out); break;
        case Arr:
            out.push_back('[');
            for (size_t k = 0; k < a.size(); ++k) { if (k) out.push_back(','); a[k].dump(out); }
            out.push_back(']');
            break;
        case Obj:
            out.push_back('{');
            for (size_t k = 0; k < o.size(); ++k) {
                if (k) out.push_back(',');
                esc(o[k].first, out); out.push_back(':'); o[k].second.dump(out);
            }
            out.push_back('}');
            break;
        }
    }
    std::string dump() const { std::string r; dump(r); return r; }

    // ---- parser
    static Json parse(const std::string& text) {
        size_t p = 0;
        Json j = parse_val(text, p);
        ws(text, p);
        if (p != text.size()) throw std::runtime_error("json: trailing garbage");
        return j;
    }

private:
    static void ws(const std::string& t, size_t& p) {
        while (p < t.size() && (t[p] == ' ' || t[p] == '\n' || t[p] == '\t' || t[p] == '\r')) ++p;
    }
    static Json parse_val(const std::string& t, size_t& p) {
        ws(t, p);
        if (p >= t.size()) throw std::runtime_error("json: eof");
        char c = t[p];
        if (c == '{') {
            Json j = object(); ++p; ws(t, p);
            if (t[p] == '}') { ++p; return j; }
            for (;;) {
                ws(t, p);
                Json k = parse_str(t, p);
                ws(t, p);
                if (t[p] != ':') throw std::runtime_error("json: expected :");
                ++p;
                j.o.emplace_back(k.s, parse_val(t, p));
                ws(t, p);
                if (t[p] == ',') { ++p; continue; }
                if (t[p] == '}') { ++p; return j; }
                throw std::runtime_error("json: expected , or }");
            }
        }
        if (c == '[') {
            Json j = array(); ++p; ws(t, p);
            if (t[p] == ']') { ++p; return j; }
            for (;;) {
                j.a.push_back(parse_val(t, p));
                ws(t, p);
                if (t[p] == ',') { ++p; continue; }
                if (t[p] == ']') { ++p; return j; }
                throw std::runtime_error("json: expected , or ]");
            }
        }
        if (c == '"') return parse_str(t, p);
        if (!t.compare(p, 4, "true")) { p += 4; return Json(true); }
        if (!t.compare(p, 5, "false")) { p += 5; return Json(false); }
        if (!t.compare(p, 4, "null")) { p += 4; return Json(); }
        // number
        size_t q = p;
        bool isint = true;
        if (t[q] == '-') ++q;
        while (q < t.size() && (isdigit((unsigned char)t[q]) || t[q] == '.' || t[q] == 'e' || t[q] == 'E' || t[q] == '+' || t[q] == '-')) {
            if (t[q] == '.' || t[q] == 'e' || t[q] == 'E') isint = false;
            ++q;
        }
        if (q == p) throw std::runtime_error("json: bad token");
        std::string tok = t.substr(p, q - p);
        p = q;
        if (isint) {
            errno = 0;
            long long v = strtoll(tok.c_str(), nullptr, 10);
            if (errno == 0) return Json(v);
        }
        return Json(strtod(tok.c_str(), nullptr));
    }
    static Json parse_str(const std::string& t, size_t& p) {
        if (t[p] != '"') throw std::runtime_error("json: expected string");
        ++p;
        std::string r;
        while (p < t.size() && t[p] != '"') {
            if (t[p] == '\\') {
                ++p;
                switch (t[p]) {
                case 'n': r.push_back('\n'); break;
                case 't': r.push_back('\t'); break;
                case 'r': r.push_back('\r'); break;
                case 'b': r.push_back('\b'); break;
                case 'f': r.push_back('\f'); break;
                case 'u': {
                    unsigned v = strtoul(t.substr(p + 1, 4).c_str(), nullptr, 16);
                    p += 4;
                    if (v < 0x80) r.push_back(char(v));
                    else if (v < 0x800) { r.push_back(char(0xC0 | (v >> 6))); r.push_back(char(0x80 | (v & 0x3F))); }
                    else { r.push_back(char(0xE0 | (v >> 12))); r.push_back(char(0x80 | ((v >> 6) & 0x3F))); r.push_back(char(0x80 | (v & 0x3F))); }
                    break;
                }
                default: r.push_back(t[p]);
                }
                ++p;
            } else {
                r.push_back(t[p++]);
            }
        }
        ++p;
        return Json(r);
    }
};

}   // namespace vk
