"""Builds /repo's *working tree* (never /repo/_build) into content-addressed objects under /verif/build.

Object key = hash(compiler, flags, TU text, every header under include/ and lib/).  After an edit under /repo only
what depends on it is rebuilt; on an unchanged tree nothing is.
"""
import concurrent.futures as cf
import fcntl
import glob
import hashlib
import os
import re
import shutil
import subprocess
import sys
import time

VERIF = os.path.dirname(os.path.dirname(os.path.abspath(__file__)))
REPO = os.environ.get("VERIF_REPO", "/repo")
BUILD = os.environ.get("VERIF_BUILD", os.path.join(VERIF, "build"))
GUARD = "DSPLIB_VERIF"
JOBS = int(os.environ.get("VERIF_JOBS", "16"))

COMMON = ["-std=c++17", "-g", "-DNDEBUG", "-D" + GUARD]
CONFIGS = {
    # the shipped configuration: -O2 -g -DNDEBUG, cache size 4
    "rel": dict(cxx="g++", flags=["-O2"], cache=4),
    "rel-c1": dict(cxx="g++", flags=["-O2"], cache=1),
    "rel-c2": dict(cxx="g++", flags=["-O2"], cache=2),
    "asan": dict(cxx="clang++", flags=["-O1", "-fno-omit-frame-pointer", "-fsanitize=address,undefined",
                                        "-fno-sanitize-recover=undefined", "-D_GLIBCXX_SANITIZE_VECTOR"], cache=4),
    "fuzz": dict(cxx="clang++", flags=["-O1", "-fno-omit-frame-pointer", "-fsanitize=fuzzer-no-link,address,undefined",
                                        "-fno-sanitize-recover=undefined", "-D_GLIBCXX_SANITIZE_VECTOR"], cache=4,
                 link=["-fsanitize=fuzzer,address,undefined"]),
    "tsan": dict(cxx="clang++", flags=["-O1", "-fno-omit-frame-pointer", "-fsanitize=thread"], cache=4),
}


class BuildError(Exception):
    pass


def _h(*parts):
    m = hashlib.sha256()
    for p in parts:
        if isinstance(p, str):
            p = p.encode()
        m.update(p)
        m.update(b"\0")
    return m.hexdigest()[:24]


def _read(path):
    with open(path, "rb") as f:
        return f.read()


def repo_sources():
    return sorted(glob.glob(os.path.join(REPO, "lib", "**", "*.cpp"), recursive=True))


def repo_headers():
    hs = glob.glob(os.path.join(REPO, "include", "**", "*.h"), recursive=True)
    hs += glob.glob(os.path.join(REPO, "lib", "**", "*.h"), recursive=True)
    hs.append(os.path.join(REPO, "cmake", "defs.h.in"))
    hs.append(os.path.join(REPO, "CMakeLists.txt"))
    return sorted(hs)


_hdr_hash = None


def headers_hash():
    global _hdr_hash
    if _hdr_hash is None:
        m = hashlib.sha256()
        for h in repo_headers():
            m.update(os.path.relpath(h, REPO).encode())
            m.update(_read(h))
        _hdr_hash = m.hexdigest()[:24]
    return _hdr_hash


def gen_defs_dir():
    """dsplib/defs.h as cmake's configure_file would write it for the default options."""
    txt = _read(os.path.join(REPO, "cmake", "defs.h.in")).decode()
    cm = _read(os.path.join(REPO, "CMakeLists.txt")).decode()
    m = re.search(r"project\([^)]*VERSION\s+(\d+)\.(\d+)\.(\d+)", cm)
    major, minor, patch = m.groups() if m else ("0", "0", "0")
    txt = re.sub(r"#cmakedefine\s+(\w+)", r"/* #undef \1 */", txt)
    txt = txt.replace("@CMAKE_PROJECT_VERSION@", "%s.%s.%s" % (major, minor, patch))
    txt = txt.replace("@CMAKE_PROJECT_VERSION_MAJOR@", major).replace("@CMAKE_PROJECT_VERSION_MINOR@", minor)
    txt = txt.replace("@CMAKE_PROJECT_VERSION_PATCH@", patch)
    d = os.path.join(BUILD, "gen", _h(txt))
    os.makedirs(os.path.join(d, "dsplib"), exist_ok=True)
    p = os.path.join(d, "dsplib", "defs.h")
    if not os.path.exists(p):
        tmp = p + ".%d" % os.getpid()
        with open(tmp, "w") as f:
            f.write(txt)
        os.replace(tmp, p)
    return d


def _run(cmd, what):
    r = subprocess.run(cmd, stdout=subprocess.PIPE, stderr=subprocess.STDOUT)
    if r.returncode != 0:
        raise BuildError("%s failed:\n%s\n%s" % (what, " ".join(cmd), r.stdout.decode(errors="replace")[-6000:]))


def cfg_flags(cfg):
    c = CONFIGS[cfg]
    return c["cxx"], COMMON + c["flags"] + ["-DDSPLIB_FFT_CACHE_SIZE=%d" % c["cache"]]


def _compile(cxx, flags, incs, src, obj):
    if os.path.exists(obj):
        os.utime(obj)
        return
    tmp = obj + ".%d.tmp" % os.getpid()
    _run([cxx] + flags + incs + ["-c", src, "-o", tmp], "compile " + src)
    os.replace(tmp, obj)


class Lock:
    def __init__(self, name):
        os.makedirs(BUILD, exist_ok=True)
        self.path = os.path.join(BUILD, name + ".lock")

    def __enter__(self):
        self.f = open(self.path, "w")
        fcntl.flock(self.f, fcntl.LOCK_EX)

    def __exit__(self, *a):
        fcntl.flock(self.f, fcntl.LOCK_UN)
        self.f.close()


def build_lib(cfg, pool=None):
    """returns (archive path, include flags)"""
    cxx, flags = cfg_flags(cfg)
    defs = gen_defs_dir()
    incs = ["-I" + os.path.join(REPO, "include"), "-I" + defs, "-I" + os.path.join(REPO, "lib")]
    objdir = os.path.join(BUILD, "obj")
    os.makedirs(objdir, exist_ok=True)
    hh = headers_hash()
    jobs = []
    for src in repo_sources():
        key = _h(cxx, " ".join(flags), os.path.relpath(src, REPO), _read(src), hh)
        jobs.append((src, os.path.join(objdir, key + ".o")))
    own = pool is None
    if own:
        pool = cf.ThreadPoolExecutor(JOBS)
    futs = [pool.submit(_compile, cxx, flags + ["-w"], incs, s, o) for s, o in jobs]
    for f in futs:
        f.result()
    if own:
        pool.shutdown()
    akey = _h(cfg, *[o for _, o in jobs])
    libdir = os.path.join(BUILD, "lib")
    os.makedirs(libdir, exist_ok=True)
    ar = os.path.join(libdir, "libdsplib-%s-%s.a" % (cfg, akey))
    if not os.path.exists(ar):
        tmp = ar + ".%d.tmp" % os.getpid()
        if os.path.exists(tmp):
            os.unlink(tmp)
        _run(["ar", "rcs", tmp] + [o for _, o in jobs], "archive")
        os.replace(tmp, ar)
    else:
        os.utime(ar)
    return ar, incs


def kit_hash():
    m = hashlib.sha256()
    # kit headers and harness-local headers (e.g. c05_prog.h, shared by c05.cpp and c05_fuzz.cpp)
    for p in sorted(glob.glob(os.path.join(VERIF, "harness", "kit", "*.h")) + glob.glob(os.path.join(VERIF, "harness", "*.h"))):
        m.update(os.path.basename(p).encode())
        m.update(_read(p))
    return m.hexdigest()[:24]


def build_harness(name, cfg, extra_flags=(), extra_link=(), pool=None):
    """Compiles /verif/harness/<name>.cpp against the working tree in configuration cfg; returns the executable."""
    with Lock("build"):
        ar, incs = build_lib(cfg, pool)
    cxx, flags = cfg_flags(cfg)
    src = os.path.join(VERIF, "harness", name + ".cpp")
    link = CONFIGS[cfg].get("link")
    if link is None:
        link = [f for f in CONFIGS[cfg]["flags"] if f.startswith("-fsanitize=")]
    key = _h(cxx, " ".join(flags), " ".join(extra_flags), " ".join(extra_link), _read(src), kit_hash(), headers_hash(), os.path.basename(ar))
    bindir = os.path.join(BUILD, "bin")
    os.makedirs(bindir, exist_ok=True)
    exe = os.path.join(bindir, "%s-%s-%s" % (name, cfg, key))
    if os.path.exists(exe):
        os.utime(exe)
        return exe
    tmp = exe + ".%d.tmp" % os.getpid()
    cmd = [cxx] + flags + list(extra_flags) + ["-w", "-I" + os.path.join(VERIF, "harness")] + incs + [src, ar] + list(link) + list(extra_link) + ["-lrapidcheck", "-lpthread", "-o", tmp]
    _run(cmd, "harness " + name)
    os.replace(tmp, exe)
    return exe


def build_many(pairs):
    """pairs: [(name, cfg, extra_flags, extra_link)] built in parallel; returns {(name,cfg): exe}"""
    # libraries first (serial over configs, parallel inside), then harnesses in parallel
    res = {}
    with Lock("build"):
        for cfg in sorted({p[1] for p in pairs}):
            build_lib(cfg)
    with cf.ThreadPoolExecutor(JOBS) as pool:
        futs = {pool.submit(_build_harness_nolock, *p): p for p in pairs}
        for f, p in futs.items():
            res[(p[0], p[1])] = f.result()
    return res


def _build_harness_nolock(name, cfg, extra_flags=(), extra_link=()):
    return build_harness(name, cfg, extra_flags, extra_link)


def prune(max_bytes=6 << 30):
    """keep the cache bounded: drop least recently used files"""
    files = []
    for sub in ("obj", "bin", "lib"):
        for p in glob.glob(os.path.join(BUILD, sub, "*")):
            try:
                st = os.stat(p)
                files.append((st.st_mtime, st.st_size, p))
            except OSError:
                pass
    total = sum(f[1] for f in files)
    for mt, sz, p in sorted(files):
        if total <= max_bytes:
            break
        try:
            os.unlink(p)
            total -= sz
        except OSError:
            pass


if __name__ == "__main__":
    t = time.time()
    for cfg in sys.argv[1:] or ["rel"]:
        print(build_lib(cfg)[0], "%.1fs" % (time.time() - t))
