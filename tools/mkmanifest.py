#!/usr/bin/env python3
"""Regenerates /verif/MANIFEST.json from props/*.json (one check per registered property) and validates it."""
import json, os, subprocess, sys
V = os.path.dirname(os.path.dirname(os.path.abspath(__file__)))
sys.path.insert(0, os.path.join(V, "lib"))
from props import PROPS
props = [json.loads(l) for l in open(os.path.join(V, "properties.jsonl"))]
ids = [p["id"] for p in props]
repo_log = subprocess.run(["git", "-C", "/repo", "log", "--format=%H %s"], stdout=subprocess.PIPE).stdout.decode().splitlines()
hook_commits = [l.split()[0] for l in repo_log if l.split(" ", 1)[1].startswith("verif hooks")]
checks, na = [], []
for pid in ids:
    sp = PROPS.get(pid)
    if not sp or not sp.get("claimed", True) or "level_text" not in sp:
        na.append(dict(property_id=pid, reason=(sp or {}).get("na_reason", "check not built yet (in progress); nothing is claimed for it")))
        continue
    cfgs = sorted({r[1] for r in sp["runs"]})
    engine = "rapidcheck + exhaustive enumeration (harness/%s.cpp, kit/vk.h)" % sp["runs"][0][0]
    if sp.get("fuzz"):
        engine += " + libFuzzer (harness/%s.cpp)" % sp["fuzz"]["harness"]
    checks.append(dict(
        property_id=pid,
        quick_cmd="bin/check %s --tier quick" % pid,
        thorough_cmd="bin/check %s --tier thorough" % pid,
        evidence_file="evidence/%s.json" % pid,
        replay_cmd_template="bin/check %s --replay {path}" % pid,
        engine=engine,
        level_claimed=dict(category="exploration", text=sp["level_text"], design_ref="DESIGN.md section 4, %s" % pid),
        level_note=sp["level_note"],
        technique=sp["technique"],
    ))
m = dict(
    version=1,
    setup_cmd="bin/setup",
    hooks=dict(
        guard="DSPLIB_VERIF",
        enable="checks compile /repo's working tree themselves (lib/vbuild.py, content-hashed objects under /verif/build) with -DDSPLIB_VERIF -DNDEBUG; the project's own build never defines the guard",
        baseline_off_cmd="cmake --build /repo/_build -j16 && cd /repo/_build/tests && ./dsplib-test",
        source_commits=hook_commits,
        add_only=True,
    ),
    engines=[
        dict(name="vk kit + rapidcheck", path="harness/kit/vk.h", serves_properties=[c["property_id"] for c in checks],
             kind_free_text="property-based testing: per-property harness = executable predicate over JSON cases; cases come from exhaustive enumerators or rapidcheck generators (shrinking, seeded from VERIF_SEED); fork-per-case monitor for crash/hang/race properties; 3x replay confirmation; evidence with measured distinct non-trivial counts"),
        dict(name="libFuzzer", path="harness/c05_fuzz.cpp", serves_properties=["C05"], kind_free_text="coverage-guided fuzzing of structure-aware call programs under ASan+UBSan; artifacts replayed through the deterministic harness"),
        dict(name="sanitizers as monitors", path="lib/vbuild.py", serves_properties=["C04", "C05", "C09"], kind_free_text="clang ASan+UBSan (+annotated std::vector) and TSan builds of the library and harness"),
    ],
    checks=checks,
    notes="Driver: bin/check <ID> --tier quick|thorough (honours VERIF_SEED, VERIF_TIER). Known findings: known_findings.json. Design: DESIGN.md.",
    not_applicable=na,
)
json.dump(m, open(os.path.join(V, "MANIFEST.json"), "w"), indent=1)
print("checks:", [c["property_id"] for c in checks], "not claimed:", [n["property_id"] for n in na])
