// C01  Forward transforms equal the DFT for every length and input.
// Oracle: O(n^2) DFT in long double (kit/num.h), criterion ||X - Xref||_2 <= 32 n eps ||Xref||_2 as stated.
#include "kit/num.h"
#include "kit/prelude.h"
#include <dsplib.h>

using namespace vk;
using namespace dsplib;

namespace {

enum PlanKind { K_SMALL, K_N3, K_POW2, K_PRIME_DIRECT, K_PRIME_CZT, K_FACTOR };
bool is_prime(int n) {
    if (n < 2) return false;
    for (int d = 2; int64_t(d) * d <= n; ++d) if (n % d == 0) return false;
    return true;
}
const char* plan_kind(int n) {
    if (n == 1 || n == 2 || n == 4 || n == 8) return "small";
    if (n == 3) return "n3-kernel";
    if (is_prime(n)) return n <= 41 ? "prime-direct" : "prime-bluestein";
    if ((n & (n - 1)) == 0) return "pow2";
    return "factor-tree";
}
const char* rplan_kind(int n) {
    if (n == 1 || n == 2 || n == 4 || n == 8) return "r-small";
    if (is_prime(n)) return "r-prime";
    if (n % 2 == 0) return "r-even-packed";
    return "r-odd-factor";
}

double ratio_of(const std::vector<cld>& X, const std::vector<cld>& R, int n, double c = 32) {
    ld nr = l2(R);
    ld d = l2diff(X, R);
    if (nr == 0) return d == 0 ? 0.0 : 1e300;
    return double(d / (ld(c) * n * EPS * nr));
}

// runs the three complex-input forms / three real-input forms on one vector
void check_forms(int n, int cls, uint64_t seed, bool real_in, Out& o) {
    Rng r(seed);
    std::vector<cld> ref;
    std::vector<std::pair<const char*, std::vector<cld>>> got;
    if (!real_in) {
        arr_cmplx x = to_arr(gen_cmplx(r, n, cls));
        ref = ld_dft(to_cld(x));
        got.emplace_back("fft(cx)", to_cld(fft(x)));
        FftPlan plan(n);
        got.emplace_back("FftPlan()", to_cld(plan(x)));
        arr_cmplx y(n);
        static_cast<const BaseFftPlanC&>(plan).solve(x.data(), y.data(), n);
        got.emplace_back("FftPlan::solve(ptr)", to_cld(y));
        if (plan.size() != n) o.fail("plan:size", fmt("FftPlan(%d).size()=%d", n, plan.size()));
    } else {
        arr_real x = to_arr(gen_real(r, n, cls));
        ref = ld_dft(to_cld(x));
        arr_cmplx X = fft(x);
        got.emplace_back("fft(real)", to_cld(X));
        got.emplace_back("rfft", to_cld(rfft(x)));
        FftPlanR plan(n);
        got.emplace_back("FftPlanR()", to_cld(plan(x)));
        {
            arr_cmplx yp(n);
            static_cast<const BaseFftPlanR&>(plan).solve(x.data(), yp.data(), n);
            got.emplace_back("FftPlanR::solve(ptr)", to_cld(yp));
        }
        if (plan.size() != n) o.fail("plan:size", fmt("FftPlanR(%d).size()=%d", n, plan.size()));
        // real vs complex path and conjugate symmetry (each side is within 32 n eps of the symmetric truth)
        std::vector<cld> Xc = to_cld(fft(complex(x)));
        std::vector<cld> Xr = to_cld(X);
        double rc = ratio_of(Xr, Xc, n, 64);
        o.metric("real-vs-complex err/tol", rc);
        if (Xr.size() != Xc.size() || !(rc <= 1)) o.fail("real-vs-complex", fmt("n=%d class=%s: fft(real) vs fft(complex(real)) differ by %.3g of 64 n eps", n, sig_name(cls), rc));
        std::vector<cld> S(Xr.size());
        for (int k = 0; k < n; ++k) S[size_t(k)] = std::conj(Xr[size_t((n - k) % n)]);
        double rs = ratio_of(Xr, S, n, 64);
        o.metric("conj-symmetry err/tol", rs);
        if (!(rs <= 1)) o.fail("conj-symmetry", fmt("n=%d class=%s: spectrum of real input not conjugate symmetric (%.3g of 64 n eps)", n, sig_name(cls), rs));
    }
    ld nr = l2(ref);
    for (auto& g : got) {
        if (int(g.second.size()) != n) { o.fail(std::string("size:") + g.first, fmt("%s returned %zu values for n=%d", g.first, g.second.size(), n)); continue; }
        bool fin = true;
        for (auto& v : g.second) fin &= std::isfinite(double(v.real())) && std::isfinite(double(v.imag()));
        double rt = fin ? ratio_of(g.second, ref, n) : 1e300;
        o.metric("dft err/tol", rt);
        if (!(rt <= 1)) {
            o.fail(std::string("dft:") + (real_in ? rplan_kind(n) : plan_kind(n)),
                   fmt("%s n=%d class=%s: ||X-Xref||/(32 n eps ||Xref||) = %.4g (||Xref||=%.3Lg)", g.first, n, sig_name(cls), rt, nr));
        }
    }
    if (n >= 2 && nr > 0) o.nontrivial(key_of(n, cls, int(real_in)));
    o.label(std::string("plan:") + (real_in ? rplan_kind(n) : plan_kind(n)));
    o.label(std::string("input:") + sig_name(cls));
    o.evals = long(got.size());
}

}   // namespace

// ------------------------------------------------------------------------------------------- every length
VK_SUB(all, "all_lengths");
static void all_check(const Json& c, Out& o) { check_forms(c.geti("n"), c.geti("cls"), c.getu("seed"), c.geti("real") != 0, o); }
static void all_gen(Ctx& ctx) {
    std::vector<int> lens;
    const int full = ctx.quick() ? 512 : 4096;
    for (int n = 1; n <= full; ++n) lens.push_back(n);
    if (ctx.quick()) {
        Rng r(mix(ctx.seed, 0xC01));
        for (int k = 0; k < 256; ++k) lens.push_back(r.range(513, 4096));
    }
    for (int n : lens)
        for (int cls = 0; cls < S_NCLASSES; ++cls)
            for (int real = 0; real < 2; ++real) {
                if (!ctx.mine()) continue;
                ctx.eval(Json::object().set("n", n).set("cls", cls).set("real", real).set("seed", (long long)(mix(ctx.seed, key_of(n, cls, real)) >> 16)));
            }
}

// ------------------------------------------------------------------------------------------- large structured lengths
VK_SUB(large, "large_lengths");
static void large_check(const Json& c, Out& o) {
    const int n = c.geti("n"), cls = c.geti("cls");
    const bool real_in = c.geti("real") != 0, full = c.geti("full") != 0;
    if (full) { check_forms(n, cls, c.getu("seed"), real_in, o); o.label("mode:full-reference"); return; }
    // sampled bins: |X[k]-Xref[k]| <= 32 n eps ||Xref||_2 (implied by the l2 statement) and Parseval within (1 +- 32 n eps)^2
    Rng r(c.getu("seed"));
    std::vector<cld> x;
    std::vector<cld> X;
    if (real_in) { arr_real v = to_arr(gen_real(r, n, cls, 100)); x = to_cld(v); X = to_cld(fft(v)); }
    else { arr_cmplx v = to_arr(gen_cmplx(r, n, cls, 100)); x = to_cld(v); X = to_cld(fft(v)); }
    if (int(X.size()) != n) { o.fail("size:large", fmt("fft returned %zu values for n=%d", X.size(), n)); return; }
    const ld nx = l2(x), nX = l2(X);
    const ld normref = std::sqrt(ld(n)) * nx;   // ||Xref||_2 by Parseval (exact identity)
    const ld tol = 32 * ld(n) * EPS;
    if (nx > 0) {
        ld pr = std::fabs(nX / normref - 1);
        o.metric("parseval err/tol", double(pr / tol));
        if (!(pr <= tol)) o.fail(std::string("parseval:") + plan_kind(n), fmt("n=%d class=%s: ||X||/(sqrt(n)||x||)-1 = %.3Lg > 32 n eps", n, sig_name(cls), pr));
    }
    Rng rb(mix(c.getu("seed"), 77));
    for (int j = 0; j < 32; ++j) {
        int k = j == 0 ? 0 : j == 1 ? n - 1 : j == 2 ? n / 2 : rb.range(0, n - 1);
        cld ref = ld_dft_bin(x, k);
        ld e = std::abs(X[size_t(k)] - ref);
        o.metric("bin err/tol", normref > 0 ? double(e / (tol * normref)) : 0);
        if (!(e <= tol * normref)) { o.fail(std::string("dft-bin:") + plan_kind(n), fmt("n=%d class=%s bin %d: |X-Xref| = %.3Lg > 32 n eps ||Xref|| = %.3Lg", n, sig_name(cls), k, e, tol * normref)); break; }
    }
    if (nx > 0) o.nontrivial(key_of(n, cls, int(real_in)));
    o.label(std::string("plan:") + (real_in ? rplan_kind(n) : plan_kind(n)));
    o.label("mode:sampled-bins");
    o.evals = 33;
}
static std::vector<int> structured_lengths(Rng& r, int count, int maxn) {
    std::vector<int> primes;
    for (int p = 2; p <= maxn; ++p) if (is_prime(p)) primes.push_back(p);
    auto rp = [&](int hi) { int k = 0; while (k + 1 < int(primes.size()) && primes[size_t(k + 1)] <= hi) ++k; return primes[size_t(r.range(0, k))]; };
    std::vector<int> out = {65537, 131071, 131072, 65536, 8191, 8192, 8193, 16381, 16411, 32749, 32771, 65521, 65539, 131101 > maxn ? 131063 : 131101,
                            2 * 3 * 5 * 7 * 11 * 13, 2 * 2 * 3 * 3 * 5 * 7 * 11 * 13, 3 * 3 * 3 * 3 * 3 * 3 * 3 * 3 * 3, 5 * 5 * 5 * 5 * 5 * 5 * 5, 7 * 7 * 7 * 7 * 7, 43 * 43 * 43 > maxn ? 43 * 43 : 43 * 43 * 43,
                            4096 * 3, 4096 * 31, 1024 * 127, 2 * 65521, 4 * 32749, 251 * 521, 331 * 337, 41 * 43 * 47};
    while (int(out.size()) < count) {
        int kind = r.range(0, 5), n = 0;
        switch (kind) {
        case 0: n = rp(maxn); break;                                                     // prime
        case 1: { int p = rp(360), q = rp(maxn / p); n = p * q; break; }                 // semiprime
        case 2: { int p = rp(50); n = p; while (int64_t(n) * p <= maxn && r.coin()) n *= p; break; }   // prime power
        case 3: { int p = rp(maxn / 2); n = p; while (int64_t(n) * 2 <= maxn && r.range(0, 3)) n *= 2; break; }   // 2^k p
        case 4: { n = 1; for (int f : {2, 2, 2, 3, 3, 5, 7, 11, 13}) if (r.coin() && int64_t(n) * f <= maxn) n *= f; n = std::max(n, 6); break; }
        default: n = r.range(4097, maxn);
        }
        if (n > 4096 && n <= maxn) out.push_back(n);
    }
    return out;
}
static void large_gen(Ctx& ctx) {
    Rng r(mix(ctx.seed, 0x1A26E));
    auto lens = structured_lengths(r, ctx.by_tier(96, 320), 1 << 17);
    const int classes[] = {S_GAUSS, S_DYNRANGE, S_TONE, S_IMPULSE_RAND};
    int idx = 0;
    for (int n : lens) {
        for (int cls : classes)
            for (int real = 0; real < 2; ++real) {
                if (!ctx.mine()) continue;
                ctx.eval(Json::object().set("n", n).set("cls", cls).set("real", real).set("full", 0).set("seed", (long long)(mix(ctx.seed, key_of(n, cls, real, 9)) >> 16)));
            }
        ++idx;
    }
    // complete O(n^2) references: quick for lengths <= 20000, thorough additionally 16 of the largest
    std::vector<int> fulls;
    for (int n : lens) if (n <= 20000) fulls.push_back(n);
    if (ctx.thorough()) { int k = 0; for (int n : lens) if (n > 20000 && k < 16) { fulls.push_back(n); ++k; } }
    for (int n : fulls) {
        if (!ctx.mine()) continue;
        int real = int((mix(ctx.seed, key_of(n, 0x4EA1)) >> 7) & 1);   // either input type for odd AND even lengths (was: parity of n)
        ctx.eval(Json::object().set("n", n).set("cls", int(S_GAUSS)).set("real", real).set("full", 1).set("seed", (long long)(mix(ctx.seed, key_of(n, 5)) >> 16)));
    }
}

// ------------------------------------------------------------------------------------------- fft(x, n') pad / truncate
VK_SUB(pad, "pad_truncate");
static void pad_check(const Json& c, Out& o) {
    const int n = c.geti("n"), n2 = c.geti("n2");
    const bool real_in = c.geti("real") != 0;
    const int form = c.geti("form", 0);   // real input: 0 = fft(x,n2), 1 = rfft(x,n2)
    Rng r(c.getu("seed"));
    std::vector<cld> xp(size_t(n2), cld(0)), X;
    if (real_in) {
        arr_real x = to_arr(gen_real(r, n, S_GAUSS));
        for (int i = 0; i < std::min(n, n2); ++i) xp[size_t(i)] = x[i];
        X = to_cld(form == 0 ? fft(x, n2) : rfft(x, n2));
    } else {
        arr_cmplx x = to_arr(gen_cmplx(r, n, S_GAUSS));
        for (int i = 0; i < std::min(n, n2); ++i) xp[size_t(i)] = to_cld(x[i]);
        X = to_cld(fft(x, n2));
    }
    if (int(X.size()) != n2) { o.fail("pad:size", fmt("fft(x[%d], %d) returned %zu values", n, n2, X.size())); return; }
    auto ref = ld_dft(xp);
    double rt = ratio_of(X, ref, n2);
    o.metric("dft err/tol", rt);
    if (!(rt <= 1)) o.fail(n2 > n ? "pad:value" : n2 < n ? "truncate:value" : "same:value", fmt("fft(x[%d], %d) real=%d form=%d: err/tol=%.4g vs DFT of the padded/truncated input", n, n2, int(real_in), form, rt));
    if (n2 != n && n2 >= 2) o.nontrivial(key_of(n, n2, int(real_in), form));
    o.label(n2 > n ? "pad" : n2 < n ? "truncate" : "same");
}
static void pad_gen(Ctx& ctx) {
    const int top = ctx.by_tier(24, 64);
    for (int n = 1; n <= top; ++n)
        for (int n2 = 1; n2 <= 2 * n; ++n2)
            for (int v = 0; v < 3; ++v) {
                if (!ctx.mine()) continue;
                ctx.eval(Json::object().set("n", n).set("n2", n2).set("real", v > 0 ? 1 : 0).set("form", v == 2 ? 1 : 0).set("seed", (long long)(mix(ctx.seed, key_of(n, n2, v)) >> 16)));
            }
    ctx.rc("random", ctx.by_tier(3000, 30000), [&]() {
        int n = pick_log(1, 3000);
        int n2 = pick(1, 2 * n);
        int v = pick(0, 2);
        return Json::object().set("n", n).set("n2", n2).set("real", v > 0 ? 1 : 0).set("form", v == 2 ? 1 : 0).set("seed", (long long)seed64());
    });
}

// ------------------------------------------------------------------------------------------- czt
VK_SUB(cz, "czt");
static void cz_check(const Json& c, Out& o) {
    const int n = c.geti("n"), m = c.geti("m");
    const double theta = c.getd("theta"), ar = c.getd("ar"), aphi = c.getd("aphi");
    const bool use_plan = c.geti("plan") != 0;
    Rng r(c.getu("seed"));
    arr_cmplx x = to_arr(gen_cmplx(r, n, c.geti("cls")));
    const cmplx_t w = {std::cos(theta), std::sin(theta)};
    const cmplx_t a = {ar * std::cos(aphi), ar * std::sin(aphi)};
    arr_cmplx X;
    const bool a_is_one = (ar == 1.0 && aphi == 0.0);
    if (use_plan) { CztPlan plan(n, m, w, a); X = plan(x); if (plan.size() != n) o.fail("czt:size", "CztPlan::size() != n"); }
    else X = a_is_one && c.geti("dflt") ? czt(x, m, w) : czt(x, m, w, a);
    if (X.size() != m) { o.fail("czt:size", fmt("czt returned %d values, m=%d", X.size(), m)); return; }
    // reference: sum_j x[j] a^-j w^(jk) with w_ref = exp(i*atan2(w)) (the double-valued w the library received)
    const ld th = atan2l(ld(w.im), ld(w.re));
    const cld al(a.re, a.im);
    std::vector<cld> xs(static_cast<size_t>(n));
    cld ap = 1;
    for (int j = 0; j < n; ++j) { xs[size_t(j)] = to_cld(x[j]) * ap; ap /= al; }
    std::vector<cld> ref(static_cast<size_t>(m));
    for (int k = 0; k < m; ++k) {
        cld acc = 0;
        for (int j = 0; j < n; ++j) {
            // phase th*j*k reduced mod 2pi in long double via exact integer product
            ld ph = fmodl(th * ld(int64_t(j) * k), 2 * PI_L);
            acc += xs[size_t(j)] * cld(cosl(ph), sinl(ph));
        }
        ref[size_t(k)] = acc;
    }
    // conditioning: one ulp of theta moves term (j,k) by eps*|theta|*j*k  =>  kappa = max(n+m, |theta| max(n,m)^2 / pi)
    const ld kappa = std::max<ld>(ld(n + m), std::fabs(th) * ld(std::max(n, m)) * ld(std::max(n, m)) / PI_L);
    const ld tol = 32 * EPS * kappa * std::sqrt(ld(m)) * l2(xs);
    const ld e = l2diff(to_cld(X), ref);
    o.metric("czt err/tol", tol > 0 ? double(e / tol) : 0);
    if (!(e <= tol) || !all_finite(X)) o.fail("czt:value", fmt("czt n=%d m=%d theta=%.6g |a|=%.3g plan=%d: ||X-Xref||=%.3Lg > tol %.3Lg", n, m, theta, ar, int(use_plan), e, tol));
    if (n >= 2 && m >= 2) o.nontrivial(key_of(n, m, int(theta * 1e6), int(ar * 1000), int(use_plan)));
    o.label(std::string("theta:") + c.gets("tcls", "?"));
    o.label(a_is_one ? "a=1" : "a!=1");
}
static void cz_gen(Ctx& ctx) {
    const int maxn = ctx.by_tier(300, 2000);
    ctx.rc("random", ctx.by_tier(4000, 40000), [&]() {
        int n = pick_log(1, maxn);
        int m = pick(1, 2 * n);
        if (pick(0, 5) == 0) m = flip() ? pick(2 * n, 8 * n + 3) : std::max(1, n / pick(2, 16));   // many more / many fewer output points than input samples
        int tc = pick(0, 5);
        double theta = 0;
        const char* tn = "";
        switch (tc) {
        case 0: theta = -2 * M_PI / n; tn = "-2pi/n (dft)"; break;
        case 1: theta = M_PI; tn = "pi"; break;
        case 2: theta = -M_PI / 2; tn = "-pi/2"; break;
        case 3: theta = M_PI / 2; tn = "pi/2"; break;
        case 4: theta = 1e-3 * pickd(-1, 1); tn = "tiny"; break;
        default: theta = pickd(-M_PI, M_PI); tn = "generic";
        }
        int ac = pick(0, 2);
        double ar = ac == 0 ? 1.0 : pickd(0.5, 2.0), aphi = ac == 0 ? 0.0 : pickd(-M_PI, M_PI);
        if (ac == 2) ar = 1.0;   // unit-modulus a with a phase
        if (ac == 1 && pick(0, 3) == 0) ar = 1.0 + (flip() ? 1 : -1) * std::pow(10.0, pickd(-15.5, -1));   // log-uniformly close to the unit circle, on either side
        // |a|^-j must stay representable: n*|log10 a| <= 280
        if (ar != 1.0 && n * std::fabs(std::log10(ar)) > 250) ar = 1.0;
        return Json::object().set("n", n).set("m", m).set("theta", theta).set("tcls", tn).set("ar", ar).set("aphi", aphi)
          .set("cls", pick(int(S_TONE), int(S_GAUSS))).set("plan", pick(0, 1)).set("dflt", pick(0, 1)).set("seed", (long long)seed64());
    });
}

// ------------------------------------------------------------------------------------------- czt call sequences
// Successive czt()/CztPlan calls that share some of (n, m, w, a) and differ in others: every call must still equal the
// direct sum for ITS OWN arguments (a result must not depend on the previous call; plan objects must not leak parameters).
VK_SUB(czs, "czt_sequences");
static void czs_check(const Json& c, Out& o) {
    int idx = 0;
    for (auto& call : c.at("calls").a) {
        Out oc;
        cz_check(call, oc);
        o.evals += oc.evals;
        for (auto& m : oc.metrics) o.metrics.push_back(m);
        if (oc.failed) { o.fail("czt-sequence:" + oc.sig, fmt("call %d of the sequence: ", idx) + oc.msg); break; }
        ++idx;
    }
    if (idx >= 2) {
        uint64_t k = 0xC2;
        for (auto& call : c.at("calls").a) k = mix(k, key_of(call.geti("n"), call.geti("m"), int(call.getd("theta") * 1e6), int(call.getd("ar") * 1000), int(call.getd("aphi") * 1000)));
        o.nontrivial(k);
    }
    o.label(fmt("calls:%d", int(c.at("calls").size())));
}
static void czs_gen(Ctx& ctx) {
    ctx.rc("random", ctx.by_tier(6000, 60000), [&]() {
        int n = pick_log(1, 200), m = pick(1, 2 * n);
        double theta = flip() ? -2 * M_PI / n : pickd(-M_PI, M_PI);
        double ar = 1.0, aphi = 0.0;
        int cls = pick(int(S_TONE), int(S_GAUSS));
        long long seed = (long long)seed64();
        Json calls = Json::array();
        int ncalls = pick(2, 5);
        for (int k = 0; k < ncalls; ++k) {
            if (k > 0) {
                // mutate exactly one or two of the parameters, keep the others bit-identical
                int what = pick(0, 5);
                if (what == 0 || what == 5) { int ac = pick(0, 2); ar = ac == 0 ? 1.0 : ac == 1 ? pickd(0.5, 2.0) : 1.0; aphi = ac == 0 ? 0.0 : pickd(-M_PI, M_PI); if (ar != 1.0 && n * std::fabs(std::log10(ar)) > 250) ar = 1.0; }
                if (what == 1) m = pick(1, 2 * n);
                if (what == 2) { n = pick_log(1, 200); m = std::min(m, 2 * n); if (ar != 1.0 && n * std::fabs(std::log10(ar)) > 250) ar = 1.0; }
                if (what == 3) theta = pickd(-M_PI, M_PI);
                if (what == 4 || what == 5) seed = (long long)seed64();
            }
            calls.push(Json::object().set("n", n).set("m", m).set("theta", theta).set("tcls", "seq").set("ar", ar).set("aphi", aphi)
                         .set("cls", cls).set("plan", pick(0, 3) == 0 ? 1 : 0).set("dflt", pick(0, 1)).set("seed", seed));
        }
        return Json::object().set("calls", calls);
    });
}

VK_FRESH_THREADS;
VK_MAIN("C01")
