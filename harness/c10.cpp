// C10  Transform results do not depend on call history; plan caching is transparent; at most DSPLIB_FFT_CACHE_SIZE plans
// are retained per thread, the most recently used ones.
// Every history runs in a FRESH std::thread (hence empty thread_local caches).  Oracles:
//  (1) every result is bit-identical to the same call made first thing in another fresh thread;
//  (2) the cache key lists (read through the DSPLIB_VERIF hook) follow an LRU "stack" model in lock-step, with the
//      planner's own sub-plan requests left existential (any prefix of lengths derived from n may appear behind n);
//  (3) plan objects obtained earlier still give the bit-identical result after any number of evictions.
// Built three times: cache sizes 4 (shipped), 1 and 2.
#include "kit/num.h"
#include <dsplib.h>
#include <thread>
#if defined(__x86_64__) || defined(__i386__)
#include <xmmintrin.h>
#define C10_HAVE_MXCSR 1
#endif
#include <unistd.h>
#include <set>

namespace dsplib { namespace verif {
std::vector<int> fft_cache_keys();
std::vector<int> rfft_cache_keys();
int fft_cache_capacity();
}}

using namespace vk;
using namespace dsplib;

namespace {

enum Kind { K_FFT = 0, K_IFFT = 1, K_PLAN_C = 2, K_RFFT = 3, K_IRFFT = 4, K_PLAN_R = 5, K_USE_C = 6, K_USE_R = 7, K_FFT_REAL = 8, K_PLAN_IC = 9, K_PLAN_IR = 10, K_USE_IC = 11, K_USE_IR = 12, K_CZT = 13, K_XCORR = 14, K_HILBERT = 15, K_NKINDS = 16, K_REFUSED = 16, K_NKINDS2 = 17, K_FFT_PAD = 17, K_RFFT_PAD = 18, K_PLAN_Z = 19, K_USE_Z = 20, K_IRFFT_FULL = 21, K_NKINDS3 = 22 };
const char* kind_name(int k) {
    static const char* n[] = {"fft", "ifft", "FftPlan", "rfft", "irfft", "FftPlanR", "use-stored-FftPlan", "use-stored-FftPlanR", "fft(real)", "IfftPlan", "IfftPlanR", "use-stored-IfftPlan", "use-stored-IfftPlanR", "czt", "xcorr", "hilbert", "refused-request", "fft(x,n) pad/truncate", "rfft(x,n) pad/truncate", "CztPlan", "use-stored-CztPlan", "irfft(full spectrum)"};
    return n[k];
}
inline int code(int kind, int len) { return kind * 100000 + len; }
inline int kind_of(int c) { return c / 100000; }
inline int len_of(int c) { return c % 100000; }

arr_cmplx cx_input(int n) {
    Rng r(mix(0xC10, uint64_t(n)));
    arr_cmplx x(n);
    for (int i = 0; i < n; ++i) x[i] = cmplx_t(r.gauss(), r.gauss());
    return x;
}
arr_real re_input(int n) {
    Rng r(mix(0xC10A, uint64_t(n)));
    arr_real x(n);
    for (int i = 0; i < n; ++i) x[i] = r.gauss();
    return x;
}
// flat bit pattern of a result
std::vector<uint64_t> bits(const arr_cmplx& a) {
    std::vector<uint64_t> b;
    for (int i = 0; i < a.size(); ++i) { uint64_t u; double v = a[i].re; memcpy(&u, &v, 8); b.push_back(u); v = a[i].im; memcpy(&u, &v, 8); b.push_back(u); }
    return b;
}
std::vector<uint64_t> bits(const arr_real& a) {
    std::vector<uint64_t> b;
    for (int i = 0; i < a.size(); ++i) { uint64_t u; double v = a[i]; memcpy(&u, &v, 8); b.push_back(u); }
    return b;
}

struct Stored
{
    std::vector<std::pair<int, FftPlan>> c;
    std::vector<std::pair<int, FftPlanR>> r;
    std::vector<std::pair<int, IfftPlan>> ic;
    std::vector<std::pair<int, IfftPlanR>> ir;
    std::vector<std::pair<int, CztPlan>> z;
};
inline int czt_m(int n) { return (n % 3 == 0) ? n : (n % 3 == 1) ? std::max(1, n / 4) : 2 * n + 1; }
inline cmplx_t czt_w(int n) { return expj(-2 * pi * 0.8 / n); }
inline cmplx_t czt_a(int n) { return (n % 2) ? cmplx_t(1) : cmplx_t(0.9, 0.2); }

// performs one request; returns the bit pattern of its result
std::vector<uint64_t> perform(int kind, int n, Stored& st, int arg) {
    switch (kind) {
    case K_FFT: return bits(fft(cx_input(n)));
    case K_IFFT: return bits(ifft(cx_input(n)));
    case K_PLAN_C: { FftPlan p(n); auto b = bits(p(cx_input(n))); st.c.emplace_back(n, p); return b; }
    case K_RFFT: return bits(rfft(re_input(n)));
    case K_FFT_REAL: return bits(fft(re_input(n)));
    case K_IRFFT: return bits(irfft(cx_input(n / 2 + 1), n));
    case K_PLAN_R: { FftPlanR p(n); auto b = bits(p(re_input(n))); st.r.emplace_back(n, p); return b; }
    case K_USE_C: { if (st.c.empty()) return {}; auto& e = st.c[size_t(arg) % st.c.size()]; return bits(e.second(cx_input(e.first))); }
    case K_USE_R: { if (st.r.empty()) return {}; auto& e = st.r[size_t(arg) % st.r.size()]; return bits(e.second(re_input(e.first))); }
    case K_PLAN_IC: { IfftPlan p(n); auto b = bits(p(cx_input(n))); st.ic.emplace_back(n, p); return b; }
    case K_PLAN_IR: { IfftPlanR p(n); auto b = bits(p(cx_input(n / 2 + 1))); st.ir.emplace_back(n, p); return b; }
    case K_USE_IC: { if (st.ic.empty()) return {}; auto& e = st.ic[size_t(arg) % st.ic.size()]; return bits(e.second(cx_input(e.first))); }
    case K_USE_IR: { if (st.ir.empty()) return {}; auto& e = st.ir[size_t(arg) % st.ir.size()]; return bits(e.second(cx_input(e.first / 2 + 1))); }
    // things built on the transforms (their results must not depend on the history either)
    case K_CZT: { const int m = (n % 3 == 0) ? n : std::max(1, n / 4); return bits(czt(cx_input(n), m, expj(-2 * pi * 0.8 / n), (n % 2) ? cmplx_t(1) : cmplx_t(0.9, 0.2))); }
    case K_XCORR: return bits(xcorr(re_input(n), re_input(n / 2 + 1)));
    case K_HILBERT: return bits(hilbert(re_input(n)));
    // fft(x, n) / rfft(x, n) with len(x) != n: the plan requested is the one for n (input zero-padded from n/2+1 or truncated from n+3)
    case K_FFT_PAD: return bits(fft(cx_input((n & 2) ? n / 2 + 1 : n + 3), n));
    case K_RFFT_PAD: return bits(rfft(re_input((n & 2) ? n / 2 + 1 : n + 3), n));
    case K_IRFFT_FULL: return bits(irfft(cx_input(n), n));   // all n bins given instead of n/2+1
    case K_PLAN_Z: { CztPlan p(n, czt_m(n), czt_w(n), czt_a(n)); auto b = bits(p(cx_input(n))); st.z.emplace_back(n, p); return b; }
    case K_USE_Z: { if (st.z.empty()) return {}; auto& e = st.z[size_t(arg) % st.z.size()]; return bits(e.second.solve(cx_input(e.first))); }
    // a request the library refuses (caught by the caller): the thread's caches must be as before and keep working as before
    case K_REFUSED: {
        uint64_t threw = 0;
        try {
            switch (n % 4) {
            case 0: (void)fft(arr_cmplx()); break;
            case 1: (void)irfft(cx_input(n / 2 + 1), n | 1); break;          // odd length
            case 2: { FftPlan p(0); (void)p; break; }
            default: { FftPlanR p(n | 1); (void)p(re_input((n | 1) + 2)); break; }   // plan applied to an input of another length
            }
        } catch (const std::exception&) { threw = 1; }
        return {0xBADull, threw};
    }
    }
    return {};
}

// reference results: the same call made first thing in a fresh thread
std::map<int, std::vector<uint64_t>>& table() {
    static std::map<int, std::vector<uint64_t>> t;
    return t;
}
const std::vector<uint64_t>& fresh_result(int kind, int n) {
    int ek = kind == K_USE_C ? K_PLAN_C : kind == K_USE_R ? K_PLAN_R : kind == K_USE_IC ? K_PLAN_IC : kind == K_USE_IR ? K_PLAN_IR : kind == K_USE_Z ? K_PLAN_Z : kind;
    int key = code(ek, n);
    auto it = table().find(key);
    if (it != table().end()) return it->second;
    std::vector<uint64_t> res;
    std::thread th([&]() { Stored s; res = perform(ek, n, s, 0); });
    th.join();
    return table()[key] = res;
}

bool is_small(int n) { return n == 1 || n == 2 || n == 4 || n == 8; }
bool is_prime(int n) { if (n < 2) return false; for (int d = 2; d * d <= n; ++d) if (n % d == 0) return false; return true; }
// lengths the planner may legitimately request while building a plan for n
std::set<int> derived(int n) {
    std::set<int> d;
    if (n < 1) return d;
    for (int k = 1; k <= n; ++k) if (n % k == 0) {
        d.insert(k);
        if (is_prime(k) && k > 41) { int p2 = 1; while (p2 < 2 * k - 1) p2 *= 2; d.insert(p2); }
    }
    return d;
}
std::string show(const std::vector<int>& v) { std::string s = "["; for (int x : v) s += fmt("%d ", x); return s + "]"; }

// LRU stack model.  req = length requested from this cache (0 = this cache is not the one addressed), allow = lengths that
// may be touched as sub-plans.  Returns an empty string when A is a legal successor of B.
std::string lru_step(const std::vector<int>& B, const std::vector<int>& A, int req, const std::set<int>& allow, int cap, bool subplans_possible) {
    if (int(A.size()) > cap) return fmt("cache holds %zu plans, capacity %d", A.size(), cap);
    { std::set<int> u(A.begin(), A.end()); if (u.size() != A.size()) return "duplicate key in the cache"; }
    std::vector<int> want;
    size_t pos = 0;
    if (req != 0) {
        if (A.empty() || A[0] != req) return fmt("requested length %d is not the most recently used entry", req);
        want.push_back(req);
        pos = 1;
        const bool hit = std::find(B.begin(), B.end(), req) != B.end();
        if (hit) subplans_possible = false;   // a hit builds nothing
    }
    std::set<int> S;
    if (subplans_possible) while (pos < A.size() && allow.count(A[pos]) && A[pos] != req) { S.insert(A[pos]); want.push_back(A[pos]); ++pos; }
    for (int b : B) if (b != req && !S.count(b)) want.push_back(b);
    if (int(want.size()) > cap) want.resize(size_t(cap));
    if (want != A) return "keys after the request are " + show(A) + ", LRU model (before " + show(B) + fmt(", request %d) gives ", req) + show(want);
    return "";
}

std::string lru_invariants(const std::vector<int>& A, int cap) {
    if (int(A.size()) > cap) return fmt("cache holds %zu plans, capacity %d", A.size(), cap);
    std::set<int> u(A.begin(), A.end());
    if (u.size() != A.size()) return "duplicate key in the cache";
    return "";
}

struct HistResult
{
    bool failed{false};
    std::string sig, msg;
    int evictions{0}, rerequests{0}, stored_after_evict{0}, refused{0};
};

HistResult run_history(const std::vector<int>& h) {
    HistResult R;
    std::thread th([&]() {
        const int cap = verif::fft_cache_capacity();
#ifdef DSPLIB_FFT_CACHE_SIZE
        // the configured number is the one this build was given on the command line (the harness is compiled with the same define)
        if (cap != DSPLIB_FFT_CACHE_SIZE) { R.failed = true; R.sig = "cache:capacity-not-the-configured-one"; R.msg = fmt("the library reports a plan-cache capacity of %d, the build was configured with DSPLIB_FFT_CACHE_SIZE=%d", cap, int(DSPLIB_FFT_CACHE_SIZE)); return; }
#endif
        Stored st;
        std::set<int> evicted_c, evicted_r;
        if (!verif::fft_cache_keys().empty() || !verif::rfft_cache_keys().empty()) { R.failed = true; R.sig = "cache:not-per-thread"; R.msg = "a fresh thread starts with a non-empty plan cache"; return; }
        for (size_t step = 0; step < h.size() && !R.failed; ++step) {
            const int kind = kind_of(h[step]), n = len_of(h[step]);
            const auto Bc = verif::fft_cache_keys(), Br = verif::rfft_cache_keys();
            int eff_n = n, eff_kind = kind;
            if (kind == K_USE_C) { if (st.c.empty()) continue; eff_n = st.c[size_t(n) % st.c.size()].first; }
            if (kind == K_USE_R) { if (st.r.empty()) continue; eff_n = st.r[size_t(n) % st.r.size()].first; }
            if (kind == K_USE_IC) { if (st.ic.empty()) continue; eff_n = st.ic[size_t(n) % st.ic.size()].first; }
            if (kind == K_USE_IR) { if (st.ir.empty()) continue; eff_n = st.ir[size_t(n) % st.ir.size()].first; }
            if (kind == K_USE_Z) { if (st.z.empty()) continue; eff_n = st.z[size_t(n) % st.z.size()].first; }
            const bool is_use = (kind == K_USE_C || kind == K_USE_R || kind == K_USE_IC || kind == K_USE_IR || kind == K_USE_Z);
            std::vector<uint64_t> got;
#ifdef C10_HAVE_MXCSR
            const unsigned csr_before = _mm_getcsr() & 0xFFC0u;   // control bits only (rounding mode, exception masks, FTZ, DAZ); the sticky status flags may change
#endif
            try { got = perform(kind, n, st, n); } catch (const std::exception& e) { R.failed = true; R.sig = "cache:exception"; R.msg = fmt("step %zu %s(%d) threw %s", step, kind_name(kind), n, e.what()); return; }
#ifdef C10_HAVE_MXCSR
            // a call must not leave the thread's floating-point control state changed: every later result (of any function) would depend on it
            if ((_mm_getcsr() & 0xFFC0u) != csr_before) { R.failed = true; R.sig = "history:fp-control-state-changed"; R.msg = fmt("step %zu %s(%d) left MXCSR control bits %04x (before: %04x): flush-to-zero / rounding mode now depend on the call history", step, kind_name(kind), n, _mm_getcsr() & 0xFFC0u, csr_before); return; }
#endif
            const auto Ac = verif::fft_cache_keys(), Ar = verif::rfft_cache_keys();
            // (1)/(3) result identical to the fresh-thread result
            const auto& ref = fresh_result(eff_kind, eff_n);
            if (got != ref) {
                R.failed = true;
                R.sig = is_use ? "cache:stored-plan-result" : "cache:result-depends-on-history";
                R.msg = fmt("step %zu %s(%d): result differs from the same call in a fresh thread (complex cache before %s, real cache before %s)", step, kind_name(kind), eff_n, show(Bc).c_str(), show(Br).c_str());
                return;
            }
            // (2) LRU model
            std::string e1, e2;
            if (kind == K_REFUSED) {
                R.refused++;
                if (n % 4 == 3) { e2 = lru_invariants(Ar, cap); e1 = lru_invariants(Ac, cap); }   // the plan itself was a valid request
                else if (Ac != Bc || Ar != Br) e1 = "a refused request changed the caches: complex " + show(Bc) + " -> " + show(Ac) + ", real " + show(Br) + " -> " + show(Ar);
            } else if (kind == K_CZT || kind == K_XCORR || kind == K_HILBERT || kind == K_PLAN_Z) {
                // several internal requests: only the invariants are asserted (capacity, no duplicates), plus the result above
                e1 = lru_invariants(Ac, cap);
                e2 = lru_invariants(Ar, cap);
            } else if (is_use) {
                if (Ac != Bc || Ar != Br) e1 = "using an existing plan object changed the cache: " + show(Bc) + " -> " + show(Ac);
                const int ckey = (kind == K_USE_IR) ? eff_n / 2 : eff_n;
                bool gone = (kind == K_USE_Z) ? (R.evictions > 0) : (kind == K_USE_R) ? (!is_small(eff_n) && std::find(Br.begin(), Br.end(), eff_n) == Br.end()) : (!is_small(ckey) && std::find(Bc.begin(), Bc.end(), ckey) == Bc.end());
                if (gone) R.stored_after_evict++;
            } else if (kind == K_FFT || kind == K_IFFT || kind == K_PLAN_C || kind == K_IRFFT || kind == K_PLAN_IC || kind == K_PLAN_IR || kind == K_FFT_PAD || kind == K_IRFFT_FULL) {
                const int cn = (kind == K_IRFFT || kind == K_PLAN_IR || kind == K_IRFFT_FULL) ? n / 2 : n;
                if (Ar != Br) e2 = "a complex-plan request changed the real cache: " + show(Br) + " -> " + show(Ar);
                if (is_small(cn)) { if (Ac != Bc) e1 = fmt("small length %d must not be cached: ", cn) + show(Bc) + " -> " + show(Ac); }
                else {
                    e1 = lru_step(Bc, Ac, cn, derived(cn), cap, true);
                    if (evicted_c.count(cn)) R.rerequests++;
                }
            } else {   // real-plan request
                if (is_small(n)) { if (Ar != Br || Ac != Bc) e1 = fmt("small length %d must not be cached", n); }
                else {
                    const bool hit = std::find(Br.begin(), Br.end(), n) != Br.end();
                    e2 = lru_step(Br, Ar, n, {}, cap, false);
                    std::set<int> allow = derived(n);
                    if (n % 2 == 0) { auto d2 = derived(n / 2); allow.insert(d2.begin(), d2.end()); }
                    e1 = lru_step(Bc, Ac, 0, allow, cap, !hit);
                    if (evicted_r.count(n)) R.rerequests++;
                }
            }
            if (!e1.empty() || !e2.empty()) {
                R.failed = true;
                R.sig = "cache:lru-model";
                R.msg = fmt("step %zu %s(%d), capacity %d: %s %s", step, kind_name(kind), n, cap, e1.c_str(), e2.c_str());
                return;
            }
            for (int b : Bc) if (std::find(Ac.begin(), Ac.end(), b) == Ac.end()) { evicted_c.insert(b); R.evictions++; }
            for (int b : Br) if (std::find(Ar.begin(), Ar.end(), b) == Ar.end()) { evicted_r.insert(b); R.evictions++; }
        }
    });
    th.join();
    return R;
}

void history_check(const Json& c, Out& o) {
    std::vector<int> h = c.ints("h");
    HistResult r = run_history(h);
    if (r.failed) o.fail(r.sig, r.msg + " history=" + show(h));
    o.evals = long(h.size());
    if (r.evictions > 0 && (r.rerequests > 0 || r.stored_after_evict > 0)) {
        uint64_t k = 0x10;
        for (int v : h) k = mix(k, uint64_t(v));
        o.nontrivial(k);
    }
    o.label(r.evictions == 0 ? "no-eviction" : r.rerequests > 0 ? "evict+rerequest" : r.stored_after_evict > 0 ? "evict+stored-plan-reuse" : "evict-only");
    o.label(fmt("capacity:%d", verif::fft_cache_capacity()));
}

const int ALPHA_C[6] = {16, 12, 15, 47, 128, 94};
const int ALPHA_R[6] = {32, 24, 30, 94, 45, 47};

}   // namespace

// ------------------------------------------------------------------------------------------- caches are per thread
// (Registered FIRST: its cases run in forked children of a parent process that has not yet touched the library.)
// Several threads, run one after the other inside ONE case: each must see empty caches at its start and follow the
// LRU model from there, whatever the earlier threads requested ("each thread retains at most ... its most recently used").
VK_SUB(pth, "per_thread_caches");
static void pth_check(const Json& c, Out& o) {
    // in a forked child: the first thread of the case then starts from a pristine PROCESS, so a cache that is (wrongly)
    // shared between threads shows up at the second thread of the same case and the case replays on its own
    run_forked(o, 120.0, [&](Out& co) {
        int t = 0, ev = 0;
        uint64_t k = 0x7C;
        for (auto& hj : c.at("threads").a) {
            std::vector<int> h;
            for (auto& e : hj.a) h.push_back(int(e.integer()));
            HistResult r = run_history(h);
            ev += int(h.size());
            for (int v : h) k = mix(k, uint64_t(v));
            if (r.failed) { co.fail(t == 0 ? r.sig : "cache:thread-sees-other-threads-state:" + r.sig, fmt("thread %d of the case: ", t) + r.msg + " history=" + show(h)); break; }
            ++t;
        }
        co.evals = ev;
        if (t >= 2) co.nontrivial(k);
        co.label(fmt("threads:%d", int(c.at("threads").size())));
        co.label(fmt("capacity:%d", verif::fft_cache_capacity()));
    });
}
static void pth_gen(Ctx& ctx) {
    ctx.rc("random", ctx.by_tier(16000, 160000), [&]() {
        Json threads = Json::array();
        int nt = pick(2, 4);
        for (int t = 0; t < nt; ++t) {
            std::vector<int> h;
            int len = pick(1, 6);
            for (int i = 0; i < len; ++i) {
                bool real = flip();
                int kind = real ? one_of<int>({K_RFFT, K_PLAN_R, K_FFT_REAL}) : one_of<int>({K_FFT, K_IFFT, K_PLAN_C});
                h.push_back(code(kind, real ? ALPHA_R[pick(0, 5)] : ALPHA_C[pick(0, 5)]));
            }
            threads.push(Json(h));
        }
        return Json::object().set("threads", threads);
    });
}

// ------------------------------------------------------------------------------------------- exhaustive short histories
VK_SUB(exc, "histories_complex_cache");
static void exc_check(const Json& c, Out& o) { history_check(c, o); }
static void gen_exhaustive(Ctx& ctx, const int* alpha, const int* kinds, int nk) {
    const int maxlen = ctx.by_tier(6, 8);
    for (int L = 1; L <= maxlen; ++L) {
        int64_t total = 1;
        for (int i = 0; i < L; ++i) total *= 6;
        for (int64_t idx = 0; idx < total; ++idx) {
            if (!ctx.mine()) continue;
            std::vector<int> h;
            int64_t v = idx;
            for (int i = 0; i < L; ++i) { int a = int(v % 6); v /= 6; h.push_back(code(kinds[(idx + i) % nk], alpha[a])); }
            ctx.eval(Json::object().set("h", h));
        }
    }
    if (ctx.quick()) {   // 1.5e5 random length-8 histories
        Rng r(mix(ctx.seed, 0x10C));
        for (int k = 0; k < 150000; ++k) {
            std::vector<int> h;
            for (int i = 0; i < 8; ++i) h.push_back(code(kinds[r.range(0, nk - 1)], alpha[r.range(0, 5)]));
            if (!ctx.mine()) continue;
            ctx.eval(Json::object().set("h", h));
        }
    }
}
static void exc_gen(Ctx& ctx) {
    const int kinds[] = {K_FFT, K_IFFT, K_PLAN_C};
    gen_exhaustive(ctx, ALPHA_C, kinds, 3);
}

VK_SUB(exr, "histories_real_cache");
static void exr_check(const Json& c, Out& o) { history_check(c, o); }
static void exr_gen(Ctx& ctx) {
    const int kinds[] = {K_RFFT, K_PLAN_R, K_FFT_REAL};
    gen_exhaustive(ctx, ALPHA_R, kinds, 3);
}

// ------------------------------------------------------------------------------------------- long random histories
VK_SUB(lng, "long_histories");
static void lng_check(const Json& c, Out& o) {
    // expanded from a seed: 40 lengths, all request kinds, long-lived plans created and re-used
    Rng r(c.getu("seed"));
    const int len = c.geti("len");
    static const int pool[40] = {3, 5, 6, 7, 9, 10, 12, 15, 16, 18, 20, 21, 24, 25, 27, 30, 32, 36, 43, 45, 47, 49, 60, 64, 81, 86, 94, 97, 100, 105, 120, 125, 128, 129, 141, 243, 256, 8, 4, 2};
    std::vector<int> h;
    const int npool = c.geti("npool");
    for (int i = 0; i < len; ++i) {
        int kind = r.range(0, int(c.geti("v", 1) >= 3 ? K_NKINDS3 : c.geti("v", 1) >= 2 ? K_NKINDS2 : K_NKINDS) - 1);
        int n = pool[r.range(0, npool - 1)];
        if (kind == K_USE_C || kind == K_USE_R || kind == K_USE_IC || kind == K_USE_IR || kind == K_USE_Z) n = r.range(0, 63);
        if (kind == K_IRFFT || kind == K_PLAN_IR || kind == K_IRFFT_FULL) n = 2 * n;
        if (kind == K_HILBERT) n = std::max(n, 3);
        if (c.geti("v", 1) >= 4 && r.range(0, 95) == 0) {   // now and then a large power-of-two plan (the sizes with their own code paths)
            static const int big[4] = {16384, 32768, 65536, 49152};   // (the case code packs lengths below 100000)
            static const int bk[4] = {K_FFT, K_IFFT, K_RFFT, K_FFT_REAL};
            kind = bk[r.range(0, 3)];
            n = big[r.range(0, 3)];
        }
        h.push_back(code(kind, n));
    }
    HistResult res = run_history(h);
    if (res.failed) {
        // shrink the expanded history by truncation: the failing step is named in the message; report the prefix length
        o.fail(res.sig, res.msg + fmt(" (history of %d requests expanded from seed)", len));
    }
    o.evals = len;
    if (res.evictions > 0 && (res.rerequests > 0 || res.stored_after_evict > 0)) o.nontrivial(key_of(c.getu("seed"), len, npool));
    o.label(res.stored_after_evict > 0 ? "stored-plan-used-after-eviction" : "no-stored-plan-after-eviction");
    if (res.refused > 0) o.label("refused-requests-in-history");
    o.label(fmt("capacity:%d", verif::fft_cache_capacity()));
}
static void lng_gen(Ctx& ctx) {
    ctx.rc("random", ctx.by_tier(3000, 30000), [&]() {
        return Json::object().set("v", 4).set("len", pick_log(1, ctx.by_tier(600, 10000))).set("npool", pick(2, 40)).set("seed", (long long)seed64());
    });
}


// ------------------------------------------------------------------------------------------- plans outlive their creating thread
// "A plan object obtained earlier remains valid": also when the thread that constructed it (and with it that thread's plan cache and
// every other thread_local of the library) is gone.  Thread A builds plan objects of every kind and ends; the case's own thread
// churns the allocator with other transforms, then uses the plans, and so does a third thread.  Results must be bit-identical to the
// same call made first thing in a fresh thread.  (In the ASan configuration a plan that kept a pointer into A's thread_local state
// is a heap-use-after-free.)
VK_SUB(out, "plan_outlives_thread");
static void out_check(const Json& c, Out& o) {
    std::vector<int> lens = c.ints("lens");
    const int churn = c.geti("churn");
    Stored st;
    std::thread A([&]() {
        for (int n : lens) {
            Stored tmp;
            (void)perform(K_PLAN_C, n, st, 0);
            (void)perform(K_PLAN_R, n, st, 0);
            (void)perform(K_PLAN_IC, n, st, 0);
            (void)perform(K_PLAN_IR, n + (n & 1), st, 0);
            (void)perform(K_PLAN_Z, n, st, 0);
        }
    });
    A.join();
    for (int k = 0; k < churn; ++k) { Stored tmp; (void)perform(k % 2 ? K_FFT : K_RFFT, 3 + ((k * 37) % 200), tmp, 0); (void)perform(K_XCORR, 5 + k, tmp, 0); }
    std::string err;
    auto use_all = [&](const char* who) {
        const int kinds[5] = {K_USE_C, K_USE_R, K_USE_IC, K_USE_IR, K_USE_Z};
        for (int kd : kinds) {
            const size_t cnt = kd == K_USE_C ? st.c.size() : kd == K_USE_R ? st.r.size() : kd == K_USE_IC ? st.ic.size() : kd == K_USE_IR ? st.ir.size() : st.z.size();
            for (size_t i = 0; i < cnt && err.empty(); ++i) {
                const int n = kd == K_USE_C ? st.c[i].first : kd == K_USE_R ? st.r[i].first : kd == K_USE_IC ? st.ic[i].first : kd == K_USE_IR ? st.ir[i].first : st.z[i].first;
                std::vector<uint64_t> got;
                try { got = perform(kd, n, st, int(i)); } catch (const std::exception& e) { err = fmt("%s: %s(%d) threw %s", who, kind_name(kd), n, e.what()); break; }
                if (got != fresh_result(kd, n)) err = fmt("%s: %s(%d), plan built by a thread that has ended: result differs from the same call in a fresh thread", who, kind_name(kd), n);
            }
        }
    };
    use_all("the case's thread");
    if (err.empty()) { std::thread B([&]() { use_all("another thread"); }); B.join(); }
    if (!err.empty()) o.fail("plan:outlives-creator", err + " lens=" + show(lens));
    o.evals = long(lens.size()) * 10;
    uint64_t k = 0x0A7;
    for (int n : lens) k = mix(k, uint64_t(n));
    o.nontrivial(mix(k, uint64_t(churn)));
    o.label(churn ? "allocator-churn:yes" : "allocator-churn:no");
    o.label(fmt("capacity:%d", verif::fft_cache_capacity()));
}
static void out_gen(Ctx& ctx) {
    ctx.rc("random", ctx.by_tier(8000, 80000), [&]() {
        std::vector<int> lens;
        for (int i = pick(1, 5); i > 0; --i) {
            switch (pick(0, 5)) {
            case 0: lens.push_back(pick(1, 41)); break;
            case 1: lens.push_back(one_of<int>({5, 7, 11, 13, 17, 31, 37, 41, 43, 47, 97, 127})); break;
            case 2: lens.push_back(1 << pick(1, 9)); break;
            case 3: lens.push_back(one_of<int>({12, 15, 35, 60, 105, 120, 124, 243, 360})); break;
            case 4: lens.push_back(2 * one_of<int>({43, 47, 53, 97})); break;
            default: lens.push_back(pick(2, 300));
            }
        }
        return Json::object().set("lens", lens).set("churn", pick(0, 2) == 0 ? 0 : pick(1, 12));
    });
}

// ------------------------------------------------------------------------------------------- pristine-process oracle
// The fresh-thread reference above shares the PROCESS with the history, so state that is (wrongly) process-wide - a
// function-local static initialised by the first length that reaches it, a table keyed too coarsely - contaminates both sides
// alike.  Here the reference is the same single call made as the first library call of a NEW process (this binary re-executed
// with --pristine), and the history itself also runs in a new process, so a case is a pure function of its request list.
namespace {
uint64_t hash_bits(const std::vector<uint64_t>& b) { uint64_t h = 0xF5; for (auto u : b) h = mix(h, u); return mix(h, uint64_t(b.size())); }

// child side: run the requests given on the command line, print "<hash> <effective kind> <effective n>" per step
int pristine_main(int argc, char** argv) {
    Stored st;
    for (int i = 2; i < argc; ++i) {
        const int c = atoi(argv[i]);
        const int kind = kind_of(c), n = len_of(c);
        int eff_kind = kind, eff_n = n;
        if (kind == K_USE_C) { if (st.c.empty()) { printf("SKIP 0 0\n"); continue; } eff_kind = K_PLAN_C; eff_n = st.c[size_t(n) % st.c.size()].first; }
        if (kind == K_USE_R) { if (st.r.empty()) { printf("SKIP 0 0\n"); continue; } eff_kind = K_PLAN_R; eff_n = st.r[size_t(n) % st.r.size()].first; }
        if (kind == K_USE_IC) { if (st.ic.empty()) { printf("SKIP 0 0\n"); continue; } eff_kind = K_PLAN_IC; eff_n = st.ic[size_t(n) % st.ic.size()].first; }
        if (kind == K_USE_IR) { if (st.ir.empty()) { printf("SKIP 0 0\n"); continue; } eff_kind = K_PLAN_IR; eff_n = st.ir[size_t(n) % st.ir.size()].first; }
        if (kind == K_USE_Z) { if (st.z.empty()) { printf("SKIP 0 0\n"); continue; } eff_kind = K_PLAN_Z; eff_n = st.z[size_t(n) % st.z.size()].first; }
        try {
            auto b = perform(kind, n, st, n);
            printf("%016llx %d %d\n", (unsigned long long)hash_bits(b), eff_kind, eff_n);
        } catch (const std::exception& e) { printf("EXC %d %d %s\n", eff_kind, eff_n, e.what()); }
    }
    fflush(stdout);
    return 0;
}

struct PStep { std::string hash; int kind{0}, n{0}; };
// parent side: never touches the library
bool run_pristine(const std::vector<int>& codes, std::vector<PStep>& out, std::string& err) {
    char self[4096];
    ssize_t k = readlink("/proc/self/exe", self, sizeof(self) - 1);
    if (k <= 0) { err = "readlink(/proc/self/exe) failed"; return false; }
    self[k] = 0;
    std::string cmd = std::string("'") + self + "' --pristine";
    for (int c : codes) cmd += fmt(" %d", c);
    cmd += " 2>&1";
    FILE* f = popen(cmd.c_str(), "r");
    if (!f) { err = "popen failed"; return false; }
    char line[1024];
    std::string all;
    while (fgets(line, sizeof(line), f)) {
        all += line;
        char h[64]; int kd = 0, n = 0;
        if (sscanf(line, "%63s %d %d", h, &kd, &n) == 3) { PStep s; s.hash = h; s.kind = kd; s.n = n; out.push_back(s); }
    }
    int rc = pclose(f);
    if (rc != 0 || out.size() != codes.size()) { err = fmt("pristine child: status %d, %zu of %zu steps; output: ", rc, out.size(), codes.size()) + all.substr(0, 600); return false; }
    return true;
}
}   // namespace

VK_SUB(fpr, "fresh_process");
static void fpr_check(const Json& c, Out& o) {
    std::vector<int> h = c.ints("h");
    o.evals = long(h.size());
    std::vector<PStep> got;
    std::string err;
    if (!run_pristine(h, got, err)) { o.fail("process:history-run-died", err + " history=" + show(h)); return; }
    static std::map<int, std::string> single;   // (effective kind, n) -> hash of the call made first thing in a new process
    std::set<int> distinct;
    for (size_t i = 0; i < h.size(); ++i) {
        if (got[i].hash == "SKIP") continue;
        const int key = code(got[i].kind, got[i].n);
        distinct.insert(key);
        auto it = single.find(key);
        if (it == single.end()) {
            std::vector<PStep> one;
            if (!run_pristine({key}, one, err)) { o.fail("process:single-call-died", err + fmt(" call=%s(%d)", kind_name(got[i].kind), got[i].n)); return; }
            it = single.emplace(key, one[0].hash).first;
        }
        if (got[i].hash != it->second) {
            const bool use = kind_of(h[i]) == K_USE_C || kind_of(h[i]) == K_USE_R || kind_of(h[i]) == K_USE_IC || kind_of(h[i]) == K_USE_IR || kind_of(h[i]) == K_USE_Z;
            o.fail(use ? "process:stored-plan-result" : "process:result-depends-on-history",
                   fmt("step %zu %s(%d): result (%s) differs from the same call made as the first call of a new process (%s)", i, kind_name(kind_of(h[i])), got[i].n, got[i].hash.c_str(), it->second.c_str()) + " history=" + show(h));
            return;
        }
    }
    if (distinct.size() >= 2) { uint64_t k = 0xF9; for (int v : h) k = mix(k, uint64_t(v)); o.nontrivial(k); }
    o.label(fmt("history-length:%zu", h.size()));
    o.label(fmt("capacity:%d", verif::fft_cache_capacity()));
}
static void fpr_gen(Ctx& ctx) {
#if defined(__has_feature)
#if __has_feature(address_sanitizer)
    const int total = ctx.by_tier(800, 4000);
#else
    const int total = ctx.by_tier(16000, 120000);
#endif
#else
    const int total = ctx.by_tier(16000, 120000);
#endif
    ctx.rc("histories", total, [&]() {
        std::vector<int> h;
        const int len = pick(2, 6);
        // a case usually stays inside one length family, so that related lengths (same residue class, same sub-plans) meet
        const int family = pick(0, 5);
        for (int i = 0; i < len; ++i) {
            int kind = pick(0, int(K_NKINDS3) - 1);
            int n;
            switch (pick(0, 3) == 0 ? pick(0, 5) : family) {
            case 0: n = pick(1, 40); break;
            case 1: n = 2 * (2 * pick(1, 120) + 1); break;                                           // 4k+2
            case 2: n = one_of<int>({3, 5, 7, 11, 13, 17, 23, 31, 41, 43, 47, 53, 97, 101, 127, 257, 509}); break;   // primes on both sides of the CZT switch
            case 3: n = 1 << pick(1, 11); break;
            case 4: n = one_of<int>({12, 15, 18, 20, 21, 24, 36, 45, 60, 63, 100, 105, 120, 243, 360, 625, 1000}); break;
            default: n = 2 * one_of<int>({43, 47, 53, 97, 101, 127}) * pick(1, 3); break;          // composites with a CZT leaf
            }
            if (kind == K_USE_C || kind == K_USE_R || kind == K_USE_IC || kind == K_USE_IR || kind == K_USE_Z) n = pick(0, 63);
            else if (kind == K_IRFFT || kind == K_PLAN_IR || kind == K_IRFFT_FULL) n += (n & 1);
            if (kind == K_HILBERT) n = std::max(n, 3);
            h.push_back(code(kind, n));
        }
        return Json::object().set("h", h);
    });
}

int main(int argc, char** argv) {
    if (argc >= 2 && std::string(argv[1]) == "--pristine") return pristine_main(argc, argv);
    return vk::harness_main("C10", argc, argv);
}
