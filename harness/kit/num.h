// Numeric oracle kit: extended-precision references that share no code with dsplib.
#pragma once
#include "vk.h"
#include <complex>
#include <dsplib/array.h>

namespace vk {

using ld = long double;
using cld = std::complex<long double>;
constexpr double EPS = 2.220446049250313e-16;   // 2^-52, the library's eps()
constexpr ld PI_L = 3.14159265358979323846264338327950288L;

inline cld to_cld(const dsplib::cmplx_t& v) { return cld(v.re, v.im); }
inline std::vector<cld> to_cld(const dsplib::arr_cmplx& x) {
    std::vector<cld> r(size_t(x.size()));
    for (int i = 0; i < x.size(); ++i) r[size_t(i)] = cld(x[i].re, x[i].im);
    return r;
}
inline std::vector<cld> to_cld(const dsplib::arr_real& x) {
    std::vector<cld> r(size_t(x.size()));
    for (int i = 0; i < x.size(); ++i) r[size_t(i)] = cld(x[i], 0);
    return r;
}
inline std::vector<ld> to_ld(const dsplib::arr_real& x) {
    std::vector<ld> r(size_t(x.size()));
    for (int i = 0; i < x.size(); ++i) r[size_t(i)] = x[i];
    return r;
}
inline dsplib::arr_real to_arr(const std::vector<double>& v) { return dsplib::arr_real(v); }
inline dsplib::arr_cmplx to_arr(const std::vector<std::complex<double>>& v) {
    dsplib::arr_cmplx r(int(v.size()));
    for (size_t i = 0; i < v.size(); ++i) r[int(i)] = dsplib::cmplx_t(v[i].real(), v[i].imag());
    return r;
}

inline ld l2(const std::vector<cld>& a) {
    // scaled accumulation: inputs may span 1e+-150
    ld m = 0;
    for (auto& v : a) m = std::max(m, std::max(std::fabs(v.real()), std::fabs(v.imag())));
    if (m == 0) return 0;
    ld s = 0;
    for (auto& v : a) { ld r = v.real() / m, i = v.imag() / m; s += r * r + i * i; }
    return m * std::sqrt(s);
}
inline ld l2diff(const std::vector<cld>& a, const std::vector<cld>& b) {
    std::vector<cld> d(a.size());
    for (size_t i = 0; i < a.size(); ++i) d[i] = a[i] - b[i];
    return l2(d);
}
inline bool all_finite(const dsplib::arr_cmplx& x) {
    for (int i = 0; i < x.size(); ++i) if (!std::isfinite(x[i].re) || !std::isfinite(x[i].im)) return false;
    return true;
}
inline bool all_finite(const dsplib::arr_real& x) {
    for (int i = 0; i < x.size(); ++i) if (!std::isfinite(x[i])) return false;
    return true;
}

// exp(-+2*pi*i*k/n) for k = 0..n-1 in long double, index reduced exactly
inline const std::vector<cld>& twiddles(int n) {
    static thread_local int cached_n = -1;
    static thread_local std::vector<cld> tw;
    if (cached_n != n) {
        tw.resize(static_cast<size_t>(n));
        for (int k = 0; k < n; ++k) {
            // reduce to the first octant-ish for accuracy: use symmetry about n/2
            ld a = 2 * PI_L * ld(k) / ld(n);
            tw[size_t(k)] = cld(cosl(a), -sinl(a));
        }
        cached_n = n;
    }
    return tw;
}

// X[k] = sum_m x[m] exp(-2 pi i m k / n), O(n^2)
inline std::vector<cld> ld_dft(const std::vector<cld>& x, bool inverse = false) {
    const int n = int(x.size());
    std::vector<cld> X(static_cast<size_t>(n));
    const auto& tw = twiddles(n);
    for (int k = 0; k < n; ++k) {
        cld acc = 0;
        uint64_t idx = 0;
        for (int m = 0; m < n; ++m) {
            const cld w = inverse ? std::conj(tw[size_t(idx)]) : tw[size_t(idx)];
            acc += x[size_t(m)] * w;
            idx += uint64_t(k);
            if (idx >= uint64_t(n)) idx -= uint64_t(n);
        }
        X[size_t(k)] = inverse ? acc / ld(n) : acc;
    }
    return X;
}
// single bin of the DFT (for sampled-bin checks on long inputs)
inline cld ld_dft_bin(const std::vector<cld>& x, int k) {
    const int n = int(x.size());
    cld acc = 0;
    for (int m = 0; m < n; ++m) {
        uint64_t r = (uint64_t(m) * uint64_t(k)) % uint64_t(n);
        ld a = 2 * PI_L * ld(r) / ld(n);
        acc += x[size_t(m)] * cld(cosl(a), -sinl(a));
    }
    return acc;
}

// ------------------------------------------------------------------ input classes (ordered: shrinking moves to simpler)
enum SigClass { S_IMPULSE0 = 0, S_CONST, S_IMPULSE1, S_IMPULSE_LAST, S_ALT, S_TONE, S_IMPULSE_RAND, S_GAUSS, S_DYNRANGE, S_NCLASSES };
inline const char* sig_name(int c) {
    static const char* n[] = {"impulse0", "const", "impulse1", "impulse_last", "alternating", "tone", "impulse_rand", "gauss", "dynrange"};
    return (c >= 0 && c < S_NCLASSES) ? n[c] : "?";
}
// complex test vector of class cls, length n, content from r; dyn_e = exponent range of the dynrange class
inline std::vector<std::complex<double>> gen_cmplx(Rng& r, int n, int cls, double dyn_e = 150) {
    std::vector<std::complex<double>> x(static_cast<size_t>(n));
    auto amp = [&]() { return std::complex<double>(r.gauss(), r.gauss()); };
    switch (cls) {
    case S_IMPULSE0: x[0] = amp(); break;
    case S_IMPULSE1: x[size_t(n > 1 ? 1 : 0)] = amp(); break;
    case S_IMPULSE_LAST: x[size_t(n - 1)] = amp(); break;
    case S_IMPULSE_RAND: x[size_t(r.range(0, n - 1))] = amp(); break;
    case S_CONST: { auto a = amp(); for (auto& v : x) v = a; break; }
    case S_ALT: { auto a = amp(); for (int i = 0; i < n; ++i) x[size_t(i)] = (i & 1) ? -a : a; break; }
    case S_TONE: {
        int k = r.range(0, n - 1);
        auto a = amp();
        for (int i = 0; i < n; ++i) {
            uint64_t q = (uint64_t(i) * uint64_t(k)) % uint64_t(n);
            double ph = 2 * M_PI * double(q) / double(n);
            x[size_t(i)] = a * std::complex<double>(std::cos(ph), std::sin(ph));
        }
        break;
    }
    case S_DYNRANGE: for (auto& v : x) v = amp() * r.logmag(-dyn_e, dyn_e); break;
    default: for (auto& v : x) v = amp();
    }
    return x;
}
inline std::vector<double> gen_real(Rng& r, int n, int cls, double dyn_e = 150) {
    std::vector<double> x(static_cast<size_t>(n));
    switch (cls) {
    case S_IMPULSE0: x[0] = r.gauss(); break;
    case S_IMPULSE1: x[size_t(n > 1 ? 1 : 0)] = r.gauss(); break;
    case S_IMPULSE_LAST: x[size_t(n - 1)] = r.gauss(); break;
    case S_IMPULSE_RAND: x[size_t(r.range(0, n - 1))] = r.gauss(); break;
    case S_CONST: { double a = r.gauss(); for (auto& v : x) v = a; break; }
    case S_ALT: { double a = r.gauss(); for (int i = 0; i < n; ++i) x[size_t(i)] = (i & 1) ? -a : a; break; }
    case S_TONE: {
        int k = r.range(0, n / 2);
        double a = r.gauss(), p0 = r.uni(0, 2 * M_PI);
        for (int i = 0; i < n; ++i) {
            uint64_t q = (uint64_t(i) * uint64_t(k)) % uint64_t(n);
            x[size_t(i)] = a * std::cos(2 * M_PI * double(q) / double(n) + p0);
        }
        break;
    }
    case S_DYNRANGE: for (auto& v : x) v = r.gauss() * r.logmag(-dyn_e, dyn_e); break;
    default: for (auto& v : x) v = r.gauss();
    }
    return x;
}

}   // namespace vk
