// C08  Multirate converters equal the zero-stuff / filter / keep-every-M-th definition.
//
// Oracle (long double, shares no code with the library):
//   u = input with L-1 zeros inserted (u[k*L] = x[k]),  g = h * L / sum(h),  v[n] = sum_t g[t] u[n-t],
//   converter output y[i] = v[i*M + phi] for ONE phase phi in [0, M) ("which of the M residues is kept") that is the same
//   for every input, frame and call of that (class, L, M, len h).  phi is never hard-coded: it is determined from a dense
//   Gaussian probe stream (every sample is an impulse of its own amplitude) and then asserted on the other inputs, on a
//   fresh object each, and -- for custom h -- on a second coefficient vector of the same length.
//   FIRDecimator applies h in correlation form; the property's premise is a linear-phase h, for which correlation and
//   convolution are the same filter, so the oracle for decimator objects is the chain built on rev(h): bit-identical to h
//   for the exactly symmetric custom vectors, and for the library's default design (a symmetric design of N+1 taps whose
//   ~1e-20 last tap is dropped) the same linear-phase filter up to that negligible tap.
//   Tolerance per output sample: 8 * len_padded(h) * eps * kappa * sum_t |g[t] u[n-t]|, kappa = sum|h| / |sum h|
//   (forward bound: normalisation by a rounded sum, one rounding per coefficient, one per accumulated term).
//
// resample(): size p'*ceil(len/q'); p == q bit-identical; never throws for valid ratios; alignment: three band-limited tones
// with closed-form values at any real time, tau = argmin of the interior least-squares residual, |tau| <= 1.05 output samples.
#include "kit/num.h"
#include <dsplib.h>

#include <numeric>

using namespace vk;
using namespace dsplib;

namespace {

// ------------------------------------------------------------------------------------------------ ratios
struct Ratio { int L, M; };
const std::vector<Ratio>& all_ratios() {
    static std::vector<Ratio> v = [] {
        std::vector<Ratio> r;
        for (int L = 1; L <= 16; ++L)
            for (int M = 1; M <= 16; ++M)
                if (std::gcd(L, M) == 1) r.push_back({L, M});
        for (Ratio a : {Ratio{160, 441}, Ratio{441, 160}, Ratio{147, 160}, Ratio{160, 147}, Ratio{320, 147}}) r.push_back(a);
        return r;
    }();
    return v;
}
const int kMult[] = {1, 2, 3, 7, 10, 100, 300};   // non-reduced rates: (L*k, M*k); 160/147*300 = 48000/44100

enum Cls { C_INTERP = 0, C_DECIM, C_RATE, C_RESAMPLER, C_NCLS };
const char* cls_name(int c) {
    static const char* n[] = {"FIRInterpolator", "FIRDecimator", "FIRRateConverter", "FIRResampler"};
    return n[c];
}
enum Mode { M_BYPASS, M_INTERP, M_DECIM, M_RATE };
Mode mode_of(int cls, int L, int M) {
    if (cls == C_INTERP) return M_INTERP;
    if (cls == C_DECIM) return M_DECIM;
    if (cls == C_RATE) return M_RATE;
    if (L == M) return M_BYPASS;
    if (L == 1) return M_DECIM;
    if (M == 1) return M_INTERP;
    return M_RATE;
}
const char* mode_name(Mode m) {
    static const char* n[] = {"bypass", "interp", "decim", "rate"};
    return n[m];
}

// ------------------------------------------------------------------------------------------------ inputs
enum In { I_GAUSS = 0, I_IMPULSE, I_TRAIN, I_CHIRP, I_CONST, I_DYN, I_NIN };
const char* in_name(int c) {
    static const char* n[] = {"gauss", "impulse", "impulse-train", "swept-tone", "const", "dynrange"};
    return n[c];
}
// band = pass-band edge in cycles/sample of the input rate
std::vector<double> make_input(Rng& r, int n, int cls, double band) {
    std::vector<double> x(size_t(n), 0.0);
    if (n == 0) return x;
    switch (cls) {
    case I_IMPULSE: x[size_t(r.range(0, std::max(0, n / 2)))] = r.uni(0.5, 2.0) * (r.coin() ? 1 : -1); break;
    case I_TRAIN: {
        int k = std::max(1, n / 7);
        for (int j = 0; j < k; ++j) x[size_t(r.range(0, n - 1))] = r.gauss();
        break;
    }
    case I_CHIRP: {   // instantaneous frequency sweeps 0 .. band over the stream
        double a = r.uni(0.5, 2.0), p0 = r.uni(0, 2 * M_PI);
        for (int i = 0; i < n; ++i) x[size_t(i)] = a * std::cos(p0 + M_PI * band * double(i) * double(i) / double(n));
        break;
    }
    case I_CONST: { double a = r.gauss() + 2.0; for (auto& v : x) v = a; break; }
    case I_DYN: for (auto& v : x) v = r.gauss() * r.logmag(-6, 6); break;
    default: for (auto& v : x) v = r.gauss();
    }
    return x;
}

// exactly symmetric coefficient vector with a well-conditioned sum (kappa = sum|h| / |sum h| <= 8)
enum HShape { HS_GAUSS_POS = 0, HS_LOWPASS, HS_POSITIVE, HS_NEGSUM, HS_NSHAPE };
arr_real make_sym_h(Rng& r, int len, int shape, int maxLM) {
    std::vector<double> h(static_cast<size_t>(len));
    for (int attempt = 0;; ++attempt) {
        const int half = (len + 1) / 2;
        const double c = 0.5 * (len - 1);
        for (int i = 0; i < half; ++i) {
            double v;
            switch (shape) {
            case HS_LOWPASS: {
                double t = (double(i) - c) / double(maxLM);
                double s = (t == 0) ? 1.0 : std::sin(M_PI * t) / (M_PI * t);
                double w = 0.5 + 0.5 * std::cos(M_PI * (double(i) - c) / (c + 1.0));
                v = s * w * (1.0 + 0.05 * r.gauss());
                break;
            }
            case HS_POSITIVE: v = r.uni(0.1, 1.0); break;
            case HS_NEGSUM: v = -(r.gauss() + 0.7 + 0.3 * attempt); break;
            default: v = r.gauss() + 0.7 + 0.3 * attempt;
            }
            h[size_t(i)] = v;
            h[size_t(len - 1 - i)] = v;
        }
        ld s = 0, a = 0;
        for (double v : h) { s += v; a += std::fabs(v); }
        if (std::fabs(s) * 8 >= a && a > 0) break;
        if (attempt > 20) { for (auto& v : h) v = 1.0; break; }
    }
    return arr_real(h);
}

// ------------------------------------------------------------------------------------------------ the chain oracle
struct Chain
{
    int L{1}, M{1}, nh{0}, nhp{0};
    std::vector<ld> g;   // h * L / sum(h) in long double (orientation as applied: reversed for decimator objects)
    ld kappa{1};
    Chain(const arr_real& h, int L_, int M_, bool reversed, int pc) : L(L_), M(M_) {
        nh = h.size();
        nhp = (nh % pc == 0) ? nh : (nh / pc + 1) * pc;
        ld s = 0, a = 0;
        for (int i = 0; i < nh; ++i) { s += ld(h[i]); a += std::fabs(ld(h[i])); }
        kappa = a / std::fabs(s);
        g.resize(size_t(nh));
        for (int i = 0; i < nh; ++i) g[size_t(i)] = ld(h[reversed ? nh - 1 - i : i]) * ld(L) / s;
    }
    // v[m] and sum of |terms| for the stream x (zero before its start; nothing after its end is ever needed causally,
    // samples beyond the end count as zero)
    void at(const std::vector<double>& x, int64_t m, ld& v, ld& s) const {
        v = 0; s = 0;
        if (m < 0) return;
        const int64_t nx = int64_t(x.size());
        for (int64_t t = m % L; t < nh; t += L) {
            const int64_t k = (m - t) / L;
            if (k < 0) break;
            if (k >= nx) continue;
            const ld p = g[size_t(t)] * ld(x[size_t(k)]);
            v += p;
            s += std::fabs(p);
        }
    }
    ld tol(ld s) const { return 8 * ld(nhp) * EPS * kappa * s; }
};

struct MatchInfo { double worst{0}; int bad_i{-1}; double got{0}; ld ref{0}, tol{0}; };
// does y[i] == v[i*M+phi] for every i?  (early exit on the first mismatch)
bool match_phase(const Chain& ch, const std::vector<double>& x, const std::vector<double>& y, int phi, MatchInfo& mi) {
    mi = MatchInfo{};
    for (size_t i = 0; i < y.size(); ++i) {
        ld v, s;
        ch.at(x, int64_t(i) * ch.M + phi, v, s);
        const ld t = ch.tol(s);
        const ld e = std::fabs(ld(y[i]) - v);
        const bool fin = std::isfinite(y[i]);
        double ratio = (!fin) ? 1e300 : (t > 0 ? double(e / t) : (e == 0 ? 0.0 : 1e300));
        if (ratio > mi.worst) mi.worst = ratio;
        if (!(ratio <= 1)) { mi.bad_i = int(i); mi.got = y[i]; mi.ref = v; mi.tol = t; return false; }
    }
    return true;
}

// ------------------------------------------------------------------------------------------------ object under test
struct Spec
{
    int cls, L, M, k, hk, hlen, hshape, in;
    uint64_t seed;
};
std::unique_ptr<IResampler> build(const Spec& s, const arr_real* h) {
    switch (s.cls) {
    case C_INTERP: return h ? std::make_unique<FIRInterpolator>(s.L, *h) : std::make_unique<FIRInterpolator>(s.L);
    case C_DECIM: return h ? std::make_unique<FIRDecimator>(s.M, *h) : std::make_unique<FIRDecimator>(s.M);
    case C_RATE: return h ? std::make_unique<FIRRateConverter>(s.L, s.M, *h) : std::make_unique<FIRRateConverter>(s.L, s.M);
    default: return h ? std::make_unique<FIRResampler>(s.L * s.k, s.M * s.k, *h) : std::make_unique<FIRResampler>(s.L * s.k, s.M * s.k);
    }
}

// One stream through one fresh object: valid frames (multiples of M, possibly empty) interleaved with invalid ones that
// must throw and leave the stream position untouched.  Returns the concatenated valid input and the concatenated output.
struct StreamResult { std::vector<double> x, y; int frames{0}, rejected{0}; };
bool run_stream(const Spec& sp, const arr_real* h, Mode mode, Rng& r, int units, int in_cls, bool force_bad, Out& o, StreamResult& res) {
    const int L = sp.L, M = sp.M;
    const std::string tag = std::string(cls_name(sp.cls)) + ":" + mode_name(mode);
    auto obj = build(sp, h);
    if (obj->interp_rate() != (mode == M_BYPASS ? 1 : L) || obj->decim_rate() != (mode == M_BYPASS ? 1 : M)) {
        o.fail("rates:" + tag, fmt("%s(L=%d,M=%d,k=%d): interp_rate()=%d decim_rate()=%d, expected the reduced %d/%d", cls_name(sp.cls), L, M, sp.k,
                                    obj->interp_rate(), obj->decim_rate(), L, M));
        return false;
    }
    const int total = units * M;
    const double band = 0.5 * std::min(1.0, double(L) / double(M));
    res.x = make_input(r, total, in_cls, band);
    // cut the stream into 1..4 frames (cuts may coincide: empty frames are multiples of M too)
    const int nf = r.range(1, 4);
    std::vector<int> cuts = {0, units};
    for (int j = 1; j < nf; ++j) cuts.push_back(r.range(0, units));
    std::sort(cuts.begin(), cuts.end());
    const bool can_reject = (M >= 2) && (mode == M_DECIM || mode == M_RATE);
    const int forced_at = force_bad ? r.range(0, nf - 1) : -1;
    for (int f = 0; f < nf; ++f) {
        const int a = cuts[size_t(f)] * M, b = cuts[size_t(f + 1)] * M;
        if (can_reject && (f == forced_at || r.range(0, 3) == 0)) {
            // a frame whose length is not a multiple of M: must throw, and the stream continues as if it never happened
            const int blen = r.range(0, 3) * M + r.range(1, M - 1);
            arr_real bad(blen);
            for (int i = 0; i < blen; ++i) bad[i] = 3.0 + r.gauss();
            bool threw = false;
            try {
                arr_real yy = obj->process(bad);
                (void)yy;
            } catch (const std::exception&) {
                threw = true;
            }
            if (!threw) { o.fail("reject:" + tag + ":no-throw", fmt("%s(L=%d,M=%d) accepted a frame of %d samples (not a multiple of %d)", cls_name(sp.cls), L, M, blen, M)); return false; }
            res.rejected++;
        }
        arr_real fr(b - a);
        for (int i = a; i < b; ++i) fr[i - a] = res.x[size_t(i)];
        arr_real yy;
        try {
            yy = obj->process(fr);
        } catch (const std::exception& e) {
            o.fail("process:" + tag + ":throws", fmt("%s(L=%d,M=%d,len h=%d) threw on a valid frame of %d samples: %s", cls_name(sp.cls), L, M, sp.hlen, b - a, e.what()));
            return false;
        }
        const int64_t want = int64_t(b - a) * L / M;
        if (yy.size() != want) {
            o.fail("count:" + tag, fmt("%s(L=%d,M=%d,len h=%d): frame of %d samples produced %d outputs, expected len*L/M = %lld", cls_name(sp.cls), L, M, sp.hlen, b - a, yy.size(), (long long)want));
            return false;
        }
        for (int i = 0; i < yy.size(); ++i) res.y.push_back(yy[i]);
        res.frames++;
    }
    return true;
}

Spec decode(const Json& c) {
    Spec s;
    s.cls = c.geti("cls"); s.L = c.geti("L"); s.M = c.geti("M"); s.k = c.geti("k", 1);
    s.hk = c.geti("hk"); s.hlen = c.geti("hlen", 0); s.hshape = c.geti("hshape", 0); s.in = c.geti("in");
    s.seed = c.getu("seed");
    return s;
}

}   // namespace

// ================================================================================================ chain identity
VK_SUB(chain, "chain_identity");
static void chain_check(const Json& c, Out& o) {
    Spec sp = decode(c);
    const int L = sp.L, M = sp.M;
    const Mode mode = mode_of(sp.cls, L, M);
    const std::string tag = std::string(cls_name(sp.cls)) + ":" + mode_name(mode);
    Rng r(sp.seed);
    o.label(std::string("class:") + cls_name(sp.cls));
    o.label(std::string("mode:") + mode_name(mode));
    o.label(std::string("input:") + in_name(sp.in));
    if (sp.cls == C_RESAMPLER) o.label(sp.k > 1 ? "rates:non-reduced" : "rates:reduced");

    if (mode == M_BYPASS) {
        // equal rates: the chain with L = M = 1 and no filter is the identity
        arr_real hh = make_sym_h(r, std::max(2, sp.hlen), sp.hshape, 1);
        StreamResult sr;
        if (!run_stream(sp, sp.hk ? &hh : nullptr, mode, r, r.range(1, 64), sp.in, false, o, sr)) return;
        for (size_t i = 0; i < sr.x.size(); ++i)
            if (!(sr.x[i] == sr.y[i])) { o.fail("bypass:value", fmt("FIRResampler(%d,%d) output[%zu]=%.17g, input %.17g", L * sp.k, M * sp.k, i, sr.y[i], sr.x[i])); return; }
        return;
    }

    // the coefficient vectors: library default, or two exactly symmetric vectors of the same length
    const int pc = (mode == M_DECIM) ? M : L;   // polyphase count
    const int maxLM = std::max(L, M);
    std::vector<arr_real> hs;
    if (sp.hk == 0) hs.push_back(design_multirate_fir(L, M));
    else {
        hs.push_back(make_sym_h(r, sp.hlen, sp.hshape, maxLM));
        hs.push_back(make_sym_h(r, sp.hlen, (sp.hshape + 1 + r.range(0, HS_NSHAPE - 2)) % HS_NSHAPE, maxLM));
    }
    const int nh = hs[0].size();
    const bool padded = (nh % pc) != 0;
    const char* hname = sp.hk == 0 ? "h:default" : (padded ? "h:custom,len%polyphase!=0" : "h:custom,len%polyphase==0");
    o.label(hname);
    o.label(std::string("combo:") + mode_name(mode) + "/" + hname);

    // polyphase memory in input samples; the streams are at least twice as long
    const int mem = (mode == M_DECIM) ? ((nh + M - 1) / M) * M : (nh + L - 1) / L;
    const int min_units = (2 * mem + M - 1) / M + 2;

    std::vector<int> cand;
    for (int p = 0; p < M; ++p) cand.push_back(p);
    double worst = 0;
    int run_no = 0;
    long calls = 0;
    for (size_t hi = 0; hi < hs.size(); ++hi) {
        const arr_real& h = hs[hi];
        Chain ch(h, L, M, mode == M_DECIM, pc);
        // run 0: dense Gaussian probe determines phi; run 1: the case's input class; second h: Gaussian again
        const int nruns = (hi == 0) ? 2 : 1;
        for (int q = 0; q < nruns; ++q, ++run_no) {
            const int in_cls = (hi == 0 && q == 1) ? sp.in : int(I_GAUSS);
            const int units = min_units + r.range(0, 6);
            StreamResult sr;
            if (!run_stream(sp, sp.hk ? &h : nullptr, mode, r, units, in_cls, run_no == 1, o, sr)) return;
            calls += sr.frames + sr.rejected;
            if (sr.rejected) o.label("rejected-frame-then-continue");
            std::vector<int> keep;
            MatchInfo best;
            int best_phi = -1;
            best.worst = 1e301;
            for (int phi : cand) {
                MatchInfo mi;
                if (match_phase(ch, sr.x, sr.y, phi, mi)) { keep.push_back(phi); worst = std::max(worst, mi.worst); }
                else if (best_phi < 0 || mi.bad_i > best.bad_i) { best = mi; best_phi = phi; }
            }
            if (keep.empty()) {
                const char* what = (run_no == 0) ? "no-phase" : (hi == 0 ? "phase-not-fixed" : "phase-depends-on-h");
                std::string pads = padded ? ":padded" : "";
                o.fail("chain:" + tag + ":" + what + (sp.hk ? pads : std::string(":default-h")),
                       fmt("%s(L=%d,M=%d,k=%d) len h=%d (%s) input=%s run %d: no phi in the %zu candidate(s) left of [0,%d) gives y[i]=v[i*M+phi]; closest phi=%d fails first at "
                           "i=%d: y=%.17g ref=%.17Lg tol=%.3Lg",
                           cls_name(sp.cls), L, M, sp.k, nh, sp.hk ? "custom symmetric" : "design_multirate_fir", in_name(in_cls), run_no, cand.size(), M, best_phi, best.bad_i,
                           best.got, best.ref, best.tol));
                return;
            }
            cand = keep;
        }
    }
    o.metric("chain err/tol", worst);
    o.evals = calls;   // process() calls judged (accepted frames compared with the chain + rejected frames)
    if (cand.size() > 1) o.label("phase:ambiguous");
    else o.label(cand[0] == 0 ? "phase:0" : (cand[0] == M - 1 ? "phase:M-1" : "phase:other"));
    if (L * M > 1) o.nontrivial(key_of(sp.cls, L, M, sp.hk, nh % (L * M), sp.in));
}

static Json chain_case(int cls, int L, int M, int k, int hk, int hlen, int hshape, int in, uint64_t seed) {
    return Json::object().set("cls", cls).set("L", L).set("M", M).set("k", k).set("hk", hk).set("hlen", hlen).set("hshape", hshape).set("in", in).set("seed", (long long)(seed >> 16));
}
// length of a custom h: kind 1 = multiple of the polyphase count, 2 = not a multiple (when the count is > 1)
static int pick_hlen(Rng& r, int pc, int maxLM, int kind) {
    const int top = 40 * maxLM;
    if (kind == 1 || pc == 1) {
        int lo = (2 + pc - 1) / pc;
        int n = r.range(lo, std::max(lo, top / pc));
        if (r.coin()) n = r.range(lo, std::max(lo, std::min(top / pc, 6)));   // short filters: few taps per branch
        return n * pc;
    }
    for (;;) {
        int n = r.coin() ? r.range(2, top) : r.range(2, std::min(top, 4 * pc + 3));
        if (n % pc != 0) return n;
    }
}
static void chain_gen(Ctx& ctx) {
    // (1) complete: every reduced ratio x every class that accepts it x {default, custom multiple, custom non-multiple} x input class
    const int reps = ctx.by_tier(4, 24);
    for (int rep = 0; rep < reps; ++rep)
        for (const Ratio& q : all_ratios())
            for (int cls = 0; cls < C_NCLS + 1; ++cls) {           // C_NCLS = FIRResampler with non-reduced rates
                const int rc = std::min(cls, int(C_RESAMPLER));
                if (rc == C_INTERP && q.M != 1) continue;
                if (rc == C_DECIM && q.L != 1) continue;
                for (int hk = 0; hk < 3; ++hk)
                    for (int in = 1; in < I_NIN; ++in) {
                        if (!ctx.mine()) continue;
                        uint64_t sd = mix(ctx.seed, key_of(rep, q.L, q.M, cls, hk, in));
                        Rng r(sd);
                        const int k = (cls == C_NCLS) ? kMult[r.range(1, 6)] : 1;
                        const Mode md = mode_of(rc, q.L, q.M);
                        const int pc = md == M_DECIM ? q.M : q.L;
                        const int hlen = hk ? pick_hlen(r, pc, std::max(q.L, q.M), hk) : 0;
                        ctx.eval(chain_case(rc, q.L, q.M, k, hk ? 1 : 0, hlen, r.range(0, HS_NSHAPE - 1), in, sd));
                    }
            }
    // (2) random: everything free, h length anywhere in 2..40*max(L,M)
    const auto& rs = all_ratios();
    ctx.rc("random", ctx.by_tier(1600000, 20000000), [&]() {
        const Ratio q = rs[size_t(pick(0, int(rs.size()) - 1))];
        std::vector<int> ok = {C_RATE, C_RESAMPLER};
        if (q.M == 1) ok.push_back(C_INTERP);
        if (q.L == 1) ok.push_back(C_DECIM);
        const int cls = one_of(ok);
        const int k = cls == C_RESAMPLER ? kMult[pick(0, 6)] : 1;
        const int hk = pick(0, 3) == 0 ? 0 : 1;
        const int hlen = hk ? pick_log(2, 40 * std::max(q.L, q.M)) : 0;
        return chain_case(cls, q.L, q.M, k, hk, hlen, pick(0, HS_NSHAPE - 1), pick(0, I_NIN - 1), seed64() << 16);
    });
}

// ================================================================================================ next_size / prev_size
VK_SUB(sizes, "frame_sizes");
static void sizes_check(const Json& c, Out& o) {
    const int L = c.geti("L"), M = c.geti("M"), k = c.geti("k");
    FIRResampler rs(L * k, M * k);
    std::unique_ptr<IResampler> direct;
    if (L > 1 && M > 1) direct = std::make_unique<FIRRateConverter>(L, M);
    else if (M > 1) direct = std::make_unique<FIRDecimator>(M);
    else if (L > 1) direct = std::make_unique<FIRInterpolator>(L);
    const int top = 4 * M + 3;
    for (int s = 0; s <= top; ++s) {
        const int nx = ((s + M - 1) / M) * M, pv = (s / M) * M;
        int g1 = IResampler::next_size(s, L * k, M * k), g2 = IResampler::prev_size(s, L * k, M * k);
        int g3 = rs.next_size(s), g4 = rs.prev_size(s);
        int g5 = direct ? direct->next_size(s) : nx, g6 = direct ? direct->prev_size(s) : pv;
        if (g1 != nx || g3 != nx || g5 != nx) { o.fail("next_size", fmt("next_size(%d) for %d/%d: static %d, FIRResampler %d, converter %d, expected %d", s, L * k, M * k, g1, g3, g5, nx)); return; }
        if (g2 != pv || g4 != pv || g6 != pv) { o.fail("prev_size", fmt("prev_size(%d) for %d/%d: static %d, FIRResampler %d, converter %d, expected %d", s, L * k, M * k, g2, g4, g6, pv)); return; }
    }
    o.evals = 6L * (top + 1);
    if (M > 1) o.nontrivial(key_of(L, M, k));
    o.label(k > 1 ? "rates:non-reduced" : "rates:reduced");
}
static void sizes_gen(Ctx& ctx) {
    for (const Ratio& q : all_ratios())
        for (int k : kMult) {
            if (!ctx.mine()) continue;
            ctx.eval(Json::object().set("L", q.L).set("M", q.M).set("k", k));
        }
}

// ================================================================================================ resample(): size, identity, no throw
VK_SUB(rsz, "resample_size");
static void rsz_check(const Json& c, Out& o) {
    const int L = c.geti("L"), M = c.geti("M"), k = c.geti("k"), len = c.geti("len"), form = c.geti("form");
    const int p = L * k, q = M * k;
    Rng r(c.getu("seed"));
    arr_real x = to_arr(make_input(r, len, I_GAUSS, 0.5));
    arr_real y;
    const char* fname = form == 0 ? "default" : form == 1 ? "n,beta" : "custom-h";
    std::string desc;
    try {
        if (form == 0) { desc = fmt("resample(x[%d], %d, %d)", len, p, q); y = resample(x, p, q); }
        else if (form == 1) {
            int n = r.range(1, 16);
            double beta = r.uni(0, 10);
            desc = fmt("resample(x[%d], %d, %d, n=%d, beta=%.3f)", len, p, q, n, beta);
            y = resample(x, p, q, n, beta);
        } else {
            int pc = (L == 1) ? M : L;
            int hlen = pick_hlen(r, pc, std::max(L, M), r.range(1, 2));
            arr_real h = make_sym_h(r, hlen, r.range(0, HS_NSHAPE - 1), std::max(L, M));
            desc = fmt("resample(x[%d], %d, %d, h[%d])", len, p, q, hlen);
            y = resample(x, p, q, h);
        }
    } catch (const std::exception& e) {
        o.fail(std::string("resample:throws:") + fname, desc + " threw: " + e.what());
        return;
    }
    o.label(std::string("form:") + fname);
    if (L == M) {
        bool same = y.size() == x.size();
        for (int i = 0; same && i < len; ++i) same = (y[i] == x[i]);
        if (!same) o.fail("resample:identity", desc + " with p == q did not return x");
        o.label("p==q");
        if (k > 0) o.nontrivial(key_of(1, p, len, form));
        return;
    }
    const int64_t want = int64_t(L) * ((len + M - 1) / M);
    if (y.size() != want) { o.fail(std::string("resample:size:") + fname, desc + fmt(" returned %d samples, expected p'*ceil(len/q') = %lld", y.size(), (long long)want)); return; }
    if (!all_finite(y)) { o.fail(std::string("resample:nonfinite:") + fname, desc + " returned a non-finite sample"); return; }
    o.label(len % M == 0 ? "len%q'==0" : "len%q'!=0");
    o.label(k > 1 ? "ratio:non-reduced" : "ratio:reduced");
    o.nontrivial(key_of(2, L, M, len % M == 0, form, k > 1));
}
static void rsz_gen(Ctx& ctx) {
    const int reps = ctx.by_tier(1, 4);
    for (int rep = 0; rep < reps; ++rep)
        for (const Ratio& q : all_ratios())
            for (int ki = 0; ki < 2; ++ki)
                for (int form = 0; form < 3; ++form)
                    for (int lk = 0; lk < 5; ++lk) {
                        if (!ctx.mine()) continue;
                        uint64_t sd = mix(ctx.seed, key_of(rep, q.L, q.M, ki, form, lk, 0x52));
                        Rng r(sd);
                        const int k = ki ? kMult[r.range(1, 6)] : 1;
                        int len;
                        switch (lk) {
                        case 0: len = r.range(1, std::max(1, q.M - 1)); break;          // shorter than one block
                        case 1: len = q.M * r.range(1, 4); break;                        // multiple
                        case 2: len = q.M * r.range(1, 4) + 1; break;                    // multiple + 1
                        case 3: len = q.M * r.range(1, 4) + q.M - 1; break;             // multiple - 1
                        default: len = r.range(1, 6 * q.M + 40);
                        }
                        ctx.eval(Json::object().set("L", q.L).set("M", q.M).set("k", k).set("len", len).set("form", form).set("seed", (long long)(sd >> 16)));
                    }
    // p == q in every form, reduced or not
    for (int p : {1, 2, 3, 7, 16, 147, 441, 44100, 48000})
        for (int form = 0; form < 3; ++form)
            for (int len : {1, 2, 17, 100}) {
                if (!ctx.mine()) continue;
                ctx.eval(Json::object().set("L", 1).set("M", 1).set("k", p).set("len", len).set("form", form).set("seed", (long long)(mix(ctx.seed, key_of(p, form, len)) >> 16)));
            }
    const auto& rs = all_ratios();
    ctx.rc("random", ctx.by_tier(400000, 4000000), [&]() {
        const Ratio q = rs[size_t(pick(0, int(rs.size()) - 1))];
        return Json::object().set("L", q.L).set("M", q.M).set("k", kMult[pick(0, 6)]).set("len", pick_log(1, 8 * q.M + 64)).set("form", pick(0, 2)).set("seed", (long long)seed64());
    });
}

// ================================================================================================ resample(): alignment
// x(t) = sum_k A_k cos(2 pi f_k t + th_k), all f_k in [0.10, 0.35] * min(1, p/q) of the input Nyquist frequency.
// y = resample(x[0..len), p, q) with the default filter; interior = output instants whose filter support (documented
// order 2*n*max(p,q), n = 10) plus the tau search range lies inside the record.
// tau = argmin over [-4, 4] of sum_interior (y[i] - x((i + tau) q/p))^2  (0.05 grid, then golden section to 1e-6).
VK_SUB(ral, "resample_alignment");
namespace {
struct Tones { double A[3], f[3], th[3]; };
inline double tone_at(const Tones& t, double time) {
    double s = 0;
    for (int k = 0; k < 3; ++k) s += t.A[k] * std::cos(2 * M_PI * t.f[k] * time + t.th[k]);
    return s;
}
}   // namespace
static void ral_check(const Json& c, Out& o) {
    const int L = c.geti("L"), M = c.geti("M"), k = c.geti("k");
    const int p = L * k, q = M * k;
    Rng r(c.getu("seed"));
    const double ratio = double(M) / double(L);   // input samples per output sample
    const double s = std::min(1.0, double(L) / double(M));
    Tones t;
    const double bands[3][2] = {{0.10, 0.16}, {0.20, 0.26}, {0.29, 0.35}};
    double asum = 0;
    for (int j = 0; j < 3; ++j) {
        t.f[j] = 0.5 * s * r.uni(bands[j][0], bands[j][1]);
        t.A[j] = r.uni(0.5, 1.0);
        t.th[j] = r.uni(0, 2 * M_PI);
        asum += t.A[j];
    }
    const double margin = 10.0 * std::max(1.0, ratio) + 5.0 * ratio + 2.0;   // input samples
    const double interior = 120.0 * std::max(1.0, ratio) * r.uni(1.0, 1.6);
    const int len = int(std::ceil(interior + 2 * margin)) + r.range(0, M);
    arr_real x(len);
    for (int i = 0; i < len; ++i) x[i] = tone_at(t, double(i));
    arr_real y;
    try {
        y = resample(x, p, q);
    } catch (const std::exception& e) {
        o.fail("resample:throws:default", fmt("resample(x[%d], %d, %d) threw: %s", len, p, q, e.what()));
        return;
    }
    const int64_t want = int64_t(L) * ((len + M - 1) / M);
    if (y.size() != want) { o.fail("resample:size:default", fmt("resample(x[%d], %d, %d) returned %d samples, expected %lld", len, p, q, y.size(), (long long)want)); return; }
    const int i0 = int(std::ceil(margin / ratio)), i1 = int(std::floor((double(len - 1) - margin) / ratio));
    if (i1 - i0 < 60) { o.discard = true; return; }
    auto J = [&](double tau) {
        double a = 0;
        for (int i = i0; i <= i1; ++i) { double d = y[i] - tone_at(t, (double(i) + tau) * ratio); a += d * d; }
        return a;
    };
    double best = 1e300, tau0 = 0;
    for (int g = -80; g <= 80; ++g) { double v = J(0.05 * g); if (v < best) { best = v; tau0 = 0.05 * g; } }
    double a = tau0 - 0.05, b = tau0 + 0.05;
    const double gr = 0.6180339887498949;
    double x1 = b - gr * (b - a), x2 = a + gr * (b - a), f1 = J(x1), f2 = J(x2);
    for (int it = 0; it < 30; ++it) {
        if (f1 < f2) { b = x2; x2 = x1; f2 = f1; x1 = b - gr * (b - a); f1 = J(x1); }
        else { a = x1; x1 = x2; f1 = f2; x2 = a + gr * (b - a); f2 = J(x2); }
    }
    const double tau = 0.5 * (a + b);
    double rmax = 0;
    for (int i = i0; i <= i1; ++i) rmax = std::max(rmax, std::fabs(y[i] - tone_at(t, (double(i) + tau) * ratio)));
    const double rel = rmax / asum;
    o.metric("|tau| (output samples)", std::fabs(tau));
    o.metric("(|tau|-1)/0.05 slack used", std::max(0.0, std::fabs(tau) - 1.0) / 0.05);
    // DEVIATION CLASS (reported): for 1 < p < q the default filter has order 2*n*p, not the documented 2*n*max(p,q); when
    // 5p < q (2/11, 2/13, 2/15, 3/16) it spans fewer than two lobes of its own sinc and the pass-band error reaches 2-4 %.
    // The generator marks these ratios strict=0: alignment is still asserted, the 2 % criterion is replaced by 20 %.
    const bool short_filter = (L > 1 && M > 5 * L);
    const bool strict = c.geti("strict", 1) != 0;
    o.metric(strict ? "residual/(0.02 sum A)" : "residual/(0.20 sum A) [short-filter class]", rel / (strict ? 0.02 : 0.20));
    const char* kind = (L == 1) ? "decim" : (M == 1 ? "interp" : "rate");
    if (!(std::fabs(tau) <= 1.05))
        o.fail(std::string("resample:align:") + kind, fmt("resample(x[%d], %d, %d): best-fit tau = %.4f output samples (|tau| <= 1.05 claimed), residual there %.3g of sum A", len, p, q, tau, rel));
    else if (strict && !(rel <= 0.02))
        o.fail(std::string("resample:residual:") + (short_filter ? "short-filter(1<p<q,5p<q)" : kind),
               fmt("resample(x[%d], %d, %d): at the best tau = %.4f the interior residual is %.3g of the amplitude (> 2%%)", len, p, q, tau, rel));
    else if (!strict && !(rel <= 0.20))
        o.fail(std::string("resample:residual-loose:") + kind, fmt("resample(x[%d], %d, %d): at the best tau = %.4f the interior residual is %.3g of the amplitude (> 20%%)", len, p, q, tau, rel));
    if (!strict) o.label("excluded:2%-residual-criterion:short-filter(1<p<q,5p<q)");
    o.label(std::string("kind:") + kind);
    o.label(len % M == 0 ? "len%q'==0" : "len%q'!=0");
    o.label(std::fabs(tau) < 0.05 ? "tau~0" : (std::fabs(tau) > 0.95 ? "tau~1" : "tau:fractional"));
    o.evals = i1 - i0 + 1;
    o.nontrivial(key_of(L, M, k > 1, len % M == 0));
}
static void ral_gen(Ctx& ctx) {
    const int reps = ctx.by_tier(64, 480);
    for (int rep = 0; rep < reps; ++rep)
        for (const Ratio& q : all_ratios()) {
            if (q.L == q.M) continue;
            if (!ctx.mine()) continue;
            uint64_t sd = mix(ctx.seed, key_of(rep, q.L, q.M, 0xA1));
            Rng r(sd);
            const int k = (rep % 3 == 2) ? kMult[r.range(1, 6)] : 1;
            const int strict = (q.L > 1 && q.M > 5 * q.L) ? 0 : 1;   // see DEVIATION CLASS in ral_check
            ctx.eval(Json::object().set("L", q.L).set("M", q.M).set("k", k).set("strict", strict).set("seed", (long long)(sd >> 16)));
        }
}

VK_FRESH_THREADS;
VK_MAIN("C08")
