// Verification kit: case recorder, deterministic streams, rapidcheck glue, fork runner, harness main().
//
// A harness defines sub-checks.  Each sub-check has
//   check(const Json& c, Out& o)  -- the executable property over ONE case (pure function of c and the code);
//   gen(Ctx&)                     -- enumerates or generates cases and hands them to ctx.eval(c).
// A replay file is {"property","subcheck","case",...}; --replay runs check() on it with no generator involved.
#pragma once
#include "json.h"

#include <algorithm>
#include <chrono>
#include <csignal>
#include <cstdarg>
#include <fcntl.h>
#include <functional>
#include <poll.h>
#include <sys/mman.h>
#include <sys/wait.h>
#include <unistd.h>
#include <unordered_set>
#include <thread>

#ifndef VK_NO_RAPIDCHECK
#include <rapidcheck.h>
#endif

namespace vk {

// ------------------------------------------------------------------------------------------- hashing / streams
inline uint64_t splitmix(uint64_t& s) {
    uint64_t z = (s += 0x9E3779B97F4A7C15ull);
    z = (z ^ (z >> 30)) * 0xBF58476D1CE4E5B9ull;
    z = (z ^ (z >> 27)) * 0x94D049BB133111EBull;
    return z ^ (z >> 31);
}
inline uint64_t mix(uint64_t a, uint64_t b) {
    uint64_t s = a ^ (b + 0x9E3779B97F4A7C15ull + (a << 6) + (a >> 2));
    return splitmix(s);
}
inline uint64_t hash_str(const std::string& s) {
    uint64_t h = 1469598103934665603ull;
    for (unsigned char c : s) { h ^= c; h *= 1099511628211ull; }
    return h;
}
template<class... T>
inline uint64_t key_of(T... v) {
    uint64_t h = 0x1234567;
    ((h = mix(h, uint64_t(v))), ...);
    return h;
}

// Deterministic content stream: everything numeric inside a case is expanded from the case's data seed.
struct Rng
{
    uint64_t s;
    explicit Rng(uint64_t seed) : s(mix(seed, 0xD5A11Bull)) {}
    uint64_t next() { return splitmix(s); }
    double uni() { return double(next() >> 11) * (1.0 / 9007199254740992.0); }       // [0,1)
    double uni(double lo, double hi) { return lo + (hi - lo) * uni(); }
    int range(int lo, int hi) { return lo + int(next() % uint64_t(int64_t(hi) - lo + 1)); }   // inclusive
    bool coin() { return next() & 1; }
    double gauss() {
        double u1 = 1.0 - uni(), u2 = uni();
        return std::sqrt(-2.0 * std::log(u1)) * std::cos(6.283185307179586476925 * u2);
    }
    double logmag(double e_lo, double e_hi) { return std::pow(10.0, uni(e_lo, e_hi)); }
    Rng fork(uint64_t tag) { return Rng(mix(next(), tag)); }
};

inline std::string fmt(const char* f, ...) {
    char buf[2048];
    va_list ap;
    va_start(ap, f);
    vsnprintf(buf, sizeof buf, f, ap);
    va_end(ap);
    return buf;
}

// ------------------------------------------------------------------------------------------- verdict of one case
struct Out
{
    bool failed{false};
    bool discard{false};
    std::string sig, msg;
    long evals{1};
    std::vector<uint64_t> keys;   // structural keys of the non-trivial things this case covered
    std::vector<std::string> labels;
    Json extra;   // optional details for the replay file (observed/expected)

    void fail(const std::string& sig_, const std::string& msg_) {
        if (!failed) { failed = true; sig = sig_; msg = msg_; }
    }
    void nontrivial(uint64_t key) { keys.push_back(key); }
    void label(const std::string& l) { labels.push_back(l); }
    // observed/allowed ratios and similar: the evidence reports the maximum seen per name
    std::vector<std::pair<std::string, double>> metrics;
    void metric(const std::string& name, double v) { metrics.emplace_back(name, v); }
};

struct Failure
{
    Json c;
    std::string sig, msg;
    Json extra;
    bool shrunk{false};
};

struct SubStats
{
    long evaluations{0};
    long discards{0};
    long failures{0};
    long cases{0};
    std::unordered_set<uint64_t> keys;
    std::map<std::string, long> hist;
    std::map<std::string, double> metrics;   // max per name
    std::vector<Json> samples;
    std::vector<Failure> fails;   // at most one per signature (the smallest seen / the shrunk one)
    std::vector<std::string> notes;
    double wall{0};
};

// optional: unrelated library calls before a check (kit/prelude.h sets this pointer when it is included by the harness)
inline void (*&prelude_hook())(uint64_t, int) { static void (*h)(uint64_t, int) = nullptr; return h; }
// size hint for the prelude: the first of the usual size fields found in the case
inline int prelude_hint(const Json& c) {
    for (const char* k : {"n", "nfft", "len", "nwin", "L", "nh", "order", "n1", "N", "nx"})
        if (c.has(k) && c.at(k).kind == Json::Int) { const long long v = c.at(k).integer(); if (v >= 1) return int(std::min<long long>(v, 1 << 17)); }
    return 64;
}
inline void maybe_prelude(const Json& c, Out& o) {
    if (prelude_hook() && c.kind == Json::Obj && c.has("pre") && c.at("pre").kind == Json::Int && c.at("pre").u64() != 0) {
        prelude_hook()(c.at("pre").u64(), prelude_hint(c));
        o.labels.push_back("kit:prelude (unrelated library calls of related size before the check)");
    }
}
struct Ctx;
struct Sub
{
    std::string name;
    std::function<void(const Json&, Out&)> check;
    std::function<void(Ctx&)> gen;
};

inline std::vector<Sub>& registry() {
    static std::vector<Sub> r;
    return r;
}
struct Reg
{
    Reg(const char* name, std::function<void(const Json&, Out&)> check, std::function<void(Ctx&)> gen) {
        registry().push_back(Sub{name, std::move(check), std::move(gen)});
    }
};

constexpr int kNominalSize = 100;

struct Ctx
{
    std::string property;
    std::string tier{"quick"};
    uint64_t seed{1};
    int shard{0}, nshards{1};
    int trace_fd{-1};
    double scale{1.0};   // VERIF_SCALE: multiplies rapidcheck case budgets (mutant sweeps use < 1)
    const Sub* sub{nullptr};
    SubStats* st{nullptr};
    std::map<std::string, SubStats> stats;
    long enum_index{0};

    bool quick() const { return tier == "quick"; }
    bool thorough() const { return !quick(); }
    template<class T> T by_tier(T q, T t) const { return quick() ? q : t; }
    uint64_t sub_seed(const std::string& tag = "") const {
        return mix(mix(mix(seed, hash_str(property + "/" + sub->name)), hash_str(tag)), uint64_t(shard));
    }
    // enumeration sharding: every enumerated case gets the next index, a shard runs the indices it owns
    bool mine() { return int(mix(uint64_t(enum_index++), 0x5EED) % uint64_t(nshards)) == shard; }
    bool mine(uint64_t idx) const { return int(idx % uint64_t(nshards)) == shard; }
    void note(const std::string& n) { st->notes.push_back(n); }

    Out run_check(const Json& c) {
        if (trace_fd >= 0) {
            std::string line = Json::object().set("subcheck", sub->name).set("case", c).dump();
            line.push_back('\n');
            if (ftruncate(trace_fd, 0) == 0) { (void)!pwrite(trace_fd, line.data(), line.size(), 0); }
        }
        Out o;
        auto body = [&]() {
            try {
                if (c.kind == Json::Obj && c.has("__seq")) {
                    // several cases executed one after the other in the SAME thread: each must still satisfy the property
                    // for its own arguments (nothing may leak from one call of the library to the next)
                    int k = 0;
                    o.evals = 0;
                    for (const Json& ci : c.at("__seq").a) {
                        Out oi;
                        maybe_prelude(ci, oi);
                        sub->check(ci, oi);
                        o.evals += oi.evals;
                        if (oi.discard) { ++k; continue; }
                        for (uint64_t key : oi.keys) o.keys.push_back(key);
                        for (auto& l : oi.labels) o.labels.push_back(l);
                        for (auto& m : oi.metrics) o.metrics.push_back(m);
                        if (oi.failed) { o.fail(oi.sig, fmt("[case %d of a %zu-case sequence in one thread] ", k, c.at("__seq").size()) + oi.msg); o.extra = oi.extra; break; }
                        ++k;
                    }
                    o.labels.push_back("kit:case-sequence");
                } else {
                    maybe_prelude(c, o);
                    sub->check(c, o);
                }
            } catch (const std::exception& e) {
                o.fail("unexpected-exception", std::string("exception escaped the predicate: ") + e.what());
            }
        };
        // fresh_thread: every case starts from pristine thread_local library state (plan caches, RNG engine, memoised
        // plans ...), so a case is a pure function of its JSON and a shrunk failure replays in a new process.
        if (fresh_thread) { std::thread t(body); t.join(); }
        else body();
        return o;
    }

    void account(const Json& c, const Out& o) {
        st->evaluations += o.evals;
        st->cases += (c.kind == Json::Obj && c.has("__seq")) ? long(c.at("__seq").size()) : 1;
        if (o.discard) { st->discards++; return; }
        bool fresh = false;
        for (uint64_t k : o.keys) fresh |= st->keys.insert(k).second;
        for (auto& l : o.labels) st->hist[l]++;
        for (auto& m : o.metrics) {
            auto it = st->metrics.find(m.first);
            if (it == st->metrics.end()) st->metrics[m.first] = m.second;
            else if (m.second > it->second) it->second = m.second;
        }
        if (!o.keys.empty() && fresh && st->samples.size() < 4 && (st->samples.empty() || (st->cases % 7) == 0 || st->cases < 4)) {
            st->samples.push_back(c);
        }
    }

    void record_failure(const Json& c, const Out& o, bool shrunk) {
        st->failures++;
        for (auto& f : st->fails) {
            if (f.sig == o.sig) {
                if (shrunk || (!f.shrunk && c.dump().size() < f.c.dump().size())) {
                    f = Failure{c, o.sig, o.msg, o.extra, shrunk};
                }
                return;
            }
        }
        if (st->fails.size() < 12) st->fails.push_back(Failure{c, o.sig, o.msg, o.extra, shrunk});
    }

    // enumerated / hand-generated case
    bool eval_now(const Json& c) {
        Out o = run_check(c);
        account(c, o);
        if (o.failed) record_failure(c, o, false);
        return !o.failed;
    }
    // In seq_mode (fresh-thread harnesses) about half of the enumerated cases are executed in groups of 2-3 consecutive cases of
    // the shard inside ONE fresh thread (the same "__seq" form rapidcheck cases use), so that state leaking from one call of the
    // library to the next - a memo keyed too coarsely, a scratch buffer not cleared - meets neighbouring parameters.  A failing
    // group is first re-run member by member (each in its own fresh thread): if one member fails alone, that is the reported case.
    std::vector<Json> pending;
    size_t pending_target{1};
    uint64_t group_counter{0};
    bool eval(const Json& c) {
        if (!seq_mode) return eval_now(c);
        pending.push_back(c);
        if (pending.size() >= pending_target) flush();
        return true;
    }
    void flush() {
        if (pending.empty()) return;
        if (pending.size() == 1) eval_now(pending[0]);
        else {
            Json sq = Json::array();
            for (auto& c : pending) sq.push(c);
            Json s = Json::object().set("__seq", sq);
            Out o = run_check(s);
            bool isolated = false;
            if (o.failed)
                for (auto& c : pending) {
                    Out oi = run_check(c);
                    if (oi.failed) { account(c, oi); record_failure(c, oi, false); isolated = true; break; }
                }
            if (!isolated) {
                account(s, o);
                if (o.failed) record_failure(s, o, false);
            }
        }
        pending.clear();
        const uint64_t h = mix(group_counter++, 0x5E9);
        pending_target = (h & 1) ? 1 : 2 + ((h >> 8) & 1);
    }

#ifndef VK_NO_RAPIDCHECK
    // rapidcheck-driven cases: make() builds a Json case out of *generators; budget is the TOTAL over all shards.
    template<class Make>
    void rc(const std::string& tag, int total_cases, Make make, int max_size = kNominalSize) {
        int n = int(std::max(1.0, total_cases * scale / nshards));
        ::rc::detail::TestParams p;
        p.seed = sub_seed(tag);
        p.maxSuccess = n;
        p.maxSize = max_size;
        p.maxDiscardRatio = 50;
        p.disableShrinking = no_shrink;
        ::rc::detail::TestMetadata md;
        md.id = property + "/" + sub->name + "/" + tag;
        md.description = md.id;
        bool have = false;
        Json slot_c;
        Out slot_o;
        auto res = ::rc::detail::checkTestable(
          [&]() {
              Json c = make();
              auto pick_ = [](int lo, int hi) { return *::rc::gen::resize(kNominalSize, ::rc::gen::inRange<int>(lo, hi + 1)); };
              if (seq_mode && prelude_hook() && c.kind == Json::Obj && !c.has("pre") && pick_(0, 3) == 0)
                  c.set("pre", (long long)(1 + *::rc::gen::resize(kNominalSize, ::rc::gen::inRange<long long>(0, 1ll << 40))));
              if (seq_mode && pick_(0, 3) == 3) {   // a quarter of the cases: 2-3 generated cases run back to back in one thread
                  Json sq = Json::array();
                  sq.push(c);
                  for (int extra = pick_(1, 2); extra > 0; --extra) sq.push(make());
                  c = Json::object().set("__seq", sq);
              }
              Out o = run_check(c);
              account(c, o);
              if (o.discard) { RC_DISCARD("premise not met"); }
              if (o.failed) {
                  have = true;
                  slot_c = c;
                  slot_o = o;
                  RC_FAIL(o.msg);
              }
          },
          md, p);
        if (res.template is<::rc::detail::FailureResult>()) {
            if (have) record_failure(slot_c, slot_o, true);
            else note("rapidcheck failure without a recorded case in " + tag);
        } else if (res.template is<::rc::detail::GaveUpResult>()) {
            note("inconclusive: rapidcheck gave up (too many discards) in " + tag);
        } else if (res.template is<::rc::detail::Error>()) {
            note("harness-error: " + res.template get<::rc::detail::Error>().description);
            harness_errors++;
        }
    }
#endif
    int harness_errors{0};
    bool fresh_thread{false};
    bool no_shrink{false};  // rc(): keep the first failing case as generated (for failures that depend on a thread schedule: shrinking re-runs are not informative)
    bool seq_mode{false};   // rc(): a quarter of the generated cases become short case sequences (set together with fresh_thread)
};
// How often a check whose verdict depends on a thread schedule should execute its case: once while exploring, `n` times when
// a saved case is replayed (any failing run is a violation - the oracle is exact - so repeating only adds power).
inline int replay_rounds(int n) { return getenv("VK_REPLAY") ? n : 1; }
inline bool& fresh_thread_default() { static bool v = false; return v; }
struct FreshThreadOn { FreshThreadOn() { fresh_thread_default() = true; } };

#ifndef VK_NO_RAPIDCHECK
// generator helpers (size-independent ranges, shrink towards lo)
inline int pick(int lo, int hi) {   // inclusive
    return *::rc::gen::resize(kNominalSize, ::rc::gen::inRange<int>(lo, hi + 1));
}
inline int64_t pick64(int64_t lo, int64_t hi) {
    return *::rc::gen::resize(kNominalSize, ::rc::gen::inRange<int64_t>(lo, hi + 1));
}
inline uint64_t seed64() {
    return *::rc::gen::resize(kNominalSize, ::rc::gen::inRange<uint64_t>(0, 1ull << 48));
}
inline bool flip() { return pick(0, 1) == 1; }
template<class T>
inline T one_of(const std::vector<T>& v) {
    return v[size_t(pick(0, int(v.size()) - 1))];
}
// real in [lo,hi] on a 2^-20 grid (shrinks towards lo)
inline double pickd(double lo, double hi) {
    int k = pick(0, 1 << 20);
    return lo + (hi - lo) * (double(k) / double(1 << 20));
}
// log-uniform-ish integer in [lo,hi]: picks an octave first so that small and large values are both common
inline int pick_log(int lo, int hi) {
    if (hi <= lo) return lo;
    int span_bits = 0;
    while ((int64_t(1) << span_bits) < int64_t(hi) - lo + 1) ++span_bits;
    int b = pick(0, span_bits);
    int64_t top = std::min<int64_t>(int64_t(hi) - lo, (int64_t(1) << b) - 1);
    return lo + int(pick64(0, top));
}
#endif

// ------------------------------------------------------------------------------------------- fork runner
struct ForkResult
{
    enum St { Returned, Crashed, TimedOut } st{Returned};
    int code{0};           // exit code or signal
    bool signaled{false};
    std::string payload;   // what the child wrote
    std::string err;       // tail of the child's stderr (sanitizer report)
};

// Runs body() in a forked child; the child's return string travels through a pipe.  A sanitizer abort, a signal,
// std::terminate or exceeding timeout_s fail that one case only.
inline ForkResult forked(const std::function<std::string()>& body, double timeout_s) {
    int pfd[2], efd[2];
    if (pipe(pfd) != 0 || pipe(efd) != 0) throw std::runtime_error("pipe failed");
    fflush(nullptr);
    pid_t pid = fork();
    if (pid < 0) throw std::runtime_error("fork failed");
    if (pid == 0) {
        close(pfd[0]);
        close(efd[0]);
        dup2(efd[1], 2);
        std::string r;
        try {
            r = body();
        } catch (const std::exception& e) {
            r = std::string("!escaped-exception: ") + e.what();
        } catch (...) {
            r = "!escaped-exception: non-std";
        }
        size_t off = 0;
        while (off < r.size()) {
            ssize_t w = write(pfd[1], r.data() + off, r.size() - off);
            if (w <= 0) break;
            off += size_t(w);
        }
        _exit(0);
    }
    close(pfd[1]);
    close(efd[1]);
    ForkResult fr;
    auto t0 = std::chrono::steady_clock::now();
    bool open_p = true, open_e = true;
    char buf[4096];
    while (open_p || open_e) {
        double el = std::chrono::duration<double>(std::chrono::steady_clock::now() - t0).count();
        if (el > timeout_s) {
            kill(pid, SIGKILL);
            fr.st = ForkResult::TimedOut;
            break;
        }
        struct pollfd fds[2] = {{pfd[0], POLLIN, 0}, {efd[0], POLLIN, 0}};
        if (!open_p) fds[0].fd = -1;
        if (!open_e) fds[1].fd = -1;
        int pr = poll(fds, 2, 200);
        if (pr < 0) continue;
        if (open_p && (fds[0].revents & (POLLIN | POLLHUP))) {
            ssize_t r = read(pfd[0], buf, sizeof buf);
            if (r > 0) fr.payload.append(buf, size_t(r));
            else open_p = false;
        }
        if (open_e && (fds[1].revents & (POLLIN | POLLHUP))) {
            ssize_t r = read(efd[0], buf, sizeof buf);
            if (r > 0) { if (fr.err.size() < 6000) fr.err.append(buf, size_t(r)); }
            else open_e = false;
        }
    }
    close(pfd[0]);
    close(efd[0]);
    int status = 0;
    waitpid(pid, &status, 0);
    if (fr.st != ForkResult::TimedOut) {
        if (WIFSIGNALED(status)) { fr.st = ForkResult::Crashed; fr.signaled = true; fr.code = WTERMSIG(status); }
        else if (WIFEXITED(status) && WEXITSTATUS(status) != 0) { fr.st = ForkResult::Crashed; fr.code = WEXITSTATUS(status); }
    }
    return fr;
}

// Shared progress slot: the child publishes "what I am working on" so that a hang can name its argument.
struct Progress
{
    volatile int64_t* v;
    Progress() {
        v = static_cast<volatile int64_t*>(mmap(nullptr, 4096, PROT_READ | PROT_WRITE, MAP_SHARED | MAP_ANONYMOUS, -1, 0));
        v[0] = -1;
    }
    ~Progress() { munmap(const_cast<int64_t*>(v), 4096); }
    void set(int64_t x) const { v[0] = x; }
    int64_t get() const { return v[0]; }
};

inline std::string pack_out(const Out& o) {
    Json j = Json::object();
    j.set("failed", o.failed).set("discard", o.discard).set("sig", o.sig).set("msg", o.msg).set("evals", o.evals);
    Json k = Json::array();
    for (auto x : o.keys) k.push(Json(fmt("%llu", (unsigned long long)x)));
    j.set("keys", k).set("labels", Json(o.labels)).set("extra", o.extra);
    Json mt = Json::array();
    for (auto& m : o.metrics) mt.push(Json::array().push(Json(m.first)).push(Json(m.second)));
    j.set("metrics", mt);
    return j.dump();
}
inline void unpack_out(const std::string& s, Out& o) {
    Json j = Json::parse(s);
    o.failed = j.at("failed").b;
    o.discard = j.at("discard").b;
    o.sig = j.gets("sig");
    o.msg = j.gets("msg");
    o.evals = j.at("evals").integer();
    for (auto& x : j.at("keys").a) o.keys.push_back(x.u64());
    for (auto& x : j.at("labels").a) o.labels.push_back(x.str());
    o.extra = j.at("extra");
    if (j.has("metrics")) for (auto& m : j.at("metrics").a) o.metrics.emplace_back(m.at(0).str(), m.at(1).num());
}

// Executes body(out) in a forked child under the monitor.  Normal return (incl. failures the body itself recorded)
// is transported back; a sanitizer report, signal, terminate or a run longer than timeout_s becomes a failure of THIS case.
inline void run_forked(Out& o, double timeout_s, const std::function<void(Out&)>& body, const Progress* prog = nullptr) {
    ForkResult fr = forked(
      [&]() {
          Out co;
          body(co);
          return pack_out(co);
      },
      timeout_s);
    auto tail = [&]() {
        std::string e = fr.err;
        if (e.size() > 1500) e = e.substr(0, 1500) + "...";
        return e;
    };
    if (fr.st == ForkResult::TimedOut) {
        o.fail("hang", fmt("no result within %.0f s (progress=%lld)", timeout_s, prog ? (long long)prog->get() : -1LL));
        return;
    }
    if (fr.st == ForkResult::Crashed) {
        std::string kind = fr.signaled ? fmt("signal-%d", fr.code) : fmt("exit-%d", fr.code);
        std::string what = "crash";
        const std::string& e = fr.err;
        auto has = [&](const char* t) { return e.find(t) != std::string::npos; };
        if (has("AddressSanitizer")) {
            what = "asan";
            for (const char* t : {"heap-buffer-overflow", "container-overflow", "stack-buffer-overflow", "heap-use-after-free", "SEGV", "FPE", "global-buffer-overflow", "negative-size-param", "allocation-size-too-big", "stack-overflow"})
                if (has(t)) { what += std::string(":") + t; break; }
        } else if (has("runtime error:")) what = "ubsan";
        else if (has("ThreadSanitizer")) what = "tsan";
        else if (has("terminate called")) what = "terminate";
        o.fail(what, fmt("child died (%s, progress=%lld): %s", kind.c_str(), prog ? (long long)prog->get() : -1LL, tail().c_str()));
        return;
    }
    if (fr.payload.rfind("!escaped-exception", 0) == 0) {
        o.fail("unexpected-exception", fr.payload);
        return;
    }
    try {
        unpack_out(fr.payload, o);
    } catch (const std::exception& e) {
        o.fail("harness-pipe", std::string("cannot decode child result: ") + e.what());
    }
}

// ------------------------------------------------------------------------------------------- main
inline Json stats_json(const SubStats& s) {
    Json j = Json::object();
    j.set("evaluations", s.evaluations).set("cases", s.cases).set("discards", s.discards).set("failures", s.failures);
    j.set("nontrivial_here", (long)s.keys.size());
    Json h = Json::object();
    for (auto& kv : s.hist) h.set(kv.first, kv.second);
    j.set("hist", h);
    Json mt = Json::object();
    for (auto& kv : s.metrics) mt.set(kv.first, kv.second);
    j.set("metrics", mt);
    j.set("samples", Json(s.samples));
    Json fl = Json::array();
    for (auto& f : s.fails) {
        fl.push(Json::object().set("case", f.c).set("sig", f.sig).set("msg", f.msg).set("extra", f.extra).set("shrunk", f.shrunk));
    }
    j.set("fails", fl);
    j.set("notes", Json(s.notes));
    j.set("wall_s", s.wall);
    return j;
}

inline std::string read_file(const std::string& path) {
    FILE* f = fopen(path.c_str(), "rb");
    if (!f) throw std::runtime_error("cannot open " + path);
    std::string r;
    char buf[65536];
    size_t n;
    while ((n = fread(buf, 1, sizeof buf, f)) > 0) r.append(buf, n);
    fclose(f);
    return r;
}
inline void write_file(const std::string& path, const std::string& data) {
    FILE* f = fopen(path.c_str(), "wb");
    if (!f) throw std::runtime_error("cannot write " + path);
    fwrite(data.data(), 1, data.size(), f);
    fclose(f);
}

inline int harness_main(const char* property, int argc, char** argv) {
    Ctx ctx;
    ctx.property = property;
    ctx.fresh_thread = fresh_thread_default();
    ctx.seq_mode = fresh_thread_default();
    std::string out_path, replay_path, only, trace_path;
    for (int i = 1; i < argc; ++i) {
        std::string a = argv[i];
        auto val = [&]() -> std::string { if (i + 1 >= argc) { fprintf(stderr, "missing value for %s\n", a.c_str()); exit(2); } return argv[++i]; };
        if (a == "--tier") ctx.tier = val();
        else if (a == "--seed") ctx.seed = strtoull(val().c_str(), nullptr, 0);
        else if (a == "--shard") { std::string v = val(); sscanf(v.c_str(), "%d/%d", &ctx.shard, &ctx.nshards); }
        else if (a == "--out") out_path = val();
        else if (a == "--replay") replay_path = val();
        else if (a == "--only") only = val();
        else if (a == "--trace") trace_path = val();
        else if (a == "--scale") ctx.scale = atof(val().c_str());
        else if (a == "--list") { for (auto& s : registry()) printf("%s\n", s.name.c_str()); return 0; }
        else { fprintf(stderr, "unknown argument %s\n", a.c_str()); return 2; }
    }
    if (const char* sc = getenv("VERIF_SCALE")) { if (*sc) ctx.scale = atof(sc); }

    if (!replay_path.empty()) {
        setenv("VK_REPLAY", "1", 1);   // schedule-dependent checks repeat the case in replay mode (see replay_rounds())
        Json r = Json::parse(read_file(replay_path));
        std::string sname = r.gets("subcheck");
        for (auto& s : registry()) {
            if (s.name != sname) continue;
            ctx.sub = &s;
            ctx.st = &ctx.stats[s.name];
            Out o = ctx.run_check(r.at("case"));
            if (o.failed) {
                printf("REPLAY-FAIL property=%s subcheck=%s sig=%s :: %s\n", property, sname.c_str(), o.sig.c_str(), o.msg.c_str());
                return 1;
            }
            printf("REPLAY-PASS property=%s subcheck=%s%s\n", property, sname.c_str(), o.discard ? " (premise not met)" : "");
            for (auto& l : o.labels) printf("  label: %s\n", l.c_str());
            return 0;
        }
        fprintf(stderr, "replay: unknown subcheck %s\n", sname.c_str());
        return 2;
    }

    if (!trace_path.empty()) ctx.trace_fd = open(trace_path.c_str(), O_CREAT | O_WRONLY | O_TRUNC, 0644);
    auto t_all = std::chrono::steady_clock::now();
    for (auto& s : registry()) {
        if (!only.empty() && only != s.name) continue;
        ctx.sub = &s;
        ctx.st = &ctx.stats[s.name];
        ctx.enum_index = 0;
        auto t0 = std::chrono::steady_clock::now();
        try {
            s.gen(ctx);
            ctx.flush();
        } catch (const std::exception& e) {
            ctx.note(std::string("harness-error: generator threw: ") + e.what());
            ctx.harness_errors++;
        }
        ctx.st->wall = std::chrono::duration<double>(std::chrono::steady_clock::now() - t0).count();
    }
    double wall = std::chrono::duration<double>(std::chrono::steady_clock::now() - t_all).count();

    Json j = Json::object();
    j.set("property", property).set("tier", ctx.tier).set("seed", (unsigned long long)ctx.seed).set("shard", ctx.shard).set("nshards", ctx.nshards);
    j.set("wall_s", wall).set("harness_errors", ctx.harness_errors);
    Json subs = Json::object();
    std::string keyblob;
    for (auto& s : registry()) {
        auto it = ctx.stats.find(s.name);
        if (it == ctx.stats.end()) continue;
        subs.set(s.name, stats_json(it->second));
        // keys side file: (subcheck-hash, key) pairs
        uint64_t sh = hash_str(s.name);
        for (uint64_t k : it->second.keys) {
            keyblob.append(reinterpret_cast<const char*>(&sh), 8);
            keyblob.append(reinterpret_cast<const char*>(&k), 8);
        }
    }
    j.set("subchecks", subs);
    if (!out_path.empty()) {
        write_file(out_path + ".keys", keyblob);
        write_file(out_path, j.dump());
    } else {
        for (auto& kv : ctx.stats) {
            printf("%-28s evals=%ld cases=%ld nontrivial=%zu discards=%ld failures=%ld wall=%.1fs\n", kv.first.c_str(), kv.second.evaluations,
                   kv.second.cases, kv.second.keys.size(), kv.second.discards, kv.second.failures, kv.second.wall);
            for (auto& h : kv.second.hist) printf("      %-40s %ld\n", h.first.c_str(), h.second);
            for (auto& h : kv.second.metrics) printf("      max %-36s %.4g\n", h.first.c_str(), h.second);
            for (auto& n : kv.second.notes) printf("      note: %s\n", n.c_str());
            for (auto& f : kv.second.fails) printf("      FAIL sig=%s%s :: %s\n           case=%s\n", f.sig.c_str(), f.shrunk ? " (shrunk)" : "", f.msg.c_str(), f.c.dump().c_str());
        }
    }
    return 0;
}

}   // namespace vk

#define VK_SUB(ident, name) \
    static void ident##_check(const vk::Json& c, vk::Out& o); \
    static void ident##_gen(vk::Ctx& ctx); \
    static vk::Reg ident##_reg(name, ident##_check, ident##_gen)

// every case of this harness runs in a fresh std::thread (pristine thread_local library state)
#define VK_FRESH_THREADS static vk::FreshThreadOn vk_fresh_thread_on

#define VK_MAIN(property) \
    int main(int argc, char** argv) { return vk::harness_main(property, argc, argv); }
