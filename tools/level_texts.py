#!/usr/bin/env python3
"""Adds level_text / level_note / technique to props/<ID>.json (the fields that make a property 'claimed')."""
import json, sys, os
V = os.path.dirname(os.path.dirname(os.path.abspath(__file__)))
T = {
"C02": dict(
 level_text="Every ifft length 1..1024 (quick) / 1..2048 (thorough) and every even irfft length 2..2048 in both input forms are enumerated against an O(n^2) long-double inverse DFT and as round trips; every odd n in 1..257 must be rejected by exception (forked child, also under ASan); rapidcheck lengths to 65536; STFT/ISTFT over the stated grid of nfft, 13 windows, every overlap accepted by iscola, 3 ranges x 2 methods and hop-misaligned lengths, judged against an a-priori bound built from the accumulated window weight recomputed in long double. Exploration: complete on the enumerated lengths/grid, sampled beyond.",
 level_note="Trusted: long-double reference DFT; the property's 'weight non-zero' is read as weight above 1e-9 of its maximum (the library flushes weights below nseg*eps to 1), finiteness is demanded everywhere.",
 technique="exhaustive length enumeration + rapidcheck vs long-double inverse DFT, round-trip and weight-bound oracle"),
"C03": dict(
 level_text="Exhaustive operator matrix (every admitted operator x operand-type x scalar-type x side combination, lengths 0..64 and sampled to 1e4, mismatched lengths, aliasing) plus rapidcheck-generated typed expression programs of depth <= 6 executed node by node on the real operators and compared with a scalar interpreter over std::complex<long double> carrying a running error bound; value-semantics checks (operands bit-identical afterwards, copies independent) and exact selection/concatenation checks. Exploration: complete on the operator matrix for small lengths, sampled for programs.",
 level_note="Trusted: the long-double scalar interpreter with per-node error bounds; magnitudes restricted to 1e-100..1e100 as the property states.",
 technique="exhaustive operator matrix + rapidcheck expression programs vs scalar reference interpreter (differential)"),
"C06": dict(
 level_text="Metamorphic check over generated framings: for each of 26 streaming processor variants and a parameter grid, every composition of k <= 10 (quick) / 12 (thorough) granules is enumerated and heavy-tailed random framings of streams up to 1e5 samples are drawn by rapidcheck; the concatenated framed output must equal the single-call output of a fresh instance (all result members; |d| <= 1e-12 max|out|, in practice bit-identical), and interleaved instances must equal their solo runs. Exploration, complete on the enumerated compositions.",
 level_note="Trusted: determinism of each processor per sample; granule = 1 sample or M input samples as documented.",
 technique="exhaustive framing compositions + rapidcheck framings, metamorphic relation (framing invariance, instance independence)"),
"C07": dict(
 level_text="Generated coefficient vectors and inputs (rapidcheck, lengths 2..1024 / 0..1e5, structured classes) compared with the defining sums evaluated in long double under a-priori forward-error bounds; FFT-based filter additionally against the direct filter's prefix in block multiples; xcorr for every length pair (n1,n2) in 1..48^2 exhaustively against the lag definition; moving average against the n-tap 1/n FIR. Exploration.",
 level_note="Trusted: long-double convolution/correlation sums; the library's documented convention that complex coefficients are applied conjugated.",
 technique="rapidcheck + exhaustive length pairs vs long-double defining sums"),
"C08": dict(
 level_text="All reduced L/M with L,M in 1..16 plus audio ratios are enumerated for the four converter classes with default and random exactly-symmetric filters; each output stream is compared with a long-double zero-stuff/filter/decimate chain at ONE phase (found on a probe, then asserted on other inputs, frames and a second filter), with output counts, frame rejection with unchanged stream position, next/prev_size; resample(): size law, identity for p=q, no exception for any ratio, and alignment |tau| <= 1.05 output samples from a least-squares fit on closed-form multi-tone signals. Exploration, complete on the ratio grid.",
 level_note="Trusted: long-double chain reference; for the decimator the chain is built on the reversed filter (identical for the linear-phase premise). The 2 % residual bound of the alignment sub-check is this design's quantification of 'approximating'; the four ratios with 5p<q, p>1 use 20 %.",
 technique="exhaustive ratio grid + rapidcheck vs long-double polyphase-free chain reference; metamorphic alignment fit"),
"C11": dict(
 level_text="fir1: every order 2..256 on a 0.01 cut-off grid for all four types plus rapidcheck orders to 2000 and custom windows: length, symmetry, DC/Nyquist gain and (when the stated precondition holds) the Hamming-design masks on a 512/4096-point long-double response grid; wrong window lengths must throw. Windows: every length 3..512 plus sampled lengths to 1e5 for eight families against long-double closed forms (Kaiser via a converged I0 series), range, symmetry and periodic = symmetric(n+1) prefix. Exploration, complete on the enumerated orders/lengths.",
 level_note="Trusted: long-double closed forms; Kaiser tolerance 32 eps (1 + beta w/4) (conditioning of beta*sqrt(1-x^2) in double), everything else as in DESIGN C11.",
 technique="exhaustive order/length enumeration + rapidcheck vs closed-form long-double oracles and response masks"),
"C12": dict(
 level_text="rapidcheck-generated adaptive-filter scenarios (LMS/NLMS/RLS, real and complex, lengths 2..64, step sizes/leakage/forgetting/diagonal loads over the stated ranges, random unknown systems, lock schedules and framings) checked against: exact e = d - y; a-priori output from coeffs() read before each sample; lock semantics; long-double textbook recursions over short horizons; convergence with theory-derived horizons; and the batch exponentially weighted regularised least-squares solution (long-double Cholesky) for real RLS. Exploration.",
 level_note="Trusted: long-double reference recursions and Cholesky solver; convergence horizons from the standard NLMS/RLS bias formulas (DESIGN C12).",
 technique="rapidcheck scenarios vs long-double reference recursions and batch least-squares oracle"),
"C13": dict(
 level_text="Generated nfft/window/overlap/scaling/signal combinations (rapidcheck + grids of tone frequencies finer than the bin spacing) compared with a long-double Welch estimator by definition, the exact power identity, the power-scaling peak with computed leakage bound, frequency-axis shape and tone labelling (ties accepted), mscohere range and scaled-copy identity. The one unrepaired defect (complex pxx in FFT order vs centred f) is reported by a dedicated sub-check as a known finding; all other complex-input checks run behind it in FFT order. Exploration.",
 level_note="Trusted: long-double Welch reference; real tones kept >= 1.5 bins from DC/Nyquist and half-bin ties accepted (DESIGN C13).",
 technique="rapidcheck + frequency grids vs long-double Welch reference and exact power identities"),
"C14": dict(
 level_text="hilbert: every length 3..512 (quick) / 3..4096 (thorough) x 11 input classes against the long-double DFT of the output (real part, negative bins, DC/Nyquist, positive bins) and bit-exact pad/truncate; HilbertFilter: every length 31..401 on a transition-width grid, exact delayed real part and 90-degree imaginary part within 1e-3 A across the stated band; Tuner: rapidcheck fs 8..1e5, ten classes of f, streams of 2-6 fs samples with arbitrary framing against the long-double product. Exploration, complete on the enumerated lengths.",
 level_note="Trusted: long-double DFT and oscillator references; constants 128 (real part) and 8 eps (tuner) instead of DESIGN's 64 / 4 to keep a 4x calibrated margin.",
 technique="exhaustive length enumeration + rapidcheck vs long-double DFT / oscillator oracles"),
"C16": dict(
 level_text="sort/median/MedianFilter/medfilt: exhaustive small words and permutations, every length to 2000 over 14 content classes, streams of 1e4 samples for every order 3..64 with arbitrary framing, compared exactly with brute-force references (ordering, permutation, selection); corr: all pairs of permutations of length <= 5, all permutations <= 7 against the identity and rapidcheck samples to n = 2000 against O(n^2) long-double definitions, symmetry, range and +-1 on monotone relations. Exploration, complete on the enumerated small spaces.",
 level_note="Trusted: brute-force sort/median references and O(n^2) rank statistics; tie-free data by construction for corr; Pearson under an a-priori forward-error bound.",
 technique="exhaustive small-space enumeration + rapidcheck vs brute-force / O(n^2) definitional oracles"),
"C17": dict(
 level_text="Per-function generated arguments (special points, axes, log-uniform magnitudes 1e-100..1e100, integer and fractional exponents, lengths 1..1000) compared with long-double definitions under stated rounding-unit tolerances; exhaustive shape checks (upsample/downsample n<=12, linspace 1..100, integer arange for every start/stop/step in [-12,12], repelem, flip, zeropad, delayseq, cumsum) and exact round trips of the inverse pairs. Exploration, complete on the enumerated shape spaces.",
 level_note="Trusted: long-double libm as reference; in-domain arguments only (poles and branch cuts handled as stated in DESIGN C17).",
 technique="rapidcheck + exhaustive shape enumeration vs long-double definitional oracles, round-trip relations"),
"C18": dict(
 level_text="Generated white signals (Gaussian, uniform, +-1; real and complex) with every shift in [-len/4, len/4] for the short lengths and sampled shifts/lengths/noise levels beyond; the statistical premise (linear cross-correlation peak at d at least 4x every other lag) is established on the long-double reference side before finddelay / gccphat are asserted; delayseq exact; real peakloc against the parabola vertex; PreambleDetector with Zadoff-Chu / PN preambles at every offset modulo the frame length, premise established by a brute-force reference of the documented statistic. Exploration.",
 level_note="Trusted: long-double correlation reference and detector statistic; the parabola clause is claimed for the real peakloc overload only (the complex overload is Jacobsen's DFT-bin interpolator by design).",
 technique="rapidcheck + exhaustive shifts/offsets with reference-side premise checks (differential vs brute-force correlation)"),
"C19": dict(
 level_text="awgn: generated SNRs, powers and lengths with six-standard-error bands on mean, power, lag autocorrelation and kurtosis of the injected noise (library RNG seeded per case, hence deterministic); thd/sinad/snr on constructed multi-harmonic tones with known ratios and scale invariance; replay of interleaved generator call sequences after rng(seed) bit for bit, randi bounds. Exploration with statistical acceptance bands.",
 level_note="Trusted: the constructed signal's analytic ratios; 6-sigma bands mean a bias below ~0.8 % at n = 1e6 is not detected.",
 technique="rapidcheck with statistical acceptance bands, constructed-signal oracles, replay (metamorphic) for RNG"),
"C20": dict(
 level_text="Generated parameter points (thresholds, ratios, knees, time constants, sample rates) with level sweeps on a 0.01 dB grid around the knee against the static curves (1e-8 dB), continuity/monotonicity, gain range on arbitrary signals, limiter ceiling, smoothing law on level steps, noise-gate hold, AGC steady state and max-gain clamp (incl. burst-then-silence). Exploration.",
 level_note="Trusted: closed-form static characteristics and first-order smoothing law as documented in the headers.",
 technique="rapidcheck + level-sweep grids vs closed-form static-curve and smoothing-law oracles, invariants over histories"),
}
for k in sys.argv[1:]:
    p = os.path.join(V, "props", k + ".json")
    j = json.load(open(p))
    j.update(T[k])
    json.dump(j, open(p, "w"), indent=1)
    print("claimed", k)
