// C18  Delay estimators and the preamble detector recover the true offset.
//
// Sub-checks
//   delayseq          delayseq(x, d) == x shifted by exactly d samples with zero fill (bit-exact; real and complex)
//   delay_exhaustive  lengths 128, 129, 200 x EVERY d in [-len/4, len/4] x {real, complex} x {noiseless, noisy}
//   delay_sampled     lengths 128..5000, sampled d (ends of the admissible range, small, uniform), fs in 1..48000
//                     both: finddelay(x, delayseq(x, d)) == d ; |gccphat(y, x, fs).tau * fs - d| <= 0.5 (both overloads)
//   peakloc_real      vertex of the parabola through (idx-1, idx, idx+1) within 1e-9, cyclic and not, edge indices
//   peakloc_cmplx     see the note at the sub-check (the complex overload is a different interpolator)
//   detector_offsets  a few (preamble, threshold) configurations x EVERY offset modulo frame_len() x call framing
//   detector_random   preambles 16..512 (Zadoff-Chu, chirp, +-1 PN, m-sequence, QPSK PN), thr 0.3..0.9, 70 dB of amplitude
//   detector_absent   streams without the preamble (noise only, or another sequence of the same family): nothing reported
//
// All statistical premises are established on the reference side (long double, brute force) before the library is asked:
//   delay:    the exact LINEAR cross-correlation of the generated pair peaks at lag d with |c[d]| >= 4 |c[l]| for all l != d
//   detector: the matched-filter statistic of detector.h exceeds 1.05 thr at the preamble's last sample, lies in [0.96, 1] there,
//             and stays below thr / 1.05 at every other sample of the stream
// otherwise the content is regenerated from the next sub-seed (bounded, counted by the label retries:*).
#include "kit/num.h"
#include "kit/prelude.h"
#include <dsplib.h>
#include <dsplib/detector.h>
#include <dsplib/gccphat.h>

#include <cstring>

using namespace vk;
using namespace dsplib;

namespace {

inline bool same_bits(double a, double b) { return a == b || (std::isnan(a) && std::isnan(b)); }   // -0 == +0
inline bool same_bits(const cmplx_t& a, const cmplx_t& b) { return same_bits(a.re, b.re) && same_bits(a.im, b.im); }

inline double zero_of(const double&) { return 0.0; }
inline cmplx_t zero_of(const cmplx_t&) { return cmplx_t{0, 0}; }
inline arr_cmplx ones_c(int n) {
    arr_cmplx r(n);
    for (int i = 0; i < n; ++i) r[i] = cmplx_t{1, 0};
    return r;
}

inline ld mag(ld v) { return fabsl(v); }
inline ld mag(const cld& v) { return std::abs(v); }
inline ld cjg(ld v) { return v; }
inline cld cjg(const cld& v) { return std::conj(v); }

const char* sign_class(int d) { return d < 0 ? "d<0" : d > 0 ? "d>0" : "d=0"; }

// ------------------------------------------------------------------------------------------- white signals
enum { W_GAUSS = 0, W_UNIFORM, W_BINARY, W_NCLS };
const char* white_name(int c) { return c == W_GAUSS ? "gauss" : c == W_UNIFORM ? "uniform" : "binary"; }
double white_sample(Rng& r, int cls) {
    switch (cls) {
    case W_UNIFORM: return r.uni(-1.0, 1.0) * 1.7320508075688772;   // unit variance
    case W_BINARY: return r.coin() ? 1.0 : -1.0;
    default: return r.gauss();
    }
}

// c[l] = sum_i y[i] conj(x[i-l]),  l in -(n-1)..(n-1): peak (at l = d) and the largest other magnitude
template<class T>
void lin_xcorr_peak(const std::vector<T>& x, const std::vector<T>& y, int d, ld& peak, ld& other) {
    const int n = int(x.size());
    peak = 0;
    other = 0;
    for (int l = -(n - 1); l <= n - 1; ++l) {
        const int lo = std::max(0, l), hi = std::min(n, n + l);
        T s = 0;
        for (int i = lo; i < hi; ++i) s += y[size_t(i)] * cjg(x[size_t(i - l)]);
        const ld m = mag(s);
        if (l == d) peak = m;
        else if (m > other) other = m;
    }
}

// true if a DFT bin of low order r = n/gcd(n,k) <= 16 vanishes.  Integer-valued data (+-1 white sequences) can make such a bin EXACTLY zero
// (zero sum, zero alternating sum, ...: twiddles of order 1,2,3,4,6 are exact or pair up); bins of higher order need >= 8 independent
// integer sums to vanish at once and continuous data never do.  gccphat's phase transform divides by |bin|: the class is labelled so
// that its coverage is visible and a NaN there gets the signature "gccphat:nan:zero-spectral-bin".
bool has_zero_low_order_bin(const std::vector<ld>& v) {
    const int n = int(v.size());
    ld vmax = 0;
    for (ld a : v) vmax = std::max(vmax, fabsl(a));
    if (vmax == 0) return true;
    for (int r = 1; r <= 16; ++r) {
        if (n % r) continue;
        std::vector<cld> tw(static_cast<size_t>(r));
        for (int q = 0; q < r; ++q) { const ld a = 2 * PI_L * ld(q) / ld(r); tw[size_t(q)] = cld(cosl(a), -sinl(a)); }
        for (int j = 0; j < r; ++j) {
            int g = j, b = r;
            while (b) { int t = g % b; g = b; b = t; }
            if (g != 1 && !(r == 1 && j == 0)) continue;
            cld acc = 0;
            for (int m = 0; m < n; ++m) acc += v[size_t(m)] * tw[size_t((int64_t(m) * j) % r)];
            if (std::abs(acc) <= 1e-9L * vmax * sqrtl(ld(n))) return true;
        }
    }
    return false;
}

// ------------------------------------------------------------------------------------------- delay estimators
// case: kind (0 real, 1 complex), n, d, cls (white class), noise (0 none, 1 on the delayed copy, 2 on both), snr (dB >= 30),
//       fs, ch2 (real only: also a second channel delayed by -d through the multi-channel overload), seed
struct DelayPair
{
    arr_real xr, yr, y2r;
    arr_cmplx xc, yc;
    bool zero_bin{false};
};

bool make_delay_pair(const Json& c, uint64_t sub, DelayPair& p, Out& o, double& ratio) {
    const int kind = c.geti("kind"), n = c.geti("n"), d = c.geti("d"), cls = c.geti("cls"), noise = c.geti("noise");
    const bool ch2 = kind == 0 && c.geti("ch2", 0) != 0;
    const double sigma = noise ? std::pow(10.0, -c.getd("snr") / 20.0) : 0.0;   // signal has unit variance per component
    Rng r(mix(c.getu("seed"), sub));
    auto shifted_ok = [&](auto& y, auto& x, int dd, const char* what) {
        // the library's delayseq is the operation named by the property; it must be the exact zero-filled shift
        if (y.size() != n) { o.fail("delayseq:size", fmt("delayseq(%s[%d], %d) has %d samples", what, n, dd, y.size())); return false; }
        for (int i = 0; i < n; ++i) {
            const int j = i - dd;
            const bool in = j >= 0 && j < n;
            if (!(in ? same_bits(y[i], x[j]) : same_bits(y[i], zero_of(x[0])))) {
                o.fail("delayseq:value", fmt("delayseq(%s[%d], %d)[%d] is not %s", what, n, dd, i, in ? "x[i-d]" : "0"));
                return false;
            }
        }
        return true;
    };
    if (kind == 0) {
        arr_real x(n);
        for (int i = 0; i < n; ++i) x[i] = white_sample(r, cls);
        arr_real y = delayseq(x, d);
        if (!shifted_ok(y, x, d, "real")) return false;
        arr_real y2 = ch2 ? delayseq(x, -d) : arr_real(n);
        if (ch2 && !shifted_ok(y2, x, -d, "real")) return false;
        if (noise >= 1) for (int i = 0; i < n; ++i) { y[i] += sigma * r.gauss(); if (ch2) y2[i] += sigma * r.gauss(); }
        if (noise == 2) for (int i = 0; i < n; ++i) x[i] += sigma * r.gauss();
        std::vector<ld> xl = to_ld(x), yl = to_ld(y);
        ld pk, ot;
        lin_xcorr_peak(xl, yl, d, pk, ot);
        bool ok = pk >= 4 * ot && pk > 0;
        ratio = ot > 0 ? double(pk / ot) : 1e300;
        if (ok && ch2) {
            std::vector<ld> y2l = to_ld(y2);
            lin_xcorr_peak(xl, y2l, -d, pk, ot);
            ok = pk >= 4 * ot && pk > 0;
            if (ot > 0) ratio = std::min(ratio, double(pk / ot));
        }
        p.xr = x; p.yr = y; p.y2r = y2;
        if (ok) p.zero_bin = has_zero_low_order_bin(xl) || has_zero_low_order_bin(yl) || (ch2 && has_zero_low_order_bin(to_ld(y2)));
        return ok;
    }
    arr_cmplx x(n);
    for (int i = 0; i < n; ++i) { x[i].re = white_sample(r, cls); x[i].im = white_sample(r, cls); }
    arr_cmplx y = delayseq(x, d);
    if (!shifted_ok(y, x, d, "complex")) return false;
    if (noise >= 1) for (int i = 0; i < n; ++i) { y[i].re += sigma * r.gauss(); y[i].im += sigma * r.gauss(); }
    if (noise == 2) for (int i = 0; i < n; ++i) { x[i].re += sigma * r.gauss(); x[i].im += sigma * r.gauss(); }
    ld pk, ot;
    lin_xcorr_peak(to_cld(x), to_cld(y), d, pk, ot);
    ratio = ot > 0 ? double(pk / ot) : 1e300;
    p.xc = x; p.yc = y;
    return pk >= 4 * ot && pk > 0;
}

void delay_check_impl(const Json& c, Out& o) {
    const int kind = c.geti("kind"), n = c.geti("n"), d = c.geti("d"), fs = c.geti("fs");
    const bool ch2 = kind == 0 && c.geti("ch2", 0) != 0;
    const int max_retry = n <= 400 ? 400 : 24;
    DelayPair p;
    int k = 0;
    double ratio = 0;
    bool ok = false;
    for (; k < max_retry; ++k) {
        ok = make_delay_pair(c, uint64_t(k), p, o, ratio);
        if (o.failed) return;
        if (ok) break;
    }
    if (!ok) { o.discard = true; return; }
    o.label(k == 0 ? "retries:0" : k < 4 ? "retries:1-3" : k < 16 ? "retries:4-15" : k < 64 ? "retries:16-63" : "retries:64+");
    o.metric("premise 4/(peak/other)", 4.0 / ratio);
    const char* sc = sign_class(d);
    o.evals = 1;
    if (kind == 0) {
        const int got = finddelay(p.xr, p.yr);
        if (got != d) o.fail(std::string("finddelay:real:") + sc, fmt("finddelay(x, delayseq(x, %d)) = %d for real x[%d] (sub-seed %d, xcorr peak/other %.2f)", d, got, n, k, ratio));
        // gccphat(sig = delayed copy, refsig = x) is the order that yields +d
        auto chk_tau = [&](double tau, int dd, const char* form) {
            const ld e = fabsl(ld(tau) * ld(fs) - ld(dd));
            o.metric("gccphat |tau*fs-d|/0.5", std::isfinite(tau) ? double(e / 0.5L) : 1e300);
            if (!(e <= 0.5L)) o.fail(std::string("gccphat:") + form + ":" + sign_class(dd), fmt("%s: tau*fs = %.6Lg for shift %d, real x[%d], fs=%d (tau=%.17g, sub-seed %d)", form, ld(tau) * fs, dd, n, fs, tau, k));
        };
        // +-1 white data can make a DFT bin exactly zero; the PHAT weighting used to divide 0/0 there (fixed in /repo 613a6af,
        // regression replay regress-gccphat-zero-bin.json).  The class stays an ordinary, asserted input class.
        if (p.zero_bin) o.label("class:exactly-zero-spectral-bin");
        auto g = gccphat(p.yr, p.xr, fs);
        if (p.zero_bin && std::isnan(g.tau)) o.fail("gccphat:nan:zero-spectral-bin", fmt("gccphat(y, x).tau is NaN: a DFT bin of the +-1 data is exactly zero (real x[%d], shift %d, sub-seed %d)", n, d, k));
        chk_tau(g.tau, d, "single");
        o.evals += 1;
        if (ch2) {
            auto gm = gccphat(std::vector<arr_real>{p.yr, p.y2r}, p.xr, fs);
            if (gm.tau.size() != 2) o.fail("gccphat:multi:size", fmt("2 channels gave %d delays", gm.tau.size()));
            else {
                if (p.zero_bin && (std::isnan(gm.tau[0]) || std::isnan(gm.tau[1]))) o.fail("gccphat:nan:zero-spectral-bin", fmt("gccphat({y, y2}, x).tau has NaN: a DFT bin of the +-1 data is exactly zero (real x[%d], shift %d, sub-seed %d)", n, d, k));
                chk_tau(gm.tau[0], d, "multi[0]");
                chk_tau(gm.tau[1], -d, "multi[1]");
            }
            o.evals += 2;
            o.label("gccphat:two-channel");
        }
    } else {
        const int got = finddelay(p.xc, p.yc);
        if (got != d) o.fail(std::string("finddelay:cmplx:") + sc, fmt("finddelay(x, delayseq(x, %d)) = %d for complex x[%d] (sub-seed %d, xcorr peak/other %.2f)", d, got, n, k, ratio));
    }
    if (d < 0 || std::abs(d) > n / 8 || kind == 1) o.nontrivial(key_of(kind, n, d));
    o.label(std::string("data:") + (kind ? "complex" : "real") + ":" + white_name(c.geti("cls")));
    o.label(std::string("shift:") + sc);
    o.label(c.geti("noise") == 0 ? "noise:none" : c.geti("noise") == 1 ? "noise:on-copy" : "noise:on-both");
    if (std::abs(d) == n / 4) o.label("shift:at-limit");
    if ((n & (n - 1)) == 0) o.label("len:pow2(no-padding)");
}

}   // namespace

// ------------------------------------------------------------------------------------------- delayseq
VK_SUB(dseq, "delayseq");
static void dseq_check(const Json& c, Out& o) {
    const int kind = c.geti("kind"), n = c.geti("n"), d = c.geti("d");
    Rng r(c.getu("seed"));
    auto val = [&]() {
        // mostly gaussian, some exact zeros / negative zeros / huge / tiny values: a copy must preserve them all
        const int t = r.range(0, 15);
        return t == 0 ? 0.0 : t == 1 ? -0.0 : t == 2 ? r.gauss() * 1e300 : t == 3 ? r.gauss() * 1e-310 : r.gauss();
    };
    auto run = [&](auto x, const char* what) {
        using A = decltype(x);
        for (int i = 0; i < n; ++i) {
            if constexpr (std::is_same_v<A, arr_real>) x[i] = val();
            else { x[i].re = val(); x[i].im = val(); }
        }
        const A x0 = x;
        const A y = delayseq(x, d);
        if (y.size() != n) { o.fail("delayseq:size", fmt("delayseq(%s[%d], %d) has %d samples", what, n, d, y.size())); return; }
        for (int i = 0; i < n; ++i) {
            const int64_t j = int64_t(i) - d;
            const bool in = j >= 0 && j < n;
            const bool good = in ? same_bits(y[i], x0[int(j)]) : same_bits(y[i], zero_of(x0[0]));
            if (!good) {
                o.fail(std::string("delayseq:value:") + sign_class(d), fmt("delayseq(%s[%d], %d)[%d] is not %s", what, n, d, i, in ? "x[i-d]" : "zero fill"));
                return;
            }
            if (!same_bits(x[i], x0[i])) { o.fail("delayseq:input-modified", fmt("delayseq(%s[%d], %d) changed its argument at %d", what, n, d, i)); return; }
        }
    };
    if (kind == 0) run(arr_real(n), "real");
    else run(arr_cmplx(n), "complex");
    if (d != 0 && std::abs(int64_t(d)) < n) o.nontrivial(key_of(kind, n, d));
    o.label(d == 0 ? "d=0" : std::abs(int64_t(d)) >= n ? "|d|>=n (all zero)" : d > 0 ? "delay" : "advance");
    o.label(kind ? "complex" : "real");
}
static void dseq_gen(Ctx& ctx) {
    const int top = ctx.by_tier(48, 128);
    for (int n = 1; n <= top; ++n)
        for (int d = -n - 3; d <= n + 3; ++d)
            for (int kind = 0; kind < 2; ++kind) {
                if (!ctx.mine()) continue;
                ctx.eval(Json::object().set("kind", kind).set("n", n).set("d", d).set("seed", (long long)(mix(ctx.seed, key_of(n, d, kind)) >> 16)));
            }
    ctx.rc("random", ctx.by_tier(60000, 400000), [&]() {
        const int n = pick_log(1, 5000);
        const int dc = pick(0, 3);
        int d = dc == 0 ? pick(-n / 4, n / 4) : dc == 1 ? pick(-n - 5, n + 5) : dc == 2 ? one_of<int>({n - 1, 1 - n, n, -n, 1, -1}) : one_of<int>({1 << 30, -(1 << 30), 100000, -100000});
        return Json::object().set("kind", pick(0, 1)).set("n", n).set("d", d).set("seed", (long long)seed64());
    });
}

// ------------------------------------------------------------------------------------------- finddelay / gccphat
VK_SUB(dex, "delay_exhaustive");
static void dex_check(const Json& c, Out& o) { delay_check_impl(c, o); }
static void dex_gen(Ctx& ctx) {
    // every shift for the shortest signals; thorough adds more lengths (incl. 256 = power of two: finddelay does not pad at all)
    std::vector<int> lens = {128, 129, 200};
    if (ctx.thorough()) for (int n : {130, 131, 160, 255, 256, 257, 300}) lens.push_back(n);
    const int reps = ctx.by_tier(8, 16);
    for (int n : lens)
        for (int d = -(n / 4); d <= n / 4; ++d)
            for (int kind = 0; kind < 2; ++kind)
                for (int noise = 0; noise < 3; ++noise)
                    for (int rep = 0; rep < reps; ++rep) {
                        if (!ctx.mine()) continue;
                        const uint64_t h = mix(ctx.seed, key_of(n, d, kind, noise, rep));
                        Rng r(h);
                        const int cls = rep == 0 ? W_GAUSS : r.range(0, W_NCLS - 1);
                        const double snr = 30.0 + (rep == 0 ? 0.0 : r.uni(0.0, 50.0));
                        // fs: log-uniform over 1..48000, ends included
                        const int fsc = r.range(0, 9);
                        const int fs = fsc == 0 ? 1 : fsc == 1 ? 48000 : std::max(1, std::min(48000, int(std::lround(std::pow(48000.0, r.uni())))));
                        ctx.eval(Json::object().set("kind", kind).set("n", n).set("d", d).set("cls", cls).set("noise", noise).set("snr", snr).set("fs", fs)
                                   .set("ch2", kind == 0 && (rep & 1) ? 1 : 0).set("seed", (long long)(h >> 16)));
                    }
}

VK_SUB(dsm, "delay_sampled");
static void dsm_check(const Json& c, Out& o) { delay_check_impl(c, o); }
static void dsm_gen(Ctx& ctx) {
    ctx.rc("random", ctx.by_tier(20000, 170000), [&]() {
        // length: half the cases log-uniform over 128..5000, the rest biased to short and to power-of-two neighbourhoods
        const int lc = pick(0, 3);
        int n;
        if (lc <= 1) n = int(std::lround(128.0 * std::pow(5000.0 / 128.0, pickd(0.0, 1.0))));
        else if (lc == 2) n = pick_log(128, 5000);
        else n = one_of<int>({256, 512, 1024, 2048, 4096}) + pick(-2, 2);
        n = std::max(128, std::min(5000, n));
        const int q = n / 4;
        const int dc = pick(0, 3);
        int d;
        if (dc == 0) d = pick(-q, q);
        else if (dc == 1) d = one_of<int>({-q, q, -q + 1, q - 1});
        else if (dc == 2) d = pick(-3, 3);
        else d = (flip() ? 1 : -1) * pick(q / 2, q);
        const int noise = pick(0, 2);
        const int kind = pick(0, 1);
        return Json::object().set("kind", kind).set("n", n).set("d", d).set("cls", pick(0, W_NCLS - 1)).set("noise", noise).set("snr", 30.0 + pickd(0.0, 50.0))
          .set("fs", flip() ? pick_log(1, 48000) : one_of<int>({1, 2, 8000, 44100, 48000})).set("ch2", kind == 0 ? pick(0, 1) : 0).set("seed", (long long)seed64());
    });
}

// ------------------------------------------------------------------------------------------- peakloc (real)
namespace {
// fills x[n] with junk and plants the triple (yl, yk, yr) around idx (cyclic neighbours); returns false if idx has no neighbours
struct Triple { double yl, yk, yr; };
Triple make_triple(Rng& r, int cls, double scale) {
    // cls 0 peak, 1 valley, 2 monotone with curvature, 3 peak on a pedestal (common offset up to 1e3), 4 nearly symmetric peak
    Triple t{};
    const double a1 = r.uni(0.02, 1.0), a2 = r.uni(0.02, 1.0);
    const double yk = r.gauss();
    switch (cls) {
    case 1: t = {yk + a1, yk, yk + a2}; break;
    case 2: { double lo = std::min(a1, a2), hi = std::max(a1, a2) + 0.1; t = r.coin() ? Triple{yk - lo, yk, yk + hi} : Triple{yk + hi, yk, yk - lo}; break; }
    case 3: { double off = r.logmag(0, 3) * (r.coin() ? 1 : -1); t = {off + yk - a1, off + yk, off + yk - a2}; break; }
    case 4: { double e = a1 * r.logmag(-6, -2); t = {yk - a1, yk, yk - a1 - e}; break; }
    default: t = {yk - a1, yk, yk - a2};
    }
    t.yl *= scale; t.yk *= scale; t.yr *= scale;
    return t;
}
const char* triple_name(int cls) {
    static const char* n[] = {"peak", "valley", "monotone", "pedestal", "near-symmetric"};
    return n[cls];
}
}   // namespace

VK_SUB(pkr, "peakloc_real");
static void pkr_check(const Json& c, Out& o) {
    const int n = c.geti("n"), idx = c.geti("idx"), cls = c.geti("cls");
    const bool cyclic = c.geti("cyclic") != 0;
    Rng r(c.getu("seed"));
    const double scale = std::pow(10.0, c.getd("scale_e"));
    arr_real x(n);
    for (int i = 0; i < n; ++i) x[i] = r.gauss() * 1e6 * scale;   // anything outside the triple must not matter
    const Triple t = make_triple(r, cls, scale);
    const bool edge = idx == 0 || idx == n - 1;
    if (!cyclic && edge) {
        // no three samples around idx: outside the property's domain; exercised, not asserted
        (void)peakloc(x, idx, false);
        o.label("outside-domain:non-cyclic-edge");
        return;
    }
    const int il = (idx - 1 + n) % n, ir = (idx + 1) % n;
    x[il] = t.yl; x[idx] = t.yk; x[ir] = t.yr;
    const ld yl = x[il], yk = x[idx], yr = x[ir];
    const ld curv = yl - 2 * yk + yr;   // 2a
    if (curv == 0) { o.discard = true; return; }
    const ld v = (yl - yr) / (2 * curv);
    const ld ref = ld(idx) + v;
    // conditioning guard: forward error of the quotient in double arithmetic, must stay below tol/4 for the case to count
    const ld M = std::max(fabsl(yl), std::max(fabsl(yk), fabsl(yr)));
    const ld bound = 16 * EPS * M / fabsl(curv) * (1 + fabsl(v)) + 4 * EPS * (ld(idx) + fabsl(v) + 1);
    const ld tol = 1e-9L;
    if (bound > tol / 4) { o.label("excluded:ill-conditioned-triple"); o.discard = true; return; }
    const double got = peakloc(x, idx, cyclic);
    const ld e = fabsl(ld(got) - ref);
    o.metric("peakloc err/tol", std::isfinite(got) ? double(e / tol) : 1e300);
    o.metric("peakloc a-priori bound/tol", double(bound / tol));
    if (!(e <= tol))
        o.fail(std::string("peakloc:real:") + (edge ? "cyclic-edge" : "interior"),
               fmt("peakloc(x[%d], %d, %s) = %.17g, vertex of the parabola through (%.17Lg, %.17Lg, %.17Lg) is %.17Lg (|diff| %.3Lg > 1e-9)", n, idx, cyclic ? "cyclic" : "non-cyclic", got, yl, yk, yr, ref, e));
    if (yl != yr) o.nontrivial(key_of(n, idx, int(cyclic), cls, int(c.getd("scale_e"))));
    o.label(std::string("triple:") + triple_name(cls));
    o.label(edge ? (idx == 0 ? "idx:0 (wraps to n-1)" : "idx:n-1 (wraps to 0)") : "idx:interior");
    o.label(cyclic ? "cyclic" : "non-cyclic");
}
static void pkr_gen(Ctx& ctx) {
    for (int n : {3, 4, 5, 8, 64, 1000, 5000})
        for (int idx : {0, 1, n / 2, n - 2, n - 1})
            for (int cyclic = 0; cyclic < 2; ++cyclic)
                for (int cls = 0; cls < 5; ++cls)
                    for (int rep = 0; rep < ctx.by_tier(8, 32); ++rep) {
                        if (!ctx.mine()) continue;
                        ctx.eval(Json::object().set("n", n).set("idx", idx).set("cyclic", cyclic).set("cls", cls).set("scale_e", rep == 0 ? 0.0 : double((rep * 37) % 201 - 100))
                                   .set("seed", (long long)(mix(ctx.seed, key_of(n, idx, cyclic, cls, rep)) >> 16)));
                    }
    ctx.rc("random", ctx.by_tier(200000, 1500000), [&]() {
        const int n = pick_log(3, 5000);
        const int ic = pick(0, 3);
        const int idx = ic == 0 ? 0 : ic == 1 ? n - 1 : pick(0, n - 1);
        return Json::object().set("n", n).set("idx", idx).set("cyclic", pick(0, 1)).set("cls", pick(0, 4)).set("scale_e", double(pick(-100, 100))).set("seed", (long long)seed64());
    });
}

// ------------------------------------------------------------------------------------------- peakloc (complex)
// lib/utils.cpp: peakloc(arr_cmplx) returns idx - Re((x[r]-x[l]) / (2x[k]-x[l]-x[r])): Jacobsen's DFT-bin interpolator, a deliberately
// different algorithm.  (The vertex of a parabola a t^2 + b t + c through three complex samples would be idx + ratio/2: opposite sign,
// half the size; e.g. complex({1,3,2}), idx 1 gives 0.667 where the real overload gives the vertex 1.1667.)  The property's
// parabola clause is therefore read as a claim about the real overload (coordinator's decision, see the report).  What is checked here
// is the part that holds for any three-point interpolator: equal neighbours put the extremum exactly at idx, with the same cyclic
// index arithmetic.  General complex triples are generated, exercised and counted as excluded, never asserted.
VK_SUB(pkc, "peakloc_cmplx");
static void pkc_check(const Json& c, Out& o) {
    const int n = c.geti("n"), idx = c.geti("idx"), mode = c.geti("mode");
    const bool cyclic = c.geti("cyclic") != 0;
    Rng r(c.getu("seed"));
    arr_cmplx x(n);
    for (int i = 0; i < n; ++i) { x[i].re = r.gauss() * 1e6; x[i].im = r.gauss() * 1e6; }
    const bool edge = idx == 0 || idx == n - 1;
    if (!cyclic && edge) { (void)peakloc(x, idx, false); o.label("outside-domain:non-cyclic-edge"); return; }
    const int il = (idx - 1 + n) % n, ir = (idx + 1) % n;
    const cmplx_t yk{r.gauss(), r.gauss()};
    const cmplx_t yl{yk.re - r.uni(0.05, 1.0), yk.im + r.gauss()};
    const cmplx_t yr = mode == 0 ? yl : cmplx_t{yk.re - r.uni(0.05, 1.0), yk.im + r.gauss()};
    x[il] = yl; x[idx] = yk; x[ir] = yr;
    const double got = peakloc(x, idx, cyclic);
    if (mode != 0) { o.label("excluded:complex-peakloc-is-jacobsen-not-parabola"); return; }
    const ld e = fabsl(ld(got) - ld(idx));
    o.metric("peakloc(cmplx, equal neighbours) err/tol", std::isfinite(got) ? double(e / 1e-9L) : 1e300);
    if (!(e <= 1e-9L)) o.fail(std::string("peakloc:complex:symmetric:") + (edge ? "cyclic-edge" : "interior"), fmt("peakloc(cx[%d], %d, %d) = %.17g with equal neighbours; the extremum is at %d", n, idx, int(cyclic), got, idx));
    o.nontrivial(key_of(n, idx, int(cyclic)));
    o.label(edge ? "symmetric:cyclic-edge" : "symmetric:interior");
}
static void pkc_gen(Ctx& ctx) {
    for (int n : {3, 4, 8, 100, 5000})
        for (int idx : {0, 1, n / 2, n - 2, n - 1})
            for (int cyclic = 0; cyclic < 2; ++cyclic)
                for (int rep = 0; rep < 8; ++rep) {
                    if (!ctx.mine()) continue;
                    ctx.eval(Json::object().set("n", n).set("idx", idx).set("cyclic", cyclic).set("mode", 0).set("seed", (long long)(mix(ctx.seed, key_of(n, idx, cyclic, rep)) >> 16)));
                }
    ctx.rc("random", ctx.by_tier(20000, 100000), [&]() {
        const int n = pick_log(3, 5000);
        const int ic = pick(0, 3);
        return Json::object().set("n", n).set("idx", ic == 0 ? 0 : ic == 1 ? n - 1 : pick(0, n - 1)).set("cyclic", pick(0, 1)).set("mode", pick(0, 3) == 3 ? 1 : 0).set("seed", (long long)seed64());
    });
}

// ------------------------------------------------------------------------------------------- preamble detector
namespace {

enum { P_ZC = 0, P_CHIRP, P_PN, P_MSEQ_OR_QPSK, P_NTYPES };
int gcd_i(int a, int b) { return b == 0 ? a : gcd_i(b, a % b); }
bool is_mseq_len(int nh) { return nh >= 7 && ((nh + 1) & nh) == 0; }

const char* preamble_name(int type, int nh) {
    switch (type) {
    case P_ZC: return "zadoff-chu";
    case P_CHIRP: return "chirp(n^2)";
    case P_PN: return "pn(+-1)";
    default: return is_mseq_len(nh) ? "m-sequence" : "pn(qpsk)";
    }
}

// preamble of the given family; `salt` selects the member (ZC root, PN content, LFSR start state)
std::vector<cld> make_preamble(int type, int nh, uint64_t salt) {
    Rng r(mix(salt, 0x9EA));
    std::vector<cld> h(static_cast<size_t>(nh));
    auto coprime_root = [&](int lo_hi) {
        int u = r.range(1, std::max(1, lo_hi));
        while (gcd_i(u, nh) != 1) u = u % (nh - 1) + 1;
        return u;
    };
    if (type == P_ZC || type == P_CHIRP) {
        const int u = coprime_root(type == P_ZC ? nh - 1 : 3);
        const int cf = (type == P_ZC) ? (nh & 1) : 0;
        for (int n = 0; n < nh; ++n) {
            const int64_t q = (int64_t(u) * n % (2 * nh)) * (n + cf) % (2 * nh);   // u n (n+cf) mod 2 nh
            const ld ph = -PI_L * ld(q) / ld(nh);
            h[size_t(n)] = cld(cosl(ph), sinl(ph));
        }
    } else if (type == P_PN) {
        for (auto& v : h) v = r.coin() ? 1.0L : -1.0L;
    } else if (is_mseq_len(nh)) {
        int m = 0;
        while ((1 << m) < nh + 1) ++m;
        // primitive polynomials over GF(2): x^5+x^3+1, x^6+x^5+1, x^7+x^6+1, x^8+x^6+x^5+x^4+1, x^9+x^5+1 (x^3+x^2+1, x^4+x^3+1)
        static const int tap[] = {0, 0, 0, 2, 3, 3, 5, 6, 0, 5};
        uint32_t st = uint32_t(r.range(1, nh));
        for (int n = 0; n < nh; ++n) {
            uint32_t bit;
            if (m == 8) bit = ((st >> 7) ^ (st >> 5) ^ (st >> 4) ^ (st >> 3)) & 1u;
            else bit = ((st >> (m - 1)) ^ (st >> (tap[m] - 1))) & 1u;
            h[size_t(n)] = ((st >> (m - 1)) & 1u) ? 1.0L : -1.0L;
            st = ((st << 1) | bit) & uint32_t(nh);
        }
    } else {
        const ld s = 0.70710678118654752440L;
        for (auto& v : h) v = cld(r.coin() ? s : -s, r.coin() ? s : -s);
    }
    return h;
}

struct DetStream
{
    arr_cmplx h;        // what the detector is constructed with
    arr_cmplx x;        // the stream
    int frame{0};       // frame_len()
    int p{-1};          // global index of the preamble's last sample (-1: none)
    int nframes{0};
    double ref_peak{0}, ref_other{0};
};

// brute-force statistic of detector.h (matched filter read as a correlation, see the report):
//   corr[n] = sum_j conj(h[j]) x[n-nh+1+j] / (nh rms(h)),  pagg[n] = mean_j |x[n-nh+1+j]|^2 (x = 0 before the stream),  res = |corr| / sqrt(pagg)
void ref_statistic(const DetStream& s, std::vector<ld>& stat) {
    const int nh = s.h.size(), S = s.x.size();
    std::vector<cld> h = to_cld(s.h), x = to_cld(s.x);
    ld hp = 0;
    for (auto& v : h) hp += std::norm(v);
    const ld hrms = sqrtl(hp / nh);
    stat.assign(size_t(S), 0);
    std::vector<ld> pw(static_cast<size_t>(S));
    for (int i = 0; i < S; ++i) pw[size_t(i)] = std::norm(x[size_t(i)]);
    for (int n = 0; n < S; ++n) {
        cld acc = 0;
        ld pa = 0;
        const int j0 = std::max(0, nh - 1 - n);
        for (int j = j0; j < nh; ++j) {
            const int i = n - nh + 1 + j;
            acc += std::conj(h[size_t(j)]) * x[size_t(i)];
            pa += pw[size_t(i)];
        }
        stat[size_t(n)] = pa > 0 ? std::abs(acc) / (nh * hrms) / sqrtl(pa / nh) : 0;
    }
}

// case fields: nh, type, thr, a_db, snr_db, off, lead, tail, chunk, present (1 preamble, 0 noise only, 2 other member of the family), seed
bool make_det_stream(const Json& c, uint64_t sub, int frame, DetStream& s) {
    const int nh = c.geti("nh"), type = c.geti("type"), present = c.geti("present");
    const double thr = c.getd("thr");
    const double A = std::pow(10.0, c.getd("a_db") / 20.0);
    const double sigma = A * std::pow(10.0, -c.getd("snr_db") / 20.0);
    const uint64_t seed = mix(c.getu("seed"), sub);
    Rng r(seed);
    std::vector<cld> hl = make_preamble(type, nh, seed);
    const double hs = r.logmag(-1, 1);   // the reference given to the detector may have any scale
    s.h = arr_cmplx(nh);
    for (int i = 0; i < nh; ++i) s.h[i] = cmplx_t(double(hl[size_t(i)].real()) * hs, double(hl[size_t(i)].imag()) * hs);
    s.frame = frame;
    int lead = c.geti("lead");
    const int off = c.geti("off") % frame;
    while (lead * frame + off < nh - 1) ++lead;   // the whole preamble lies inside the stream
    const int p = lead * frame + off;
    s.nframes = lead + 1 + c.geti("tail");
    const int S = s.nframes * frame;
    s.x = arr_cmplx(S);
    const double sn = present == 0 ? A : sigma;   // a stream of noise only is as loud as a preamble would be
    for (int i = 0; i < S; ++i) { s.x[i].re = sn * 0.7071067811865476 * r.gauss(); s.x[i].im = sn * 0.7071067811865476 * r.gauss(); }
    s.p = -1;
    if (present != 0) {
        std::vector<cld> tx;
        if (present == 1) {
            tx.resize(size_t(nh));
            for (int i = 0; i < nh; ++i) tx[size_t(i)] = to_cld(s.h[i]) / ld(hs);   // exactly the detector's reference, unit modulus scale
        } else {
            tx = make_preamble(type, nh, mix(seed, 0xDEC0));   // another root / another PN word
        }
        const double phi = r.uni(0, 2 * M_PI);
        const cld g = cld(A * std::cos(phi), A * std::sin(phi));
        for (int j = 0; j < nh; ++j) {
            const cld v = g * tx[size_t(j)];
            s.x[p - nh + 1 + j].re += double(v.real());
            s.x[p - nh + 1 + j].im += double(v.imag());
        }
        if (present == 1) s.p = p;
        // other traffic around the preamble (a payload after it, the tail of an earlier burst before it) at its own level: white, so
        // it cannot look like the preamble, but it may be (much) louder or weaker than it
        if (c.has("pl_db")) {
            const double ps = A * std::pow(10.0, c.getd("pl_db") / 20.0) * 0.7071067811865476;
            const int where = c.geti("pl_pos", 0);
            if (where == 0 || where == 2) for (int i = p + 1; i < S; ++i) { s.x[i].re += ps * r.gauss(); s.x[i].im += ps * r.gauss(); }
            if (where == 1 || where == 2) for (int i = 0; i <= p - nh; ++i) { s.x[i].re += ps * r.gauss(); s.x[i].im += ps * r.gauss(); }
        }
    }
    std::vector<ld> st;
    ref_statistic(s, st);
    ld other = 0;
    for (int n = 0; n < S; ++n) if (n != s.p) other = std::max(other, st[size_t(n)]);
    s.ref_other = double(other);
    s.ref_peak = s.p >= 0 ? double(st[size_t(s.p)]) : 0;
    if (!(other < ld(thr) / 1.05L)) return false;
    if (s.p >= 0 && !(st[size_t(s.p)] > ld(thr) * 1.05L && st[size_t(s.p)] >= 0.96L)) return false;
    return true;
}

void det_check_impl(const Json& c, Out& o) {
    const int nh = c.geti("nh"), type = c.geti("type"), present = c.geti("present"), chunk = std::max(1, c.geti("chunk"));
    const double thr = c.getd("thr");
    DetStream s;
    int k = 0;
    bool ok = false;
    int frame = 0;
    {
        // frame_len() depends on the preamble length only; ask the library
        PreambleDetector probe(ones_c(nh), thr);
        frame = probe.frame_len();
        if (frame <= 0) { o.fail("detector:frame_len", fmt("frame_len() = %d for a preamble of %d", frame, nh)); return; }
    }
    for (; k < 40; ++k) {
        ok = make_det_stream(c, uint64_t(k), frame, s);
        if (ok) break;
    }
    if (!ok) { o.discard = true; return; }
    o.label(k == 0 ? "retries:0" : k < 4 ? "retries:1-3" : "retries:4+");
    PreambleDetector det(s.h, thr);
    if (det.frame_len() != frame) { o.fail("detector:frame_len", fmt("frame_len() = %d, was %d for the same preamble length %d", det.frame_len(), frame, nh)); return; }
    const int off = s.p >= 0 ? s.p % frame : -1;
    const char* pos = s.p < 0 ? "absent" : off == 0 ? "end-first" : off == frame - 1 ? "end-last" : off < nh - 1 ? "straddle" : "inside";
    int detections = 0;
    // "vary": the number of frames per process() call changes from call to call (1..3), otherwise it is constant (chunk)
    const uint64_t vary = c.has("vary") ? c.getu("vary") : 0;
    Rng vr(vary);
    // "bad": before some of the calls the caller first hands over a block of a length the detector refuses (not a multiple of
    // frame_len(): a ragged capture tail), catches the exception and carries on.  The refused samples never became part of the
    // stream, so everything below must hold unchanged.  (If the library accepts such a block, what the stream then is is not for
    // this check to say: the case is discarded.)
    const uint64_t bad = c.has("bad") ? c.getu("bad") : 0;
    Rng br(bad);
    int refused = 0;
    for (int f = 0, nf = 0; f < s.nframes; f += nf) {
        if (bad && (f == 0 ? br.range(0, 2) == 0 : br.range(0, 1) == 0)) {
            const int kinds[] = {frame + 1, std::max(1, frame / 2), 1, std::max(1, frame - 1), 2 * frame + 3, frame + nh};
            const int blen = kinds[br.range(0, 5)];
            if (blen % frame != 0) {
                arr_cmplx junk(blen);
                for (int i = 0; i < blen; ++i) { const cmplx_t v = s.x[(f * frame + i) % (s.nframes * frame)]; const double m = std::hypot(v.re, v.im); junk[i] = cmplx_t(v.re + m * br.gauss(), v.im + m * br.gauss()); }
                bool threw = false;
                try { (void)det.process(junk); } catch (const std::exception&) { threw = true; }
                if (!threw) { o.label("bad-length-block-accepted"); o.discard = true; return; }
                ++refused;
            }
        }
        nf = std::min(vary ? vr.range(1, 3) : chunk, s.nframes - f);
        const int start = f * frame, len = nf * frame;
        arr_cmplx blk(len);
        for (int i = 0; i < len; ++i) blk[i] = s.x[start + i];
        auto res = (f & 1) ? det(blk) : det.process(blk);   // both call forms
        const bool here = s.p >= start && s.p < start + len;
        if (!res.has_value()) {
            if (here) {
                o.fail(std::string("detector:missed:") + pos, fmt("nh=%d %s thr=%.3f: no detection in the call holding the preamble's last sample (global %d = call offset %d, frame %d; reference statistic %.4f there, %.4f elsewhere)", nh, preamble_name(type, nh), thr, s.p, s.p - start, frame, s.ref_peak, s.ref_other));
                return;
            }
            continue;
        }
        ++detections;
        if (!here) {
            o.fail(s.p < 0 ? "detector:false-alarm" : std::string("detector:wrong-call:") + pos,
                   fmt("nh=%d %s thr=%.3f: detection (offset %d, score %.4f) in the call starting at %d; preamble end at %d (%s); reference statistic max elsewhere %.4f", nh, preamble_name(type, nh), thr, res->offset, res->score, start, s.p, pos, s.ref_other));
            return;
        }
        if (res->offset != s.p - start) {
            o.fail(std::string("detector:offset:") + pos, fmt("nh=%d %s thr=%.3f frame=%d: offset %d, the preamble's last sample is at %d of this call (%s)", nh, preamble_name(type, nh), thr, frame, res->offset, s.p - start, pos));
            return;
        }
        if (res->preamble.size() != nh) { o.fail("detector:preamble:size", fmt("preamble has %d samples, nh=%d", res->preamble.size(), nh)); return; }
        for (int j = 0; j < nh; ++j)
            if (!same_bits(res->preamble[j], s.x[s.p - nh + 1 + j])) {
                o.fail(std::string("detector:preamble:") + pos, fmt("nh=%d frame=%d end at %d (%s): preamble[%d] = (%.6g,%.6g) is not stream[%d] = (%.6g,%.6g)", nh, frame, s.p, pos, j, res->preamble[j].re, res->preamble[j].im, s.p - nh + 1 + j, s.x[s.p - nh + 1 + j].re, s.x[s.p - nh + 1 + j].im));
                return;
            }
        o.metric("score low: 0.95/score", 0.95 / res->score);
        o.metric("score high: score/1.0001", res->score / 1.0001);
        o.metric("|score - reference statistic|", std::fabs(res->score - s.ref_peak));
        o.metric("1 - score", 1 - res->score);
        if (!(res->score >= 0.95 && res->score <= 1.0001)) {
            o.fail("detector:score", fmt("nh=%d %s: score %.17g outside [0.95, 1.0001] (reference statistic %.6f)", nh, preamble_name(type, nh), res->score, s.ref_peak));
            return;
        }
    }
    if (s.p >= 0 && detections != 1) { o.fail("detector:count", fmt("%d detections for one preamble", detections)); return; }
    o.metric("premise thr/1.05 vs max elsewhere", s.ref_other / (thr / 1.05));
    o.label(std::string("pos:") + pos);
    o.label(std::string("preamble:") + preamble_name(type, nh));
    o.label(nh < 32 ? "nh:16-31" : nh < 64 ? "nh:32-63" : nh < 128 ? "nh:64-127" : nh < 256 ? "nh:128-255" : "nh:256-512");
    o.label(thr < 0.5 ? "thr:0.3-0.5" : thr < 0.7 ? "thr:0.5-0.7" : "thr:0.7-0.9");
    o.label(vary ? "call:varying-frames-per-call" : chunk == 1 ? "call:1-frame" : "call:multi-frame");
    if (refused) o.label("refused-blocks-between-calls");
    if (c.has("pl_db")) o.label(c.getd("pl_db") > 3 ? "other traffic: louder than the preamble" : c.getd("pl_db") < -3 ? "other traffic: weaker than the preamble" : "other traffic: about as loud");
    if (present == 2) o.label("absent:other-sequence");
    if (present == 0) o.label("absent:noise-only");
    const int tb = int(thr * 10);
    if (s.p >= 0) { if (std::strcmp(pos, "inside") != 0) o.nontrivial(key_of(nh, type, tb, off)); }
    else o.nontrivial(key_of(nh, type, tb, present, c.geti("lead") + c.geti("tail"), chunk));
}

// smallest threshold for which "noise alone stays below thr/1.05 over a few thousand samples" is a likely premise:
// P(stat > t) = exp(-t^2 nh) per sample of white noise
double thr_floor(int nh) { return std::min(0.9, std::max(0.3, 1.05 * 3.3 / std::sqrt(double(nh)))); }

}   // namespace

VK_SUB(doff, "detector_offsets");
static void doff_check(const Json& c, Out& o) { det_check_impl(c, o); }
static void doff_gen(Ctx& ctx) {
    struct Cfg { int nh, type; double thr; };
    std::vector<Cfg> cfgs = {{16, P_ZC, 0.9}, {31, P_MSEQ_OR_QPSK, 0.7}, {63, P_ZC, 0.5}, {64, P_PN, 0.6}, {100, P_PN, 0.45}, {199, P_CHIRP, 0.4}, {255, P_MSEQ_OR_QPSK, 0.3}, {512, P_ZC, 0.45}};
    if (ctx.thorough()) for (Cfg e : {Cfg{17, P_PN, 0.9}, Cfg{32, P_ZC, 0.8}, Cfg{127, P_MSEQ_OR_QPSK, 0.4}, Cfg{128, P_CHIRP, 0.35}, Cfg{256, P_PN, 0.3}, Cfg{300, P_MSEQ_OR_QPSK, 0.5}, Cfg{511, P_MSEQ_OR_QPSK, 0.3}}) cfgs.push_back(e);
    for (auto& cf : cfgs) {
        PreambleDetector probe(ones_c(cf.nh), cf.thr);
        const int frame = probe.frame_len();
        for (int off = 0; off < frame; ++off)
            for (int chunk = 1; chunk <= 2; ++chunk)
                for (int rep = 0; rep < ctx.by_tier(2, 3); ++rep) {
                    if (!ctx.mine()) continue;
                    const uint64_t h = mix(ctx.seed, key_of(cf.nh, cf.type, off, chunk, rep));
                    Rng r(h);
                    ctx.eval(Json::object().set("nh", cf.nh).set("type", cf.type).set("thr", cf.thr).set("a_db", r.uni(-35.0, 35.0)).set("snr_db", r.uni(20.0, 100.0))
                               .set("off", off).set("lead", r.range(0, 2)).set("tail", r.range(0, 2)).set("chunk", chunk + (rep == 2 ? 1 : 0)).set("present", 1).set("seed", (long long)(h >> 16)));
                }
    }
}

static Json det_random_case0(int present) {
    const int nc = pick(0, 2);
    const int nh = nc == 0 ? pick_log(16, 512) : nc == 1 ? pick(16, 512) : one_of<int>({16, 31, 32, 63, 64, 127, 128, 255, 256, 511, 512});
    const double lo = thr_floor(nh);
    const int tc = pick(0, 3);
    const double thr = tc == 0 ? lo : tc == 1 ? 0.9 : lo + (0.9 - lo) * pickd(0.0, 1.0);
    // offset: the generator does not know frame_len(); the check reduces it modulo the frame.  Ends and the straddle zone are favoured.
    const int oc = pick(0, 4);
    const int fft_len = 1 << int(std::ceil(std::log2(2.0 * nh)));
    const int frame_guess = fft_len - nh + 1;
    const int off = oc == 0 ? 0 : oc == 1 ? frame_guess - 1 : oc == 2 ? pick(0, nh - 1) : pick(0, frame_guess - 1);
    return Json::object().set("nh", nh).set("type", pick(0, P_NTYPES - 1)).set("thr", thr).set("a_db", pick(0, 2) != 0 ? pickd(-35.0, 35.0) : flip() ? pickd(-120.0, -35.0) : pickd(35.0, 120.0)).set("snr_db", pickd(20.0, 100.0)).set("off", off)
      .set("lead", pick(0, 4)).set("tail", pick(0, 4)).set("chunk", pick(1, 3)).set("vary", flip() ? (long long)(1 + pick64(0, 1 << 30)) : 0LL).set("bad", pick(0, 3) == 0 ? (long long)(1 + pick64(0, 1 << 30)) : 0LL).set("present", present).set("seed", (long long)seed64());
}

static Json det_random_case(int present) {
    Json c = det_random_case0(present);
    if (present != 0 && pick(0, 2) == 0) c.set("pl_db", pickd(-30.0, 30.0)).set("pl_pos", pick(0, 2));
    return c;
}

VK_SUB(drnd, "detector_random");
static void drnd_check(const Json& c, Out& o) { det_check_impl(c, o); }
static void drnd_gen(Ctx& ctx) {
    ctx.rc("random", ctx.by_tier(40000, 320000), [&]() { return det_random_case(1); });
}

VK_SUB(dabs, "detector_absent");
static void dabs_check(const Json& c, Out& o) { det_check_impl(c, o); }
static void dabs_gen(Ctx& ctx) {
    ctx.rc("random", ctx.by_tier(15000, 120000), [&]() { return det_random_case(pick(0, 1) ? 2 : 0); });
}

VK_FRESH_THREADS;
VK_MAIN("C18")
