// C13  Spectral estimates conserve power and label frequencies correctly.
//
// Oracle: Welch's estimate by definition in long double (`ld_welch`): segments at offsets 0, s, 2s, ... while the segment
// fits (s = winlen - overlap), each multiplied by the window, zero-padded to nfft, |DFT|^2 / winpow with
// winpow = sum w^2 (density) or (sum w)^2 (power), averaged; one-sided folding P[k] + P[nfft-k] for real input.
// The DFT of the reference is an own long-double radix-2 FFT whose result is re-checked in every case against the direct
// O(n) sum on three bins (no code shared with dsplib).  Tolerance of every value: (64 nfft + nseg) eps max(pxx_ref)
// (DESIGN: 64 nfft eps; the nseg term is the a-priori bound of the running sum over segments, measured necessary for
// thousands of segments at nfft = 8).
//
// KNOWN DEFECT (unrepaired, pinned by the unit tests): complex-input welch returns pxx in FFT order against a centred f.
//   * sub-check complex_label asserts the property as stated and reports it as  welch-complex:fft-order-vs-centred-f ;
//   * every other complex-input check first tries the order announced by the returned f (the property-conform one, so a
//     repaired library passes unchanged) and otherwise compares in FFT order (behind the defect), counted as
//     excluded:complex-axis-order; anything that matches neither is a violation.
#include "kit/num.h"
#include "kit/prelude.h"
#include <cfloat>
#include <dsplib.h>

using namespace vk;
using namespace dsplib;

namespace {

using cd = std::complex<double>;

inline cld cmul(const cld& a, const cld& b) {
    return cld(a.real() * b.real() - a.imag() * b.imag(), a.real() * b.imag() + a.imag() * b.real());
}
inline ld norm2(const cld& a) { return a.real() * a.real() + a.imag() * a.imag(); }
int np2(int n) { int p = 1; while (p < n) p <<= 1; return p; }
int ilog2(int n) { int b = 0; while ((1 << (b + 1)) <= n) ++b; return b; }

// in-place radix-2 DIT, forward (exp(-2 pi i m k / n)), long double
void ld_fft_pow2(std::vector<cld>& a) {
    const int n = int(a.size());
    if (n <= 1) return;
    const std::vector<cld>& tw = twiddles(n);
    for (int i = 1, j = 0; i < n; ++i) {
        int bit = n >> 1;
        for (; j & bit; bit >>= 1) j ^= bit;
        j ^= bit;
        if (i < j) std::swap(a[size_t(i)], a[size_t(j)]);
    }
    for (int len = 2; len <= n; len <<= 1) {
        const int half = len / 2, step = n / len;
        for (int i = 0; i < n; i += len)
            for (int k = 0; k < half; ++k) {
                const cld u = a[size_t(i + k)], v = cmul(a[size_t(i + k + half)], tw[size_t(k * step)]);
                a[size_t(i + k)] = u + v;
                a[size_t(i + k + half)] = u - v;
            }
    }
}
// the fast reference DFT is validated against the defining sum on three bins; a mismatch is a harness bug
void fft_selfcheck(const std::vector<cld>& in, const std::vector<cld>& out) {
    const int n = int(in.size());
    if (n < 2) return;
    const std::vector<cld>& tw = twiddles(n);
    ld s1 = 0;
    for (auto& v : in) s1 += std::abs(v);
    const ld tol = 64 * LDBL_EPSILON * ld(ilog2(n) + 1) * s1;
    for (int k : {1, n / 2, n - 1}) {
        cld acc = 0;
        for (int m = 0; m < n; ++m) acc += cmul(in[size_t(m)], tw[size_t((uint64_t(m) * uint64_t(k)) % uint64_t(n))]);
        if (!(std::abs(acc - out[size_t(k)]) <= tol)) throw std::logic_error("harness: long-double FFT self-check failed");
    }
}

struct Ref
{
    std::vector<ld> p2;   // two-sided, FFT order (bin k <-> frequency k/nfft mod 1)
    ld tpow{0};           // mean over segments of sum|x w|^2 / sum w^2 (time domain)
    int nseg{0};
    ld sw{0}, sw2{0};
    std::vector<ld> one() const {   // one-sided folding for real input
        const int n = int(p2.size());
        std::vector<ld> r(size_t(n / 2 + 1));
        r[0] = p2[0];
        r[size_t(n / 2)] = p2[size_t(n / 2)];
        for (int k = 1; k < n / 2; ++k) r[size_t(k)] = p2[size_t(k)] + p2[size_t(n - k)];
        return r;
    }
};

Ref ld_welch(const std::vector<cd>& x, const std::vector<double>& w, int nov, int nfft, bool psd) {
    const long N = long(x.size());
    const int L = int(w.size());
    const int stride = L - nov;
    Ref R;
    for (double v : w) { R.sw += ld(v); R.sw2 += ld(v) * ld(v); }
    const ld winpow = psd ? R.sw2 : R.sw * R.sw;
    R.p2.assign(size_t(nfft), 0);
    std::vector<cld> buf(static_cast<size_t>(nfft)), keep;
    for (long t = 0; t + L <= N; t += stride) {
        ld e = 0;
        for (int i = 0; i < L; ++i) {
            const cd& s = x[size_t(t + i)];
            const cld v(ld(s.real()) * ld(w[size_t(i)]), ld(s.imag()) * ld(w[size_t(i)]));
            buf[size_t(i)] = v;
            e += norm2(v);
        }
        for (int i = L; i < nfft; ++i) buf[size_t(i)] = 0;
        const bool sc = (R.nseg == 0);
        if (sc) keep = buf;
        ld_fft_pow2(buf);
        if (sc) fft_selfcheck(keep, buf);
        for (int k = 0; k < nfft; ++k) R.p2[size_t(k)] += norm2(buf[size_t(k)]) / winpow;
        R.tpow += e / R.sw2;
        ++R.nseg;
    }
    if (R.nseg > 0) {
        for (auto& v : R.p2) v /= ld(R.nseg);
        R.tpow /= ld(R.nseg);
    }
    return R;
}

// ------------------------------------------------------------------------------------------- windows (inputs)
enum { W_RECT = 0, W_HAMMING, W_HANN, W_COSINE, W_BLACKMAN, W_GAUSS, W_BHARRIS, W_KAISER, W_TUKEY, W_RANDPOS, W_NFAM };
const char* wname(int f) {
    static const char* n[] = {"rect", "hamming", "hann", "cosine", "blackman", "gauss", "blackmanharris", "kaiser", "tukey", "random-positive"};
    return (f >= 0 && f < W_NFAM) ? n[f] : "?";
}
// the window is an INPUT of welch: any family of the library (window.h), symmetric or periodic, plus rectangular and
// random positive.  Lengths the library cannot produce (n = 1; periodic n < 3) or that have no power (hann(2) = [0 0])
// fall back to the rectangular window.
std::vector<double> make_window(int fam, bool sym, int n, uint64_t seed, std::string* label) {
    Rng r(mix(seed, 0x57494E));
    std::vector<double> w(size_t(n), 1.0);
    if (fam == W_RANDPOS) { for (auto& v : w) v = r.uni(0.05, 1.0); }
    else if (fam != W_RECT && n >= 2) {
        if (n < 3) sym = true;
        arr_real a;
        switch (fam) {
        case W_HAMMING: a = window::hamming(n, sym); break;
        case W_HANN: a = window::hann(n, sym); break;
        case W_COSINE: a = window::cosine(n, sym); break;
        case W_BLACKMAN: a = window::blackman(n, sym); break;
        case W_GAUSS: a = window::gauss(n, r.uni(1.0, 4.0), sym); break;
        case W_BHARRIS: a = window::blackmanharris(n, sym); break;
        case W_KAISER: a = window::kaiser(n, r.uni(0.5, 12.0)); break;
        default: a = window::tukey(n, r.uni(0.1, 0.9)); break;
        }
        bool ok = a.size() == n;
        double s = 0;
        for (int i = 0; ok && i < n; ++i) { ok = std::isfinite(a[i]); s += a[i]; }
        if (ok && s > 1e-3) { for (int i = 0; i < n; ++i) w[size_t(i)] = a[i]; }
        else fam = W_RECT;
    } else fam = W_RECT;
    if (label) *label = std::string("window:") + wname(fam);
    return w;
}

// ------------------------------------------------------------------------------------------- signals (inputs)
enum { X_CONST = 0, X_ALT, X_IMPULSE, X_TONE_ON, X_TONE_OFF, X_GAUSS, X_TONE_NOISE, X_DYNRANGE, X_NONSTAT, X_NCLS };
const char* xname(int c) {
    static const char* n[] = {"const(DC)", "alternating(Nyquist)", "impulse", "tone-on-bin", "tone-off-bin", "gauss", "tone+noise", "dynrange", "nonstationary"};
    return (c >= 0 && c < X_NCLS) ? n[c] : "?";
}
inline cd tone_sample(double f0, long n, double ph, bool real) {
    double t = f0 * double(n);
    t -= std::floor(t);
    const double a = 2 * M_PI * t + ph;
    return real ? cd(std::cos(a), 0) : cd(std::cos(a), std::sin(a));
}
std::vector<cd> make_signal(Rng& r, long N, int cls, int nfft, bool real, bool* offbin) {
    std::vector<cd> x(static_cast<size_t>(N));
    const double A = r.logmag(-3, 3);
    auto g = [&]() { return real ? cd(r.gauss(), 0) : cd(r.gauss(), r.gauss()); };
    *offbin = false;
    double f0 = 0;
    if (cls == X_TONE_ON) f0 = double(real ? r.range(0, nfft / 2) : r.range(-nfft / 2 + 1, nfft / 2)) / nfft;
    if (cls == X_TONE_OFF || cls == X_TONE_NOISE) { f0 = real ? r.uni(0.0, 0.5) : r.uni(-0.5, 0.5); *offbin = true; }
    const double ph = r.uni(0, 2 * M_PI);
    switch (cls) {
    case X_CONST: { cd a = g() * A; for (auto& v : x) v = a; break; }
    case X_ALT: { cd a = g() * A; for (long i = 0; i < N; ++i) x[size_t(i)] = (i & 1) ? -a : a; break; }
    case X_IMPULSE: x[size_t(r.next() % uint64_t(N))] = g() * A; break;
    case X_TONE_ON:
    case X_TONE_OFF: for (long i = 0; i < N; ++i) x[size_t(i)] = A * tone_sample(f0, i, ph, real); break;
    case X_TONE_NOISE: { const double s = r.logmag(-4, 0); for (long i = 0; i < N; ++i) x[size_t(i)] = A * (tone_sample(f0, i, ph, real) + s * g()); break; }
    case X_DYNRANGE: for (auto& v : x) v = g() * r.logmag(-20, 20); break;
    case X_NONSTAT: { const double e = r.uni(-6, 6); for (long i = 0; i < N; ++i) x[size_t(i)] = A * std::pow(10.0, e * double(i) / double(N)) * g(); break; }
    default: for (auto& v : x) v = A * g();
    }
    return x;
}
arr_real real_arr(const std::vector<cd>& x) {
    arr_real a(int(x.size()));
    for (size_t i = 0; i < x.size(); ++i) a[int(i)] = x[i].real();
    return a;
}
arr_cmplx cmplx_arr(const std::vector<cd>& x) {
    arr_cmplx a(int(x.size()));
    for (size_t i = 0; i < x.size(); ++i) a[int(i)] = cmplx_t(x[i].real(), x[i].imag());
    return a;
}

// ------------------------------------------------------------------------------------------- the library under test
struct LibOut { arr_real pxx, f; };
// form 0: (x, win, noverlap, nfft, type); 1: (x, winlen, noverlap, nfft, type) [hamming]; 2: (x, win, type); 3: (x, winlen, type)
LibOut call_welch(bool real, const std::vector<cd>& x, const std::vector<double>& w, int nov, int nfft, bool psd, int form) {
    const SpectrumType t = psd ? SpectrumType::Psd : SpectrumType::Power;
    const int L = int(w.size());
    const arr_real win(w);
    auto run = [&](const auto& xa) -> WelchResult {
        switch (form) {
        case 1: return welch(xa, L, nov, nfft, t);
        case 2: return welch(xa, win, t);
        case 3: return welch(xa, L, t);
        default: return welch(xa, win, nov, nfft, t);
        }
    };
    WelchResult r = real ? run(real_arr(x)) : run(cmplx_arr(x));
    return LibOut{r.pxx, r.f};
}

// common structural parameters of a case
struct Geo
{
    int nfft, L, nov, nseg, extra, form, wfam;
    bool sym, psd;
    long N;
    std::vector<double> w;
    std::string wlabel;
};
// decodes and normalises (a shrunk case may be inconsistent: the default-argument forms need nov = L/2, nfft = nextpow2(L))
bool decode_geo(const Json& c, Geo& g, Out& o) {
    g.nfft = c.geti("nfft"); g.L = c.geti("winlen"); g.nov = c.geti("nov"); g.nseg = c.geti("nseg", 1); g.extra = c.geti("extra", 0);
    g.form = c.geti("form", 0); g.wfam = c.geti("wfam", 0); g.sym = c.geti("sym", 1) != 0; g.psd = c.geti("psd", 1) != 0;
    if (g.nfft < 2 || (g.nfft & (g.nfft - 1)) || g.L < 1 || g.L > g.nfft || g.nov < 0 || g.nov >= g.L || g.nseg < 1) { o.discard = true; return false; }
    if (g.form >= 2 && !(g.nov == g.L / 2 && g.nfft == np2(g.L))) g.form -= 2;
    if ((g.form & 1) && g.L < 2) g.form -= 1;   // window::hamming(1) is outside the window functions' domain
    const int stride = g.L - g.nov;
    g.extra = std::min(g.extra, stride - 1);
    g.N = long(g.L) + long(g.nseg - 1) * stride + g.extra;
    if (g.N > 100000) { o.discard = true; return false; }
    if (g.form & 1) { g.wfam = W_HAMMING; g.sym = true; }
    g.w = make_window(g.wfam, g.sym, g.L, c.getu("seed"), &g.wlabel);
    if ((g.form & 1) && g.wlabel != "window:hamming") { o.discard = true; return false; }
    return true;
}
// Relative rounding budget of one value: 64 nfft eps (DFT and squaring, DESIGN) plus the a-priori bound of the running
// sum over the segments, nseg eps (recursive summation of nseg non-negative terms: <= (nseg-1) u each way).
ld rel_tol(const Geo& g) { return (64 * ld(g.nfft) + ld(g.nseg)) * EPS; }
int ov_bucket(int nov, int L) { return nov == 0 ? 0 : nov == L - 1 ? 5 : 1 + (4 * nov) / L; }
const char* ov_name(int nov, int L) {
    static const char* n[] = {"overlap:0", "overlap:<1/4", "overlap:<1/2", "overlap:<3/4", "overlap:<1", "overlap:winlen-1"};
    return n[ov_bucket(nov, L)];
}
void geo_labels(const Geo& g, Out& o) {
    o.label(g.wlabel);
    o.label(ov_name(g.nov, g.L));
    o.label(fmt("nfft:%d", g.nfft));
    o.label(g.L == g.nfft ? "winlen:=nfft" : g.L * 2 >= g.nfft ? "winlen:>=nfft/2" : "winlen:<nfft/2");
    o.label(g.nseg == 1 ? "segments:1" : g.nseg <= 8 ? "segments:2-8" : g.nseg <= 256 ? "segments:9-256" : "segments:>256");
    o.label(fmt("form:%d", g.form));
    o.label(g.psd ? "scaling:density" : "scaling:power");
    if (g.N >= 50000) o.label("length:>=50000");
}

bool check_sizes(const LibOut& r, int nfft, bool real, const char* pfx, Out& o) {
    const int want = real ? nfft / 2 + 1 : nfft;
    if (r.pxx.size() != want || r.f.size() != want) {
        o.fail(std::string(pfx) + ":size", fmt("nfft=%d: pxx has %d and f has %d entries, expected %d", nfft, r.pxx.size(), r.f.size(), want));
        return false;
    }
    return true;
}
int first_argmax(const arr_real& p) {
    int b = 0;
    for (int i = 1; i < p.size(); ++i) if (p[i] > p[b]) b = i;
    return b;
}

// values, non-negativity, power identity, axis -- one case, real or complex input
void welch_case(const Json& c, Out& o, bool real) {
    Geo g;
    if (!decode_geo(c, g, o)) return;
    const int cls = c.geti("cls", X_GAUSS);
    Rng r(c.getu("seed"));
    bool offbin = false;
    const std::vector<cd> x = make_signal(r, g.N, cls, g.nfft, real, &offbin);
    const char* pfx = real ? "welch-real" : "welch-complex";

    const LibOut got = call_welch(real, x, g.w, g.nov, g.nfft, g.psd, g.form);
    if (!check_sizes(got, g.nfft, real, pfx, o)) return;
    const Ref R = ld_welch(x, g.w, g.nov, g.nfft, g.psd);
    if (R.nseg != g.nseg) throw std::logic_error("harness: segment count of the reference differs from the generator's");
    std::vector<ld> ref = real ? R.one() : R.p2;   // complex: FFT order, i.e. behind the known axis defect (see below)
    const int m = int(ref.size());

    // non-negative (and not NaN)
    for (int k = 0; k < m; ++k)
        if (!(got.pxx[k] >= 0) || !std::isfinite(got.pxx[k])) { o.fail(std::string(pfx) + ":negative-or-nan", fmt("pxx[%d]=%.17g (nfft=%d winlen=%d overlap=%d N=%ld %s)", k, got.pxx[k], g.nfft, g.L, g.nov, g.N, xname(cls))); return; }

    // values against the definition
    ld mx = 0;
    for (ld v : ref) mx = std::max(mx, v);
    const ld tol = rel_tol(g) * mx;
    ld worst = 0; int wk = 0;
    bool as_labelled = false;
    if (!real) {
        // The property-conform order is the one the returned f announces (value i belongs to frequency f[i] mod 1).  A
        // library that honours it passes here; the known defect (FFT order against a centred f) is compared in FFT order.
        std::vector<ld> byf(static_cast<size_t>(m));
        bool ok = true;
        for (int i = 0; i < m && ok; ++i) {
            const double q = got.f[i] * g.nfft;
            ok = std::isfinite(q) && std::fabs(q - std::round(q)) < 1e-6 && std::fabs(q) <= 4.0 * g.nfft;
            if (ok) byf[size_t(i)] = R.p2[size_t(((long(std::llround(q)) % g.nfft) + g.nfft) % g.nfft)];
        }
        if (ok) {   // the order with the smaller deviation decides (a flat spectrum fits both)
            ld wl = 0, wf = 0;
            for (int k = 0; k < m; ++k) { wl = std::max(wl, std::fabs(ld(got.pxx[k]) - byf[size_t(k)])); wf = std::max(wf, std::fabs(ld(got.pxx[k]) - ref[size_t(k)])); }
            if (wl <= tol && wl < wf) { as_labelled = true; ref = byf; }
        }
    }
    for (int k = 0; k < m; ++k) { ld e = std::fabs(ld(got.pxx[k]) - ref[size_t(k)]); if (e > worst) { worst = e; wk = k; } }
    o.metric("value err/tol", tol > 0 ? double(worst / tol) : (worst == 0 ? 0.0 : 1e300));
    if (!(worst <= tol)) {
        const char* where = real ? (wk == 0 ? "dc" : wk == m - 1 ? "nyquist" : "inner") : "bin";
        o.fail(std::string(pfx) + ":value:" + where + (g.psd ? ":psd" : ":power"),
               fmt("pxx[%d]=%.17g, definition %.17Lg, |diff| %.3Lg > (64 nfft + nseg) eps max(pxx) = %.3Lg (nfft=%d winlen=%d overlap=%d N=%ld segments=%d %s %s form=%d)",
                   wk, got.pxx[wk], ref[size_t(wk)], worst, tol, g.nfft, g.L, g.nov, g.N, g.nseg, g.wlabel.c_str(), xname(cls), g.form));
    }
    // density scaling: sum pxx = nfft * mean_s( sum|x w|^2 / sum w^2 )
    if (g.psd) {
        ld s = 0;
        for (int k = 0; k < m; ++k) s += ld(got.pxx[k]);
        const ld want = ld(g.nfft) * R.tpow, ptol = rel_tol(g) * want;
        const ld e = std::fabs(s - want);
        o.metric("power-identity err/tol", ptol > 0 ? double(e / ptol) : (e == 0 ? 0.0 : 1e300));
        if (!(e <= ptol)) o.fail(std::string(pfx) + ":power-identity", fmt("sum(pxx)=%.17Lg, nfft*mean windowed power=%.17Lg, rel diff %.3Lg > (64 nfft + nseg) eps (nfft=%d winlen=%d overlap=%d N=%ld segments=%d %s)", s, want, want > 0 ? e / want : e, g.nfft, g.L, g.nov, g.N, g.nseg, g.wlabel.c_str()));
    }
    // frequency axis: strictly increasing, spacing 1/nfft; one-sided axis of real input is k/nfft
    for (int k = 0; k < m; ++k) {
        const double fk = got.f[k];
        const double want = real ? double(k) / g.nfft : got.f[0] + double(k) / g.nfft;
        if (!(std::fabs(fk - want) <= 4 * EPS) || (k > 0 && !(fk > got.f[k - 1]))) {
            o.fail(std::string(pfx) + ":f-axis", fmt("f[%d]=%.17g, expected %.17g (spacing 1/nfft, nfft=%d, f[0]=%.17g)", k, fk, want, g.nfft, got.f[0]));
            break;
        }
    }
    if (!real) o.label(as_labelled ? "complex-order:as-labelled-by-f" : "excluded:complex-axis-order");
    geo_labels(g, o);
    o.label(std::string("input:") + xname(cls));
    if (mx > 0 && ((g.nseg >= 2 && g.nov > 0) || offbin))
        o.nontrivial(key_of(int(real), g.nfft, g.L, ov_bucket(g.nov, g.L), int(g.psd), cls, g.wfam, g.form, std::min(g.nseg, 9)));
}

// generator shared by real_welch / complex_welch
Json geo_json(int nfft, int L, int nov, int nseg, int extra, int form, int wfam, int sym, int psd) {
    return Json::object().set("nfft", nfft).set("winlen", L).set("nov", nov).set("nseg", nseg).set("extra", extra).set("form", form).set("wfam", wfam).set("sym", sym).set("psd", psd);
}
Json random_geo(long work_cap) {
    int form = pick(0, 7);
    form = form < 5 ? 0 : form - 4;   // 5/8 of the cases use the complete signature, the rest the three shorter overloads
    int nfft = 8 << pick(0, 9);   // 8 .. 4096
    int L;
    switch (pick(0, 3)) {
    case 0: L = nfft; break;
    case 1: L = pick(1, nfft); break;
    case 2: L = pick(std::max(1, nfft / 2), nfft); break;
    default: L = pick_log(1, nfft);
    }
    int nov;
    switch (pick(0, 4)) {
    case 0: nov = 0; break;
    case 1: nov = L / 2; break;
    case 2: nov = L - 1; break;
    default: nov = pick(0, L - 1);
    }
    if (form >= 2) {   // default-argument forms: nfft = nextpow2(winlen) >= 8, overlap = winlen/2
        L = std::max(L, 5);
        nfft = np2(L);
        nov = L / 2;
    }
    if (form & 1) L = std::max(L, 2);
    if (form == 1) nov = std::min(nov, L - 1);
    const int stride = L - nov;
    long maxseg = std::max<long>(1, std::min<long>(work_cap / nfft, (100000 - L) / stride + 1));
    int nseg = pick_log(1, int(maxseg));
    if (pick(0, 5) == 0 && maxseg >= 4) {   // a segment count of 2^k, 2^k - 1 or 2^k + 1 (blocked accumulation has its edges there)
        int k = 2;
        while ((2L << k) <= maxseg) ++k;
        nseg = std::max(1, std::min(int(maxseg), (1 << pick(2, k)) + pick(-1, 1)));
    }
    int extra = pick(0, stride - 1);
    while (long(L) + long(nseg - 1) * stride + extra > 100000) extra = 0, nseg = std::max(1, nseg - 1);
    return geo_json(nfft, L, nov, nseg, extra, form, pick(0, W_NFAM - 1), pick(0, 3) != 0, pick(0, 1));
}
void welch_gen(Ctx& ctx, bool real) {
    // (1) complete: nfft in {8,16} (thorough: also 32), EVERY window length 1..nfft, EVERY overlap 0..winlen-1, both scalings
    for (int nfft : ctx.quick() ? std::vector<int>{8, 16} : std::vector<int>{8, 16, 32})
        for (int L = 1; L <= nfft; ++L)
            for (int nov = 0; nov < L; ++nov)
                for (int psd = 0; psd < 2; ++psd)
                    for (int rep = 0; rep < 3; ++rep) {
                        if (!ctx.mine()) continue;
                        const uint64_t h = mix(ctx.seed, key_of(nfft, L, nov, psd, rep, int(real)));
                        const int stride = L - nov;
                        const int nseg = rep == 0 ? 1 + int(h % 3) : 2 + int((h >> 8) % 12);
                        const int cls = rep == 0 ? int((h >> 16) % X_NCLS) : rep == 1 ? X_GAUSS : X_TONE_NOISE;
                        ctx.eval(geo_json(nfft, L, nov, nseg, int((h >> 24) % uint64_t(stride)), 0, int((h >> 32) % W_NFAM), int((h >> 40) & 1), psd)
                                   .set("cls", cls).set("seed", (long long)(h >> 16)));
                    }
    // (2) random geometry over the whole quantifier
    const long cap = ctx.by_tier(1L << 18, 1L << 20);
    ctx.rc("random", ctx.by_tier(50000, 400000), [&]() {
        Json j = random_geo(cap);
        int cls = pick(0, X_NCLS + 2);
        if (cls >= X_NCLS) cls = X_GAUSS;
        return j.set("cls", cls).set("seed", (long long)seed64());
    });
}

}   // namespace

// ------------------------------------------------------------------------------------------- values / identity / axis
VK_SUB(rw, "real_welch");
static void rw_check(const Json& c, Out& o) { welch_case(c, o, true); }
static void rw_gen(Ctx& ctx) { welch_gen(ctx, true); }

VK_SUB(cw, "complex_welch");
static void cw_check(const Json& c, Out& o) { welch_case(c, o, false); }
static void cw_gen(Ctx& ctx) { welch_gen(ctx, false); }

// ------------------------------------------------------------------------------------------- power scaling: peak level
// Bin-centred sinusoid (frequency k0/nfft), power scaling.  With W(m) = sum_n w[n] exp(-2 pi i m n / nfft):
//   real, 0 < k0 < nfft/2:  pxx[k0] = MS |1 + e^{-2i phi_s} W(2k0)/W(0)|^2, MS = A^2/2  =>  |pxx[k0]/MS - 1| <= 2r + r^2, r = |W(2k0)|/|W(0)|
//   real, k0 in {0, nfft/2}: pxx[k0] = MS = A^2 cos^2(phi);  complex: pxx[k0 mod nfft] = MS = A^2 (no image)
//   any other bin: pxx[k] <= MS c_k/2 (|W(k-k0)| + |W(k+k0)|)^2 / W(0)^2 (real, c_k = 2 inside, 1 at DC/Nyquist), MS |W(k-k0)|^2/W(0)^2 (complex)
// so the peak max(pxx) lies in [MS (1-r)^2, MS ub] with everything computed from the window actually used.
VK_SUB(pk, "power_peak");
static void pk_check(const Json& c, Out& o) {
    Geo g;
    if (!decode_geo(c, g, o)) return;
    g.psd = false;
    const bool real = c.geti("real") != 0;
    int k0 = c.geti("k0");
    if (real ? (k0 < 0 || k0 > g.nfft / 2) : (k0 <= -g.nfft / 2 || k0 > g.nfft / 2)) { o.discard = true; return; }
    Rng r(c.getu("seed"));
    const double A = r.logmag(-3, 3);
    const bool edge = real && (k0 == 0 || k0 == g.nfft / 2);
    double ph = r.uni(0, 2 * M_PI);
    if (edge) ph = r.uni(-1.2, 1.2) + (r.coin() ? M_PI : 0);   // keep |cos(phi)| >= 0.36: the sequence A cos(phi)(+-1)^n must not vanish
    std::vector<cd> x(static_cast<size_t>(g.N));
    for (long i = 0; i < g.N; ++i) {
        const long q = long((int64_t(i) * int64_t(k0)) % g.nfft);   // exact phase index
        const double a = 2 * M_PI * double(q) / g.nfft + ph;
        x[size_t(i)] = real ? cd(A * std::cos(a), 0) : cd(A * std::cos(a), A * std::sin(a));
    }
    const LibOut got = call_welch(real, x, g.w, g.nov, g.nfft, false, g.form);
    if (!check_sizes(got, g.nfft, real, "welch-peak", o)) return;

    // window transform on the nfft grid
    std::vector<cld> W(size_t(g.nfft), cld(0));
    for (int i = 0; i < g.L; ++i) W[size_t(i)] = ld(g.w[size_t(i)]);
    { auto keep = W; ld_fft_pow2(W); fft_selfcheck(keep, W); }
    const ld W0 = std::abs(W[0]);
    if (!(W0 > 0)) { o.discard = true; return; }
    auto Wa = [&](int m) { return std::abs(W[size_t(((m % g.nfft) + g.nfft) % g.nfft)]) / W0; };
    ld MS, rimg = 0, ub = 0;
    const int m = real ? g.nfft / 2 + 1 : g.nfft;
    int idx = real ? k0 : ((k0 % g.nfft) + g.nfft) % g.nfft;   // complex: FFT order (behind the known axis defect), unless ...
    bool as_labelled = false;
    if (real && !edge) {
        MS = ld(A) * A / 2;
        rimg = Wa(2 * k0);
        for (int k = 0; k < m; ++k) { ld s = Wa(k - k0) + Wa(k + k0); ld b = ((k == 0 || k == g.nfft / 2) ? 0.5L : 1.0L) * s * s; ub = std::max(ub, b); }
    } else if (real) {
        const ld cph = cosl(ld(ph));
        MS = ld(A) * A * cph * cph;
        for (int k = 0; k < m; ++k) { ld s = Wa(k - k0); ld b = ((k == 0 || k == g.nfft / 2) ? 1.0L : 2.0L) * s * s; ub = std::max(ub, b); }
    } else {
        MS = ld(A) * A;
        for (int k = 0; k < m; ++k) { ld s = Wa(k - k0); ub = std::max(ub, s * s); }
    }
    const ld b0 = 2 * rimg + rimg * rimg;                       // allowed relative deviation at the tone's own bin
    const ld rnd = rel_tol(g) * std::max<ld>(1, ub);  // rounding, relative to MS
    if (!real) {   // ... the entry that f labels with the tone's frequency (mod 1) holds the level: the property-conform order
        for (int i = 0; i < m; ++i) {
            double d = got.f[i] * g.nfft - k0;
            d -= g.nfft * std::floor(d / g.nfft + 0.5);
            if (std::fabs(d) < 1e-6 && std::fabs(ld(got.pxx[i]) / MS - 1) <= b0 + rnd && std::fabs(ld(got.pxx[i]) / MS - 1) < std::fabs(ld(got.pxx[idx]) / MS - 1)) { idx = i; as_labelled = true; break; }
        }
    }
    const ld v0 = ld(got.pxx[idx]) / MS;
    const ld dev = std::fabs(v0 - 1);
    o.metric("tone-bin (dev - image bound)/rounding tol", double(std::max<ld>(0, dev - b0) / rnd));
    const char* kind = real ? (edge ? "real-edge" : "real") : "complex";
    if (!(dev <= b0 + rnd))
        o.fail(std::string("welch-peak:level:") + kind, fmt("power scaling: pxx[%d]=%.17g for a bin-centred tone with mean-square %.17Lg: ratio-1 = %.3Lg > image bound %.3Lg + rounding %.3Lg (nfft=%d winlen=%d overlap=%d N=%ld %s k0=%d form=%d)",
                                                            idx, got.pxx[idx], MS, dev, b0, rnd, g.nfft, g.L, g.nov, g.N, g.wlabel.c_str(), k0, g.form));
    const ld pkv = ld(got.pxx[first_argmax(got.pxx)]) / MS;
    const ld lo = (1 - rimg) * (1 - rimg) - rnd, hi = ub + rnd;
    o.metric("peak outside [lo,hi] (0 = inside)", pkv < lo ? double((lo - pkv) / rnd) : pkv > hi ? double((pkv - hi) / rnd) : 0.0);
    if (!(pkv >= lo && pkv <= hi))
        o.fail(std::string("welch-peak:max:") + kind, fmt("power scaling: max(pxx)/mean-square = %.17Lg outside [%.17Lg, %.17Lg] (nfft=%d winlen=%d overlap=%d N=%ld %s k0=%d)", pkv, lo, hi, g.nfft, g.L, g.nov, g.N, g.wlabel.c_str(), k0));
    if (!real) o.label(as_labelled ? "complex-order:as-labelled-by-f" : "excluded:complex-axis-order");
    geo_labels(g, o);
    o.label(std::string("tone:") + kind);
    const bool sharp = b0 <= 0.01L && ub <= 1.01L;   // the statement "peak = mean-square" is then decided to 1 %
    o.label(sharp ? "bound:<=1%" : "bound:>1% (short window / tone near an edge)");
    if (sharp) o.nontrivial(key_of(int(real), g.nfft, g.L, ov_bucket(g.nov, g.L), k0, g.wfam, g.form));
}
static void pk_gen(Ctx& ctx) {
    ctx.rc("random", ctx.by_tier(100000, 600000), [&]() {
        Json j = random_geo(ctx.by_tier(1L << 16, 1L << 18));
        const int nfft = j.geti("nfft"), L = j.geti("winlen");
        const bool real = flip();
        int k0;
        const int guard = std::min(nfft / 4, (4 * nfft + L - 1) / L);   // >= 4 resolution cells from DC/Nyquist when possible
        switch (pick(0, 5)) {
        case 0: k0 = 0; break;
        case 1: k0 = nfft / 2; break;
        case 2: k0 = pick(1, nfft / 2 - 1); break;
        default: k0 = pick(guard, nfft / 2 - guard);
        }
        if (!real && flip() && k0 != nfft / 2) k0 = -k0;
        return j.set("real", int(real)).set("k0", k0).set("psd", 0).set("seed", (long long)seed64());
    });
}

// ------------------------------------------------------------------------------------------- frequency labelling
// Pure tone at u bins (f0 = u/nfft).  Stated property: the entry of f at first_argmax(pxx) is the one nearest the tone.  Ties are
// ties: within 0.1 bin of a midpoint either neighbour is accepted.  Premise (reference side): the Welch estimate *by
// definition* of this very signal peaks at the nearest bin(s) by more than twice the value tolerance -- otherwise "nearest
// entry" is not decided by the mathematics (short real segments interfere with their own image) and the case is discarded.
struct LabelCase { Geo g; double u; std::vector<cd> x; };
static bool label_setup(const Json& c, Out& o, bool real, LabelCase& lc) {
    if (!decode_geo(c, lc.g, o)) return false;
    const int j = c.geti("j");
    const int nfft = lc.g.nfft;
    lc.u = real ? 1.5 + 0.37 * j : -0.5 * nfft + 0.37 * j;
    if (real ? (lc.u > 0.5 * nfft - 1.5) : (j < 1 || lc.u >= 0.5 * nfft)) { o.discard = true; return false; }
    Rng r(c.getu("seed"));
    const double A = r.logmag(-3, 3), ph = r.uni(0, 2 * M_PI), f0 = lc.u / nfft;
    lc.x.resize(size_t(lc.g.N));
    for (long i = 0; i < lc.g.N; ++i) lc.x[size_t(i)] = A * tone_sample(f0, i, ph, real);
    return true;
}
// candidate bins (integers, may be negative for complex) nearest to u, with the tie band
static std::vector<int> nearest_bins(double u) {
    const double fl = std::floor(u), d = u - fl;
    if (std::fabs(d - 0.5) <= 0.1) return {int(fl), int(fl) + 1};
    return {int(std::lround(u))};
}

VK_SUB(rl, "real_label");
static void rl_check(const Json& c, Out& o) {
    LabelCase lc;
    if (!label_setup(c, o, true, lc)) return;
    const Geo& g = lc.g;
    const LibOut got = call_welch(true, lc.x, g.w, g.nov, g.nfft, g.psd, g.form);
    if (!check_sizes(got, g.nfft, true, "welch-real", o)) return;
    const std::vector<ld> ref = ld_welch(lc.x, g.w, g.nov, g.nfft, g.psd).one();
    const std::vector<int> cand = nearest_bins(lc.u);
    ld mx = 0, in = 0, out = 0;
    for (size_t k = 0; k < ref.size(); ++k) {
        mx = std::max(mx, ref[k]);
        bool isc = false;
        for (int q : cand) isc |= (int(k) == q);
        (isc ? in : out) = std::max(isc ? in : out, ref[k]);
    }
    const ld tol = rel_tol(g) * mx;
    if (!(in - out > 2 * tol)) { o.discard = true; return; }
    const int obs = first_argmax(got.pxx);
    const double dist = std::fabs(got.f[obs] * g.nfft - lc.u);
    o.metric("|f[argmax]-tone| bins", dist);
    if (!(dist <= 0.6 + 1e-9)) {
        bool idx_ok = false;
        for (int q : cand) idx_ok |= (obs == q);
        o.fail(idx_ok ? "welch-real:label:f-axis" : "welch-real:label:peak-bin",
               fmt("real tone at %.4f bins (f=%.10g): argmax(pxx)=%d, f[argmax]=%.10g is %.3f bins away; nearest entry is bin %d (nfft=%d winlen=%d overlap=%d N=%ld %s)",
                   lc.u, lc.u / g.nfft, obs, got.f[obs], dist, cand[0], g.nfft, g.L, g.nov, g.N, g.wlabel.c_str()));
    }
    geo_labels(g, o);
    o.label(cand.size() == 2 ? "tone:tie-band" : lc.u == std::floor(lc.u) ? "tone:on-bin" : "tone:off-bin");
    o.nontrivial(key_of(1, g.nfft, g.L, c.geti("j"), g.wfam, ov_bucket(g.nov, g.L), int(g.psd)));
}

VK_SUB(cl, "complex_label");
static void cl_check(const Json& c, Out& o) {
    LabelCase lc;
    if (!label_setup(c, o, false, lc)) return;
    const Geo& g = lc.g;
    const int n = g.nfft;
    const LibOut got = call_welch(false, lc.x, g.w, g.nov, n, g.psd, g.form);
    if (!check_sizes(got, n, false, "welch-complex", o)) return;
    const std::vector<ld> ref = ld_welch(lc.x, g.w, g.nov, n, g.psd).p2;   // FFT order: bin k <-> frequency k/nfft (mod 1)
    const std::vector<int> cand = nearest_bins(lc.u);
    auto fftidx = [&](int q) { return ((q % n) + n) % n; };
    ld mx = 0, in = 0, out = 0;
    for (int k = 0; k < n; ++k) {
        mx = std::max(mx, ref[size_t(k)]);
        bool isc = false;
        for (int q : cand) isc |= (k == fftidx(q));
        (isc ? in : out) = std::max(isc ? in : out, ref[size_t(k)]);
    }
    const ld tol = rel_tol(g) * mx;
    if (!(in - out > 2 * tol)) { o.discard = true; return; }
    const int obs = first_argmax(got.pxx);
    // circular distance (frequencies are defined mod 1: -0.5 and +0.5 are the same frequency)
    double d = got.f[obs] * n - lc.u;
    d -= n * std::floor(d / n + 0.5);
    const double dist = std::fabs(d);
    geo_labels(g, o);
    o.label(cand.size() == 2 ? "tone:tie-band" : lc.u == std::floor(lc.u) ? "tone:on-bin" : "tone:off-bin");
    o.label(lc.u < 0 ? "tone:negative-frequency" : "tone:non-negative-frequency");
    o.nontrivial(key_of(0, n, g.L, c.geti("j"), g.wfam, ov_bucket(g.nov, g.L), int(g.psd)));
    if (dist <= 0.6 + 1e-9) { o.label("label:correct"); return; }
    bool fft_order = false;
    for (int q : cand) fft_order |= (obs == fftidx(q));
    // the recorded finding is exactly: pxx in FFT order against the centred axis (-n/2+1 .. n/2)/n.  Any other axis that mislabels
    // the peak (shifted by one, scaled, reversed ...) is a different failure and is reported as such.
    bool centred_axis = true;
    for (int i = 0; i < n; ++i) centred_axis = centred_axis && std::fabs(got.f[i] - double(i - n / 2 + 1) / n) <= 1e-12;
    fft_order = fft_order && centred_axis;
    o.label(fft_order ? "label:fft-order (known defect)" : "label:other-mislabel");
    o.fail(fft_order ? "welch-complex:fft-order-vs-centred-f" : "welch-complex:label",
           fmt("complex tone at %.4f bins (f=%.10g): argmax(pxx)=%d but f[%d]=%.10g, %.2f bins from the tone%s (nfft=%d winlen=%d overlap=%d N=%ld %s)",
               lc.u, lc.u / n, obs, obs, got.f[obs], dist, fft_order ? "; the index is the tone's FFT-order bin while f is the centred axis" : "", n, g.L, g.nov, g.N, g.wlabel.c_str()));
}

// both label sub-checks enumerate the 0.37-bin grid (complete for every nfft in 8..4096, several window / overlap / segment
// variants per grid point); enumeration, not rapidcheck, so that a known failure does not stop the sweep
static void label_gen(Ctx& ctx, bool real) {
    for (int lg = 3; lg <= 12; ++lg) {
        const int nfft = 1 << lg;
        const int jmax = real ? int(std::floor((0.5 * nfft - 3.0) / 0.37 + 1e-9)) : int(std::ceil(nfft / 0.37)) - 1;
        const int reps = (nfft <= 64 ? 16 : nfft <= 256 ? 6 : nfft <= 1024 ? 2 : 1) * ctx.by_tier(1, 4);
        for (int j = (real ? 0 : 1); j <= jmax; ++j)
            for (int rep = 0; rep < reps; ++rep) {
                if (!ctx.mine()) continue;
                const uint64_t h = mix(ctx.seed, key_of(nfft, j, rep, int(real)));
                Rng r(h);
                int L;
                switch (r.range(0, 3)) {
                case 0: case 1: L = nfft; break;
                case 2: L = r.range(nfft / 2, nfft); break;
                default: L = r.range(std::max(2, nfft / 8), nfft);
                }
                const int novc = r.range(0, 3);
                const int nov = novc == 0 ? 0 : novc == 1 ? L / 2 : novc == 2 ? L - 1 : r.range(0, L - 1);
                const int stride = L - nov;
                int form = r.range(0, 7);
                form = form < 5 ? 0 : form - 4;
                int nseg = 1 + (r.range(0, 2) ? r.range(0, 5) : 0);
                Json cse = geo_json(nfft, L, nov, nseg, r.range(0, stride - 1), form, r.range(0, W_NFAM - 1), r.range(0, 3) != 0, r.range(0, 1));
                if (form >= 2) cse.set("nov", L / 2).set("extra", r.range(0, L - L / 2 - 1)).set("form", np2(L) == nfft ? form : form - 2);
                ctx.eval(cse.set("j", j).set("seed", (long long)(h >> 16)));
            }
    }
}
static void rl_gen(Ctx& ctx) { label_gen(ctx, true); }
static void cl_gen(Ctx& ctx) { label_gen(ctx, false); }

// ------------------------------------------------------------------------------------------- coherence
namespace {
enum { Y_INDEP = 0, Y_MIX, Y_FILTERED, Y_COMMON_TONE, Y_DELAYED, Y_NCLS };
const char* yname(int c) {
    static const char* n[] = {"independent-noise", "random-mix", "filtered-copy", "common-tone+noise", "delayed-copy"};
    return (c >= 0 && c < Y_NCLS) ? n[c] : "?";
}
arr_real call_mscohere(const std::vector<cd>& x, const std::vector<cd>& y, const Geo& g) {
    const arr_real xa = real_arr(x), ya = real_arr(y), win(g.w);
    switch (g.form) {
    case 1: return mscohere(xa, ya, g.L, g.nov, g.nfft);
    case 2: return mscohere(xa, ya, win);
    case 3: return mscohere(xa, ya, g.L);
    default: return mscohere(xa, ya, win, g.nov, g.nfft);
    }
}
// x: white Gaussian noise (energy in every bin), optionally plus a tone
std::vector<cd> coh_x(Rng& r, long N, bool with_tone) {
    std::vector<cd> x(static_cast<size_t>(N));
    const double A = r.logmag(-3, 3), f0 = r.uni(0, 0.5), ph = r.uni(0, 2 * M_PI), T = with_tone ? r.logmag(-1, 2) : 0;
    for (long i = 0; i < N; ++i) x[size_t(i)] = A * (r.gauss() + T * tone_sample(f0, i, ph, true).real());
    return x;
}
// premise for every coherence claim: both auto-spectra have energy in every bin (else the quotient is 0/0)
bool has_energy_everywhere(const std::vector<cd>& x, const Geo& g) {
    const Ref R = ld_welch(x, g.w, g.nov, g.nfft, true);
    ld mx = 0, mn = -1;
    for (int k = 0; k <= g.nfft / 2; ++k) { mx = std::max(mx, R.p2[size_t(k)]); mn = mn < 0 ? R.p2[size_t(k)] : std::min(mn, R.p2[size_t(k)]); }
    return mx > 0 && mn >= 1e-12L * mx;
}
Json coh_geo(Ctx& ctx) {
    Json j = random_geo(ctx.by_tier(1L << 16, 1L << 18));
    if (j.geti("nseg") == 1 && pick(0, 3)) {   // one segment gives coherence 1 identically: keep it rare
        const int L = j.geti("winlen"), stride = L - j.geti("nov");
        const int room = int(std::min<long>(12, (100000 - L) / stride + 1));
        j.set("nseg", pick(std::min(2, room), room));
    }
    return j;
}
}   // namespace

VK_SUB(cr, "coherence_range");
static void cr_check(const Json& c, Out& o) {
    Geo g;
    if (!decode_geo(c, g, o)) return;
    const int cls = c.geti("cls");
    Rng r(c.getu("seed"));
    const std::vector<cd> x = coh_x(r, g.N, cls == Y_COMMON_TONE || r.coin());
    std::vector<cd> y(static_cast<size_t>(g.N));
    const double B = r.logmag(-3, 3);
    double sc = 0;   // amplitude scale of x
    for (long i = 0; i < std::min<long>(g.N, 64); ++i) sc = std::max(sc, std::fabs(x[size_t(i)].real()));
    switch (cls) {
    case Y_INDEP: for (auto& v : y) v = B * r.gauss(); break;
    case Y_MIX: { const double a = r.uni(-1, 1), b = r.logmag(-6, 0); for (long i = 0; i < g.N; ++i) y[size_t(i)] = B * (a * x[size_t(i)].real() + b * sc * r.gauss()); break; }
    case Y_FILTERED: {
        const int nh = r.range(1, 16);
        std::vector<double> h(static_cast<size_t>(nh));
        for (auto& v : h) v = r.gauss();
        const double nz = r.logmag(-9, -3);
        for (long i = 0; i < g.N; ++i) {
            double acc = 0;
            for (int k = 0; k < nh && k <= i; ++k) acc += h[size_t(k)] * x[size_t(i - k)].real();
            y[size_t(i)] = B * (acc + nz * sc * r.gauss());
        }
        break;
    }
    case Y_COMMON_TONE: { const double s = r.logmag(-3, 1); for (long i = 0; i < g.N; ++i) y[size_t(i)] = B * (x[size_t(i)].real() + s * sc * r.gauss()); break; }
    default: { const int d = r.range(1, 8); const double nz = r.logmag(-9, -3); for (long i = 0; i < g.N; ++i) y[size_t(i)] = B * ((i >= d ? x[size_t(i - d)].real() : 0.0) + nz * sc * r.gauss()); }
    }
    if (!has_energy_everywhere(x, g) || !has_energy_everywhere(y, g)) { o.discard = true; return; }
    const arr_real C = call_mscohere(x, y, g);
    if (C.size() != g.nfft / 2 + 1) { o.fail("mscohere:size", fmt("mscohere returned %d values, nfft/2+1 = %d", C.size(), g.nfft / 2 + 1)); return; }
    double lo = 1e300, hi = -1e300;
    for (int k = 0; k < C.size(); ++k) {
        if (!(C[k] >= 0.0 && C[k] <= 1.0 + 1e-12)) {
            o.fail("mscohere:range", fmt("mscohere[%d]=%.17g outside [0, 1+1e-12] (%s nfft=%d winlen=%d overlap=%d N=%ld segments=%d %s form=%d)", k, C[k], yname(cls), g.nfft, g.L, g.nov, g.N, g.nseg, g.wlabel.c_str(), g.form));
            break;
        }
        lo = std::min(lo, C[k]); hi = std::max(hi, C[k]);
    }
    o.metric("(max C - 1)/1e-12", (hi - 1.0) / 1e-12);
    geo_labels(g, o);
    o.label(std::string("pair:") + yname(cls));
    if (g.nseg >= 2) { o.label(lo < 0.5 ? "coherence:min<0.5" : lo < 0.99 ? "coherence:min<0.99" : "coherence:min>=0.99"); o.nontrivial(key_of(cls, g.nfft, g.L, ov_bucket(g.nov, g.L), std::min(g.nseg, 9), g.wfam, g.form)); }
}
static void cr_gen(Ctx& ctx) {
    ctx.rc("random", ctx.by_tier(40000, 300000), [&]() { return coh_geo(ctx).set("cls", pick(0, Y_NCLS - 1)).set("seed", (long long)seed64()); });
}

VK_SUB(cc, "coherence_copy");
static void cc_check(const Json& c, Out& o) {
    Geo g;
    if (!decode_geo(c, g, o)) return;
    Rng r(c.getu("seed"));
    std::vector<cd> x = coh_x(r, g.N, r.coin());
    // the claim is scale-free: overall amplitude 10^amp (amp in -40..40) and copy factors down to 1e-12 / up to 1e12
    const double amp = std::pow(10.0, double(c.geti("amp", 0)));
    if (amp != 1.0) for (auto& v : x) v *= amp;
    double a = c.geti("wide", 0) ? r.logmag(-12, 12) : r.logmag(-3, 3);
    if (c.geti("neg", 0)) a = -a;
    if (c.geti("pow2", 0)) a = std::ldexp(a < 0 ? -1.0 : 1.0, r.range(-10, 10));
    std::vector<cd> y(x.size());
    for (size_t i = 0; i < x.size(); ++i) y[i] = a * x[i].real();
    if (!has_energy_everywhere(x, g)) { o.discard = true; return; }
    const bool swap = c.geti("swap", 0) != 0;
    const arr_real C = swap ? call_mscohere(y, x, g) : call_mscohere(x, y, g);
    if (C.size() != g.nfft / 2 + 1) { o.fail("mscohere:size", fmt("mscohere returned %d values, nfft/2+1 = %d", C.size(), g.nfft / 2 + 1)); return; }
    double worst = 0; int wk = 0;
    for (int k = 0; k < C.size(); ++k) {
        const double e = std::isfinite(C[k]) ? std::fabs(C[k] - 1.0) : 1e300;
        if (e > worst) { worst = e; wk = k; }
    }
    o.metric("|C-1|/1e-10", worst / 1e-10);
    if (!(worst <= 1e-10))
        o.fail(g.nseg >= 2 ? "mscohere:scaled-copy" : "mscohere:scaled-copy:1-segment",
               fmt("y = %.6g x but mscohere[%d]=%.17g (nfft=%d winlen=%d overlap=%d N=%ld segments=%d %s form=%d)", a, wk, C[wk], g.nfft, g.L, g.nov, g.N, g.nseg, g.wlabel.c_str(), g.form));
    geo_labels(g, o);
    o.label(a < 0 ? "scale:negative" : "scale:positive");
    o.label(c.geti("amp", 0) == 0 ? "amplitude:1" : c.geti("amp", 0) < 0 ? "amplitude:1e-40..1e-1" : "amplitude:1e1..1e40");
    o.label(std::fabs(a) < 1e-3 ? "copy-factor:<1e-3" : std::fabs(a) > 1e3 ? "copy-factor:>1e3" : "copy-factor:1e-3..1e3");
    if (g.nseg >= 2) o.nontrivial(key_of(g.nfft, g.L, ov_bucket(g.nov, g.L), std::min(g.nseg, 9), g.wfam, g.form, int(a < 0), c.geti("amp", 0), c.geti("wide", 0)));
}
static void cc_gen(Ctx& ctx) {
    ctx.rc("random", ctx.by_tier(40000, 300000), [&]() { return coh_geo(ctx).set("neg", pick(0, 1)).set("pow2", int(pick(0, 3) == 0)).set("swap", pick(0, 1)).set("amp", pick(0, 2) == 0 ? 0 : pick(-40, 40)).set("wide", pick(0, 1)).set("seed", (long long)seed64()); });
}

VK_FRESH_THREADS;
VK_MAIN("C13")
